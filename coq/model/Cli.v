(* Cli.v — model of what the command-line tools (cmd/*.go) add on top of the
   library: the names of the files they write (fmt.Sprintf over the format
   constants of in_toto/model.go, regenerated in gen/Consts.v), the loader's
   view of those names (LoadLinksForLayout: filepath.Glob + TrimPrefix/TrimSuffix
   + HasPrefix), and the control flow of `verify` up to the exit status.
   No proofs here (proofs/CliProofs.v). *)
From IT Require Export model.Base.
From IT Require Import model.Glob gen.Consts.
From IT Require Export gen.Cli.

(* ------------------------------------------------------------------ *)
(* fmt.Sprintf, the fragment that occurs in the format constants:
     literal bytes, %%, %s, %v (a string operand prints like %s), %.Ns / %.Nv
     (precision: at most N *characters* = runes of the operand, fmt.truncateString).
   Everything else (flags, width, other verbs, argument indexes) and a wrong
   number of operands — where Go prints %!verb(...) noise — is outside the
   fragment: [Err].  CliProofs.formats_* show that the five constants are inside. *)

Definition e_fmt_verb : N := 2001.     (* verb / flag outside the modelled fragment *)
Definition e_fmt_missing : N := 2002.  (* fewer operands than verbs: Go prints %!s(MISSING) *)
Definition e_fmt_extra : N := 2003.    (* more operands than verbs: Go appends %!(EXTRA ...) *)
Definition e_fmt_noverb : N := 2004.   (* format ends inside a verb: %!(NOVERB) *)

(* number of bytes occupied by the first [n] characters of [s]
   (`for i := range s` of truncateString: an invalid byte is one character of width 1) *)
Fixpoint runes_len (n : nat) (s : str) : nat :=
  match n with
  | O => O
  | S n' =>
    match s with
    | [] => O
    | _ => let w := snd (decode_rune s) in (w + runes_len n' (skipn w s))%nat
    end
  end.
Definition take_runes (n : nat) (s : str) : str := firstn (runes_len n s) s.

Inductive fstate := SNorm | SPct | SPrec (p : N).

Definition c_pct : N := 37.   (* % *)
Definition c_dot : N := 46.   (* . *)
Definition c_s : N := 115.
Definition c_v : N := 118.

Fixpoint sprintf_go (st : fstate) (fmt : str) (args : list str) : res str :=
  match fmt with
  | [] =>
    match st with
    | SNorm => match args with [] => Ok [] | _ => Err e_fmt_extra end
    | _ => Err e_fmt_noverb
    end
  | c :: f =>
    match st with
    | SNorm =>
      if c =? c_pct then sprintf_go SPct f args
      else do r <- sprintf_go SNorm f args; Ok (c :: r)
    | SPct =>
      if c =? c_pct then do r <- sprintf_go SNorm f args; Ok (c_pct :: r)
      else if (c =? c_s) || (c =? c_v) then
        match args with
        | a :: args' => do r <- sprintf_go SNorm f args'; Ok (a ++ r)
        | [] => Err e_fmt_missing
        end
      else if c =? c_dot then sprintf_go (SPrec 0) f args
      else Err e_fmt_verb
    | SPrec p =>
      if is_digit c then sprintf_go (SPrec (p * 10 + (c - 48))) f args
      else if (c =? c_s) || (c =? c_v) then
        match args with
        | a :: args' => do r <- sprintf_go SNorm f args'; Ok (take_runes (N.to_nat p) a ++ r)
        | [] => Err e_fmt_missing
        end
      else Err e_fmt_verb
    end
  end.

Definition sprintf (fmt : str) (args : list str) : res str := sprintf_go SNorm fmt args.

(* the string Go returns when the call is inside the fragment *)
Definition sprintf_s (fmt : str) (args : list str) : str :=
  match sprintf fmt args with Ok s => s | _ => [] end.

(* ------------------------------------------------------------------ *)
(* file names written by the tools and the library *)

(* cmd/run.go, cmd/record.go (stop): fmt.Sprintf(LinkNameFormat, name, key.KeyID) *)
Definition link_name (step kid : str) : str := sprintf_s c_LinkNameFormat [step; kid].
(* cmd/record.go (start, stop): fmt.Sprintf(PreliminaryLinkNameFormat, name, key.KeyID) *)
Definition prelim_link_name (step kid : str) : str := sprintf_s c_PreliminaryLinkNameFormat [step; kid].
(* RunInspections: fmt.Sprintf(LinkNameFormatShort, inspection.Name) *)
Definition short_link_name (name : str) : str := sprintf_s c_LinkNameFormatShort [name].
(* LoadLinksForLayout: fmt.Sprintf(LinkGlobFormat, step.Name) *)
Definition glob_for (step : str) : str := sprintf_s c_LinkGlobFormat [step].
(* VerifySublayouts: fmt.Sprintf(SublayoutLinkDirFormat, step.Name, keyid) *)
Definition sublayout_dir (step kid : str) : str := sprintf_s c_SublayoutLinkDirFormat [step; kid].

(* ------------------------------------------------------------------ *)
(* the loader's side *)

(* glob metacharacters of path/filepath (hasMeta on non-Windows): * ? [ \ *)
Definition is_meta (c : N) : bool := (c =? 42) || (c =? 63) || (c =? 91) || (c =? 92).
Definition c_slash : N := 47.
(* step names for which the theorems are stated: no metacharacter, no separator *)
Definition plain_name (s : str) : bool := forallb (fun c => negb (is_meta c) && negb (c =? c_slash)) s.

(* filepath.Match for patterns made of literal bytes and `?` only (no * [ \):
   `?` consumes one character (rune) that is not the separator. Structural in
   the pattern. *)
Fixpoint simple_glob (pat name : str) : bool :=
  match pat with
  | [] => is_nil name
  | p :: pat' =>
    if p =? 63 then
      match name with
      | [] => false
      | c :: _ => negb (c =? c_slash) && simple_glob pat' (skipn (snd (decode_rune name)) name)
      end
    else
      match name with
      | [] => false
      | c :: name' => (c =? p) && simple_glob pat' name'
      end
  end.

(* is the directory entry [file] returned by filepath.Glob(path.Join(linkDir, glob_for step))?
   Valid for [plain_name step] (then the pattern consists of literals and `?`). *)
Definition file_matches_glob (step file : str) : bool := simple_glob (glob_for step) file.

Definition dot_link : str := bs ".link".
(* signerShortKeyID := strings.TrimSuffix(strings.TrimPrefix(filepath.Base(linkPath), step.Name+"."), ".link") *)
Definition short_id_of (step file : str) : str :=
  trim_suffix (trim_prefix file (step ++ [c_dot])) dot_link.

(* the per-file decision of LoadLinksForLayout: under which key id is the
   metadata of [file] stored?  [sig_ids] are the key ids of its signatures in
   file order: the first one that has the short id as a prefix. *)
Fixpoint first_with_prefix (short : str) (sig_ids : list str) : option str :=
  match sig_ids with
  | [] => None
  | k :: r => if has_prefix k short then Some k else first_with_prefix short r
  end.
Definition loader_keyid (step file : str) (sig_ids : list str) : option str :=
  if file_matches_glob step file then first_with_prefix (short_id_of step file) sig_ids else None.

Definition hex_char (c : N) : bool := is_digit c || ((97 <=? c) && (c <=? 102)).
Definition is_hex (s : str) : bool := forallb hex_char s.
Definition is_ascii (s : str) : bool := forallb (fun c => c <? 128) s.

(* ------------------------------------------------------------------ *)
(* exit status: main.go / cmd.Execute: a non-nil error of RunE is printed and
   os.Exit(1); a Go panic terminates the process with status 2. *)
Definition cli_exit {A} (r : res A) : Z :=
  match r with Ok _ => 0%Z | Err _ => 1%Z | Panic _ => 2%Z end.

(* ------------------------------------------------------------------ *)
(* cmd/verify.go.  The library and the file system enter as parameters.
   [ret name] says whether the command returns the error of its call to [name]
   (read from the source by the translator: gen/Cli.v); a call whose error is
   not returned leaves the zero value in the result variables and execution
   continues, which is what [stage] does with the supplied zero value. *)
Section Verify.
  Variables Meta KeyT Summary : Type.
  Variable load_metadata : str -> res Meta.              (* intoto.LoadMetadata *)
  Variable load_key : str -> res KeyT.                    (* Key.LoadKeyDefaults on a fresh Key *)
  Variable key_id : KeyT -> str.
  Variable read_file : str -> res str.                    (* os.ReadFile *)
  Variable in_toto_verify :                               (* intoto.InTotoVerify *)
    Meta -> amap KeyT -> str -> str -> amap str -> list str -> bool -> res Summary.
  Variable ret : str -> bool.
  Variables (meta0 : Meta) (key0 : KeyT) (summary0 : Summary).

  Record verify_flags := mkVF {
    vf_layout : str;           (* --layout / -l *)
    vf_keys : list str;        (* --layout-keys / -k *)
    vf_linkdir : str;          (* --link-dir / -d *)
    vf_inter : list str;       (* --intermediate-certs / -i *)
    vf_norm : bool }.          (* --normalize-line-endings *)

  Definition stage {A B} (name : str) (zero : A) (r : res A) (k : A -> res B) : res B :=
    match r with
    | Ok a => k a
    | Err c => if ret name then Err c else k zero
    | Panic s => Panic s
    end.

  Definition n_LoadMetadata := bs "LoadMetadata".
  Definition n_LoadKeyDefaults := bs "LoadKeyDefaults".
  Definition n_ReadFile := bs "os.ReadFile".
  Definition n_InTotoVerify := bs "InTotoVerify".

  (* for _, p := range pubKeyPaths { LoadKeyDefaults; layoutKeys[pubKey.KeyID] = pubKey } *)
  Fixpoint load_keys (paths : list str) (acc : amap KeyT) : res (amap KeyT) :=
    match paths with
    | [] => Ok acc
    | p :: ps => stage n_LoadKeyDefaults key0 (load_key p)
                   (fun k => load_keys ps (ainsert acc (key_id k) k))
    end.

  (* for _, p := range intermediatePaths { os.ReadFile; append } *)
  Fixpoint read_all (paths : list str) (acc : list str) : res (list str) :=
    match paths with
    | [] => Ok acc
    | p :: ps => stage n_ReadFile [] (read_file p) (fun b => read_all ps (acc ++ [b]))
    end.

  Definition cmd_verify (f : verify_flags) : res unit :=
    stage n_LoadMetadata meta0 (load_metadata (vf_layout f)) (fun mb =>
    do keys <- load_keys (vf_keys f) [];
    do pems <- read_all (vf_inter f) [];
    stage n_InTotoVerify summary0
      (in_toto_verify mb keys (vf_linkdir f) [] [] pems (vf_norm f))
      (fun _ => Ok tt)).

  (* the same arguments given to the library directly *)
  Definition lib_verify (f : verify_flags) (mb : Meta) (keys : amap KeyT) (pems : list str) : res Summary :=
    in_toto_verify mb keys (vf_linkdir f) [] [] pems (vf_norm f).
End Verify.

(* match-products: status 1 exactly when one of the three lists is non-empty
   (os.Exit(1) after printing them), error -> 1 through Execute, otherwise 0 *)
Definition match_products_exit (r : res (list str * list str * list str)) : Z :=
  match r with
  | Ok (a, b, c) => if is_nil a && is_nil b && is_nil c then 0%Z else 1%Z
  | Err _ => 1%Z
  | Panic _ => 2%Z
  end.

(* ------------------------------------------------------------------ *)
(* reading the command skeletons regenerated from cmd/*.go (gen/Cli.v) *)

Fixpoint find_cmd (l : list ccmd) (name : str) : option ccmd :=
  match l with
  | [] => None
  | c :: r => if str_eqb (cmd_name c) name then Some c else find_cmd r name
  end.

Definition calls_of (name : str) : list ccall :=
  match find_cmd (cli_cmds ++ cli_helpers) name with Some c => cmd_calls c | None => [] end.
Definition files_of (name : str) : list cfile :=
  match find_cmd (cli_cmds ++ cli_helpers) name with Some c => cmd_files c | None => [] end.
Definition flags_of (name : str) : list cflag :=
  match find_cmd cli_cmds name with Some c => cmd_flags c | None => [] end.

Definition disp_returned (d : cdisp) : bool := match d with ErrReturned => true | _ => false end.
Definition disp_fine (d : cdisp) : bool := match d with ErrDropped => false | _ => true end.

(* does command [cmd] return the error of its call(s) to [callee]?  (at least
   one call, and every such call has its error returned) *)
Definition gen_ret (cmd callee : str) : bool :=
  let cs := filter (fun c => str_eqb (cl_callee c) callee) (calls_of cmd) in
  negb (is_nil cs) && forallb (fun c => disp_returned (cl_disp c)) cs.

Definition callees (cmd : str) : list str := map cl_callee (calls_of cmd).

Definition args_of_call (cmd callee : str) : option (list str) :=
  match filter (fun c => str_eqb (cl_callee c) callee) (calls_of cmd) with
  | [c] => Some (cl_args c)
  | _ => None
  end.

Fixpoint strs_eqb (a b : list str) : bool :=
  match a, b with
  | [], [] => true
  | x :: a', y :: b' => str_eqb x y && strs_eqb a' b'
  | _, _ => false
  end.
Definition opt_strs_eqb (a : option (list str)) (b : list str) : bool :=
  match a with Some a => strs_eqb a b | None => false end.

Definition cfile_eqb (f : cfile) (op dir fmt : str) (args : list str) : bool :=
  str_eqb (cfl_op f) op && str_eqb (cfl_dir f) dir && str_eqb (cfl_format f) fmt && strs_eqb (cfl_args f) args.

Definition flag_var (cmd long : str) : option (str * str) :=
  match filter (fun f => str_eqb (cfg_long f) long) (flags_of cmd) with
  | [f] => Some (cfg_short f, cfg_var f)
  | _ => None
  end.
Definition flag_is (cmd long short var : str) : bool :=
  match flag_var cmd long with Some (s, v) => str_eqb s short && str_eqb v var | None => false end.

Definition sha256_list : str := [91;93;115;116;114;105;110;103;123;34;115;104;97;50;53;54;34;125]. (* []string{"sha256"} *)

(* every fallible call of every analysed command / helper function has its error returned *)
Definition check_errors_all_returned : bool :=
  forallb (fun c => forallb (fun k => disp_fine (cl_disp k)) (cmd_calls c)) (cli_cmds ++ cli_helpers)
  && forallb (fun n => match find_cmd cli_cmds n with Some _ => true | None => false end)
       [bs "verify"; bs "run"; bs "record start"; bs "record stop"; bs "sign"; bs "key id"; bs "key layout"; bs "match-products"].

(* verify: the four calls in order, each error returned *)
Definition check_verify_propagates_error : bool :=
  strs_eqb (callees (bs "verify")) [bs "LoadMetadata"; bs "LoadKeyDefaults"; bs "os.ReadFile"; bs "InTotoVerify"]
  && gen_ret (bs "verify") (bs "LoadMetadata") && gen_ret (bs "verify") (bs "LoadKeyDefaults")
  && gen_ret (bs "verify") (bs "os.ReadFile") && gen_ret (bs "verify") (bs "InTotoVerify").

(* verify: flags -> variables -> arguments of the library call *)
Definition check_verify_wiring : bool :=
  flag_is (bs "verify") (bs "layout") (bs "l") (bs "layoutPath")
  && flag_is (bs "verify") (bs "layout-keys") (bs "k") (bs "pubKeyPaths")
  && flag_is (bs "verify") (bs "link-dir") (bs "d") (bs "linkDir")
  && flag_is (bs "verify") (bs "intermediate-certs") (bs "i") (bs "intermediatePaths")
  && flag_is (bs "verify") (bs "normalize-line-endings") [] (bs "lineNormalization")
  && opt_strs_eqb (args_of_call (bs "verify") (bs "LoadMetadata")) [bs "layoutPath"]
  && opt_strs_eqb (args_of_call (bs "verify") (bs "InTotoVerify"))
       [bs "layoutMb"; bs "layoutKeys"; bs "linkDir"; [34;34]; bs "make(map[string]string)"; bs "intermediatePems"; bs "lineNormalization"].

(* run: signs with the loaded key, writes <outDir>/Sprintf(LinkNameFormat, link.Name, key.KeyID) *)
Definition check_run_uses_LinkNameFormat : bool :=
  match files_of (bs "run") with
  | [f] => cfile_eqb f (bs "Dump") (bs "outDir") (bs "LinkNameFormat") [bs "link.Name"; bs "key.KeyID"]
  | _ => false
  end
  && opt_strs_eqb (args_of_call (bs "run") (bs "InTotoRun"))
       [bs "stepName"; bs "runDir"; bs "materialsPaths"; bs "productsPaths"; bs "args"; bs "key"; sha256_list;
        bs "exclude"; bs "lStripPaths"; bs "lineNormalization"; bs "followSymlinkDirs"; bs "useDSSE"]
  && strs_eqb (match find_cmd cli_cmds (bs "run") with Some c => cmd_pre c | None => [] end) [bs "getKeyCert"]
  && flag_is (bs "run") (bs "name") (bs "n") (bs "stepName")
  && flag_is (bs "run") (bs "key") (bs "k") (bs "keyPath")
  && flag_is (bs "run") (bs "cert") (bs "c") (bs "certPath")
  && flag_is (bs "run") (bs "metadata-directory") (bs "d") (bs "outDir")
  && flag_is (bs "run") (bs "use-dsse") [] (bs "useDSSE").

(* record start / stop: preliminary name, final name, removal of the preliminary file *)
Definition check_record_uses_formats : bool :=
  let nk := [bs "recordStepName"; bs "key.KeyID"] in
  match files_of (bs "record start") with
  | [f] => cfile_eqb f (bs "Dump") (bs "outDir") (bs "PreliminaryLinkNameFormat") nk
  | _ => false
  end
  && match files_of (bs "record stop") with
     | [f1; f2; f3] =>
         cfile_eqb f1 (bs "LoadMetadata") (bs "outDir") (bs "PreliminaryLinkNameFormat") nk
         && cfile_eqb f2 (bs "Dump") (bs "outDir") (bs "LinkNameFormat") nk
         && cfile_eqb f3 (bs "os.Remove") (bs "outDir") (bs "PreliminaryLinkNameFormat") nk
     | _ => false
     end
  && opt_strs_eqb (args_of_call (bs "record start") (bs "InTotoRecordStart"))
       [bs "recordStepName"; bs "recordMaterialsPaths"; bs "key"; sha256_list; bs "exclude"; bs "lStripPaths";
        bs "lineNormalization"; bs "followSymlinkDirs"; bs "useDSSE"]
  && opt_strs_eqb (args_of_call (bs "record stop") (bs "InTotoRecordStop"))
       [bs "prelimLinkMb"; bs "recordProductsPaths"; bs "key"; sha256_list; bs "exclude"; bs "lStripPaths";
        bs "lineNormalization"; bs "followSymlinkDirs"; bs "useDSSE"]
  && strs_eqb (match find_cmd cli_cmds (bs "record start") with Some c => cmd_pre c | None => [] end) [bs "getKeyCert"]
  && strs_eqb (match find_cmd cli_cmds (bs "record stop") with Some c => cmd_pre c | None => [] end) [bs "getKeyCert"]
  && flag_is (bs "record stop") (bs "name") (bs "n") (bs "recordStepName")
  && flag_is (bs "record start") (bs "name") (bs "n") (bs "recordStepName").

(* the key that names and signs the link is the one loaded from --key (and --cert) *)
Definition check_key_loading : bool :=
  strs_eqb (callees (bs "func:getKeyCert")) [bs "loadKeyFromSpireSocket"; bs "loadKeyFromDisk"]
  && strs_eqb (callees (bs "func:loadKeyFromDisk")) [bs "os.Stat"; bs "LoadKeyDefaults"; bs "os.Stat"; bs "LoadKeyDefaults"]
  && strs_eqb (map (fun c => concat_str (cl_args c)) (calls_of (bs "func:loadKeyFromDisk")))
       [bs "keyPath"; bs "keyPath"; bs "certPath"; bs "certPath"].

(* sign: load, load key, then either verify (under --verify) or sign and dump to --output *)
Definition check_sign_shape : bool :=
  strs_eqb (callees (bs "sign")) [bs "LoadMetadata"; bs "LoadKeyDefaults"; bs "VerifySignature"; bs "Sign"; bs "Dump"]
  && forallb (fun k => disp_returned (cl_disp k)) (calls_of (bs "sign"))
  && match filter (fun c => str_eqb (cl_callee c) (bs "VerifySignature")) (calls_of (bs "sign")) with
     | [c] => str_eqb (cl_guard c) (bs "verifyFile") && strs_eqb (cl_args c) [bs "key"]
     | _ => false
     end
  && flag_is (bs "sign") (bs "verify") [] (bs "verifyFile")
  && flag_is (bs "sign") (bs "file") (bs "f") (bs "layoutPath")
  && flag_is (bs "sign") (bs "key") (bs "k") (bs "keyPath")
  && flag_is (bs "sign") (bs "output") (bs "o") (bs "outputPath").

(* match-products: os.Exit(1) guarded by "one of the three result lists is non-empty" *)
Definition check_match_products_exit : bool :=
  match filter (fun c => str_eqb (cl_callee c) (bs "InTotoMatchProducts")) (calls_of (bs "match-products")) with
  | [c] => strs_eqb (cl_lhs c) [bs "onlyInProducts"; bs "notInProducts"; bs "differ"; bs "err"]
           && disp_returned (cl_disp c)
           && strs_eqb (cl_args c) [bs "&link"; bs "paths"; sha256_list; bs "exclude"; bs "lStripPaths"]
  | _ => false
  end
  && match filter (fun c => match cl_disp c with ExitCall => true | _ => false end) (calls_of (bs "match-products")) with
     | [e] => strs_eqb (cl_args e) [bs "1"]
              && str_eqb (cl_guard e) (bs "len(onlyInProducts) != 0 || len(notInProducts) != 0 || len(differ) != 0")
     | _ => false
     end.

(* key id / key layout load the file named by the first positional argument *)
Definition check_key_cmds : bool :=
  opt_strs_eqb (args_of_call (bs "key id") (bs "LoadKeyDefaults")) [bs "args[0]"]
  && gen_ret (bs "key id") (bs "LoadKeyDefaults")
  && opt_strs_eqb (args_of_call (bs "key layout") (bs "LoadKeyDefaults")) [bs "args[0]"]
  && gen_ret (bs "key layout") (bs "LoadKeyDefaults").

(* the repeatable list flags take each occurrence verbatim (pflag StringArray); a StringSlice
   flag would split a value at commas before it reaches the library *)
Definition flag_kind_is (cmd long : str) (kinds : list str) : bool :=
  match filter (fun f => str_eqb (cfg_long f) long) (flags_of cmd) with
  | [f] => mem (cfg_kind f) kinds
  | _ => false
  end.
Definition array_kinds : list str := [bs "StringArrayVarP"; bs "StringArrayVar"].
Definition check_list_flags_verbatim : bool :=
  forallb (fun p => flag_kind_is (fst p) (snd p) array_kinds)
    [ (bs "run", bs "materials"); (bs "run", bs "products"); (bs "run", bs "lstrip-paths"); (bs "run", bs "exclude");
      (bs "record start", bs "materials"); (bs "record start", bs "lstrip-paths"); (bs "record start", bs "exclude");
      (bs "record stop", bs "products"); (bs "record stop", bs "lstrip-paths"); (bs "record stop", bs "exclude");
      (bs "match-products", bs "path"); (bs "match-products", bs "exclude"); (bs "match-products", bs "lstrip-paths") ].
