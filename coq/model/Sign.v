(* Sign.v — model of signing and signature verification in both wrappers
   (property C04; used by C01/C02 through [verify_sig]).  No proofs here.

   Transcribed from
     in_toto/model.go      Metablock.Sign / VerifySignature / GetSignatureForKeyID /
                           GetSignableRepresentation
     in_toto/envelope.go   loadEnvelope / SetPayload / Sign / VerifySignature /
                           getSignerVerifierFromKey
     go-securesystemslib@v0.9.0/dsse   sign.go SignPayload, verify.go
                           EnvelopeVerifier.Verify (one verifier, threshold 1),
                           envelope.go PAE / b64Decode
     go-securesystemslib@v0.9.0/signerverifier  {rsa,ecdsa,ed25519}.go Sign / Verify
     encoding/hex, encoding/base64 (StdEncoding / URLEncoding, non-strict, padded)

   as the code is NOW: Envelope.Sign appends to the signatures the envelope
   already carries (F6 repaired), getSignerVerifierFromKey validates the key
   material before the constructors run (F15), unsigned metadata carries an
   empty list (F18; nil and empty lists are identified in this model).

   External behaviour enters as Section variables, in this order (it is the
   argument order of every definition below once the Section is closed; a
   definition only takes the variables it uses):

     sign_prim      key -> message -> raw signature bytes of the key's scheme
                    (RSASSA-PSS/SHA-256 salt 32, ECDSA ASN.1 over SHA-256/384/512
                    by curve size, Ed25519), made with the PRIVATE half
     vrfy_prim      key -> message -> raw signature -> bool; the model always
                    passes [pub k]: Verify only reads the public half
     key_usable     getSignerVerifierFromKey(key) succeeds
     signable       cjson.EncodeCanonical(payload)      (C11's model)
     payload_bytes  the bytes Envelope.SetPayload stores (C11's model)
     decode_payload loadPayload                          (C12's model)
     fallback_keyid dsse.SHA256KeyID(verifier.Public()) — the SSH fingerprint the
                    DSSE verifier uses when the key carries an EMPTY key id
                    ([] when that computation fails)
     dump, load     Dump to a file / LoadMetadata of that file (C12's model)

   Representation of an Envelope: [e_pbytes] are the DECODED payload bytes.
   The Go object keeps them base64-encoded in envelope.Payload; that text is
   produced by SetPayload / SignPayload (StdEncoding) or checked to decode by
   loadEnvelope, so DecodeB64Payload of a live Envelope always succeeds and
   returns [e_pbytes].  envelope.PayloadType is always PayloadType
   (SetPayload sets it, LoadMetadata refuses anything else). *)
From IT Require Export model.Meta model.Show gen.Consts.

(* ---------- encoding/hex ---------- *)

Definition hex_digit (d : N) : N := if d <? 10 then 48 + d else 87 + d.

(* hex.EncodeToString (lower case) *)
Fixpoint hex_enc (s : str) : str :=
  match s with
  | [] => []
  | b :: r => hex_digit ((b / 16) mod 16) :: hex_digit (b mod 16) :: hex_enc r
  end.

Definition hex_val (c : N) : option N :=
  if is_digit c then Some (c - 48)
  else if (97 <=? c) && (c <=? 102) then Some (c - 87)
  else if (65 <=? c) && (c <=? 70) then Some (c - 55)
  else None.

(* hex.DecodeString: both cases accepted; odd length or a foreign byte is an error *)
Fixpoint hex_dec (s : str) : option str :=
  match s with
  | [] => Some []
  | a :: b :: r =>
      match hex_val a, hex_val b with
      | Some x, Some y =>
          match hex_dec r with Some t => Some (x * 16 + y :: t) | None => None end
      | _, _ => None
      end
  | [_] => None
  end.

(* ---------- encoding/base64 ---------- *)

Definition b64_chr (v : N) : N :=
  if v <? 26 then 65 + v else if v <? 52 then 71 + v else if v <? 62 then v - 4
  else if v =? 62 then 43 else 47.

(* base64.StdEncoding.EncodeToString *)
Fixpoint b64_enc (s : str) : str :=
  match s with
  | [] => []
  | [a] => [b64_chr ((a / 4) mod 64); b64_chr ((a mod 4) * 16); 61; 61]
  | [a; b] => [b64_chr ((a / 4) mod 64); b64_chr ((a mod 4) * 16 + (b / 16) mod 16);
               b64_chr ((b mod 16) * 4); 61]
  | a :: b :: c :: r =>
      b64_chr ((a / 4) mod 64) :: b64_chr ((a mod 4) * 16 + (b / 16) mod 16)
      :: b64_chr ((b mod 16) * 4 + (c / 64) mod 4) :: b64_chr (c mod 64) :: b64_enc r
  end.

(* decodeMap of StdEncoding ([url] = false) / URLEncoding ([url] = true) *)
Definition b64_val (url : bool) (c : N) : option N :=
  if is_upper c then Some (c - 65)
  else if is_lower c then Some (c - 71)
  else if is_digit c then Some (c + 4)
  else if c =? (if url then 45 else 43) then Some 62
  else if c =? (if url then 95 else 47) then Some 63
  else None.

(* Encoding.Decode after the '\r' / '\n' bytes (which decodeQuantum skips
   wherever they stand) are removed: full quanta of four alphabet bytes; the
   last quantum may be "xx==" or "xxx=" and must end the input; a dangling
   quantum of 1-3 bytes is an error (padded encodings); left-over bits are
   ignored (non-strict). *)
Fixpoint b64_dec_q (url : bool) (s : str) : option str :=
  match s with
  | [] => Some []
  | a :: b :: c :: d :: r =>
      match b64_val url a, b64_val url b with
      | Some x, Some y =>
          if c =? 61 then
            if (d =? 61) && is_nil r then Some [x * 4 + y / 16] else None
          else
            match b64_val url c with
            | None => None
            | Some z =>
                if d =? 61 then
                  if is_nil r then Some [x * 4 + y / 16; (y mod 16) * 16 + z / 4] else None
                else
                  match b64_val url d with
                  | None => None
                  | Some w =>
                      match b64_dec_q url r with
                      | None => None
                      | Some t => Some (x * 4 + y / 16 :: (y mod 16) * 16 + z / 4 :: (z mod 4) * 64 + w :: t)
                      end
                  end
            end
      | _, _ => None
      end
  | _ => None
  end.

Definition strip_newlines (s : str) : str := filter (fun c => negb ((c =? 10) || (c =? 13))) s.

(* dsse.b64Decode: standard alphabet first, URL alphabet second *)
Definition b64_dec (s : str) : option str :=
  match b64_dec_q false (strip_newlines s) with
  | Some x => Some x
  | None => b64_dec_q true (strip_newlines s)
  end.

(* ---------- DSSE pre-authentication encoding ---------- *)

(* fmt.Sprintf("DSSEv1 %d %s %d %s", len(type), type, len(body), body) *)
Definition pae (ptype body : str) : str :=
  bs "DSSEv1 " ++ show_nat (length ptype) ++ [32] ++ ptype ++ [32] ++ show_nat (length body) ++ [32] ++ body.

(* the key as a verifier sees it: private half dropped *)
Definition pub (k : key) : key :=
  mkKey (k_keyid k) (k_hashalgs k) (k_keytype k) [] (k_public k) (k_cert k) (k_scheme k).

(* error classes (only Ok / Err / Panic are compared with the implementation) *)
Definition err_no_sig : N := 401.          (* GetSignatureForKeyID: no signature with that key id *)
Definition err_key : N := 402.             (* getSignerVerifierFromKey failed *)
Definition err_hex : N := 403.             (* hex.DecodeString failed *)
Definition err_bad_sig : N := 404.         (* ErrSignatureVerificationFailed *)
Definition err_not_private : N := 405.     (* ErrNotPrivateKey *)
Definition err_no_signature : N := 406.    (* dsse.ErrNoSignature *)
Definition err_b64 : N := 407.             (* b64Decode failed *)
Definition err_threshold : N := 408.       (* accepted signatures do not match threshold *)

(* operations of the signing state machine *)
Inductive op : Type :=
| OSign (k : key)
| ODumpLoad
| OSetPayload (p : payload).

Section Sign.
  Variable sign_prim : key -> str -> str.
  Variable vrfy_prim : key -> str -> str -> bool.
  Variable key_usable : key -> bool.
  Variable signable : payload -> res str.
  Variable payload_bytes : payload -> res str.
  Variable decode_payload : str -> res payload.
  Variable fallback_keyid : key -> str.
  Variable dump : env -> res str.
  Variable load : str -> res env.

  (* signerverifier.*.Sign: ErrNotPrivateKey when the key has no private half
     (sv.private == nil  <=>  KeyVal.Private == "" for a key that passed
     getSignerVerifierFromKey) *)
  Definition signer_sign (k : key) (m : str) : res str :=
    if is_nil (k_private k) then Err err_not_private else Ok (sign_prim k m).

  (* the bytes a signature covers *)
  Definition signed_bytes (e : env) : res str :=
    match e_wrapper e with
    | Legacy => signable (e_payload e)                    (* GetSignableRepresentation *)
    | DSSE => Ok (pae c_PayloadType (e_pbytes e))         (* PAE(envelope.PayloadType, DecodeB64Payload()) *)
    end.

  (* ----- Metablock ----- *)

  (* Metablock.VerifySignature *)
  Definition verify_legacy (e : env) (k : key) : res unit :=
    match sig_for_keyid (e_sigs e) (k_keyid k) with
    | None => Err err_no_sig
    | Some s =>
        if negb (key_usable k) then Err err_key else
        do m <- signable (e_payload e);
        match hex_dec (sg_sig s) with
        | None => Err err_hex
        | Some raw => if vrfy_prim (pub k) m raw then Ok tt else Err err_bad_sig
        end
    end.

  (* Metablock.Sign *)
  Definition sign_legacy (e : env) (k : key) : res env :=
    if negb (key_usable k) then Err err_key else
    do m <- signable (e_payload e);
    do raw <- signer_sign k m;
    Ok (mkEnv Legacy (e_payload e)
              (e_sigs e ++ [mkSig (k_keyid k) (hex_enc raw) (k_cert k)])
              (e_pbytes e)).

  (* ----- Envelope ----- *)

  (* the key id EnvelopeVerifier.Verify compares with: the verifier's KeyID(),
     or the SSH fingerprint of its public key when that is empty *)
  Definition dsse_keyid (k : key) : str :=
    if is_nil (k_keyid k) then fallback_keyid k else k_keyid k.

  (* "If provider and signature include key IDs but do not match skip." *)
  Definition dsse_skips (k : key) (s : signature) : bool :=
    negb (is_nil (sg_keyid s)) && negb (is_nil (dsse_keyid k)) && negb (str_eqb (sg_keyid s) (dsse_keyid k)).

  (* the loop over e.Signatures with ONE verifier: [unverified] = the verifier
     is still in unverified_providers; [accepted] = len(usedKeyids).  Every
     signature is base64-decoded, also after the verifier has been used up,
     and a decoding failure aborts the whole verification. *)
  Fixpoint dsse_loop (k : key) (m : str) (sigs : list signature) (unverified : bool) (accepted : nat) : res nat :=
    match sigs with
    | [] => Ok accepted
    | s :: r =>
        match b64_dec (sg_sig s) with
        | None => Err err_b64
        | Some raw =>
            if unverified then
              if dsse_skips k s then dsse_loop k m r true accepted
              else if vrfy_prim (pub k) m raw then dsse_loop k m r false (S accepted)
              else dsse_loop k m r true accepted
            else dsse_loop k m r false accepted
        end
    end.

  (* Envelope.VerifySignature = getSignerVerifierFromKey; NewEnvelopeVerifier
     (threshold 1 <= 1 verifier); EnvelopeVerifier.Verify *)
  Definition verify_dsse (e : env) (k : key) : res unit :=
    if negb (key_usable k) then Err err_key else
    if is_nil (e_sigs e) then Err err_no_signature else
    let m := pae c_PayloadType (e_pbytes e) in
    do accepted <- dsse_loop k m (e_sigs e) true O;
    if Nat.ltb accepted 1 then Err err_threshold else Ok tt.

  (* Envelope.Sign = getSignerVerifierFromKey; NewEnvelopeSigner; DecodeB64Payload;
     SignPayload (PAE, Sign, KeyID()); append to the signatures already there *)
  Definition sign_dsse (e : env) (k : key) : res env :=
    if negb (key_usable k) then Err err_key else
    let m := pae c_PayloadType (e_pbytes e) in
    do raw <- signer_sign k m;
    Ok (mkEnv DSSE (e_payload e)
              (e_sigs e ++ [mkSig (k_keyid k) (b64_enc raw) []])
              (e_pbytes e)).

  (* Envelope.SetPayload: a NEW dsse.Envelope without signatures *)
  Definition set_payload (p : payload) : res env :=
    do b <- payload_bytes p;
    Ok (mkEnv DSSE p [] b).

  (* &Metablock{Signed: p} *)
  Definition new_metablock (p : payload) : env := mkEnv Legacy p [] [].

  (* loadEnvelope (tail of LoadMetadata for the DSSE wrapper): [ptext] is the
     "payload" member of the file *)
  Definition load_envelope (ptext : str) (sigs : list signature) : res env :=
    match b64_dec ptext with
    | None => Err err_b64
    | Some b => do p <- decode_payload b; Ok (mkEnv DSSE p sigs b)
    end.

  (* ----- both wrappers ----- *)

  Definition verify_sig (e : env) (k : key) : res unit :=
    match e_wrapper e with Legacy => verify_legacy e k | DSSE => verify_dsse e k end.

  Definition vsig (e : env) (k : key) : bool := is_ok (verify_sig e k).

  Definition sign (e : env) (k : key) : res env :=
    match e_wrapper e with Legacy => sign_legacy e k | DSSE => sign_dsse e k end.

  Definition fresh (w : wrapper) (p : payload) : res env :=
    match w with Legacy => Ok (new_metablock p) | DSSE => set_payload p end.

  (* how a stored signature text is decoded *)
  Definition sig_decode (w : wrapper) (t : str) : option str :=
    match w with Legacy => hex_dec t | DSSE => b64_dec t end.
  Definition sig_encode (w : wrapper) (raw : str) : str :=
    match w with Legacy => hex_enc raw | DSSE => b64_enc raw end.

  (* ----- the state machine ----- *)

  Definition apply_op (o : op) (e : env) : res env :=
    match o with
    | OSign k => sign e k
    | ODumpLoad => do f <- dump e; load f
    | OSetPayload p => fresh (e_wrapper e) p
    end.

  (* the keys that signed since the payload was last set *)
  Definition upd_signers (o : op) (ks : list key) : list key :=
    match o with
    | OSign k => k :: ks
    | ODumpLoad => ks
    | OSetPayload _ => []
    end.

  (* A failing operation returns an error and leaves the Go object as it was
     (Sign returns before assigning; a failed Dump / LoadMetadata yields no new
     object), so a history continues with the old state. *)
  Fixpoint run (ops : list op) (e : env) (ks : list key) : env * list key :=
    match ops with
    | [] => (e, ks)
    | o :: r =>
        match apply_op o e with
        | Ok e' => run r e' (upd_signers o ks)
        | _ => run r e ks
        end
    end.

  (* strict variant: stops at the first failing operation *)
  Fixpoint run_strict (ops : list op) (e : env) : res env :=
    match ops with
    | [] => Ok e
    | o :: r => do e' <- apply_op o e; run_strict r e'
    end.
End Sign.
