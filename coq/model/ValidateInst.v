(* ValidateInst.v — the validator model instantiated with the rule grammar of
   model/Rules.v (UnpackRule, builder of C03) and the expiry parser of
   model/Expiry.v (time.Parse with ISO8601DateSchema, builder of C06). *)
From IT Require Export model.Validate.
From IT Require Import model.Rules model.Expiry.

Definition rule_ok_go (r : rule) : bool := is_ok (unpack_rule r).
Definition expiry_ok_go (s : str) : bool :=
  match parse_expiry_ns s with Some _ => true | None => false end.

Definition validate_metablock_go := validate_metablock rule_ok_go expiry_ok_go.
Definition validate_layout_go := validate_layout rule_ok_go expiry_ok_go.
Definition validate_step_go := validate_step rule_ok_go.
Definition validate_inspection_go := validate_inspection rule_ok_go.
