(* Clean.v — functional model of Go's path.Clean and path.Join (package "path",
   slash-separated, lexical).  No proofs here.

   path.Clean: split on '/'; drop empty and "." segments; ".." pops the last
   kept segment unless that is itself "..", is dropped at the root of a rooted
   path and kept otherwise; join with '/'; prefix '/' if rooted; an empty result
   is ".".  (Formulation validated against path.Clean exhaustively, see
   DESIGN Appendix A and the correspondence run of ./check C03.) *)
From IT Require Export model.Base.

Definition slash : N := 47.
Definition dot : str := [46].
Definition dotdot : str := [46; 46].

(* strings.Split(s, "/"): always at least one segment *)
Fixpoint split_slash (s : str) : list str :=
  match s with
  | [] => [[]]
  | c :: s' =>
      if N.eqb c slash then [] :: split_slash s'
      else match split_slash s' with
           | h :: t => (c :: h) :: t
           | [] => [[c]]                  (* unreachable: split_slash is never empty *)
           end
  end.

Definition is_rooted (p : str) : bool :=
  match p with c :: _ => N.eqb c slash | [] => false end.

(* one segment against the stack of kept segments (most recent first) *)
Definition clean_step (rooted : bool) (stack : list str) (seg : str) : list str :=
  if is_nil seg || str_eqb seg dot then stack
  else if str_eqb seg dotdot then
    match stack with
    | top :: rest => if str_eqb top dotdot then seg :: stack else rest
    | [] => if rooted then [] else [seg]
    end
  else seg :: stack.

Definition clean_segs (rooted : bool) (segs : list str) : list str :=
  rev (fold_left (clean_step rooted) segs []).

Definition go_clean (p : str) : str :=
  let rooted := is_rooted p in
  let body := join [slash] (clean_segs rooted (split_slash p)) in
  let out := if rooted then slash :: body else body in
  if is_nil out then dot else out.

(* path.Join(a, b): empty elements are ignored until something was written;
   the result is cleaned; all-empty gives "" *)
Definition go_join2 (a b : str) : str :=
  if is_nil a && is_nil b then []
  else if is_nil a then go_clean b
  else go_clean (a ++ slash :: b).
