(* Subst.v — model of SubstituteParameters (in_toto/verifylib.go) and of the
   strings.Replacer it is built on. No proofs here. *)
From IT Require Export model.Types.

(* strings.NewReplacer(pairs...).Replace: at each position the first pair in
   argument order whose old string is a prefix of the remaining input wins;
   its new string is emitted and the old one skipped; otherwise one byte is
   copied.  All old strings are non-empty here ("{" ++ name ++ "}"). *)
Fixpoint first_match (pairs : list (str * str)) (s : str) : option (str * str) :=
  match pairs with
  | [] => None
  | (o, n) :: ps => if has_prefix s o then Some (o, n) else first_match ps s
  end.

(* fuel = length of the input; each step consumes at least one byte *)
Fixpoint replace_fuel (fuel : nat) (pairs : list (str * str)) (s : str) : str :=
  match fuel with
  | O => []
  | S f =>
    match s with
    | [] => []
    | c :: s' =>
      match first_match pairs s with
      | Some (o, n) =>
          match o with
          | [] => c :: replace_fuel f pairs s'        (* unreachable: olds are non-empty *)
          | _ => n ++ replace_fuel (f - (length o - 1)) pairs (skipn (length o) s)
          end
      | None => c :: replace_fuel f pairs s'
      end
    end
  end.
Definition replace (pairs : list (str * str)) (s : str) : str :=
  replace_fuel (length s) pairs s.

(* ^[a-zA-Z0-9_-]+$ *)
Definition name_char (c : N) : bool :=
  is_lower c || is_upper c || is_digit c || (c =? 95) || (c =? 45).
Definition valid_name (n : str) : bool := negb (is_nil n) && forallb name_char n.

Definition marker (n : str) : str := [123] ++ n ++ [125].

Definition subst_list (pairs : list (str * str)) (l : list str) : list str := map (replace pairs) l.
Definition subst_rules (pairs : list (str * str)) (l : list rule) : list rule := map (subst_list pairs) l.

Definition subst_step (pairs : list (str * str)) (s : step) : step :=
  mkStep (s_type s) (s_pubkeys s) (s_cc s) (subst_list pairs (s_cmd s)) (s_threshold s)
         (s_name s) (subst_rules pairs (s_mats s)) (subst_rules pairs (s_prods s)).

Definition subst_insp (pairs : list (str * str)) (i : inspection) : inspection :=
  mkInsp (i_type i) (subst_list pairs (i_run i)) (i_name i)
         (subst_rules pairs (i_mats i)) (subst_rules pairs (i_prods i)).

Definition err_bad_param : N := 1801.

(* [dict] is the parameter dictionary in the iteration order of the Go map *)
Definition substitute (l : layout) (dict : list (str * str)) : res layout :=
  match dict with
  | [] => Ok l
  | _ =>
    if forallb (fun p => valid_name (fst p)) dict then
      let pairs := map (fun p => (marker (fst p), snd p)) dict in
      Ok (mkLayout (l_type l) (map (subst_step pairs) (l_steps l))
                   (map (subst_insp pairs) (l_inspect l))
                   (l_keys l) (l_rootcas l) (l_intermediatecas l) (l_expires l) (l_readme l))
    else Err err_bad_param
  end.
