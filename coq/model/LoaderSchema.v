(* LoaderSchema.v — adapter from the regenerated field schema (gen/Schema.v,
   produced by harness/xlate from the Go struct declarations) to the nested
   [shape]s of model/Loader.v: named structs are inlined, embedded structs are
   flattened in place (encoding/json promotes their fields).  props/C12.v
   proves that the literal shapes of model/Loader.v are exactly what this
   adapter computes from the regenerated schema, so a change of a Go struct
   (field, tag, omitempty, type) breaks an obligation of C12. *)
From IT Require Import model.Loader gen.Schema.

Definition opt_bind {A B} (o : option A) (f : A -> option B) : option B :=
  match o with Some a => f a | None => None end.

Fixpoint resolve (fuel : nat) (t : ty) : option shape :=
  match fuel with
  | O => None
  | S fuel' =>
      match t with
      | TStr => Some SStr
      | TInt => Some SInt
      | TBool => None                         (* no boolean field in the in-toto types *)
      | TAny => Some SAny
      | TList e => option_map SSlice (resolve fuel' e)
      | TMap e => option_map SMap (resolve fuel' e)
      | TStruct n =>
          match alookup schema n with
          | None => None
          | Some fields =>
              option_map SStruct
                ((fix go (fs : list field) : option (list (str * bool * shape)) :=
                    match fs with
                    | [] => Some []
                    | f :: fs' =>
                        opt_bind (resolve fuel' (f_ty f)) (fun s =>
                        opt_bind (go fs') (fun rest =>
                          if f_embedded f then
                            match s with
                            | SStruct inner => Some (inner ++ rest)
                            | _ => None
                            end
                          else Some ((f_json f, f_omitempty f, s) :: rest)))
                    end) fields)
          end
      end
  end.

Definition schema_shape (name : String.string) : option shape := resolve 12 (TStruct (bs name)).
Arguments schema_shape name%string.
