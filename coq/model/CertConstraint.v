(* CertConstraint.v — model of in_toto/certconstraint.go, of
   Step.CheckCertConstraints (in_toto/model.go) and of the way
   VerifyCertificateTrust (in_toto/keylib.go) enters.  No proofs here.

   What is external: path building and validation of crypto/x509
   (cert.Verify with Roots = pool of the layout's rootcas, Intermediates =
   pool of the layout's intermediatecas + the PEMs handed in by the caller,
   default options: current time, ExtKeyUsageServerAuth) is the boolean
   [chain_ok]; PEM decoding + x509 parsing of Key.KeyVal.Certificate is the
   boolean [parse_ok] together with the parsed view [certview].

   Error classes (never compared with the implementation, only Ok/Err is):
     1  "not expecting any X(s), but cert has n X(s)"
     2  "cert has an unexpected X v given constraints"
     3  "cert with X(s) did not pass all constraints"
     4  "failed to verify roots" (VerifyCertificateTrust)
     5  "cert failed constraints check: [...]" (aggregate of checkResult.error)
     6  "no constraints found"
     7  certificate does not decode / parse / is not an *x509.Certificate
     8  "unknown certificate constraint error" (unreachable tail of CheckCertConstraints) *)
From IT Require Export model.Types.
From IT Require Import gen.Consts.

(* the fields of *x509.Certificate that the constraint code reads:
   Subject.CommonName, DNSNames, EmailAddresses, Subject.Organization,
   urisToStrings(URIs) *)
Record certview := mkCV {
  cv_cn : str; cv_dns : list str; cv_emails : list str;
  cv_orgs : list str; cv_uris : list str }.

(* ---- Set (util.go): map[string]struct{} as duplicate-free list ---- *)
(* NewSet(elems...): Add each element in turn *)
Definition new_set (elems : list str) : list str := fold_left sadd elems [].
(* Set.Has *)
Definition set_has (s : list str) (x : str) : bool := mem x s.
(* Set.Remove = delete(s, elem) *)
Definition set_remove (s : list str) (x : str) : list str :=
  filter (fun y => negb (str_eqb x y)) s.

(* `len(l) == 1 && l[0] == x` *)
Definition is_single (l : list str) (x : str) : bool :=
  match l with [y] => str_eqb y x | _ => false end.

(* the loop `for _, v := range values { if !unmet.Has(v) {return err}; unmet.Remove(v) }`
   returning the set that is left, or the early error *)
Fixpoint consume (unmet : list str) (values : list str) : res (list str) :=
  match values with
  | [] => Ok unmet
  | v :: vs =>
      if negb (set_has unmet v) then Err 2
      else consume (set_remove unmet v) vs
  end.

(* checkCertConstraint(attributeName, constraints, values) *)
Definition check_attr (constraints values : list str) : res unit :=
  (* If the only constraint is to allow all, the check succeeds *)
  if is_single constraints c_AllowAllConstraint then Ok tt else
  let constraints := if is_single constraints [] then [] else constraints in
  let values := if is_single values [] then [] else values in
  if is_nil constraints && negb (is_nil values) then Err 1 else
  let unmet := new_set constraints in
  match consume unmet values with
  | Ok unmet' => if negb (is_nil unmet') then Err 3 else Ok tt
  | Err c => Err c
  | Panic s => Panic s
  end.

(* checkResult: the list of collected errors *)
Definition evaluate (errors : list N) (r : res unit) : list N :=
  match r with
  | Ok _ => errors
  | Err c => errors ++ [c]
  | Panic s => errors ++ [s]       (* no check below can panic *)
  end.
Definition result_error (errors : list N) : res unit :=
  if is_nil errors then Ok tt else Err 5.

(* cc.checkRoots(rootCAIDs, rootPool, intermediatePool)(cert):
   VerifyCertificateTrust first; then the constraint's root list against the
   ids of ALL root CAs of the layout (not against the root the chain ends in) *)
Definition check_roots (cc : cert_constraint) (chain_ok : bool) (root_ids : list str) : res unit :=
  if negb chain_ok then Err 4 else check_attr (cc_roots cc) root_ids.

(* CertificateConstraint.Check: all six checks run, errors are aggregated *)
Definition constraint_check (cc : cert_constraint) (cv : certview) (chain_ok : bool)
                            (root_ids : list str) : res unit :=
  let e := [] in
  let e := evaluate e (check_attr [cc_cn cc] [cv_cn cv]) in
  let e := evaluate e (check_attr (cc_dns cc) (cv_dns cv)) in
  let e := evaluate e (check_attr (cc_emails cc) (cv_emails cv)) in
  let e := evaluate e (check_attr (cc_orgs cc) (cv_orgs cv)) in
  let e := evaluate e (check_roots cc chain_ok root_ids) in
  let e := evaluate e (check_attr (cc_uris cc) (cv_uris cv)) in
  result_error e.

(* the loop of Step.CheckCertConstraints; [err] is the Go variable `err`
   (Ok tt = nil) which survives the loop *)
Fixpoint cc_loop (ccs : list cert_constraint) (cv : certview) (chain_ok : bool)
                 (root_ids : list str) (err : res unit) : res unit :=
  match ccs with
  | [] =>
      match err with
      | Ok _ => Err 8           (* "unknown certificate constraint error" *)
      | e => e                  (* if err != nil { return err } *)
      end
  | c :: rest =>
      match constraint_check c cv chain_ok root_ids with
      | Ok _ => Ok tt           (* if err == nil { return nil } *)
      | e => cc_loop rest cv chain_ok root_ids e
      end
  end.

(* Step.CheckCertConstraints(key, rootCAIDs, rootCertPool, intermediateCertPool) *)
Definition step_check_constraints (ccs : list cert_constraint) (parse_ok : bool) (cv : certview)
                                  (chain_ok : bool) (root_ids : list str) : res unit :=
  if is_nil ccs then Err 6 else
  if negb parse_ok then Err 7 else
  cc_loop ccs cv chain_ok root_ids (Ok tt).

(* export for the verification pipeline: step, view, parse_ok, chain_ok, root ids *)
Definition step_cc_ok (s : step) (cv : certview) (parse_ok chain_ok : bool) (root_ids : list str) : bool :=
  is_ok (step_check_constraints (s_cc s) parse_ok cv chain_ok root_ids).

(* Layout.RootCAIDs(): the keys of the rootcas map, in range order *)
Definition root_ca_ids (l : layout) : list str := akeys (l_rootcas l).

(* rendering for the correspondence check *)
Definition show_verdict (r : res unit) : str :=
  match r with Ok _ => [79; 75] | Err _ => [69; 82; 82] | Panic _ => [80; 65; 78; 73; 67] end.
