(* ToJson.v — json.Marshal of the in-toto metadata followed by generic decoding
   (the first half of cjson.EncodeCanonical / encodeJSONSortedKeys), generic over
   the schema regenerated from the Go struct definitions (gen/Schema.v).

   Go values are represented by the universal type [gval]; it keeps what
   encoding/json distinguishes and Types.v does not: a nil slice/map ([GNil],
   written "null") versus an empty one ([GList []] / [GMap []]).
   A struct value carries one [gval] per *flattened* schema field (members of
   embedded structs inlined at the position of the embedded field, as
   encoding/json does).

   Map entries are taken in the order given.  json.Marshal visits map keys in
   sorted order; that only matters when two keys collide after the coercion of
   invalid UTF-8 (the later one wins in [canon]); the harness renders maps in
   sorted key order.  No proofs in this file. *)
From IT Require Export model.Json gen.Schema.

Inductive gval : Type :=
| GStr (s : str)
| GInt (z : Z)
| GBool (b : bool)
| GNil                               (* nil slice / nil map *)
| GList (l : list gval)
| GMap (m : list (str * gval))
| GStruct (fs : list gval)           (* one value per flattened schema field, in schema order *)
| GAny (v : jv)                      (* interface{}: the JSON-generic image of the value; nil = JNull *)
| GBad.                              (* no value supplied; ill-typed at every type *)

Definition E_TYPE : N := 3.

(* fields of a struct with embedded structs inlined *)
Fixpoint flat_fields_f (fuel : nat) (sch : list (str * list field)) (name : str) : option (list field) :=
  match fuel with
  | O => None
  | S f =>
    match alookup sch name with
    | None => None
    | Some fds =>
      (fix go (fds : list field) : option (list field) :=
         match fds with
         | [] => Some []
         | fd :: fds' =>
           match go fds' with
           | None => None
           | Some rest =>
             if f_embedded fd then
               match f_ty fd with
               | TStruct n => match flat_fields_f f sch n with
                              | Some inner => Some (inner ++ rest)
                              | None => None
                              end
               | _ => None
               end
             else Some (fd :: rest)
           end
         end) fds
    end
  end.
Definition flat_fields (name : str) : option (list field) := flat_fields_f (length schema) schema name.

(* encoding/json isEmptyValue *)
Definition is_empty_g (g : gval) : bool :=
  match g with
  | GStr [] => true
  | GInt 0%Z => true
  | GBool false => true
  | GNil => true
  | GList [] => true
  | GMap [] => true
  | GAny JNull => true
  | _ => false
  end.

(* an interface{} value after Marshal + Decode: strings and keys coerced to valid UTF-8 *)
Fixpoint sanitize_jv (v : jv) : jv :=
  match v with
  | JStr s => JStr (utf8_sanitize s)
  | JArr l => JArr (map sanitize_jv l)
  | JObj m => JObj ((fix go (m : list (str * jv)) : list (str * jv) :=
                       match m with [] => [] | (k, x) :: m' => (utf8_sanitize k, sanitize_jv x) :: go m' end) m)
  | _ => v
  end.

Fixpoint to_json (t : ty) (g : gval) {struct g} : res jv :=
  match t, g with
  | TStr, GStr s => Ok (JStr (utf8_sanitize s))
  | TInt, GInt z => Ok (JNum z)
  | TBool, GBool b => Ok (JBool b)
  | TList _, GNil => Ok JNull
  | TList t', GList l =>
    do js <- (fix go (l : list gval) : res (list jv) :=
                match l with [] => Ok [] | x :: l' => do a <- to_json t' x; do r <- go l'; Ok (a :: r) end) l;
    Ok (JArr js)
  | TMap _, GNil => Ok JNull
  | TMap t', GMap m =>
    do ps <- (fix go (m : list (str * gval)) : res (list (str * jv)) :=
                match m with
                | [] => Ok []
                | (k, x) :: m' => do a <- to_json t' x; do r <- go m'; Ok ((utf8_sanitize k, a) :: r)
                end) m;
    Ok (JObj ps)
  | TStruct n, GStruct fs =>
    match flat_fields n with
    | None => Err E_TYPE
    | Some fds =>
      do ps <- (fix go (fds : list field) (fs : list gval) {struct fs} : res (list (str * jv)) :=
                  match fds, fs with
                  | [], [] => Ok []
                  | fd :: fds', x :: fs' =>
                    do r <- go fds' fs';
                    if f_omitempty fd && is_empty_g x then Ok r
                    else do a <- to_json (f_ty fd) x; Ok ((f_json fd, a) :: r)
                  | _, _ => Err E_TYPE
                  end) fds fs;
      Ok (JObj ps)
    end
  | TAny, GAny v => Ok (sanitize_jv v)
  | _, _ => Err E_TYPE
  end.

(* ------------------------------------------------------------------ *)
(* the shared records of Types.v as Go values: every collection present
   (non-nil).  Values are attached to Go field names, so the order of the
   fields in the Go source does not matter. *)

Definition build_struct (name : str) (vals : list (str * gval)) : gval :=
  match flat_fields name with
  | Some fds => GStruct (map (fun fd => match alookup vals (f_go fd) with Some g => g | None => GBad end) fds)
  | None => GBad
  end.

Definition g_strs (l : list str) : gval := GList (map GStr l).
Definition g_rules (l : list rule) : gval := GList (map g_strs l).
Definition g_hashobj (h : hashobj) : gval := GMap (map (fun p => (fst p, GStr (snd p))) h).
Definition g_artifacts (a : artifacts) : gval := GMap (map (fun p => (fst p, g_hashobj (snd p))) a).
Definition g_anymap (m : list (str * jv)) : gval := GMap (map (fun p => (fst p, GAny (snd p))) m).

Definition link_to_gval (l : link) : gval :=
  build_struct (bs "Link")
    [(bs "Type", GStr (ln_type l)); (bs "Name", GStr (ln_name l));
     (bs "Materials", g_artifacts (ln_materials l)); (bs "Products", g_artifacts (ln_products l));
     (bs "ByProducts", g_anymap (ln_byproducts l)); (bs "Command", g_strs (ln_command l));
     (bs "Environment", g_anymap (ln_environment l))].

Definition keyval_to_gval (k : key) : gval :=
  build_struct (bs "KeyVal")
    [(bs "Private", GStr (k_private k)); (bs "Public", GStr (k_public k)); (bs "Certificate", GStr (k_cert k))].
Definition key_to_gval (k : key) : gval :=
  build_struct (bs "Key")
    [(bs "KeyID", GStr (k_keyid k)); (bs "KeyIDHashAlgorithms", g_strs (k_hashalgs k));
     (bs "KeyType", GStr (k_keytype k)); (bs "KeyVal", keyval_to_gval k); (bs "Scheme", GStr (k_scheme k))].
Definition g_keymap (m : amap key) : gval := GMap (map (fun p => (fst p, key_to_gval (snd p))) m).

Definition cc_to_gval (c : cert_constraint) : gval :=
  build_struct (bs "CertificateConstraint")
    [(bs "CommonName", GStr (cc_cn c)); (bs "DNSNames", g_strs (cc_dns c)); (bs "Emails", g_strs (cc_emails c));
     (bs "Organizations", g_strs (cc_orgs c)); (bs "Roots", g_strs (cc_roots c)); (bs "URIs", g_strs (cc_uris c))].

Definition step_to_gval (s : step) : gval :=
  build_struct (bs "Step")
    [(bs "Type", GStr (s_type s)); (bs "PubKeys", g_strs (s_pubkeys s));
     (bs "CertificateConstraints", GList (map cc_to_gval (s_cc s)));
     (bs "ExpectedCommand", g_strs (s_cmd s)); (bs "Threshold", GInt (s_threshold s));
     (bs "Name", GStr (s_name s)); (bs "ExpectedMaterials", g_rules (s_mats s));
     (bs "ExpectedProducts", g_rules (s_prods s))].

Definition insp_to_gval (i : inspection) : gval :=
  build_struct (bs "Inspection")
    [(bs "Type", GStr (i_type i)); (bs "Run", g_strs (i_run i)); (bs "Name", GStr (i_name i));
     (bs "ExpectedMaterials", g_rules (i_mats i)); (bs "ExpectedProducts", g_rules (i_prods i))].

Definition layout_to_gval (l : layout) : gval :=
  build_struct (bs "Layout")
    [(bs "Type", GStr (l_type l)); (bs "Steps", GList (map step_to_gval (l_steps l)));
     (bs "Inspect", GList (map insp_to_gval (l_inspect l))); (bs "Keys", g_keymap (l_keys l));
     (bs "RootCas", g_keymap (l_rootcas l)); (bs "IntermediateCas", g_keymap (l_intermediatecas l));
     (bs "Expires", GStr (l_expires l)); (bs "Readme", GStr (l_readme l))].

Definition sig_to_gval (s : signature) : gval :=
  build_struct (bs "Signature")
    [(bs "KeyID", GStr (sg_keyid s)); (bs "Sig", GStr (sg_sig s)); (bs "Certificate", GStr (sg_cert s))].

Definition payload_ty (p : payload) : ty :=
  match p with PLink _ => TStruct (bs "Link") | PLayout _ => TStruct (bs "Layout") end.
Definition payload_to_gval (p : payload) : gval :=
  match p with PLink l => link_to_gval l | PLayout l => layout_to_gval l end.

(* total versions for the shared records ([to_json] never fails on them:
   proofs/ToJsonProofs.v, [payload_to_json_ok]) *)
Definition json_or_null (r : res jv) : jv := match r with Ok j => j | _ => JNull end.
Definition link_to_json (l : link) : jv := json_or_null (to_json (TStruct (bs "Link")) (link_to_gval l)).
Definition layout_to_json (l : layout) : jv := json_or_null (to_json (TStruct (bs "Layout")) (layout_to_gval l)).
Definition payload_to_json (p : payload) : jv :=
  match p with PLink l => link_to_json l | PLayout l => layout_to_json l end.

(* Metablock.GetSignableRepresentation: cjson.EncodeCanonical(mb.Signed) *)
Definition signable_g (t : ty) (g : gval) : res str := do j <- to_json t g; canon j.
Definition signable (p : payload) : res str := canon (payload_to_json p).

(* Envelope.SetPayload: the payload bytes of the envelope *)
Definition dsse_payload_g (t : ty) (g : gval) : res str := do j <- to_json t g; dsse_payload_bytes j.
Definition dsse_payload (p : payload) : res str := dsse_payload_bytes (payload_to_json p).

(* observable compared with the implementation by the harness: hex of the bytes, or ERR *)
Definition obs_res (r : res str) : str := match r with Ok b => hex_of b | _ => bs "ERR" end.
