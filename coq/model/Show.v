(* Show.v — canonical textual rendering of model values, mirrored by
   harness/lib/show.go; used only to compare observables of model and
   implementation.  Format: strings are netstrings  <decimal length>:<bytes>,
   lists are "[" items "]", records are "(" fields ")". *)
From IT Require Export model.Types.

Fixpoint dec_fuel (fuel : nat) (n : N) (acc : str) : str :=
  match fuel with
  | O => acc
  | S f => let d := 48 + n mod 10 in
           if n <? 10 then d :: acc else dec_fuel f (n / 10) (d :: acc)
  end.
Definition show_N (n : N) : str := dec_fuel (S (N.to_nat (N.log2 n))) n [].
Definition show_nat (n : nat) : str := show_N (N.of_nat n).
Definition show_Z (z : Z) : str :=
  match z with
  | Z0 => [48]
  | Zpos p => show_N (Npos p)
  | Zneg p => 45 :: show_N (Npos p)
  end.

Definition show_str (s : str) : str := show_nat (length s) ++ [58] ++ s.
Definition show_list {A} (f : A -> str) (l : list A) : str := [91] ++ concat_str (map f l) ++ [93].
Definition show_strs := show_list show_str.
Definition show_rules := show_list show_strs.
Definition show_tuple (fs : list str) : str := [40] ++ concat_str fs ++ [41].
Definition show_bool (b : bool) : str := if b then [84] else [70].

Definition show_key (k : key) : str :=
  show_tuple [show_str (k_keyid k); show_strs (k_hashalgs k); show_str (k_keytype k);
              show_str (k_private k); show_str (k_public k); show_str (k_cert k); show_str (k_scheme k)].
Definition show_keymap (m : amap key) : str :=
  show_list (fun p => show_tuple [show_str (fst p); show_key (snd p)]) m.
Definition show_cc (c : cert_constraint) : str :=
  show_tuple [show_str (cc_cn c); show_strs (cc_dns c); show_strs (cc_emails c);
              show_strs (cc_orgs c); show_strs (cc_roots c); show_strs (cc_uris c)].
Definition show_step (s : step) : str :=
  show_tuple [show_str (s_type s); show_strs (s_pubkeys s); show_list show_cc (s_cc s);
              show_strs (s_cmd s); show_Z (s_threshold s); [59]; show_str (s_name s);
              show_rules (s_mats s); show_rules (s_prods s)].
Definition show_insp (i : inspection) : str :=
  show_tuple [show_str (i_type i); show_strs (i_run i); show_str (i_name i);
              show_rules (i_mats i); show_rules (i_prods i)].
Definition show_layout (l : layout) : str :=
  show_tuple [show_str (l_type l); show_list show_step (l_steps l); show_list show_insp (l_inspect l);
              show_keymap (l_keys l); show_keymap (l_rootcas l); show_keymap (l_intermediatecas l);
              show_str (l_expires l); show_str (l_readme l)].

Definition show_hashobj (h : hashobj) : str :=
  show_list (fun p => show_tuple [show_str (fst p); show_str (snd p)]) h.
Definition show_artifacts (a : artifacts) : str :=
  show_list (fun p => show_tuple [show_str (fst p); show_hashobj (snd p)]) a.

(* results: "OK" ++ payload | "ERR" | "PANIC"  (error classes are not compared) *)
Definition show_res {A} (f : A -> str) (r : res A) : str :=
  match r with
  | Ok a => [79; 75] ++ f a
  | Err _ => [69; 82; 82]
  | Panic _ => [80; 65; 78; 73; 67]
  end.

(* comparison helper for cases files: ids of the cases whose model observable
   differs from the observable recorded from the implementation *)
Definition mismatches (cases : list (N * str * str)) : list (N * str) :=
  fold_right (fun c acc => match c with (id, m, i) => if str_eqb m i then acc else (id, m) :: acc end) [] cases.

(* the same comparison against a digest of the implementation's observable
   (polynomial hash mod 2^61-1; keeps the cases files small) *)
Definition obs_hash (s : str) : N :=
  fold_left (fun h c => (h * 1000003 + c + 1) mod 2305843009213693951) s 7.
Definition mismatches_h (cases : list (N * str * N)) : list (N * str) :=
  fold_right (fun c acc => match c with (id, m, h) => if N.eqb (obs_hash m) h then acc else (id, m) :: acc end) [] cases.
