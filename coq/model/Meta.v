(* Meta.v — metadata envelopes and link directories as the verification
   pipeline sees them (shared by Threshold, Sign, Pipeline). *)
From IT Require Export model.Types.

(* A loaded metadata object (Metablock or DSSE Envelope): its wrapper, the
   decoded payload and the signature list in file order.  For DSSE,
   [e_pbytes] are the decoded payload bytes that the signatures cover (the
   payload object is decoded from exactly these bytes by loadEnvelope /
   stored together with them by SetPayload); for Legacy it is unused ([]). *)
Record env := mkEnv {
  e_wrapper : wrapper;
  e_payload : payload;
  e_sigs : list signature;
  e_pbytes : str }.

Definition env_is_layout (e : env) : bool :=
  match e_payload e with PLayout _ => true | PLink _ => false end.

(* A directory of link files: each directory entry is a file name together
   with what LoadMetadata makes of it (None = unreadable / unparsable / not
   in-toto metadata), plus sub-directories (sublayout link directories). *)
Inductive linkdir : Type :=
| LinkDir (files : list (str * option env)) (subdirs : list (str * linkdir)).

Definition ld_files (d : linkdir) : list (str * option env) := match d with LinkDir f _ => f end.
Definition ld_subdirs (d : linkdir) : list (str * linkdir) := match d with LinkDir _ s => s end.

Fixpoint ld_lookup_sub (subs : list (str * linkdir)) (name : str) : option linkdir :=
  match subs with
  | [] => None
  | (n, d) :: r => if str_eqb n name then Some d else ld_lookup_sub r name
  end.

(* GetSignatureForKeyID: first signature with that key id *)
Fixpoint sig_for_keyid (sigs : list signature) (kid : str) : option signature :=
  match sigs with
  | [] => None
  | s :: r => if str_eqb (sg_keyid s) kid then Some s else sig_for_keyid r kid
  end.
