(* Glob.v — model of match / scanChunk / matchChunk / getEsc (in_toto/match.go)
   and of Set.Filter (in_toto/util.go).  No proofs here.

   The transcription follows the Go control flow: same order of checks, same
   early returns, the `failed` flag of matchChunk, the star loop advancing by
   whole runes (utf8.DecodeRuneInString), the syntax check of the remaining
   chunks before `return false, nil`.

   Every Go expression that can raise index-out-of-range (`chunk[0]` after
   getEsc, `s[0]` in the literal case) is an explicit outcome [CPanic]/[XPanic];
   fuel exhaustion is the distinct outcome [CFuel]/[XFuel].  [gmatch] maps both
   to [Bad]; proofs/GlobProofs.v shows that neither can occur
   ([gmatch_no_panic]). *)
From IT Require Export model.Base.

Inductive mres := Match | NoMatch | Bad.

Definition mres_eqb (a b : mres) : bool :=
  match a, b with
  | Match, Match | NoMatch, NoMatch | Bad, Bad => true
  | _, _ => false
  end.

(* ---------------------------------------------------------------- *)
(* utf8.DecodeRuneInString: (rune, width).
   empty -> (RuneError, 0); invalid / overlong / surrogate / out of range /
   truncated -> (RuneError, 1). *)
Definition rune_error : N := 65533.

Definition is_cont (b : N) : bool := (128 <=? b) && (b <=? 191).
Definition in_rng (lo hi b : N) : bool := (lo <=? b) && (b <=? hi).

Definition decode_rune (s : str) : N * nat :=
  match s with
  | [] => (rune_error, 0%nat)
  | b0 :: s1 =>
    if b0 <? 128 then (b0, 1%nat)
    else if in_rng 194 223 b0 then
      match s1 with
      | b1 :: _ =>
        if is_cont b1 then ((b0 - 192) * 64 + (b1 - 128), 2%nat) else (rune_error, 1%nat)
      | _ => (rune_error, 1%nat)
      end
    else if in_rng 224 239 b0 then
      match s1 with
      | b1 :: b2 :: _ =>
        let lo := if b0 =? 224 then 160 else 128 in
        let hi := if b0 =? 237 then 159 else 191 in
        if in_rng lo hi b1 && is_cont b2
        then ((b0 - 224) * 4096 + (b1 - 128) * 64 + (b2 - 128), 3%nat)
        else (rune_error, 1%nat)
      | _ => (rune_error, 1%nat)
      end
    else if in_rng 240 244 b0 then
      match s1 with
      | b1 :: b2 :: b3 :: _ =>
        let lo := if b0 =? 240 then 144 else 128 in
        let hi := if b0 =? 244 then 143 else 191 in
        if in_rng lo hi b1 && is_cont b2 && is_cont b3
        then ((b0 - 240) * 262144 + (b1 - 128) * 4096 + (b2 - 128) * 64 + (b3 - 128), 4%nat)
        else (rune_error, 1%nat)
      | _ => (rune_error, 1%nat)
      end
    else (rune_error, 1%nat)
  end.

(* r, n := utf8.DecodeRuneInString(s); s = s[n:] *)
Definition first_char (s : str) : N := fst (decode_rune s).
Definition skip_char (s : str) : str := skipn (snd (decode_rune s)) s.

(* ---------------------------------------------------------------- *)
(* getEsc: None = errBadPattern *)
Definition get_esc (chunk : str) : option (N * str) :=
  match chunk with
  | [] => None
  | c :: rest =>
    if (c =? 45) || (c =? 93) then None            (* '-' or ']' *)
    else
      let chunk1 := if c =? 92 then rest else chunk in   (* '\\' *)
      match chunk1 with
      | [] => None
      | _ =>
        let (r, n) := decode_rune chunk1 in
        if (r =? rune_error) && Nat.eqb n 1 then None
        else
          match skipn n chunk1 with
          | [] => None
          | nchunk => Some (r, nchunk)
          end
      end
  end.

(* the `for { ... }` loop that parses all ranges of a class.
   r = decoded rune of the name (0 when already failed). *)
Inductive clres :=
| CLOk (matched : bool) (chunk : str)
| CLBad
| CLPanic
| CLFuel.

Fixpoint class_loop (fuel : nat) (chunk : str) (r : N) (matched : bool) (nrange : N) : clres :=
  match fuel with
  | O => CLFuel
  | S f =>
    let closes := match chunk with c :: _ => (c =? 93) && (0 <? nrange) | [] => false end in
    if closes then CLOk matched (tl chunk)
    else
      match get_esc chunk with
      | None => CLBad
      | Some (lo, chunk1) =>
        match chunk1 with
        | [] => CLPanic                              (* chunk[0] *)
        | c :: chunk1' =>
          if c =? 45 then                            (* '-' *)
            match get_esc chunk1' with
            | None => CLBad
            | Some (hi, chunk2) =>
              class_loop f chunk2 r (matched || ((lo <=? r) && (r <=? hi))) (nrange + 1)
            end
          else
            class_loop f chunk1 r (matched || ((lo <=? r) && (r <=? lo))) (nrange + 1)
        end
      end
  end.

(* matchChunk *)
Inductive cres :=
| COk (rest : str)      (* rest, true, nil *)
| CFail                 (* "", false, nil *)
| CBad                  (* "", false, errBadPattern *)
| CPanic                (* index out of range *)
| CFuel.

Fixpoint match_chunk_f (fuel : nat) (chunk s : str) (failed : bool) : cres :=
  match chunk with
  | [] => if failed then CFail else COk s
  | c :: chunk' =>
    match fuel with
    | O => CFuel
    | S f =>
      let failed := failed || is_nil s in
      if c =? 91 then                                (* '[' *)
        let r := if failed then 0 else first_char s in
        let s1 := if failed then s else skip_char s in
        let negated := match chunk' with d :: _ => d =? 94 | [] => false end in
        let chunk2 := if negated then tl chunk' else chunk' in
        match class_loop (S (length chunk2)) chunk2 r false 0 with
        | CLOk m chunk3 => match_chunk_f f chunk3 s1 (failed || Bool.eqb m negated)
        | CLBad => CBad
        | CLPanic => CPanic
        | CLFuel => CFuel
        end
      else if c =? 63 then                           (* '?' *)
        match_chunk_f f chunk' (if failed then s else skip_char s) failed
      else
        let lit (ch : N) (rest : str) :=
          if failed then match_chunk_f f rest s true
          else match s with
               | [] => CPanic                        (* s[0] *)
               | x :: s' => match_chunk_f f rest s' (negb (ch =? x))
               end in
        if c =? 92 then                              (* '\\' *)
          match chunk' with
          | [] => CBad
          | c2 :: chunk'' => lit c2 chunk''
          end
        else lit c chunk'
    end
  end.

Definition match_chunk (chunk s : str) : cres := match_chunk_f (length chunk) chunk s false.

(* scanChunk *)
Fixpoint strip_stars (p : str) (star : bool) : bool * str :=
  match p with
  | c :: p' => if c =? 42 then strip_stars p' true else (star, p)
  | [] => (star, p)
  end.

(* (pattern[0:i], pattern[i:]) for the index i at which the Scan loop stops *)
Fixpoint scan_split (p : str) (inrange : bool) : str * str :=
  match p with
  | [] => ([], [])
  | c :: p' =>
    if c =? 92 then
      match p' with
      | [] => ([c], [])
      | d :: p'' => let (a, b) := scan_split p'' inrange in (c :: d :: a, b)
      end
    else if c =? 91 then let (a, b) := scan_split p' true in (c :: a, b)
    else if c =? 93 then let (a, b) := scan_split p' false in (c :: a, b)
    else if c =? 42 then
      if inrange then let (a, b) := scan_split p' inrange in (c :: a, b) else ([], p)
    else let (a, b) := scan_split p' inrange in (c :: a, b)
  end.

Definition scan_chunk (p : str) : bool * str * str :=
  let (star, p1) := strip_stars p false in
  let (chunk, rest) := scan_split p1 false in
  (star, chunk, rest).

(* match *)
Inductive xres := XMatch | XNoMatch | XBad | XPanic | XFuel.

(* the loop "check that the remainder of the pattern is syntactically valid" *)
Fixpoint check_rest (fuel : nat) (pattern : str) : xres :=
  match pattern with
  | [] => XNoMatch
  | _ =>
    match fuel with
    | O => XFuel
    | S f =>
      let '(_, chunk, rest) := scan_chunk pattern in
      match match_chunk chunk [] with
      | CBad => XBad
      | CPanic => XPanic
      | CFuel => XFuel
      | _ => check_rest f rest
      end
    end
  end.

(* `ok && (len(t) == 0 || len(pattern) > 0)` : the chunk matched here and either it
   exhausted the name or it is not the last chunk *)
Definition accept_here (r : cres) (rest : str) : option str :=
  match r with
  | COk t => if is_nil t || negb (is_nil rest) then Some t else None
  | _ => None
  end.

Fixpoint gmatch_f (fuel : nat) (pattern name : str) : xres :=
  match pattern with
  | [] => if is_nil name then XMatch else XNoMatch
  | _ =>
    match fuel with
    | O => XFuel
    | S f =>
      let '(star, chunk, rest) := scan_chunk pattern in
      if star && is_nil chunk then XMatch
      else
        let r := match_chunk chunk name in
        match r with
        | CPanic => XPanic
        | CFuel => XFuel
        | _ =>
          match accept_here r rest with
          | Some t => gmatch_f f rest t
          | None =>
            match r with
            | CBad => XBad
            | _ =>
              if star then
                (* for i := 0; i < len(name); { _, n := DecodeRuneInString(name[i:]); i += n; ... } *)
                (fix star_loop (k : nat) (nm : str) {struct k} : xres :=
                   match nm with
                   | [] => check_rest (length rest) rest
                   | _ =>
                     match k with
                     | O => XFuel
                     | S k' =>
                       let nm' := skip_char nm in
                       match match_chunk chunk nm' with
                       | COk t' =>
                         if is_nil rest && negb (is_nil t') then star_loop k' nm'
                         else gmatch_f f rest t'
                       | CFail => star_loop k' nm'
                       | CBad => XBad
                       | CPanic => XPanic
                       | CFuel => XFuel
                       end
                     end
                   end) (length name) name
              else check_rest (length rest) rest
            end
          end
        end
    end
  end.

Definition gmatch_x (pattern name : str) : xres := gmatch_f (length pattern) pattern name.

Definition gmatch (pattern name : str) : mres :=
  match gmatch_x pattern name with
  | XMatch => Match
  | XNoMatch => NoMatch
  | XBad | XPanic | XFuel => Bad
  end.

(* what Set.Filter and verifyMatchRule observe: matched && err == nil *)
Definition gmatch_bool (p n : str) : bool :=
  match gmatch p n with Match => true | _ => false end.

(* Set.Filter: the elements of the set (in the iteration order given) that match *)
Definition set_filter (s : list str) (pattern : str) : list str :=
  filter (gmatch_bool pattern) s.
