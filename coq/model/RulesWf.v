(* model/RulesWf.v — boolean deciders of the well-formedness hypotheses of the C03 theorems
   (clean paths, duplicate-free maps, clean patterns and prefixes). Definitions only; their
   correctness lemmas are in proofs/RulesWf.v. Extracted with the model so that the harness
   can report how many generated cases lie inside the theorems' domain. *)
From IT Require Export model.Rules.

Definition good_segb (g : str) : bool :=
  negb (is_nil g) && negb (str_eqb g dot) && negb (str_eqb g dotdot).
Definition clean_pathb (p : str) : bool := forallb good_segb (split_slash p).

Fixpoint nodupb (l : list str) : bool :=
  match l with [] => true | x :: l' => negb (mem x l') && nodupb l' end.

Definition wf_artifactsb (a : artifacts) : bool :=
  nodupb (akeys a) && forallb clean_pathb (akeys a) && forallb (fun h : hashobj => nodupb (akeys h)) (map snd a).

Definition wf_metab (meta : amap link) : bool :=
  forallb (fun l => wf_artifactsb (ln_materials l) && wf_artifactsb (ln_products l)) (map snd meta).

Definition wf_prefixb (p : str) : bool := is_nil p || clean_pathb p.

Definition wf_rdb (d : ruledata) : bool :=
  if str_eqb (rd_type d) (bs "require") then true
  else clean_pathb (rd_pattern d) && wf_prefixb (rd_src_prefix d) && wf_prefixb (rd_dst_prefix d).

Definition wf_ruleb (r : rule) : bool :=
  match unpack_rule r with Ok d => wf_rdb d | _ => true end.

Definition wf_rulesb (rules : list rule) : bool := forallb wf_ruleb rules.

Definition wf_itemsb (items : list (str * list rule * list rule)) : bool :=
  forallb (fun it => match it with (_, em, ep) => wf_rulesb em && wf_rulesb ep end) items.
