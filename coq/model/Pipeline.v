(* Pipeline.v — the verification pipeline InTotoVerify / InTotoVerifyWithDirectory
   (in_toto/verifylib.go), generic in its stage components.

   The components (signature verification, expiry, substitution, link loading,
   thresholds, rule evaluation, inspection execution) are Section variables here;
   model/PipelineInst.v plugs in the component models.  The order of the stages
   and the data flow between them transcribe the Go functions; the translator
   (harness/xlate/pipeline.go -> gen/Pipeline.v) extracts the same skeleton from
   the source and props/Pipeline.v checks that it is the one transcribed here.

   Every Go map that is iterated is an association list taken in the given order.
   The result carries a trace of the externally visible effects:
     EvLoadLinks d        link files of directory d (path from the root link dir) were read
     EvEnterSublayout d s k  (at the level whose link directory is d) a layout offered for step s by key id k is being verified
     EvRunInspection d n  (at the level whose link directory is d) the command of inspection n was executed *)
From IT Require Export model.Meta.

Inductive event :=
| EvLoadLinks (dir : list str)
| EvEnterSublayout (dir : list str) (step : str) (keyid : str)
| EvRunInspection (dir : list str) (name : str).

(* the link directory (position below the root link directory) of the verification level an event belongs to *)
Definition ev_dir (e : event) : list str :=
  match e with EvLoadLinks d => d | EvEnterSublayout d _ _ => d | EvRunInspection d _ => d end.

(* error classes (not compared with the implementation; only Ok/Err/Panic is) *)
Definition e_nokeys : N := 101.
Definition e_badsig : N := 102.
Definition e_notlayout : N := 103.
Definition e_expired : N := 104.
Definition e_certs : N := 106.
Definition e_invalid_metadata : N := 110.
Definition e_differ : N := 111.
Definition e_retval : N := 112.
Definition e_fuel : N := 199.
Definition e_unreachable : N := 198.
Definition e_rundir : N := 120.
(* panic sites (see gen/PanicSites.v) *)
Definition p_reduce_nolinks : N := 1.
Definition p_cmdalign_nolinks : N := 2.

Definition item := (str * list rule * list rule)%type.
Definition step_item (s : step) : item := (s_name s, s_mats s, s_prods s).
Definition insp_item (i : inspection) : item := (i_name i, i_mats i, i_prods i).

(* first 8 characters (fmt's %.8s) — key ids are ASCII hex, so bytes = characters *)
Definition first8 (s : str) : str := firstn 8 s.
Definition sublayout_dir (step keyid : str) : str := step ++ [46] ++ first8 keyid.

(* reflect.DeepEqual on map[string]HashObj: equality as finite maps *)
Definition hashobj_sub (a b : hashobj) : bool :=
  forallb (fun p => match alookup b (fst p) with Some v => str_eqb v (snd p) | None => false end) a.
Definition hashobj_eqb (a b : hashobj) : bool :=
  Nat.eqb (length a) (length b) && hashobj_sub a b && hashobj_sub b a.
Definition artifacts_sub (a b : artifacts) : bool :=
  forallb (fun p => match alookup b (fst p) with Some h => hashobj_eqb h (snd p) | None => false end) a.
Definition artifacts_eqb (a b : artifacts) : bool :=
  Nat.eqb (length a) (length b) && artifacts_sub a b && artifacts_sub b a.

Definition env_link (e : env) : res link :=
  match e_payload e with PLink l => Ok l | PLayout _ => Err e_invalid_metadata end.

Fixpoint env_links (m : amap env) : res (amap link) :=
  match m with
  | [] => Ok []
  | (k, e) :: r => do l <- env_link e; do r' <- env_links r; Ok ((k, l) :: r')
  end.

(* nesting depth of a link directory tree *)
Fixpoint ld_depth (d : linkdir) : nat :=
  match d with
  | LinkDir _ subs =>
      S ((fix go (l : list (str * linkdir)) : nat :=
            match l with [] => O | (_, x) :: r => Nat.max (ld_depth x) (go r) end) subs)
  end.

Definition empty_link : link := mkLink [] [] [] [] [] [] [].

(* the unsigned metadata object GetSummaryLink returns *)
Definition summary_env (dsse : bool) (l : link) (pbytes : link -> str) : env :=
  if dsse then mkEnv DSSE (PLink l) [] (pbytes l) else mkEnv Legacy (PLink l) [] [].

Section Pipeline.
  Variable World : Type.

  (* ---- stage components ---- *)
  Variable vsig : env -> key -> bool.                       (* layoutEnv.VerifySignature(key) == nil *)
  Variable expiry_ok : str -> bool.                         (* VerifyLayoutExpiration == nil at the instant of verification *)
  Variable subst : layout -> amap str -> res layout.        (* SubstituteParameters *)
  Variable certs_ok : layout -> list str -> bool.           (* LoadLayoutCertificates succeeds (layout CAs + caller's intermediates) *)
  Variable load_all : layout -> list (str * option env) -> res (amap (amap env)).           (* LoadLinksForLayout on a directory listing *)
  Variable verify_thresholds : layout -> list str -> amap (amap env) -> res (amap (amap env)). (* VerifyLinkSignatureThesholds *)
  Variable verify_rules : list item -> amap link -> res unit. (* VerifyArtifacts *)
  Variable run_insp : bool -> World -> inspection -> res (link * World).
      (* one iteration of RunInspections: InTotoRun in the run directory (materials before, command, products after),
         Err when the command cannot be started; the return value is checked by the pipeline below; the link file is
         dumped into the directory (part of the new World) *)
  Variable retval_zero : link -> bool.                      (* link.ByProducts["return-value"] == float64(0) *)
  Variable pbytes : link -> str.                            (* DSSE payload bytes of a summary link *)
  Variable zero_key : key.                                  (* Go's zero Key{} (layout.Keys[id] for an absent id) *)

  (* VerifyLayoutSignatures *)
  Fixpoint all_keys_verify (e : env) (keys : amap key) : res unit :=
    match keys with
    | [] => Ok tt
    | (_, k) :: r => if vsig e k then all_keys_verify e r else Err e_badsig
    end.
  Definition verify_layout_signatures (e : env) (keys : amap key) : res unit :=
    match keys with [] => Err e_nokeys | _ => all_keys_verify e keys end.

  Definition get_layout (e : env) : res layout :=
    match e_payload e with PLayout l => Ok l | PLink _ => Err e_notlayout end.

  (* VerifyStepCommandAlignment: warnings only; panics for a step without links *)
  Fixpoint cmd_alignment (steps : list step) (m : amap (amap env)) : res unit :=
    match steps with
    | [] => Ok tt
    | s :: r => match alookup m (s_name s) with
                | None | Some [] => Panic p_cmdalign_nolinks
                | Some _ => cmd_alignment r m
                end
    end.

  (* ReduceStepsMetadata: the link with the smallest key id is the reference, every link is compared with it *)
  Fixpoint all_agree (ref : link) (links : amap env) : res unit :=
    match links with
    | [] => Ok tt
    | (_, e) :: r =>
        do l <- env_link e;
        if artifacts_eqb (ln_materials l) (ln_materials ref) && artifacts_eqb (ln_products l) (ln_products ref)
        then all_agree ref r else Err e_differ
    end.
  (* the reference link is the one with the smallest key id (the first one when the map is iterated,
     replaced by every later entry with a strictly smaller key) *)
  Fixpoint min_entry (best : str * env) (links : amap env) : str * env :=
    match links with
    | [] => best
    | (k, e) :: r => if str_ltb k (fst best) then min_entry (k, e) r else min_entry best r
    end.
  Definition reduce_step (links : amap env) : res env :=
    match links with
    | [] => Panic p_reduce_nolinks
    | [(_, e)] => Ok e
    | p :: r => let e := snd (min_entry p r) in do ref <- env_link e; do _ <- all_agree ref links; Ok e
    end.
  Fixpoint reduce_steps (steps : list step) (m : amap (amap env)) (acc : amap env) : res (amap env) :=
    match steps with
    | [] => Ok acc
    | s :: r => match alookup m (s_name s) with
                | None => Panic p_reduce_nolinks
                | Some links => do e <- reduce_step links; reduce_steps r m (ainsert acc (s_name s) e)
                end
    end.

  (* GetSummaryLink *)
  Definition get_summary (l : layout) (reduced : amap env) (name : str) (dsse : bool) : res env :=
    match l_steps l with
    | [] => Ok (summary_env dsse empty_link pbytes)
    | s0 :: _ =>
        let sl := last (l_steps l) s0 in
        match alookup reduced (s_name s0), alookup reduced (s_name sl) with
        | Some e0, Some el =>
            do f <- env_link e0; do t <- env_link el;
            Ok (summary_env dsse
                  (mkLink (ln_type f) name (ln_materials f) (ln_products t) (ln_byproducts t) (ln_command t) []) pbytes)
        | _, _ => Panic p_reduce_nolinks   (* nil interface dereference; unreachable: reduce_steps defines every step *)
        end
    end.

  (* RunInspections *)
  Definition insp_event (path : list str) (i : inspection) : list event :=
    if is_nil (i_run i) then [] else [EvRunInspection path (i_name i)].
  Fixpoint run_inspections (path : list str) (dsse : bool) (w : World) (insps : list inspection) (acc : amap link) (tr : list event)
    : res (amap link * World) * list event :=
    match insps with
    | [] => (Ok (acc, w), tr)
    | i :: r =>
        match run_insp dsse w i with
        | Ok (l, w') =>
            (* an inspection without a command executes nothing (its missing return value then fails the check below) *)
            let tr' := tr ++ insp_event path i in
            if retval_zero l then run_inspections path dsse w' r (ainsert acc (i_name i) l) tr'
            else (Err e_retval, tr')
        | Err c => (Err c, tr)
        | Panic p => (Panic p, tr)
        end
    end.

  Fixpoint merge_steps (reduced : amap link) (acc : amap link) : amap link :=
    match reduced with [] => acc | (k, l) :: r => merge_steps r (ainsert acc k l) end.

  Definition lookup_subdir (d : linkdir) (name : str) : linkdir :=
    match ld_lookup_sub (ld_subdirs d) name with Some s => s | None => LinkDir [] [] end.

  (* tuple-with-trace plumbing *)
  Definition rt (A : Type) := (res A * World * list event)%type.
  Definition rt_fail {A B} (r : res A) (w : World) (tr : list event) : rt B :=
    match r with Ok _ => (Err e_unreachable, w, tr) | Err c => (Err c, w, tr) | Panic p => (Panic p, w, tr) end.

  (* ---- VerifySublayouts, relative to the recursive verifier [rec] ---- *)
  Definition verifier := World -> list str -> linkdir -> env -> amap key -> str -> amap str -> list str -> rt env.

  Section Sub.
    Variable rec : verifier.
    Variable layout : layout.
    Variable path : list str.
    Variable d : linkdir.
    Variable inter : list str.

    (* every layout-typed link of the (verified) map is verified recursively - with the key the layout
       defines for that key id as the only layout key, the sub-directory <step>.<keyid8> as link directory,
       no parameters - and replaced by its summary link *)
    Fixpoint sub_links (sname : str) (links : amap env) (w : World) (tr : list event) : rt (amap env) :=
      match links with
      | [] => (Ok [], w, tr)
      | (kid, e) :: r =>
        if env_is_layout e then
          let sk := match alookup (l_keys layout) kid with Some k => k | None => zero_key end in
          let dirn := sublayout_dir sname kid in
          match rec w (path ++ [dirn]) (lookup_subdir d dirn) e [(kid, sk)] sname [] inter with
          | (Ok summary, w', tr') =>
            match sub_links sname r w' (tr ++ [EvEnterSublayout path sname kid] ++ tr') with
            | (Ok r', w'', tr'') => (Ok ((kid, summary) :: r'), w'', tr'')
            | (x, w'', tr'') => rt_fail x w'' tr''
            end
          | (x, w', tr') => rt_fail x w' (tr ++ [EvEnterSublayout path sname kid] ++ tr')
          end
        else
          match sub_links sname r w tr with
          | (Ok r', w'', tr'') => (Ok ((kid, e) :: r'), w'', tr'')
          | (x, w'', tr'') => rt_fail x w'' tr''
          end
      end.

    Fixpoint sub_steps (m : amap (amap env)) (w : World) (tr : list event) : rt (amap (amap env)) :=
      match m with
      | [] => (Ok [], w, tr)
      | (sname, links) :: r =>
        match sub_links sname links w tr with
        | (Ok links', w', tr') =>
          match sub_steps r w' tr' with
          | (Ok r', w'', tr'') => (Ok ((sname, links') :: r'), w'', tr'')
          | (x, w'', tr'') => rt_fail x w'' tr''
          end
        | (x, w', tr') => rt_fail x w' tr'
        end
      end.
  End Sub.

  (* the stages after the links of a layout have been verified against the thresholds *)
  Definition after_thresholds (rec : verifier) (w : World) (path : list str) (d : linkdir) (layout : layout)
             (dsse : bool) (step_name : str) (inter : list str) (verified : amap (amap env)) : rt env :=
    match sub_steps rec layout path d inter verified w [EvLoadLinks path] with
    | (Ok resolved, w2, tr2) =>
      match cmd_alignment (l_steps layout) resolved with
      | Ok _ =>
        match reduce_steps (l_steps layout) resolved [] with
        | Ok reduced =>
          match env_links reduced with
          | Ok reduced_links =>
            match verify_rules (map step_item (l_steps layout)) reduced_links with
            | Ok _ =>
              match run_inspections path dsse w2 (l_inspect layout) [] tr2 with
              | (Ok (imeta, w3), tr3) =>
                match verify_rules (map insp_item (l_inspect layout)) (merge_steps reduced_links imeta) with
                | Ok _ =>
                  match get_summary layout reduced step_name dsse with
                  | Ok s => (Ok s, w3, tr3)
                  | x => rt_fail x w3 tr3
                  end
                | x => rt_fail x w3 tr3
                end
              | (x, tr3) => rt_fail x w2 tr3
              end
            | x => rt_fail x w2 tr2
            end
          | x => rt_fail x w2 tr2
          end
        | x => rt_fail x w2 tr2
        end
      | x => rt_fail x w2 tr2
      end
    | (x, w2, tr2) => rt_fail x w2 tr2
    end.

  (* one level of InTotoVerify; [rec] verifies sublayouts *)
  Definition verify_body (rec : verifier) : verifier :=
    fun w path d layout_env keys step_name params inter =>
    match verify_layout_signatures layout_env keys with
    | Ok _ =>
      let dsse := match e_wrapper layout_env with DSSE => true | Legacy => false end in
      match get_layout layout_env with
      | Ok layout0 =>
        if expiry_ok (l_expires layout0) then
          match subst layout0 params with
          | Ok layout =>
            if certs_ok layout inter then
              match load_all layout (ld_files d) with
              | Ok loaded =>
                match verify_thresholds layout inter loaded with
                | Ok verified => after_thresholds rec w path d layout dsse step_name inter verified
                | x => rt_fail x w [EvLoadLinks path]
                end
              | x => rt_fail x w [EvLoadLinks path]
              end
            else (Err e_certs, w, [])
          | x => rt_fail x w []
          end
        else (Err e_expired, w, [])
      | x => rt_fail x w []
      end
    | x => rt_fail x w []
    end.

  (* InTotoVerify.  [fuel] bounds the nesting depth of sublayouts (the real recursion is bounded by the
     depth of the link directory tree); exhaustion is the distinct error [e_fuel]. *)
  Fixpoint verify (fuel : nat) : verifier :=
    match fuel with
    | O => fun w _ _ _ _ _ _ _ => (Err e_fuel, w, [])
    | S fuel' => verify_body (verify fuel')
    end.

  (* InTotoVerifyWithDirectory: run-directory sanity checks, then the same pipeline with the
     inspections executed in the run directory (the choice of directory is inside [run_insp]/[World]) *)
  Variable rundir_ok : World -> bool.
  Definition verify_with_directory (fuel : nat) (w : World) (d : linkdir) (layout_env : env) (keys : amap key)
             (step_name : str) (params : amap str) (inter : list str) : rt env :=
    if rundir_ok w then verify fuel w [] d layout_env keys step_name params inter
    else (Err e_rundir, w, []).

End Pipeline.
