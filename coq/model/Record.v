(* Record.v — model of RecordArtifact / RecordArtifacts / recordArtifacts,
   InTotoRun / InTotoRecordStart / InTotoRecordStop (snapshot order) and
   InTotoMatchProducts (in_toto/runlib.go, in_toto/hashlib.go), as the code is
   now (F11, F12, F16 repaired).  No proofs here.

   Part 1 is the environment: the filesystem as an inductive tree, kernel path
   resolution (Lstat/Stat), filepath.EvalSymlinks, filepath.Clean/Join.
   Part 2 transcribes the Go code.

   External behaviour enters as Section variables:
     ignored : patterns -> visited path -> bool      pathspec.GitIgnore
     H       : algorithm -> bytes -> hex             SHA-2 (crypto/sha256, sha512)
     perm    : artifacts -> artifacts                the order in which Go ranges over a map
     cmd_sem : argv -> fs -> option (fs * byproducts) RunCommand (None = the command cannot be started)
     sig_ok  : bool                                  VerifySignature of the preliminary link
   Not modelled: unreadable *directories*, special files (fifo, socket, device),
   absolute paths and symlink targets that leave the tree (distinct error
   E_unsupported), concurrent modification of the tree during one call. *)
From IT Require Export model.Show.
From IT Require Import gen.Consts.

(* ------------------------------------------------------------------ *)
(* Part 1: filesystem                                                  *)
(* ------------------------------------------------------------------ *)

Inductive node : Type :=
| File (content : str) (readable : bool)
| Dir (entries : list (str * node))      (* in the order of readDirNames (lexical) *)
| Symlink (target : str).

(* a physical location: component names from the root (= working directory) *)
Definition cpath := list str.

(* error classes *)
Definition E_noent : N := 1.         (* Lstat/Stat/EvalSymlinks: no such file *)
Definition E_notdir : N := 2.
Definition E_loop : N := 3.          (* too many links (EvalSymlinks: 255, kernel: 40) *)
Definition E_unsupported : N := 4.   (* absolute path / target outside the modelled tree *)
Definition E_perm : N := 5.          (* unreadable file *)
Definition E_hash : N := 6.          (* ErrUnsupportedHashAlgorithm *)
Definition E_dup : N := 7.           (* non unique dictionary key *)
Definition E_symcycle : N := 8.      (* ErrSymCycle *)
Definition E_fuel : N := 9.          (* model fuel exhausted: excluded by the fuel lemmas *)
Definition E_cmd : N := 10.          (* RunCommand: the command cannot be started *)
Definition E_sig : N := 11.          (* InTotoRecordStop: preliminary link signature invalid *)

Definition slash : N := 47.
Definition dot : str := [46].
Definition dotdot : str := [46; 46].

Definition is_dir (n : node) : bool := match n with Dir _ => true | _ => false end.
Definition is_symlink (n : node) : bool := match n with Symlink _ => true | _ => false end.

Fixpoint find_entry (es : list (str * node)) (name : str) : option node :=
  match es with
  | [] => None
  | (k, n) :: es' => if str_eqb name k then Some n else find_entry es' name
  end.

(* the object at a physical location; symbolic links are not traversed *)
Fixpoint lookup (n : node) (p : cpath) : option node :=
  match p with
  | [] => Some n
  | c :: p' =>
      match n with
      | Dir es => match find_entry es c with Some ch => lookup ch p' | None => None end
      | _ => None
      end
  end.

(* strings.Split(s, "/") *)
Fixpoint fp_split (s : str) : list str :=
  match s with
  | [] => [[]]
  | c :: s' =>
      if N.eqb c slash then [] :: fp_split s'
      else match fp_split s' with
           | h :: t => (c :: h) :: t
           | [] => [[c]]                       (* unreachable *)
           end
  end.

Definition is_abs (s : str) : bool := match s with c :: _ => N.eqb c slash | [] => false end.

(* filepath.Clean (same formulation as model/Clean.v: split on '/', drop ""
   and ".", ".." pops a kept segment that is not "..", is dropped at the root
   of a rooted path and kept otherwise) *)
Definition clean_step (rooted : bool) (stack : list str) (seg : str) : list str :=
  if is_nil seg || str_eqb seg dot then stack
  else if str_eqb seg dotdot then
    match stack with
    | top :: rest => if str_eqb top dotdot then seg :: stack else rest
    | [] => if rooted then [] else [seg]
    end
  else seg :: stack.

Definition fp_clean (p : str) : str :=
  let rooted := is_abs p in
  let body := join [slash] (rev (fold_left (clean_step rooted) (fp_split p) [])) in
  let out := if rooted then slash :: body else body in
  if is_nil out then dot else out.

(* filepath.Join(a, b): the first non-empty element and everything after it
   are joined with "/" and cleaned; all empty gives "" *)
Definition fp_join (a b : str) : str :=
  if negb (is_nil a) then fp_clean (a ++ slash :: b)
  else if negb (is_nil b) then fp_clean b
  else [].

(* the path string of a physical location *)
Definition render (p : cpath) : str := if is_nil p then dot else join [slash] p.

Fixpoint count_symlinks (n : node) : nat :=
  match n with
  | File _ _ => 0%nat
  | Symlink _ => 1%nat
  | Dir es => (fix go (es : list (str * node)) : nat :=
                 match es with [] => 0%nat | (_, ch) :: es' => (count_symlinks ch + go es')%nat end) es
  end.

(* longest symlink target in the tree, in segments *)
Fixpoint max_target_segs (n : node) : nat :=
  match n with
  | File _ _ => 0%nat
  | Symlink t => length (fp_split t)
  | Dir es => (fix go (es : list (str * node)) : nat :=
                 match es with [] => 0%nat | (_, ch) :: es' => Nat.max (max_target_segs ch) (go es') end) es
  end.

Section FS.
  Variable root : node.

  (* Path resolution, the loop of filepath.walkSymlinks (and of the kernel):
     [dest] is the resolved prefix (reversed; it never contains a symbolic
     link), [todo] the remaining segments.  "" and "." are skipped, ".." drops
     the last resolved segment, a symbolic link is replaced by its target.
     With [follow_last = false] a symbolic link in final position is returned
     itself (Lstat). *)
  Fixpoint resolve (fuel : nat) (follow_last : bool) (maxlinks links : nat)
           (dest : list str) (todo : list str) : res cpath :=
    match fuel with
    | O => Err E_fuel
    | S f =>
      match todo with
      | [] => Ok (rev dest)
      | c :: rest =>
        if is_nil c || str_eqb c dot then resolve f follow_last maxlinks links dest rest
        else if str_eqb c dotdot then
          match dest with
          | [] => Err E_unsupported                 (* leaves the working directory *)
          | _ :: d' => resolve f follow_last maxlinks links d' rest
          end
        else
          match lookup root (rev (c :: dest)) with
          | None => Err E_noent
          | Some (Dir _) => resolve f follow_last maxlinks links (c :: dest) rest
          | Some (File _ _) => if is_nil rest then Ok (rev (c :: dest)) else Err E_notdir
          | Some (Symlink link) =>
              if negb follow_last && is_nil rest then Ok (rev (c :: dest))
              else if Nat.leb maxlinks links then Err E_loop
              else if is_abs link then Err E_unsupported
              else resolve f follow_last maxlinks (S links) dest (fp_split link ++ rest)
          end
      end
    end.

  Definition resolve_fuel (maxlinks : nat) (s : str) : nat :=
    (S (length (fp_split s)) + S maxlinks * S (max_target_segs root))%nat.

  Definition resolve_str (follow_last : bool) (maxlinks : nat) (s : str) : res cpath :=
    if is_nil s then Err E_noent
    else if is_abs s then Err E_unsupported
    else resolve (resolve_fuel maxlinks s) follow_last maxlinks 0%nat [] (fp_split s).

  Definition at_path (r : res cpath) : res node :=
    do p <- r; match lookup root p with Some n => Ok n | None => Err E_noent end.

  Definition lstat (s : str) : res node := at_path (resolve_str false 40%nat s).
  Definition stat (s : str) : res node := at_path (resolve_str true 40%nat s).

  (* filepath.EvalSymlinks: at most 255 links, result cleaned *)
  Definition realpath (s : str) : res cpath := resolve_str true 255%nat s.
  Definition eval_symlinks (s : str) : res str := do p <- realpath s; Ok (render p).
End FS.

(* ------------------------------------------------------------------ *)
(* Part 2: the Go code                                                 *)
(* ------------------------------------------------------------------ *)

(* bytes.ReplaceAll(contents, "\r\n", "\n") *)
Fixpoint replace_crlf (s : str) : str :=
  match s with
  | [] => []
  | c :: t =>
      match t with
      | d :: t' => if N.eqb c 13 && N.eqb d 10 then 10 :: replace_crlf t' else c :: replace_crlf t
      | [] => [c]
      end
  end.
(* bytes.ReplaceAll(contents, "\r", "\n") *)
Definition replace_cr (s : str) : str := map (fun c => if N.eqb c 13 then 10 else c) s.
Definition normalise (s : str) : str := replace_cr (replace_crlf s).

(* the left-strip loop: first prefix in list order that matches, then break *)
Fixpoint lstrip (strips : list str) (p : str) : str :=
  match strips with
  | [] => p
  | s :: rest => if has_prefix p s then trim_prefix p s else lstrip rest p
  end.

(* Set.Remove *)
Definition sremove (s : list str) (x : str) : list str := filter (fun y => negb (str_eqb y x)) s.

(* canonical order for comparing maps *)
Fixpoint kinsert {V} (kv : str * V) (l : amap V) : amap V :=
  match l with
  | [] => [kv]
  | kv' :: l' => if str_leb (fst kv) (fst kv') then kv :: l else kv' :: kinsert kv l'
  end.
Definition ksort {V} (l : amap V) : amap V := fold_right kinsert [] l.
Definition canon_artifacts (a : artifacts) : artifacts := ksort (map (fun kv => (fst kv, ksort (snd kv))) a).

Section Record.
  Variable ignored : list str -> str -> bool.
  Variable H : str -> str -> str.
  Variable perm : artifacts -> artifacts.

  Section Call.
    Variable root : node.
    Variables (algs pats : list str) (norm follow : bool).

    (* RecordArtifact: ReadFile, optional normalisation, one digest per
       requested algorithm in the order given; an algorithm missing from
       getHashMapping (gen/Consts.v) is an error *)
    Fixpoint hash_loop (l : list str) (contents : str) (acc : hashobj) : res hashobj :=
      match l with
      | [] => Ok acc
      | a :: rest =>
          if mem a t_getHashMapping then hash_loop rest contents (ainsert acc a (H a contents))
          else Err E_hash
      end.

    Definition record_artifact (content : str) (readable : bool) : res hashobj :=
      if negb readable then Err E_perm
      else hash_loop algs (if norm then normalise content else content) [].

    Definition add_artifact (arts : artifacts) (k : str) (v : hashobj) : res artifacts :=
      if ahas arts k then Err E_dup else Ok (ainsert arts k v).

    (* the loop over the artifacts returned for a symlink's target *)
    Fixpoint merge_sym (path evalSym : str) (isdir : bool) (strips : list str)
             (evs : artifacts) (arts : artifacts) : res artifacts :=
      match evs with
      | [] => Ok arts
      | (key, value) :: rest =>
          let sp := if isdir then fp_join path (trim_prefix key evalSym) else path in
          do arts' <- add_artifact arts (lstrip strips sp) value;
          merge_sym path evalSym isdir strips rest arts'
      end.

    Section Walk.
      (* recordArtifacts([]string{evalSym}, …, nil, …, visitedSymlinks), one level down *)
      Variable recurse : str -> list str -> res (artifacts * list str).
      Variable strips : list str.

      Definition visit_file (path content : str) (readable : bool) (st : artifacts * list str)
        : res (artifacts * list str) :=
        do h <- record_artifact content readable;
        do arts' <- add_artifact (fst st) (lstrip strips path) h;
        Ok (arts', snd st).

      Definition visit_symlink (path : str) (st : artifacts * list str) : res (artifacts * list str) :=
        if mem path (snd st) then Err E_symcycle
        else
          do evalSym <- eval_symlinks root path;
          do tgt <- stat root evalSym;
          if is_dir tgt && negb follow then Ok st
          else
            do r <- recurse evalSym (sadd (snd st) path);
            let visited' := sremove (snd r) path in
            do arts' <- merge_sym path evalSym (is_dir tgt) strips (perm (fst r)) (fst st);
            Ok (arts', visited').

      (* filepath.Walk below one root, with the walk function inlined.  The
         walk function returns nil for a directory whether it is ignored or
         not (never SkipDir), so the children are always visited. *)
      Fixpoint walk (path : str) (n : node) (st : artifacts * list str) {struct n}
        : res (artifacts * list str) :=
        match n with
        | Dir es =>
            (fix entries (es : list (str * node)) (st : artifacts * list str) {struct es} :=
               match es with
               | [] => Ok st
               | (name, ch) :: es' => do st' <- walk (fp_join path name) ch st; entries es' st'
               end) es st
        | File content readable =>
            if ignored pats path then Ok st else visit_file path content readable st
        | Symlink _ =>
            if ignored pats path then Ok st else visit_symlink path st
        end.
    End Walk.

    (* recordArtifacts: one fresh map per call, all paths walked into it *)
    Fixpoint record_fuel (fuel : nat) (paths strips visited : list str) {struct fuel}
      : res (artifacts * list str) :=
      match fuel with
      | O => Err E_fuel
      | S f =>
          (fix loop (ps : list str) (st : artifacts * list str) {struct ps} :=
             match ps with
             | [] => Ok st
             | p :: rest =>
                 do n <- lstat root p;
                 do st' <- walk (fun e v => record_fuel f [e] [] v) strips p n st;
                 loop rest st'
             end) paths ([], visited)
      end.

    Definition to_slash (s : str) : str := s.      (* filepath.ToSlash on Linux *)

    Definition record_artifacts (paths strips : list str) : res artifacts :=
      do r <- record_fuel (S (count_symlinks root)) paths strips [];
      Ok (fold_left (fun acc kv => ainsert acc (to_slash (fst kv)) (snd kv)) (perm (fst r)) []).
  End Call.

  (* ---------------- run / record start / record stop ---------------- *)

  Variable cmd_sem : list str -> node -> option (node * list (str * jv)).
  Definition link_type : str := bs "link".

  Definition in_toto_run (root : node) (name : str) (mat_paths prod_paths cmd algs pats strips : list str)
             (norm follow : bool) : res link :=
    do materials <- record_artifacts root algs pats norm follow mat_paths strips;
    do after <- (if is_nil cmd then Ok (root, @nil (str * jv))
                 else match cmd_sem cmd root with Some r => Ok r | None => Err E_cmd end);
    do products <- record_artifacts (fst after) algs pats norm follow prod_paths strips;
    Ok (mkLink link_type name materials products (snd after) cmd []).

  Definition record_start (root : node) (name : str) (mat_paths algs pats strips : list str)
             (norm follow : bool) : res link :=
    do materials <- record_artifacts root algs pats norm follow mat_paths strips;
    Ok (mkLink link_type name materials [] [] [] []).

  Definition record_stop (sig_ok : bool) (root : node) (prelim : link) (prod_paths algs pats strips : list str)
             (norm follow : bool) : res link :=
    if negb sig_ok then Err E_sig
    else
      do products <- record_artifacts root algs pats norm follow prod_paths strips;
      Ok (mkLink (ln_type prelim) (ln_name prelim) (ln_materials prelim) products
                 (ln_byproducts prelim) (ln_command prelim) (ln_environment prelim)).

  (* ---------------- InTotoMatchProducts ---------------- *)

  Definition opt_str_eqb (a b : option str) : bool :=
    match a, b with
    | Some x, Some y => str_eqb x y
    | None, None => true
    | _, _ => false
    end.
  (* reflect.DeepEqual on two map[string]string *)
  Definition hashobj_eqb (a b : hashobj) : bool :=
    forallb (fun k => opt_str_eqb (alookup a k) (alookup b k)) (akeys a ++ akeys b).

  Definition new_set (l : list str) : list str := fold_left sadd l [].

  Definition match_products (root : node) (products : artifacts) (paths algs excl strips : list str)
    : res (list str * list str * list str) :=
    let paths := if is_nil paths then [dot] else paths in
    do arts <- record_artifacts root algs excl false false paths strips;
    let artifacts_set := new_set (akeys (perm arts)) in
    let products_set := new_set (akeys (perm products)) in
    let only_in_products := sdiff products_set artifacts_set in
    let not_in_products := sdiff artifacts_set products_set in
    let in_both := sinter artifacts_set products_set in
    let differ := filter (fun name =>
                    match alookup products name, alookup arts name with
                    | Some lh, Some ah => negb (hashobj_eqb lh ah)
                    | _, _ => false                    (* unreachable: name is in both *)
                    end) in_both in
    Ok (only_in_products, not_in_products, differ).
End Record.

(* observables compared with the implementation *)
Definition show_record (r : res artifacts) : str := show_res (fun a => show_artifacts (canon_artifacts a)) r.
Definition show_link_snapshots (r : res link) : str :=
  show_res (fun l => show_artifacts (canon_artifacts (ln_materials l)) ++ show_artifacts (canon_artifacts (ln_products l))) r.
Definition show_match (r : res (list str * list str * list str)) : str :=
  show_res (fun t => match t with (a, b, c) => show_strs (ssort a) ++ show_strs (ssort b) ++ show_strs (ssort c) end) r.

(* instantiations used for execution (cases files): the exclude oracle is the
   table of excluded paths computed by the library, the hash is a tag *)
Definition ignored_table (tbl : list str) : list str -> str -> bool := fun _ s => mem s tbl.
Definition hex_digit (d : N) : N := if d <? 10 then 48 + d else 87 + d.
Definition hex_str (b : str) : str := concat_str (map (fun c => [hex_digit (c / 16); hex_digit (c mod 16)]) b).
(* long inputs are tagged by their length and a 40-bit shift-add hash (tail recursive, cheap in vm_compute) *)
Definition h40 (b : str) : N := fold_left (fun h c => N.land (N.shiftl h 5 + h + c) 1099511627775) b 5381.
Definition len_N (b : str) : N := fold_left (fun n _ => n + 1) b 0.
Definition tag_hash : str -> str -> str := fun alg b =>
  alg ++ [58] ++ (if is_nil (skipn 64 b) then hex_str b else [35] ++ show_N (len_N b) ++ [46] ++ show_N (h40 b)).
(* compact description of large file contents in cases files *)
Definition rep_bytes (n c : N) : str := N.iter n (cons c) [].
Definition id_perm : artifacts -> artifacts := fun a => a.
