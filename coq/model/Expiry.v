(* Expiry.v — model of VerifyLayoutExpiration (in_toto/verifylib.go):

     expires, err := time.Parse(ISO8601DateSchema, layout.Expires)
     if err != nil { return err }
     if time.Until(expires) < 0 { return fmt.Errorf("layout has expired ...") }
     return nil

   i.e. of Go's time.Parse (go1.23 src/time/format.go, func parse) for the one
   layout string "2006-01-02T15:04:05Z", of time.Date (src/time/time.go) for the
   fields Parse hands over, and of time.Until / Time.Sub.  No proofs here.

   Applying nextStdChunk repeatedly to that layout yields the (prefix, std) pairs
       ("",stdLongYear) ("-",stdZeroMonth) ("-",stdZeroDay) ("T",stdHour)
       (":",stdZeroMinute) (":",stdZeroSecond)
   and finally prefix "Z" with std = 0 ("Z" alone is not a zone element; only
   "Z07", "Z0700", "Z07:00", ... are).  [iso_chunks]/[iso_tail] record this and
   [layout_text] glues them back so that props/C06.v can check it against the
   constant regenerated from the Go source (gen/Consts.v).

   Instants are integers: Unix seconds and nanoseconds within the second, and
   [parse_expiry_ns] = seconds * 10^9 + nanoseconds (may be negative).  The
   clock reading `now` is an input, in nanoseconds since the Unix epoch. *)
From IT Require Export model.Base.
Local Open Scope Z_scope.

(* error classes (never compared with the implementation, only Ok/Err is) *)
Definition e_bad     : N := 601%N.   (* errBad: "cannot parse ... as ..." *)
Definition e_range   : N := 602%N.   (* "<field> out of range" *)
Definition e_extra   : N := 603%N.   (* "extra text" *)
Definition e_day     : N := 604%N.   (* "day out of range" *)
Definition e_expired : N := 605%N.   (* "layout has expired on ..." *)

Definition dval (c : N) : Z := Z.of_N c - 48.

(* func isDigit(s, i) : len(s) > i && '0' <= s[i] <= '9' *)
Definition is_digit_at (s : str) (i : nat) : bool :=
  match nth_error s i with Some c => is_digit c | None => false end.

(* func commaOrPeriod(b) *)
Definition comma_or_period (c : N) : bool := N.eqb c 46 || N.eqb c 44.

(* func getnum(s, fixed): s[0:1] or s[0:2] (fixed forces two digits); None = errBad *)
Definition getnum (s : str) (fixed : bool) : option (Z * str) :=
  if negb (is_digit_at s 0) then None
  else if negb (is_digit_at s 1) then
    (if fixed then None
     else match s with c0 :: r => Some (dval c0, r) | [] => None end)
  else match s with
       | c0 :: c1 :: r => Some (dval c0 * 10 + dval c1, r)
       | _ => None
       end.

(* func leadingInt(s): consumes [0-9]*, overflow => error (None) *)
Fixpoint leading_int (x : Z) (s : str) : option (Z * str) :=
  match s with
  | [] => Some (x, [])
  | c :: r =>
      if negb (is_digit c) then Some (x, s)
      else if x >? 9223372036854775808 / 10 then None
      else let x' := x * 10 + Z.of_N c - 48 in
           if x' >? 9223372036854775808 then None else leading_int x' r
  end.

(* func atoi(s): optional sign, then digits only; None = errAtoi *)
Definition atoi (s : str) : option Z :=
  let '(neg, s1) := match s with
                    | c :: r => if N.eqb c 45 || N.eqb c 43 then (N.eqb c 45, r) else (false, s)
                    | [] => (false, s)
                    end in
  match leading_int 0 s1 with
  | Some (q, []) => Some (if neg then - q else q)
  | _ => None
  end.

(* func skip(value, prefix): the prefixes of this layout contain no space, so
   the space-collapsing branch of skip is not reachable and not transcribed *)
Fixpoint skip (value prefix : str) {struct prefix} : option str :=
  match prefix with
  | [] => Some value
  | p :: prefix' =>
      match value with
      | v :: value' => if N.eqb v p then skip value' prefix' else None
      | [] => None
      end
  end.

(* func parseNanoseconds(value, nbytes): value[0] is the separator, value[1:nbytes]
   digits; at most 9 digits are used, the result is scaled to nanoseconds *)
Definition parse_nanoseconds (value : str) (nbytes : nat) : res Z :=
  match value with
  | [] => Err e_bad                                     (* value[0] (guarded by the caller) *)
  | c0 :: _ =>
    if negb (comma_or_period c0) then Err e_bad
    else
      let '(value, nbytes) := if Nat.ltb 10 nbytes then (firstn 10 value, 10%nat) else (value, nbytes) in
      match atoi (skipn 1 (firstn nbytes value)) with
      | None => Err e_bad
      | Some ns =>
          if ns <? 0 then Err e_range
          else Ok (Nat.iter (10 - nbytes) (fun ns => ns * 10) ns)
      end
  end.

(* number of leading digits of value from index n on:  for ; n < len(value) && isDigit(value, n); n++ {} *)
Fixpoint count_digits (s : str) : nat :=
  match s with
  | c :: r => if is_digit c then S (count_digits r) else O
  | [] => O
  end.

(* func isLeap, daysBefore, daysIn *)
Definition is_leap (year : Z) : bool :=
  (year mod 4 =? 0) && (negb (year mod 100 =? 0) || (year mod 400 =? 0)).

Definition days_before (m : Z) : Z :=   (* daysBefore[m], m = 0..12 *)
  match m with
  | 0 => 0 | 1 => 31 | 2 => 59 | 3 => 90 | 4 => 120 | 5 => 151 | 6 => 181
  | 7 => 212 | 8 => 243 | 9 => 273 | 10 => 304 | 11 => 334 | 12 => 365
  | _ => 0
  end.

Definition days_in (m year : Z) : Z :=
  if (m =? 2) && is_leap year then 29 else days_before m - days_before (m - 1).

(* the time being constructed by parse *)
Record ptime := mkPT { p_year : Z; p_month : Z; p_day : Z; p_hour : Z; p_min : Z; p_sec : Z; p_nsec : Z }.

Inductive stdk := StdLongYear | StdZeroMonth | StdZeroDay | StdHour | StdZeroMinute | StdZeroSecond.

Definition iso_chunks : list (str * stdk) :=
  [ ([], StdLongYear); (bs "-", StdZeroMonth); (bs "-", StdZeroDay);
    (bs "T", StdHour); (bs ":", StdZeroMinute); (bs ":", StdZeroSecond) ].
Definition iso_tail : str := bs "Z".

Definition std_text (k : stdk) : str :=
  match k with
  | StdLongYear => bs "2006" | StdZeroMonth => bs "01" | StdZeroDay => bs "02"
  | StdHour => bs "15" | StdZeroMinute => bs "04" | StdZeroSecond => bs "05"
  end.
Definition layout_text (chunks : list (str * stdk)) (tail : str) : str :=
  concat_str (map (fun c => fst c ++ std_text (snd c)) chunks) ++ tail.

(* one pass through the body of the `switch std & stdMask` of parse, followed by
      if rangeErrString != "" { return error };  if err != nil { return error }  *)
Definition parse_std (k : stdk) (st : ptime) (value : str) : res (ptime * str) :=
  match k with
  | StdLongYear =>
      (* if len(value) < 4 || !isDigit(value, 0) { err = errBad; break }
         p, value = value[0:4], value[4:];  year, err = atoi(p) *)
      if Nat.ltb (length value) 4 || negb (is_digit_at value 0) then Err e_bad
      else match atoi (firstn 4 value) with
           | None => Err e_bad
           | Some y => Ok (mkPT y (p_month st) (p_day st) (p_hour st) (p_min st) (p_sec st) (p_nsec st), skipn 4 value)
           end
  | StdZeroMonth =>
      (* month, value, err = getnum(value, true); if err == nil && (month <= 0 || 12 < month) range *)
      match getnum value true with
      | None => Err e_bad
      | Some (m, v) =>
          if (m <=? 0) || (12 <? m) then Err e_range
          else Ok (mkPT (p_year st) m (p_day st) (p_hour st) (p_min st) (p_sec st) (p_nsec st), v)
      end
  | StdZeroDay =>
      (* day, value, err = getnum(value, true); any two-digit day here, validated after the loop *)
      match getnum value true with
      | None => Err e_bad
      | Some (d, v) => Ok (mkPT (p_year st) (p_month st) d (p_hour st) (p_min st) (p_sec st) (p_nsec st), v)
      end
  | StdHour =>
      (* hour, value, err = getnum(value, false)   -- NOT fixed: one or two digits
         if hour < 0 || 24 <= hour range *)
      match getnum value false with
      | None => Err e_bad
      | Some (h, v) =>
          if (h <? 0) || (24 <=? h) then Err e_range
          else Ok (mkPT (p_year st) (p_month st) (p_day st) h (p_min st) (p_sec st) (p_nsec st), v)
      end
  | StdZeroMinute =>
      match getnum value true with
      | None => Err e_bad
      | Some (m, v) =>
          if (m <? 0) || (60 <=? m) then Err e_range
          else Ok (mkPT (p_year st) (p_month st) (p_day st) (p_hour st) m (p_sec st) (p_nsec st), v)
      end
  | StdZeroSecond =>
      (* sec, value, err = getnum(value, true); if err != nil break
         if sec < 0 || 60 <= sec range
         if len(value) >= 2 && commaOrPeriod(value[0]) && isDigit(value, 1) {
             next std chunk of the remaining layout ("Z": none) is not a fractional second, hence:
             n := 2; for ; n < len(value) && isDigit(value, n); n++ {}
             nsec, rangeErrString, err = parseNanoseconds(value, n); value = value[n:] } *)
      match getnum value true with
      | None => Err e_bad
      | Some (s, v) =>
          if (s <? 0) || (60 <=? s) then Err e_range
          else
            let st1 := mkPT (p_year st) (p_month st) (p_day st) (p_hour st) (p_min st) s (p_nsec st) in
            match v with
            | c0 :: _ :: _ =>
                if comma_or_period c0 && is_digit_at v 1 then
                  let n := (2 + count_digits (skipn 2 v))%nat in
                  match parse_nanoseconds v n with
                  | Ok ns => Ok (mkPT (p_year st) (p_month st) (p_day st) (p_hour st) (p_min st) s ns, skipn n v)
                  | Err c => Err c
                  | Panic p => Panic p
                  end
                else Ok (st1, v)
            | _ => Ok (st1, v)
            end
      end
  end.

(* for { prefix, std, suffix := nextStdChunk(layout); value, err = skip(value, prefix) ...
         if std == 0 { if len(value) != 0 { extra text }; break } ... } *)
Fixpoint parse_loop (chunks : list (str * stdk)) (tail : str) (st : ptime) (value : str) : res ptime :=
  match chunks with
  | [] =>
      match skip value tail with
      | None => Err e_bad
      | Some v => if is_nil v then Ok st else Err e_extra
      end
  | (prefix, k) :: rest =>
      match skip value prefix with
      | None => Err e_bad
      | Some v =>
          match parse_std k st v with
          | Ok (st', v') => parse_loop rest tail st' v'
          | Err c => Err c
          | Panic p => Panic p
          end
      end
  end.

(* func norm(hi, lo, base) *)
Definition norm (hi lo base : Z) : Z * Z :=
  let '(hi, lo) := if lo <? 0 then let n := Z.quot (- lo - 1) base + 1 in (hi - n, lo + n * base) else (hi, lo) in
  if lo >=? base then let n := Z.quot lo base in (hi + n, lo - n * base) else (hi, lo).

(* func daysSinceEpoch(year): days from the absolute epoch (year -292277022399) *)
Definition absolute_zero_year : Z := -292277022399.
Definition days_since_epoch (year : Z) : Z :=
  let y := year - absolute_zero_year in
  let n := y / 400 in let y := y - 400 * n in let d := 146097 * n in
  let n := y / 100 in let y := y - 100 * n in let d := d + 36524 * n in
  let n := y / 4 in let y := y - 4 * n in let d := d + 1461 * n in
  d + 365 * y.

Definition absolute_to_internal : Z := -9223371966579724800.  (* (absoluteZeroYear - 1) * 365.2425 * 86400 *)
Definition internal_to_unix : Z := -62135596800.               (* -(1969*365 + 1969/4 - 1969/100 + 1969/400) * 86400 *)

(* func Date(year, month, day, hour, min, sec, nsec, UTC) -> (Unix seconds, nanoseconds).
   Go computes with uint64/int64 wrap-around; all intermediate values here are the
   mathematical integers, equal modulo 2^64, and the result lies within int64 for
   every year Parse can deliver (0..9999), so the wrap-around is not observable. *)
Definition go_date (t : ptime) : Z * Z :=
  let '(year, m) := norm (p_year t) (p_month t - 1) 12 in
  let month := m + 1 in
  let '(sec, nsec) := norm (p_sec t) (p_nsec t) 1000000000 in
  let '(mi, sec) := norm (p_min t) sec 60 in
  let '(hour, mi) := norm (p_hour t) mi 60 in
  let '(day, hour) := norm (p_day t) hour 24 in
  let d := days_since_epoch year in
  let d := d + days_before (month - 1) in
  let d := if is_leap year && (3 <=? month) then d + 1 else d in
  let d := d + (day - 1) in
  let abs := d * 86400 in
  let abs := abs + (hour * 3600 + mi * 60 + sec) in
  (abs + (absolute_to_internal + internal_to_unix), nsec).

(* func parse(layout = ISO8601DateSchema, value, UTC, Local) *)
Definition parse_time (value : str) : res (Z * Z) :=
  match parse_loop iso_chunks iso_tail (mkPT 0 (-1) (-1) 0 0 0 0) value with
  | Err c => Err c
  | Panic p => Panic p
  | Ok st =>
      (* no pm/am, no yday: if month < 0 { month = January }; if day < 0 { day = 1 } *)
      let month := if p_month st <? 0 then 1 else p_month st in
      let day := if p_day st <? 0 then 1 else p_day st in
      (* if day < 1 || day > daysIn(Month(month), year) { day out of range } *)
      if (day <? 1) || (days_in month (p_year st) <? day) then Err e_day
      else
        (* z == nil, zoneOffset == -1, zoneName == "": Date(..., defaultLocation = UTC) *)
        Ok (go_date (mkPT (p_year st) month day (p_hour st) (p_min st) (p_sec st) (p_nsec st)))
  end.

Definition parse_expiry (s : str) : option (Z * Z) :=
  match parse_time s with Ok t => Some t | _ => None end.

Definition ns_of (t : Z * Z) : Z := fst t * 1000000000 + snd t.

Definition parse_expiry_ns (s : str) : option Z :=
  match parse_expiry s with Some t => Some (ns_of t) | None => None end.

(* time.Until(t) = t.Sub(time.Now()): t carries no monotonic reading (it comes from
   Parse), so Sub takes the wall-clock path
       d := Duration(t.sec()-u.sec())*Second + Duration(t.nsec()-u.nsec())
   and replaces d by minDuration / maxDuration when the true difference does not
   fit into an int64 of nanoseconds (about +-292 years).  The saturation is kept
   in the model; proofs/ExpiryProofs.v shows it never changes the sign. *)
Definition min_duration : Z := -9223372036854775808.
Definition max_duration : Z := 9223372036854775807.
Definition time_sub (t_ns u_ns : Z) : Z :=
  let d := t_ns - u_ns in
  if (min_duration <=? d) && (d <=? max_duration) then d
  else if t_ns <? u_ns then min_duration else max_duration.
Definition time_until (now_ns t_ns : Z) : Z := time_sub t_ns now_ns.

(* func VerifyLayoutExpiration(layout) with layout.Expires = expires and the clock reading now_ns *)
Definition verify_expiration (now_ns : Z) (expires : str) : res unit :=
  match parse_time expires with
  | Err c => Err c
  | Panic p => Panic p
  | Ok t => if time_until now_ns (ns_of t) <? 0 then Err e_expired else Ok tt
  end.
