(* RulesInst.v — the rule model instantiated with the glob model of C17. *)
From IT Require Export model.Rules model.Glob.

Definition verify_match_rule_go := verify_match_rule gmatch_bool.
Definition apply_rule_go := apply_rule gmatch_bool.
Definition verify_rules_go := verify_rules gmatch_bool.
Definition verify_item_go := verify_item gmatch_bool.
Definition verify_artifacts_go := verify_artifacts gmatch_bool.
