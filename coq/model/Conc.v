(* Conc.v — interleaving semantics of library calls running as threads (property C16).

   A thread is one library call.  What it does to the state shared by all calls of
   the process -- the package-level variables of in_toto, inventoried from the Go
   source in gen/Globals.v -- is a sequence of atomic actions

        Read g   |   Write g v   |   Local

   and everything else (arguments, locals, the files below its own directory, its
   own metadata objects) is thread-local: it lives in the continuation.  A thread's
   program is a function of what it reads: [Read g k] continues with [k v] where
   [v] is the value found in the shared store.

   The scheduler picks, step by step, which thread performs its next atomic action
   (a schedule is a list of thread numbers; naming a finished or non-existent thread
   is a stutter step).  No fairness, no bound on the number of threads or on the
   length of programs.

   Definitions only; the proofs are in proofs/ConcProofs.v. *)
From IT Require Import model.Base.

Section Conc.
Context {V L : Type}.     (* values of shared variables; results of calls *)

Definition var := str.    (* a package-level variable, by name *)
Definition store := var -> V.

Definition upd (s : store) (g : var) (v : V) : store :=
  fun g' => if str_eqb g' g then v else s g'.

Inductive prog : Type :=
| Done (r : L)                       (* the call has returned r *)
| Local (k : prog)                   (* a step on thread-local state only *)
| Read (g : var) (k : V -> prog)     (* atomic read of a shared variable *)
| Write (g : var) (v : V) (k : prog) (* atomic write of a shared variable *).

Definition config : Type := store * list prog.

(* one atomic action of a thread; a finished thread stays as it is *)
Definition step1 (s : store) (p : prog) : store * prog :=
  match p with
  | Done r => (s, Done r)
  | Local k => (s, k)
  | Read g k => (s, k (s g))
  | Write g v k => (upd s g v, k)
  end.

Fixpoint upd_nth {A} (i : nat) (x : A) (l : list A) : list A :=
  match l, i with
  | [], _ => []
  | _ :: l', O => x :: l'
  | y :: l', S j => y :: upd_nth j x l'
  end.

(* thread i performs its next action *)
Definition step_at (i : nat) (c : config) : config :=
  match nth_error (snd c) i with
  | Some p => let sp := step1 (fst c) p in (fst sp, upd_nth i (snd sp) (snd c))
  | None => c
  end.

(* an interleaving: the schedule says who moves next *)
Fixpoint run (sched : list nat) (c : config) : config :=
  match sched with
  | [] => c
  | i :: sc => run sc (step_at i c)
  end.

(* a call executed from start to end without interruption (big step) *)
Fixpoint exec (s : store) (p : prog) : store * L :=
  match p with
  | Done r => (s, r)
  | Local k => exec s k
  | Read g k => exec s (k (s g))
  | Write g v k => exec (upd s g v) k
  end.

(* the calls made one after the other, in the given order, on the same shared store *)
Definition seq_step (i : nat) (c : config) : config :=
  match nth_error (snd c) i with
  | Some p => let sr := exec (fst c) p in (fst sr, upd_nth i (Done (snd sr)) (snd c))
  | None => c
  end.

Fixpoint seq_run (order : list nat) (c : config) : config :=
  match order with
  | [] => c
  | i :: o => seq_run o (seq_step i c)
  end.

(* a thread running alone for n steps *)
Fixpoint alone (n : nat) (sp : store * prog) : store * prog :=
  match n with
  | O => sp
  | S m => let sp' := alone m sp in step1 (fst sp') (snd sp')
  end.

Definition result_of (p : prog) : option L :=
  match p with Done r => Some r | _ => None end.
Definition is_done (p : prog) : bool :=
  match p with Done _ => true | _ => false end.

Definition results (c : config) : list (option L) := map result_of (snd c).
Definition finished (c : config) : bool := forallb is_done (snd c).

(* footprints: the shared variables a program may write / may read, on any path *)
Inductive writes : prog -> var -> Prop :=
| writes_here g v k : writes (Write g v k) g
| writes_after_write g v k g' : writes k g' -> writes (Write g v k) g'
| writes_after_local k g : writes k g -> writes (Local k) g
| writes_after_read g k v g' : writes (k v) g' -> writes (Read g k) g'.

Inductive reads : prog -> var -> Prop :=
| reads_here g k : reads (Read g k) g
| reads_after_read g k v g' : reads (k v) g' -> reads (Read g k) g'
| reads_after_local k g : reads k g -> reads (Local k) g
| reads_after_write g v k g' : reads k g' -> reads (Write g v k) g'.

(* independent calls: whatever one call may write, no other call reads or writes *)
Definition independent (ts : list prog) : Prop :=
  forall i j pi pj g, i <> j ->
    nth_error ts i = Some pi -> nth_error ts j = Some pj ->
    writes pi g -> ~ reads pj g /\ ~ writes pj g.

(* no shared state is written at all *)
Definition write_free (ts : list prog) : Prop :=
  forall p g, In p ts -> ~ writes p g.

(* every write goes to one of the listed variables *)
Definition writes_within (ws : list var) (ts : list prog) : Prop :=
  forall p g, In p ts -> writes p g -> In g ws.

End Conc.

Arguments prog : clear implicits.
Arguments config : clear implicits.
Arguments store : clear implicits.
