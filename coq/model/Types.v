(* Types.v — the in-toto data model shared by all component models.
   Field order follows the Go structs of in_toto/model.go. Slices are lists
   (nil and empty are identified here; the JSON-level models of C11/C12 keep
   them apart on the [jv] level), Go maps are association lists. *)
From IT Require Export model.Base.

(* JSON values (encoding/json's view: objects as ordered pair lists) *)
Inductive jv : Type :=
| JNull
| JBool (b : bool)
| JNum (z : Z)            (* integral number *)
| JFloat (lit : str)      (* non-integral number, kept as its literal *)
| JStr (s : str)
| JArr (l : list jv)
| JObj (m : list (str * jv)).

Record key := mkKey {
  k_keyid : str;
  k_hashalgs : list str;
  k_keytype : str;
  k_private : str;
  k_public : str;
  k_cert : str;
  k_scheme : str }.

Record signature := mkSig { sg_keyid : str; sg_sig : str; sg_cert : str }.

Record cert_constraint := mkCC {
  cc_cn : str; cc_dns : list str; cc_emails : list str;
  cc_orgs : list str; cc_roots : list str; cc_uris : list str }.

Definition rule := list str.

Record step := mkStep {
  s_type : str;
  s_pubkeys : list str;
  s_cc : list cert_constraint;
  s_cmd : list str;
  s_threshold : Z;
  s_name : str;
  s_mats : list rule;
  s_prods : list rule }.

Record inspection := mkInsp {
  i_type : str;
  i_run : list str;
  i_name : str;
  i_mats : list rule;
  i_prods : list rule }.

Record layout := mkLayout {
  l_type : str;
  l_steps : list step;
  l_inspect : list inspection;
  l_keys : amap key;
  l_rootcas : amap key;
  l_intermediatecas : amap key;
  l_expires : str;
  l_readme : str }.

Definition hashobj := amap str.           (* algorithm -> hex digest *)
Definition artifacts := amap hashobj.     (* path -> hashobj *)

Record link := mkLink {
  ln_type : str;
  ln_name : str;
  ln_materials : artifacts;
  ln_products : artifacts;
  ln_byproducts : list (str * jv);
  ln_command : list str;
  ln_environment : list (str * jv) }.

Inductive payload := PLink (l : link) | PLayout (l : layout).

(* wrapper kinds *)
Inductive wrapper := Legacy | DSSE.
