(* Json.v — executable model of the JSON machinery behind the signed bytes (C11)
   and of the reference parsers used by the round-trip theorems (C11, C12).

   Values are the shared [jv] of Types.v: what encoding/json's generic decoder
   (UseNumber) yields — objects as pair lists in document order, numbers as
   [JNum z] (integer literal) or [JFloat lit] (any other JSON number literal,
   kept verbatim; the literal "-0", which Go prints for float64 negative zero,
   is a [JFloat]).

   Go code modelled here
     cjson.EncodeCanonical's encodeCanonical            -> [canon]
     encoding/json appendString (escapeHTML = false)    -> [json_escape_std]
     in_toto.encodeJSONSortedKeys' second half          -> [encode_std_sorted]
     Envelope.SetPayload (bytes put into the envelope)  -> [dsse_payload_bytes]
     json.Marshal's coercion of invalid UTF-8           -> [utf8_sanitize]
     encoding/json scanner + generic decoder            -> [std_parse]
   [parse_canon] is a reference parser of the OLPC canonical grammar.

   No proofs in this file. *)
From IT Require Export model.Types model.Show.

(* ------------------------------------------------------------------ *)
(* UTF-8 (utf8.DecodeRune): width of the valid sequence at the head; 0 = the
   first byte does not start a valid sequence (Go: RuneError, width 1)      *)

Definition is_cont (b : N) : bool := (128 <=? b) && (b <=? 191).

Definition utf8_len (s : str) : nat :=
  match s with
  | [] => 0
  | b0 :: r =>
    if b0 <? 128 then 1
    else if (194 <=? b0) && (b0 <=? 223) then
      match r with b1 :: _ => if is_cont b1 then 2 else 0 | _ => 0 end
    else if (224 <=? b0) && (b0 <=? 239) then
      match r with
      | b1 :: b2 :: _ =>
        if ((if b0 =? 224 then 160 else 128) <=? b1) && (b1 <=? (if b0 =? 237 then 159 else 191)) && is_cont b2
        then 3 else 0
      | _ => 0
      end
    else if (240 <=? b0) && (b0 <=? 244) then
      match r with
      | b1 :: b2 :: b3 :: _ =>
        if ((if b0 =? 240 then 144 else 128) <=? b1) && (b1 <=? (if b0 =? 244 then 143 else 191))
           && is_cont b2 && is_cont b3
        then 4 else 0
      | _ => 0
      end
    else 0
  end.

Definition repl_char : str := [239; 191; 189].    (* U+FFFD *)

(* [skip] = number of continuation bytes of an already validated sequence
   still to be copied (keeps every string function structurally recursive) *)
Fixpoint utf8_sanitize_k (skip : nat) (s : str) : str :=
  match s with
  | [] => []
  | c :: r =>
    match skip with
    | S k => c :: utf8_sanitize_k k r
    | O => match utf8_len s with
           | O => repl_char ++ utf8_sanitize_k 0 r
           | S n => c :: utf8_sanitize_k n r
           end
    end
  end.
(* what json.Marshal writes for a Go string, seen after decoding again *)
Definition utf8_sanitize (s : str) : str := utf8_sanitize_k 0 s.

Fixpoint utf8_valid_k (skip : nat) (s : str) : bool :=
  match s with
  | [] => match skip with O => true | _ => false end
  | c :: r =>
    match skip with
    | S k => utf8_valid_k k r
    | O => match utf8_len s with O => false | S n => utf8_valid_k n r end
    end
  end.
Definition utf8_valid (s : str) : bool := utf8_valid_k 0 s.      (* utf8.ValidString *)

Definition no_ctrl (s : str) : bool := forallb (fun c => 32 <=? c) s.

(* UTF-8 encoding of a code point (utf8.EncodeRune; surrogates and values
   above U+10FFFF give U+FFFD) *)
Definition enc_rune (u : N) : str :=
  if u <? 128 then [u]
  else if u <? 2048 then [192 + u / 64; 128 + u mod 64]
  else if (55296 <=? u) && (u <? 57344) then repl_char
  else if u <? 65536 then [224 + u / 4096; 128 + (u / 64) mod 64; 128 + u mod 64]
  else if u <? 1114112 then [240 + u / 262144; 128 + (u / 4096) mod 64; 128 + (u / 64) mod 64; 128 + u mod 64]
  else repl_char.

(* ------------------------------------------------------------------ *)
(* numbers *)

Definition int64_range (z : Z) : bool :=
  ((-9223372036854775808 <=? z) && (z <=? 9223372036854775807))%Z.

Definition dec_val (ds : str) : N := fold_left (fun a d => a * 10 + (d - 48)) ds 0.
Definition all_digits (ds : str) : bool := forallb is_digit ds.

(* strconv.ParseInt(lit, 10, 64) succeeds (json.Number.Int64) *)
Definition int64_literal (lit : str) : bool :=
  match lit with
  | [] => false
  | c :: r =>
    let neg := c =? 45 in
    let ds := if neg || (c =? 43) then r else lit in
    negb (is_nil ds) && all_digits ds &&
    (if neg then dec_val ds <=? 9223372036854775808 else dec_val ds <=? 9223372036854775807)
  end.

(* the integer form of the JSON number grammar: optional minus, then 0 or a
   non-empty digit string without leading zero *)
Definition int_form (lit : str) : bool :=
  let ds := match lit with c :: r => if c =? 45 then r else lit | [] => [] end in
  match ds with
  | [] => false
  | d :: ds' => all_digits ds && (negb (d =? 48) || is_nil ds')
  end.
Definition minus_zero : str := [45; 48].

Fixpoint span_digits (s : str) : str * str :=
  match s with
  | c :: r => if is_digit c then let (d, rest) := span_digits r in (c :: d, rest) else ([], s)
  | [] => ([], [])
  end.

(* scanner for one JSON number at the head: (literal, rest) *)
Definition scan_sign (s : str) : str * str :=
  match s with c :: r => if c =? 45 then ([45], r) else ([], s) | [] => ([], s) end.

Definition scan_frac (s : str) : option (str * str) :=
  match s with
  | c :: r => if c =? 46 then
                let (fd, s3) := span_digits r in
                if is_nil fd then None else Some (46 :: fd, s3)
              else Some ([], s)
  | [] => Some ([], s)
  end.

Definition scan_exp (s : str) : option (str * str) :=
  match s with
  | c :: r =>
    if (c =? 101) || (c =? 69) then
      let (sg, r') := match r with c2 :: r2 => if (c2 =? 43) || (c2 =? 45) then ([c2], r2) else ([], r) | [] => ([], r) end in
      let (ed, s4) := span_digits r' in
      if is_nil ed then None else Some (c :: sg ++ ed, s4)
    else Some ([], s)
  | [] => Some ([], s)
  end.

Definition scan_number (s : str) : option (str * str) :=
  let (sign, s1) := scan_sign s in
  let (ip, s2) := span_digits s1 in
  match ip with
  | [] => None
  | d0 :: ds =>
    if (d0 =? 48) && negb (is_nil ds) then None else
    match scan_frac s2 with
    | None => None
    | Some (fr, s3) =>
      match scan_exp s3 with
      | None => None
      | Some (e, s4) => Some (sign ++ ip ++ fr ++ e, s4)
      end
    end
  end.

Definition z_of_int_form (lit : str) : Z :=
  match lit with
  | c :: r => if c =? 45 then Z.opp (Z.of_N (dec_val r)) else Z.of_N (dec_val lit)
  | [] => 0%Z
  end.

(* a number literal as a value: integer literals are [JNum], "-0" and everything
   with a fraction or an exponent stays a literal *)
Definition num_of_lit (lit : str) : jv :=
  if int_form lit && negb (str_eqb lit minus_zero) then JNum (z_of_int_form lit) else JFloat lit.

(* literals a well-formed [JFloat] may carry: a JSON number that is not an
   integer literal (except "-0") *)
Definition float_lit_ok (lit : str) : bool :=
  match scan_number lit with
  | Some (l, []) => str_eqb l lit && (negb (int_form lit) || str_eqb lit minus_zero)
  | _ => false
  end.

(* ------------------------------------------------------------------ *)
(* objects: last duplicate wins (generic decoding into a Go map), keys sorted
   by byte order (sort.Strings) *)

Fixpoint dedup_last {A} (m : list (str * A)) : list (str * A) :=
  match m with
  | [] => []
  | (k, v) :: m' => if mem k (map fst m') then dedup_last m' else (k, v) :: dedup_last m'
  end.

Fixpoint pinsert {A} (x : str * A) (l : list (str * A)) : list (str * A) :=
  match l with
  | [] => [x]
  | y :: l' => if str_leb (fst x) (fst y) then x :: l else y :: pinsert x l'
  end.
Definition sort_pairs {A} (l : list (str * A)) : list (str * A) := fold_right pinsert [] l.
Definition norm_pairs {A} (l : list (str * A)) : list (str * A) := sort_pairs (dedup_last l).

(* normal form of a value: every object deduplicated and sorted *)
Fixpoint sort_keys (v : jv) : jv :=
  match v with
  | JArr l => JArr (map sort_keys l)
  | JObj m => JObj (norm_pairs ((fix go (m : list (str * jv)) : list (str * jv) :=
                                  match m with [] => [] | (k, x) :: m' => (k, sort_keys x) :: go m' end) m))
  | _ => v
  end.

(* ------------------------------------------------------------------ *)
(* string escaping *)

Definition quote (s : str) : str := 34 :: s ++ [34].

(* cjson.encodeCanonicalString: only backslash and double quote are escaped *)
Fixpoint canon_escape (s : str) : str :=
  match s with
  | [] => []
  | c :: r => if (c =? 92) || (c =? 34) then 92 :: c :: canon_escape r else c :: canon_escape r
  end.

Definition hexd (n : N) : N := if n <? 10 then 48 + n else 87 + n.     (* lower case *)

(* encoding/json appendString with escapeHTML = false *)
Fixpoint json_escape_std_k (skip : nat) (s : str) : str :=
  match s with
  | [] => []
  | c :: r =>
    match skip with
    | S k => c :: json_escape_std_k k r
    | O =>
      if c <? 128 then
        (if c =? 34 then [92; 34]
         else if c =? 92 then [92; 92]
         else if 32 <=? c then [c]
         else if c =? 8 then [92; 98]
         else if c =? 12 then [92; 102]
         else if c =? 10 then [92; 110]
         else if c =? 13 then [92; 114]
         else if c =? 9 then [92; 116]
         else [92; 117; 48; 48; hexd (c / 16); hexd (c mod 16)]) ++ json_escape_std_k 0 r
      else
        match utf8_len s with
        | O => [92; 117; 102; 102; 102; 100] ++ json_escape_std_k 0 r       (* � *)
        | S n =>
          match r with
          | b1 :: b2 :: r2 =>
            if (c =? 226) && (b1 =? 128) && ((b2 =? 168) || (b2 =? 169))
            then [92; 117; 50; 48; 50; (if b2 =? 168 then 56 else 57)] ++ json_escape_std_k 0 r2   (*     *)
            else c :: json_escape_std_k n r
          | _ => c :: json_escape_std_k n r
          end
        end
    end
  end.
Definition json_escape_std (s : str) : str := json_escape_std_k 0 s.

(* ------------------------------------------------------------------ *)
(* plain encoder in document order, parametrised by the string escaper *)

Definition s_null : str := [110; 117; 108; 108].
Definition s_true : str := [116; 114; 117; 101].
Definition s_false : str := [102; 97; 108; 115; 101].

Fixpoint sep_concat (l : list str) : str :=      (* items joined by "," *)
  match l with
  | [] => []
  | [x] => x
  | x :: l' => x ++ 44 :: sep_concat l'
  end.

Definition member (esc : str -> str) (kv : str * str) : str := quote (esc (fst kv)) ++ 58 :: snd kv.

Fixpoint genc (esc : str -> str) (v : jv) : str :=
  match v with
  | JNull => s_null
  | JBool b => if b then s_true else s_false
  | JNum z => show_Z z
  | JFloat lit => lit
  | JStr s => quote (esc s)
  | JArr l => 91 :: sep_concat (map (genc esc) l) ++ [93]
  | JObj m => 123 :: sep_concat ((fix go (m : list (str * jv)) : list str :=
                                    match m with [] => [] | (k, x) :: m' => member esc (k, genc esc x) :: go m' end) m) ++ [125]
  end.

(* ------------------------------------------------------------------ *)
(* cjson.encodeCanonical over the generic value (error codes: 2 = number not an int64) *)

Definition E_NUM : N := 2.

Fixpoint seq_res {A} (l : list (str * res A)) : res (list (str * A)) :=
  match l with
  | [] => Ok []
  | (k, r) :: l' => do a <- r; do t <- seq_res l'; Ok ((k, a) :: t)
  end.

Fixpoint canon (v : jv) : res str :=
  match v with
  | JNull => Ok s_null
  | JBool b => Ok (if b then s_true else s_false)
  | JNum z => if int64_range z then Ok (show_Z z) else Err E_NUM
  | JFloat lit => if int64_literal lit then Ok lit else Err E_NUM
  | JStr s => Ok (quote (canon_escape s))
  | JArr l =>
    do items <- (fix go (l : list jv) : res (list str) :=
                   match l with [] => Ok [] | x :: l' => do a <- canon x; do t <- go l'; Ok (a :: t) end) l;
    Ok (91 :: sep_concat items ++ [93])
  | JObj m =>
    (* the Go map holds the last duplicate only; keys are visited in sorted order *)
    let rendered := (fix go (m : list (str * jv)) : list (str * res str) :=
                       match m with [] => [] | (k, x) :: m' => (k, canon x) :: go m' end) m in
    do ps <- seq_res (norm_pairs rendered);
    Ok (123 :: sep_concat (map (member canon_escape) ps) ++ [125])
  end.

(* ------------------------------------------------------------------ *)
(* parsers: one recursive-descent parser parametrised by the string-body parser
   and by whether insignificant white space is accepted.
   Errors: 1 = syntax, 99 = out of fuel (cannot happen: [gparse] supplies enough) *)

Definition E_SYNTAX : N := 1.
Definition E_FUEL : N := 99.

(* body of a canonical string (after the opening quote): only backslash-backslash and backslash-quote escapes *)
Fixpoint pstr_canon (s : str) : res (str * str) :=
  match s with
  | [] => Err E_SYNTAX
  | c :: r =>
    if c =? 34 then Ok ([], r)
    else if c =? 92 then
      match r with
      | e :: r1 => if (e =? 92) || (e =? 34)
                   then do tr <- pstr_canon r1; Ok (e :: fst tr, snd tr)
                   else Err E_SYNTAX
      | [] => Err E_SYNTAX
      end
    else do tr <- pstr_canon r; Ok (c :: fst tr, snd tr)
  end.

Definition hexv (c : N) : option N :=
  if is_digit c then Some (c - 48)
  else if (97 <=? c) && (c <=? 102) then Some (c - 87)
  else if (65 <=? c) && (c <=? 70) then Some (c - 55)
  else None.
Definition hex4 (a b c d : N) : option N :=
  match hexv a, hexv b, hexv c, hexv d with
  | Some x, Some y, Some z, Some w => Some (x * 4096 + y * 256 + z * 16 + w)
  | _, _, _, _ => None
  end.
(* getu4: the code unit of a leading \uXXXX *)
Definition getu4 (s : str) : option N :=
  match s with
  | c1 :: c2 :: a :: b :: c :: d :: _ => if (c1 =? 92) && (c2 =? 117) then hex4 a b c d else None
  | _ => None
  end.
Definition is_surrogate (u : N) : bool := (55296 <=? u) && (u <? 57344).
(* utf16.DecodeRune: Some code point for a valid pair *)
Definition surrogate_pair (u1 u2 : N) : option N :=
  if (55296 <=? u1) && (u1 <? 56320) && (56320 <=? u2) && (u2 <? 57344)
  then Some ((u1 - 55296) * 1024 + (u2 - 56320) + 65536) else None.

Definition simple_escape (e : N) : option N :=
  if e =? 34 then Some 34 else if e =? 92 then Some 92 else if e =? 47 then Some 47
  else if e =? 98 then Some 8 else if e =? 102 then Some 12 else if e =? 110 then Some 10
  else if e =? 114 then Some 13 else if e =? 116 then Some 9 else None.

Definition cons_res (pre : str) (r : res (str * str)) : res (str * str) :=
  do tr <- r; Ok (pre ++ fst tr, snd tr).

(* body of a JSON string as encoding/json's scanner + unquote read it: control
   characters refused, escapes decoded (unpaired surrogates become U+FFFD),
   invalid UTF-8 replaced by U+FFFD *)
Fixpoint pstr_std_k (skip : nat) (s : str) : res (str * str) :=
  match s with
  | [] => Err E_SYNTAX
  | c :: r =>
    match skip with
    | S k => cons_res [c] (pstr_std_k k r)
    | O =>
      if c =? 34 then Ok ([], r)
      else if c <? 32 then Err E_SYNTAX
      else if c =? 92 then
        match r with
        | [] => Err E_SYNTAX
        | e :: r1 =>
          if e =? 117 then
            match r1 with
            | h1 :: h2 :: h3 :: h4 :: r2 =>
              match hex4 h1 h2 h3 h4 with
              | None => Err E_SYNTAX
              | Some u =>
                if is_surrogate u then
                  match r2 with
                  | c1 :: c2 :: g1 :: g2 :: g3 :: g4 :: r3 =>
                    match (if (c1 =? 92) && (c2 =? 117) then hex4 g1 g2 g3 g4 else None) with
                    | Some u2 =>
                      match surrogate_pair u u2 with
                      | Some cp => cons_res (enc_rune cp) (pstr_std_k 0 r3)
                      | None => cons_res repl_char (pstr_std_k 0 r2)
                      end
                    | None => cons_res repl_char (pstr_std_k 0 r2)
                    end
                  | _ => cons_res repl_char (pstr_std_k 0 r2)
                  end
                else cons_res (enc_rune u) (pstr_std_k 0 r2)
              end
            | _ => Err E_SYNTAX
            end
          else
            match simple_escape e with
            | Some x => cons_res [x] (pstr_std_k 0 r1)
            | None => Err E_SYNTAX
            end
        end
      else if c <? 128 then cons_res [c] (pstr_std_k 0 r)
      else
        match utf8_len s with
        | O => cons_res repl_char (pstr_std_k 0 r)
        | S n => cons_res [c] (pstr_std_k n r)
        end
    end
  end.
Definition pstr_std (s : str) : res (str * str) := pstr_std_k 0 s.

Definition is_ws (c : N) : bool := (c =? 32) || (c =? 9) || (c =? 10) || (c =? 13).
Fixpoint skip_ws (s : str) : str :=
  match s with
  | c :: r => if is_ws c then skip_ws r else s
  | [] => []
  end.

Section Parser.
  Variable pstr : str -> res (str * str).
  Variable ws : bool.

  Definition sk (s : str) : str := if ws then skip_ws s else s.

  (* elements after "[" (at least one): value ("," value)* "]" *)
  Fixpoint pelems (pv : str -> res (jv * str)) (fuel : nat) (s : str) : res (list jv * str) :=
    match fuel with
    | O => Err E_FUEL
    | S f =>
      do vr <- pv s;
      match sk (snd vr) with
      | c :: r' =>
        if c =? 44 then do lr <- pelems pv f r'; Ok (fst vr :: fst lr, snd lr)
        else if c =? 93 then Ok ([fst vr], r')
        else Err E_SYNTAX
      | [] => Err E_SYNTAX
      end
    end.

  (* members after "{" (at least one): string ":" value ("," ...)* "}" *)
  Fixpoint pmembers (pv : str -> res (jv * str)) (fuel : nat) (s : str) : res (list (str * jv) * str) :=
    match fuel with
    | O => Err E_FUEL
    | S f =>
      match sk s with
      | q :: r0 =>
        if q =? 34 then
          do kr <- pstr r0;
          match sk (snd kr) with
          | c :: r1 =>
            if c =? 58 then
              do vr <- pv r1;
              match sk (snd vr) with
              | c2 :: r2 =>
                if c2 =? 44 then do mr <- pmembers pv f r2; Ok ((fst kr, fst vr) :: fst mr, snd mr)
                else if c2 =? 125 then Ok ([(fst kr, fst vr)], r2)
                else Err E_SYNTAX
              | [] => Err E_SYNTAX
              end
            else Err E_SYNTAX
          | [] => Err E_SYNTAX
          end
        else Err E_SYNTAX
      | [] => Err E_SYNTAX
      end
    end.

  Definition lit3 (r : str) (a b c : N) (v : jv) : res (jv * str) :=
    match r with
    | x :: y :: z :: r' => if (x =? a) && (y =? b) && (z =? c) then Ok (v, r') else Err E_SYNTAX
    | _ => Err E_SYNTAX
    end.

  Fixpoint pval (fuel : nat) (s : str) : res (jv * str) :=
    match fuel with
    | O => Err E_FUEL
    | S f =>
      match sk s with
      | [] => Err E_SYNTAX
      | c :: r =>
        if c =? 34 then do tr <- pstr r; Ok (JStr (fst tr), snd tr)
        else if c =? 123 then
          match sk r with
          | c2 :: r2 => if c2 =? 125 then Ok (JObj [], r2)
                        else do mr <- pmembers (pval f) (S (length r)) r; Ok (JObj (fst mr), snd mr)
          | [] => Err E_SYNTAX
          end
        else if c =? 91 then
          match sk r with
          | c2 :: r2 => if c2 =? 93 then Ok (JArr [], r2)
                        else do lr <- pelems (pval f) (S (length r)) r; Ok (JArr (fst lr), snd lr)
          | [] => Err E_SYNTAX
          end
        else if c =? 116 then lit3 r 114 117 101 (JBool true)
        else if c =? 110 then lit3 r 117 108 108 JNull
        else if c =? 102 then
          match r with
          | x :: r' => if x =? 97 then lit3 r' 108 115 101 (JBool false) else Err E_SYNTAX
          | [] => Err E_SYNTAX
          end
        else if (c =? 45) || is_digit c then
          match scan_number (c :: r) with
          | Some (lit, rest) => Ok (num_of_lit lit, rest)
          | None => Err E_SYNTAX
          end
        else Err E_SYNTAX
      end
    end.

  (* a whole document: one value, nothing but white space after it *)
  Definition gparse_res (s : str) : res jv :=
    do vr <- pval (S (length s)) s;
    if is_nil (sk (snd vr)) then Ok (fst vr) else Err E_SYNTAX.
  Definition gparse (s : str) : option jv :=
    match gparse_res s with Ok v => Some v | _ => None end.
End Parser.

(* RFC 8259 documents the way encoding/json reads them into interface{} with
   UseNumber: objects as pair lists in document order (duplicates kept) *)
Definition std_parse_res : str -> res jv := gparse_res pstr_std true.
Definition std_parse : str -> option jv := gparse pstr_std true.
(* json.Valid *)
Definition json_valid (s : str) : bool := match std_parse s with Some _ => true | None => false end.

(* the canonical grammar: no white space, only the two escapes, raw bytes otherwise *)
Definition parse_canon_res : str -> res jv := gparse_res pstr_canon false.
Definition parse_canon : str -> option jv := gparse pstr_canon false.

(* ------------------------------------------------------------------ *)
(* the DSSE payload *)

(* no control character in any string or key.  json.Valid of the canonical form
   equals this predicate on the normal form (proofs/JsonRoundTrip.v, json_valid_canon);
   the model below calls the scanner itself, as the Go code does *)
Fixpoint json_valid_strings (v : jv) : bool :=
  match v with
  | JStr s => no_ctrl s
  | JArr l => forallb json_valid_strings l
  | JObj m => (fix go (m : list (str * jv)) : bool :=
                 match m with [] => true | (k, x) :: m' => no_ctrl k && json_valid_strings x && go m' end) m
  | _ => true
  end.

(* encodeJSONSortedKeys after Marshal+Decode: the generic value written by
   encoding/json's encoder (maps in sorted key order, SetEscapeHTML(false)) *)
Definition encode_std_sorted (v : jv) : str := genc json_escape_std (sort_keys v).

(* Envelope.SetPayload: the bytes that are base64-encoded into the envelope.
   EncodeCanonical first (its error is returned); if the result is not valid JSON
   (json.Valid), the standard-escaped rendering is used instead. *)
Definition dsse_payload_bytes (v : jv) : res str :=
  do c <- canon v;
  if json_valid c then Ok c else Ok (encode_std_sorted v).

(* hexadecimal rendering of observables (harness comparison only) *)
Fixpoint hex_of (s : str) : str :=
  match s with [] => [] | c :: r => hexd (c / 16) :: hexd (c mod 16) :: hex_of r end.
