(* Threshold.v — model of LoadLinksForLayout and VerifyLinkSignatureThesholds
   (in_toto/verifylib.go) as they are in /repo NOW, i.e. with the repairs
   F1 (the claimed signer key id must be the id of the certificate's key),
   F2 (the authorisation flag is declared per link) and
   F14 (a step with zero verified links fails).  No proofs here.

   Transcription conventions
   * a Go map is an association list; `range` takes it in the order given;
     `m[k] = v` is [ainsert] (replace in place / append).
   * the directory is a listing `list (file name * option env)`:
     what LoadMetadata makes of each directory entry (None = unreadable,
     unparsable, not in-toto metadata, a sub-directory ...), IN THE ORDER
     filepath.Glob returns names = sorted by name (Readdirnames + sort.Strings).
   * external behaviour enters as Section variables
       vsig     : env -> key -> bool          linkEnv.VerifySignature(key) == nil
       get_cert : signature -> option key     key.LoadKeyReaderDefaults(sig.Certificate)
                                              (None = PEM/x509 error; the result's k_keyid is
                                               the id of the certificate's public key)
       cc_ok    : step -> key -> bool         step.CheckCertConstraints(cert, layout.RootCAIDs(),
                                              rootPool, intermediatePool) == nil
   * HYPOTHESIS OF FAITHFULNESS for [link_file_matches]: the step name contains none
     of the glob metacharacters  * ? [ \  and no '/', and so does the link
     directory path.  Then filepath.Glob(path.Join(dir, name ++ ".????????.link"))
     does not treat the directory part as a pattern, reads the directory once and
     keeps the entries for which filepath.Match(name ++ ".????????.link", entry)
     holds: literal prefix, eight times "one character other than '/'"
     (utf8.DecodeRuneInString: an invalid byte is one character of width 1),
     literal ".link".  Step names with metacharacters are outside the model
     (DESIGN §6, "not claimed"; generators use plain names). *)
From IT Require Export model.Meta model.Glob.

Definition err_load_threshold : N := 201.   (* LoadLinksForLayout: fewer links than threshold *)
Definition err_threshold : N := 202.        (* VerifyLinkSignatureThesholds: not enough verified links *)

Definition dot_link : str := bs ".link".

(* eight '?' of filepath.Match: each consumes one character that is not '/' *)
Fixpoint skip_qmarks (n : nat) (s : str) : option str :=
  match n with
  | O => Some s
  | S n' =>
    match s with
    | [] => None
    | c :: _ => if c =? 47 then None else skip_qmarks n' (skip_char s)
    end
  end.

(* filepath.Match (name ++ ".????????.link") base *)
Definition link_file_matches (name base : str) : bool :=
  let p := name ++ [46] in
  if has_prefix base p then
    match skip_qmarks 8 (skipn (length p) base) with
    | Some rest => str_eqb rest dot_link
    | None => false
    end
  else false.

(* strings.TrimSuffix(strings.TrimPrefix(filepath.Base(linkPath), step.Name+"."), ".link") *)
Definition short_id (name base : str) : str :=
  trim_suffix (trim_prefix base (name ++ [46])) dot_link.

(* Metadata.Sigs(): a Metablock returns its signature list; an Envelope rebuilds
   it from the DSSE signatures, which have no certificate field (KeyID and Sig
   only) — so for a DSSE link the certificate route below is unreachable. *)
Definition env_sigs (e : env) : list signature :=
  match e_wrapper e with
  | Legacy => e_sigs e
  | DSSE => map (fun s => mkSig (sg_keyid s) (sg_sig s) []) (e_sigs e)
  end.

(* for _, sig := range linkEnv.Sigs() { if strings.HasPrefix(sig.KeyID, short) { ...; break } } *)
Fixpoint first_sig_with_prefix (sigs : list signature) (short : str) : option str :=
  match sigs with
  | [] => None
  | s :: r => if has_prefix (sg_keyid s) short then Some (sg_keyid s)
              else first_sig_with_prefix r short
  end.

(* one iteration of `for _, linkPath := range linkFiles` (the glob filter included) *)
Definition load_file (name : str) (m : amap env) (f : str * option env) : amap env :=
  if link_file_matches name (fst f) then
    match snd f with
    | None => m                                        (* LoadMetadata failed: continue *)
    | Some e =>
      match first_sig_with_prefix (env_sigs e) (short_id name (fst f)) with
      | Some kid => ainsert m kid e                    (* linksPerStep[sig.KeyID] = linkEnv; break *)
      | None => m
      end
    end
  else m.

(* linksPerStep of a step called [name] *)
Definition load_name (name : str) (files : list (str * option env)) : amap env :=
  fold_left (load_file name) files [].

Definition zlen {A} (l : list A) : Z := Z.of_nat (length l).

(* body of the step loop of LoadLinksForLayout *)
Definition load_links (st : step) (files : list (str * option env)) : res (amap env) :=
  let m := load_name (s_name st) files in
  if (zlen m <? s_threshold st)%Z then Err err_load_threshold else Ok m.

Fixpoint load_steps (steps : list step) (files : list (str * option env))
         (acc : amap (amap env)) : res (amap (amap env)) :=
  match steps with
  | [] => Ok acc
  | st :: r =>
    match load_links st files with
    | Ok m => load_steps r files (ainsert acc (s_name st) m)      (* stepsMetadata[step.Name] = linksPerStep *)
    | Err c => Err c
    | Panic s => Panic s
    end
  end.

(* LoadLinksForLayout *)
Definition load_all (l : layout) (files : list (str * option env)) : res (amap (amap env)) :=
  load_steps (l_steps l) files [].

Section Threshold.
  Variable vsig : env -> key -> bool.
  Variable get_cert : signature -> option key.
  Variable cc_ok : step -> key -> bool.

  (* for _, authorizedKeyID := range step.PubKeys { if signerKeyID == authorizedKeyID {
       if verifierKey, ok := layout.Keys[authorizedKeyID]; ok {
         if linkEnv.VerifySignature(verifierKey) == nil { ...; isAuthorizedSignature = true; break }}}} *)
  Fixpoint key_route (l : layout) (pubkeys : list str) (kid : str) (e : env) : bool :=
    match pubkeys with
    | [] => false
    | a :: r =>
      if str_eqb kid a then
        match alookup (l_keys l) a with
        | Some k => if vsig e k then true else key_route l r kid e
        | None => key_route l r kid e
        end
      else key_route l r kid e
    end.

  (* Signature.GetCertificate *)
  Definition sig_certificate (sg : signature) : option key :=
    if is_nil (sg_cert sg) then None else get_cert sg.

  (* the `if !isAuthorizedSignature { ... }` block; every `continue` is [false] *)
  Definition cert_route (st : step) (kid : str) (e : env) : bool :=
    match sig_for_keyid (env_sigs e) kid with        (* linkEnv.GetSignatureForKeyID(signerKeyID) *)
    | None => false
    | Some sg =>
      match sig_certificate sg with                  (* sig.GetCertificate() *)
      | None => false
      | Some c =>
        if str_eqb (k_keyid c) kid then              (* cert.KeyID != signerKeyID -> continue   (F1) *)
          if cc_ok st c then                         (* step.CheckCertConstraints *)
            vsig e c                                 (* linkEnv.VerifySignature(cert) *)
          else false
        else false
      end
    end.

  (* one iteration of `for signerKeyID, linkEnv := range linksPerStep`;
     isAuthorizedSignature is local to the iteration (F2) *)
  Definition verify_link (l : layout) (st : step) (acc : amap env) (p : str * env) : amap env :=
    if key_route l (s_pubkeys st) (fst p) (snd p) then ainsert acc (fst p) (snd p)
    else if cert_route st (fst p) (snd p) then ainsert acc (fst p) (snd p)
    else acc.

  (* linksPerStepVerified after the loop *)
  Definition verified_links (l : layout) (st : step) (links : amap env) : amap env :=
    fold_left (verify_link l st) links [].

  (* body of the step loop of VerifyLinkSignatureThesholds on the loaded map of the step
     (an absent step has the nil map = []) *)
  Definition verify_step_thresholds (l : layout) (st : step) (links : amap env) : res (amap env) :=
    let v := verified_links l st links in
    if (zlen v <? s_threshold st)%Z || (zlen v <? 1)%Z            (* second disjunct: F14 *)
    then Err err_threshold else Ok v.

  Definition step_links (sm : amap (amap env)) (name : str) : amap env :=
    match alookup sm name with Some m => m | None => [] end.

  Fixpoint verify_steps (l : layout) (steps : list step) (sm acc : amap (amap env))
    : res (amap (amap env)) :=
    match steps with
    | [] => Ok acc
    | st :: r =>
      match verify_step_thresholds l st (step_links sm (s_name st)) with
      | Ok v => verify_steps l r sm (ainsert acc (s_name st) v)   (* stepsMetadataVerified[step.Name] = ... *)
      | Err c => Err c
      | Panic s => Panic s
      end
    end.

  (* VerifyLinkSignatureThesholds *)
  Definition verify_thresholds (l : layout) (sm : amap (amap env)) : res (amap (amap env)) :=
    verify_steps l (l_steps l) sm [].
End Threshold.

(* ------------------------------------------------------------------ *)
(* Execution with per-scenario finite tables (used by the correspondence
   check; the theorems quantify over arbitrary functions instead).
   An envelope is identified by its [e_pbytes] tag, a key by (k_keyid, k_public). *)
Definition key_tag_eqb (a b : str * str) : bool :=
  str_eqb (fst a) (fst b) && str_eqb (snd a) (snd b).

(* rows (envelope tag, key id, key tag) for which VerifySignature succeeds *)
Definition tbl_vsig (t : list (str * str * str)) (e : env) (k : key) : bool :=
  existsb (fun r => match r with (et, kid, kt) =>
     str_eqb et (e_pbytes e) && str_eqb kid (k_keyid k) && str_eqb kt (k_public k) end) t.

(* rows (certificate text, key loaded from it) *)
Fixpoint tbl_get_cert (t : list (str * key)) (sg : signature) : option key :=
  match t with
  | [] => None
  | (c, k) :: r => if str_eqb c (sg_cert sg) then Some k else tbl_get_cert r sg
  end.

(* rows (step name, key id, key tag) for which CheckCertConstraints succeeds *)
Definition tbl_cc_ok (t : list (str * str * str)) (st : step) (k : key) : bool :=
  existsb (fun r => match r with (sn, kid, kt) =>
     str_eqb sn (s_name st) && str_eqb kid (k_keyid k) && str_eqb kt (k_public k) end) t.

(* observable compared with the implementation: "REJECT" when either stage fails,
   "OK" ++ per step (in the order of first insertion) "(name:id,id,...)" with the
   counted key ids sorted *)
Definition show_verified (r : amap (amap env)) : str :=
  concat_str (map (fun p => [40] ++ fst p ++ [58] ++ join [44] (ssort (akeys (snd p))) ++ [41]) r).

Definition c02_obs (tv : list (str * str * str)) (tc : list (str * key)) (tcc : list (str * str * str))
           (l : layout) (files : list (str * option env)) : str :=
  match load_all l files with
  | Ok sm =>
    match verify_thresholds (tbl_vsig tv) (tbl_get_cert tc) (tbl_cc_ok tcc) l sm with
    | Ok r => bs "OK" ++ show_verified r
    | Err _ => bs "REJECT"
    | Panic _ => bs "PANIC"
    end
  | Err _ => bs "REJECT"
  | Panic _ => bs "PANIC"
  end.

Definition with_steps (l : layout) (steps : list step) : layout :=
  mkLayout (l_type l) steps (l_inspect l) (l_keys l) (l_rootcas l) (l_intermediatecas l)
           (l_expires l) (l_readme l).

(* the whole layout, then every step on its own (a layout with that single step) *)
Definition c02_obs_full (tv : list (str * str * str)) (tc : list (str * key)) (tcc : list (str * str * str))
           (l : layout) (files : list (str * option env)) : str :=
  bs "ALL=" ++ c02_obs tv tc tcc l files ++
  concat_str (map (fun st => bs ";S=" ++ c02_obs tv tc tcc (with_steps l [st]) files) (l_steps l)).

(* with the verdict of the full InTotoVerify / InTotoVerifyWithDirectory appended, for scenarios in which no
   later stage can fail by construction (no rules, no inspections, no sublayouts, equal links, layout validly
   signed and unexpired): accepted exactly when the threshold stage accepts *)
Definition c02_obs_e2e (tv : list (str * str * str)) (tc : list (str * key)) (tcc : list (str * str * str))
           (l : layout) (files : list (str * option env)) : str :=
  let v := if has_prefix (c02_obs tv tc tcc l files) (bs "OK") then bs "ACCEPT" else bs "REJECT" in
  c02_obs_full tv tc tcc l files ++ bs ";V=" ++ v ++ bs ";VD=" ++ v ++
  (* the same two entry points called with a non-empty dictionary of parameters no rule mentions:
     substitution changes nothing (C18), so the verdict is the same *)
  bs ";VP=" ++ v ++ bs ";VDP=" ++ v.

(* loader observable: verdict of LoadLinksForLayout and, per step, the sorted key ids of the loaded map *)
Definition c02_loaded (l : layout) (files : list (str * option env)) : str :=
  bs "LOAD=" ++ (if is_ok (load_all l files) then bs "OK" else bs "REJECT") ++ bs ";KEYS=" ++
  concat_str (map (fun st => [40] ++ s_name st ++ [58] ++ join [44] (ssort (akeys (load_name (s_name st) files))) ++ [41])
                  (l_steps l)).

(* compact constructors for the generated cases files *)
Definition env_of (w : wrapper) (sigs : list signature) (tag : str) : env :=
  mkEnv w (PLink (mkLink [] [] [] [] [] [] [])) sigs tag.
Definition key_of (kid tag : str) : key := mkKey kid [] [] [] tag [] [].
Definition step_of (name : str) (pubkeys : list str) (ccs : list cert_constraint) (threshold : Z) : step :=
  mkStep (bs "step") pubkeys ccs [] threshold name [] [].
Definition layout_of (steps : list step) (keys : amap key) : layout :=
  mkLayout (bs "layout") steps [] keys [] [] [] [].
