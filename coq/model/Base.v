(* Base.v — shared conventions of the in-toto-golang model.
   Only definitions and a few elementary lemmas; every other file builds on it.

   * strings are byte lists:            str := list N
   * Go maps are association lists:     amap V := list (str * V)
     (a `range` over a map takes the list in the order given; theorems that must
      not depend on map order quantify over Permutation)
   * results:                            Ok a | Err code | Panic site
*)
From Coq Require Export List NArith ZArith Bool Lia Ascii Permutation.
From Coq Require String.
Export String.StringSyntax.
Export ListNotations.
Open Scope N_scope.

Definition str := list N.

Fixpoint str_eqb (a b : str) : bool :=
  match a, b with
  | [], [] => true
  | x :: a', y :: b' => N.eqb x y && str_eqb a' b'
  | _, _ => false
  end.

Lemma str_eqb_eq a b : str_eqb a b = true <-> a = b.
Proof.
  revert b; induction a as [|x a IH]; intros [|y b]; simpl; split; intro H;
    try reflexivity; try discriminate.
  - apply andb_true_iff in H as [H1 H2]. apply N.eqb_eq in H1. apply IH in H2. congruence.
  - inversion H; subst. apply andb_true_iff; split; [apply N.eqb_refl | apply IH; reflexivity].
Qed.

Lemma str_eqb_refl a : str_eqb a a = true.
Proof. apply str_eqb_eq; reflexivity. Qed.

Lemma str_eqb_neq a b : str_eqb a b = false <-> a <> b.
Proof.
  split; intro H.
  - intro E. apply str_eqb_eq in E. congruence.
  - destruct (str_eqb a b) eqn:E; [apply str_eqb_eq in E; contradiction | reflexivity].
Qed.

Lemma str_eqb_spec a b : reflect (a = b) (str_eqb a b).
Proof.
  destruct (str_eqb a b) eqn:E; constructor.
  - apply str_eqb_eq; assumption.
  - apply str_eqb_neq; assumption.
Qed.

Lemma str_eq_dec (a b : str) : {a = b} + {a <> b}.
Proof. destruct (str_eqb_spec a b); [left | right]; assumption. Defined.

(* String literals: [bs "abc"] is the byte list of an ASCII literal. *)
Definition bs (s : String.string) : str := map N_of_ascii (String.list_ascii_of_string s).
Delimit Scope string_scope with string.
Arguments bs s%string.

(* Lexicographic byte order (Go's string comparison / sort.Strings). *)
Fixpoint str_ltb (a b : str) : bool :=
  match a, b with
  | [], [] => false
  | [], _ :: _ => true
  | _ :: _, [] => false
  | x :: a', y :: b' => if N.ltb x y then true else if N.eqb x y then str_ltb a' b' else false
  end.
Definition str_leb (a b : str) : bool := negb (str_ltb b a).

(* strings.HasPrefix / strings.TrimPrefix / strings.HasSuffix / strings.TrimSuffix *)
Fixpoint has_prefix (s p : str) {struct p} : bool :=
  match p, s with
  | [], _ => true
  | y :: p', x :: s' => N.eqb x y && has_prefix s' p'
  | _ :: _, [] => false
  end.

Definition trim_prefix (s p : str) : str :=
  if has_prefix s p then skipn (length p) s else s.

Definition has_suffix (s p : str) : bool := has_prefix (rev s) (rev p).
Definition trim_suffix (s p : str) : str :=
  if has_suffix s p then firstn (length s - length p) s else s.

Definition is_nil {A} (l : list A) : bool := match l with [] => true | _ => false end.

(* Results. [Err] carries a small numeric class chosen by each component;
   [Panic] carries the site number of gen/PanicSites.v. *)
Inductive res (A : Type) : Type :=
| Ok (a : A)
| Err (code : N)
| Panic (site : N).
Arguments Ok {A} a.
Arguments Err {A} code.
Arguments Panic {A} site.

Definition rbind {A B} (r : res A) (f : A -> res B) : res B :=
  match r with Ok a => f a | Err c => Err c | Panic s => Panic s end.
Notation "'do' x <- r ; k" := (rbind r (fun x => k))
  (at level 200, x pattern, r at level 100, k at level 200, right associativity).

Definition is_ok {A} (r : res A) : bool := match r with Ok _ => true | _ => false end.
Definition is_panic {A} (r : res A) : bool := match r with Panic _ => true | _ => false end.

(* Association lists as Go maps. *)
Definition amap (V : Type) := list (str * V).

Fixpoint alookup {V} (m : amap V) (k : str) : option V :=
  match m with
  | [] => None
  | (k', v) :: m' => if str_eqb k k' then Some v else alookup m' k
  end.

Fixpoint aremove {V} (m : amap V) (k : str) : amap V :=
  match m with
  | [] => []
  | (k', v) :: m' => if str_eqb k k' then aremove m' k else (k', v) :: aremove m' k
  end.

(* m[k] = v : replaces in place when present (position kept), appends otherwise *)
Fixpoint ainsert {V} (m : amap V) (k : str) (v : V) : amap V :=
  match m with
  | [] => [(k, v)]
  | (k', v') :: m' => if str_eqb k k' then (k', v) :: m' else (k', v') :: ainsert m' k v
  end.

Definition akeys {V} (m : amap V) : list str := map fst m.
Definition ahas {V} (m : amap V) (k : str) : bool :=
  match alookup m k with Some _ => true | None => false end.

(* membership in a list of strings *)
Fixpoint mem (x : str) (l : list str) : bool :=
  match l with [] => false | y :: l' => str_eqb x y || mem x l' end.

Lemma mem_In x l : mem x l = true <-> In x l.
Proof.
  induction l as [|y l IH]; simpl; [split; [discriminate | tauto]|].
  rewrite orb_true_iff, IH, str_eqb_eq. split; intros [H|H]; auto.
Qed.

(* Sets of strings (Go's Set = map[string]struct{}) as duplicate-free lists in
   insertion order. *)
Definition sadd (s : list str) (x : str) : list str := if mem x s then s else s ++ [x].
Definition sinter (a b : list str) : list str := filter (fun x => mem x b) a.
Definition sdiff (a b : list str) : list str := filter (fun x => negb (mem x b)) a.

(* insertion sort of strings by byte order (for canonical output) *)
Fixpoint sinsert (x : str) (l : list str) : list str :=
  match l with
  | [] => [x]
  | y :: l' => if str_leb x y then x :: l else y :: sinsert x l'
  end.
Definition ssort (l : list str) : list str := fold_right sinsert [] l.

(* ASCII helpers *)
Definition is_upper (c : N) : bool := (65 <=? c) && (c <=? 90).
Definition is_lower (c : N) : bool := (97 <=? c) && (c <=? 122).
Definition is_digit (c : N) : bool := (48 <=? c) && (c <=? 57).
Definition to_lower_ascii (c : N) : N := if is_upper c then c + 32 else c.

Fixpoint concat_str (l : list str) : str :=
  match l with [] => [] | x :: l' => x ++ concat_str l' end.

Fixpoint join (sep : str) (l : list str) : str :=
  match l with
  | [] => []
  | [x] => x
  | x :: l' => x ++ sep ++ join sep l'
  end.
