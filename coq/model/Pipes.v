(* Pipes.v — model of RunCommand / waitErrToExitCode / the by-products part of
   InTotoRun (in_toto/runlib.go): a child process writing to two pipes of bounded
   capacity and a parent draining them.  No proofs here.

   The strategy of the parent (how the two streams are drained), the order of the
   checks in RunCommand, the keys of the returned map with the source of their
   values and the shape of waitErrToExitCode are NOT written down here: they are
   read from the Go source by harness/xlate/runcmd.go into gen/RunCmd.v, which this
   file consumes (runcmd_strategy, runcmd_returned, waiterr_on_exiterror, ...).

   Small-step transition system.
     child   = list of actions (write d to a stream | close a stream) followed by
               termination (exit code | signal).  A write into a pipe with free space
               f transfers at most f bytes and the rest stays pending (partial writes
               as the kernel does for writes larger than the buffer); with f = 0 the
               child is blocked.  The relation [step] allows ANY chunk size
               0 < k <= min(remaining, free) for a write and 0 < k <= available for a
               read, so the theorems hold for every chunking; the executable
               [successors] takes maximal chunks (reads bounded by [rchunk]).
     pipes   = two, capacity [cap] each.
     parent  = per stream a reader (drain, then EOF when the pipe is empty and the
               child's write end is closed - by the child or by its exit), then Wait.
               Sequential: the stderr reader only runs after stdout hit EOF
               (io.ReadAll(stdoutPipe); io.ReadAll(stderrPipe); Wait).
               Concurrent: both readers always enabled (os/exec with non-*os.File
               writers: one goroutine per stream; Wait waits for the process and them).
     scheduler = nondeterministic choice among the enabled transitions.

   Data is abstract ([dataops]): the same model runs on byte counts (D = N, used for
   the correspondence runs with megabytes of output) and on byte strings
   (D = list N), where "captured completely" literally is "equals the
   concatenation, in order, of what the child wrote". *)
From IT Require Export model.Show gen.RunCmd.

Record dataops : Type := mkDataOps {
  dty : Type;
  dlen : dty -> N;
  dnil : dty;
  dapp : dty -> dty -> dty;
  dtake : N -> dty -> dty;     (* first k bytes *)
  dskip : N -> dty -> dty }.   (* all but the first k bytes *)

Definition count_ops : dataops :=
  mkDataOps N (fun n => n) 0 N.add N.min (fun k n => n - k).
Definition bytes_ops : dataops :=
  mkDataOps str (fun s => N.of_nat (length s)) [] (@app N)
            (fun k s => firstn (N.to_nat k) s) (fun k s => skipn (N.to_nat k) s).

Inductive stream : Type := SOut | SErr.
Definition stream_eqb (a b : stream) : bool :=
  match a, b with SOut, SOut => true | SErr, SErr => true | _, _ => false end.

Inductive termination : Type := Exit (code : N) | Signal (sig : N).

(* what os/exec's Wait hands to waitErrToExitCode *)
Inductive wait_status : Type := WExited (code : N) | WSignaled (sig : N).
Inductive wait_result : Type := WaitNil | WaitExitError (ws : wait_status) | WaitOtherError.

(* Cmd.Wait: nil iff the process exited with status 0, otherwise an ExitError
   carrying the syscall.WaitStatus *)
Definition wait_of (t : termination) : wait_result :=
  match t with
  | Exit c => if c =? 0 then WaitNil else WaitExitError (WExited c)
  | Signal s => WaitExitError (WSignaled s)
  end.

(* syscall.WaitStatus.ExitStatus(): the code if Exited(), else -1 *)
Definition exit_status (ws : wait_status) : Z :=
  match ws with WExited c => Z.of_N c | WSignaled _ => (-1)%Z end.

(* a value the translator could not read off the source *)
Definition unreadable : Z := (-1000)%Z.
Definition zdef (o : option Z) : Z := match o with Some z => z | None => unreadable end.

(* waitErrToExitCode, with its three assignments taken from gen/RunCmd.v:
     retVal := <waiterr_default>
     if err != nil { if ExitError { if WaitStatus { retVal = <waiterr_on_exiterror> } } }
     else { retVal = <waiterr_on_nil> } *)
Definition wait_err_to_exit_code (w : wait_result) : Z :=
  match w with
  | WaitNil => zdef waiterr_on_nil
  | WaitExitError ws =>
      match waiterr_on_exiterror with
      | ExExitStatus => exit_status ws
      | ExConst z => z
      | ExUnknown => unreadable
      end
  | WaitOtherError => zdef waiterr_default
  end.

Section Model.
Variable O : dataops.
Notation D := (dty O).

Inductive action : Type := Write (x : stream) (d : D) | Close (x : stream).
Record program : Type := mkProg { p_acts : list action; p_term : termination }.

(* one stream: is the child's write end open, pipe content, captured so far,
   has the parent's reader seen EOF *)
Record chan : Type := mkChan { wopen : bool; buf : D; got : D; eof : bool }.

Record state : Type := mkState {
  s_acts : list action;     (* what the child still has to do; a head [Write x d] = d still to be written *)
  s_alive : bool;           (* the child has not terminated *)
  s_out : chan;
  s_err : chan;
  s_status : option Z }.    (* Some rv once Wait has returned: the final states *)

Definition ch (x : stream) (st : state) : chan :=
  match x with SOut => s_out st | SErr => s_err st end.
Definition set_ch (x : stream) (c : chan) (st : state) : state :=
  match x with
  | SOut => mkState (s_acts st) (s_alive st) c (s_err st) (s_status st)
  | SErr => mkState (s_acts st) (s_alive st) (s_out st) c (s_status st)
  end.
Definition set_acts (a : list action) (st : state) : state :=
  mkState a (s_alive st) (s_out st) (s_err st) (s_status st).
Definition set_status (z : Z) (st : state) : state :=
  mkState (s_acts st) (s_alive st) (s_out st) (s_err st) (Some z).

Definition new_chan : chan := mkChan true (dnil O) (dnil O) false.
Definition init (p : program) : state := mkState (p_acts p) true new_chan new_chan None.

(* elementary updates *)
Definition push (x : stream) (k : N) (d : D) (st : state) : state :=
  let c := ch x st in set_ch x (mkChan (wopen c) (dapp O (buf c) (dtake O k d)) (got c) (eof c)) st.
Definition pull (x : stream) (k : N) (st : state) : state :=
  let c := ch x st in
  set_ch x (mkChan (wopen c) (dskip O k (buf c)) (dapp O (got c) (dtake O k (buf c))) (eof c)) st.
Definition close_chan (c : chan) : chan := mkChan false (buf c) (got c) (eof c).
Definition close_w (x : stream) (st : state) : state := set_ch x (close_chan (ch x st)) st.
Definition mark_eof (x : stream) (st : state) : state :=
  let c := ch x st in set_ch x (mkChan (wopen c) (buf c) (got c) true) st.
(* process termination closes every descriptor *)
Definition exit_child (st : state) : state :=
  mkState [] false (close_chan (s_out st)) (close_chan (s_err st)) (s_status st).
Definition after_write (x : stream) (k : N) (d : D) (rest : list action) : list action :=
  if k =? dlen O d then rest else Write x (dskip O k d) :: rest.

Section System.
Variable cap : N.             (* capacity of each pipe *)
Variable strat : strategy.    (* parent strategy (gen/RunCmd.v: runcmd_strategy) *)
Variable tm : termination.    (* how the child ends after its last action *)

Definition reader_enabled (x : stream) (st : state) : bool :=
  match strat with
  | Concurrent => true
  | Sequential => match x with SOut => true | SErr => eof (s_out st) end
  | Unknown => false
  end.
Definition wait_enabled (st : state) : bool :=
  match strat with
  | Unknown => false
  | _ => eof (s_out st) && eof (s_err st)
  end.
Definition final_code : Z := wait_err_to_exit_code (wait_of tm).

Inductive step : state -> state -> Prop :=
(* child: write(2) on a descriptor it has closed fails at once (EBADF), nothing is written *)
| St_write_closed : forall st x d rest,
    s_alive st = true -> s_acts st = Write x d :: rest -> wopen (ch x st) = false ->
    step st (set_acts rest st)
| St_write_empty : forall st x d rest,
    s_alive st = true -> s_acts st = Write x d :: rest -> wopen (ch x st) = true -> dlen O d = 0 ->
    step st (set_acts rest st)
(* child: k bytes (any 0 < k <= remaining, k <= free space) move into the pipe *)
| St_write : forall st x d rest k,
    s_alive st = true -> s_acts st = Write x d :: rest -> wopen (ch x st) = true ->
    0 < k -> k <= dlen O d -> dlen O (buf (ch x st)) + k <= cap ->
    step st (set_acts (after_write x k d rest) (push x k d st))
| St_close : forall st x rest,
    s_alive st = true -> s_acts st = Close x :: rest ->
    step st (set_acts rest (close_w x st))
| St_exit : forall st,
    s_alive st = true -> s_acts st = [] ->
    step st (exit_child st)
(* parent: a reader takes k bytes (any 0 < k <= available) out of its pipe *)
| St_read : forall st x k,
    s_status st = None -> reader_enabled x st = true -> eof (ch x st) = false ->
    0 < k -> k <= dlen O (buf (ch x st)) ->
    step st (pull x k st)
(* parent: read returns EOF: pipe empty and no write end left *)
| St_eof : forall st x,
    s_status st = None -> reader_enabled x st = true -> eof (ch x st) = false ->
    dlen O (buf (ch x st)) = 0 -> wopen (ch x st) = false ->
    step st (mark_eof x st)
(* parent: Wait returns once the child has ended and both streams are at EOF *)
| St_wait : forall st,
    s_status st = None -> wait_enabled st = true -> s_alive st = false ->
    step st (set_status final_code st).

(* ---- executable side: enabled transitions with maximal chunks ---- *)
Variable rchunk : N.          (* largest read the parent issues (0 is read as 1) *)

Definition child_succ (st : state) : list state :=
  if s_alive st then
    match s_acts st with
    | [] => [exit_child st]
    | Close x :: rest => [set_acts rest (close_w x st)]
    | Write x d :: rest =>
        if negb (wopen (ch x st)) then [set_acts rest st]
        else if dlen O d =? 0 then [set_acts rest st]
        else let k := N.min (dlen O d) (cap - dlen O (buf (ch x st))) in
             if k =? 0 then [] else [set_acts (after_write x k d rest) (push x k d st)]
    end
  else [].

Definition read_succ (x : stream) (st : state) : list state :=
  match s_status st with
  | Some _ => []
  | None =>
    if reader_enabled x st && negb (eof (ch x st)) then
      let n := dlen O (buf (ch x st)) in
      if n =? 0 then (if wopen (ch x st) then [] else [mark_eof x st])
      else [pull x (N.min n (N.max 1 rchunk)) st]
    else []
  end.

Definition wait_succ (st : state) : list state :=
  match s_status st with
  | Some _ => []
  | None => if wait_enabled st && negb (s_alive st) then [set_status final_code st] else []
  end.

Definition successors (st : state) : list state :=
  child_succ st ++ read_succ SOut st ++ read_succ SErr st ++ wait_succ st.

Inductive outcome : Type := Finished (st : state) | Stuck (st : state) | OutOfFuel.

(* run under the scheduler [sched]: at step i the enabled transition number
   (sched_i mod #enabled) is taken (an exhausted schedule continues with 0) *)
Fixpoint run (sched : list N) (fuel : nat) (st : state) : outcome :=
  match s_status st with
  | Some _ => Finished st
  | None =>
    match fuel with
    | 0%nat => OutOfFuel
    | S f =>
      match successors st with
      | [] => Stuck st
      | s1 :: more =>
          run (tl sched) f
              (nth (N.to_nat (hd 0 sched mod N.of_nat (length (s1 :: more)))) (s1 :: more) s1)
      end
    end
  end.

End System.

(* ---- the map RunCommand returns ---- *)
Inductive bval : Type := BInt (z : Z) | BData (d : D) | BUnknown.

Definition source_value (st : state) (src : str) : bval :=
  if str_eqb src (bs "wait-exit-code") then
    match s_status st with Some z => BInt z | None => BUnknown end
  else if str_eqb src (bs "stdout-capture") then BData (got (s_out st))
  else if str_eqb src (bs "stderr-capture") then BData (got (s_err st))
  else BUnknown.

(* keys in the order of the map literal of the source; values by their source *)
Definition byproducts_of (st : state) : list (str * bval) :=
  map (fun kv => (fst kv, source_value st (snd kv))) runcmd_returned.

(* ---- RunCommand ---- *)
(* the operating system: exec.Cmd.Start for argv in directory dir ("" = inherit)
   either fails or starts a process behaving like some program *)
Inductive start_result : Type := StartErr | Started (p : program).
Definition os_fn : Type := list str -> str -> start_result.

Definition E_EMPTY : N := 1401.       (* ErrEmptyCommandArgs *)
Definition E_START : N := 1402.       (* error of cmd.Start *)
Definition E_HANG : N := 1403.        (* the call never returns: stuck non-final state *)
Definition E_FUEL : N := 1404.        (* model fuel exhausted: excluded in the theorems *)
Definition E_UNMODELLED : N := 1405.  (* the source has a shape this model does not cover *)
Definition site_args0 : N := 1400.    (* cmdArgs[0] on an empty slice *)

Definition run_command (strat : strategy) (os : os_fn) (cap rchunk : N) (sched : list N) (fuel : nat)
           (args : list str) (dir : str) : res (list (str * bval)) :=
  match args with
  | [] => if runcmd_empty_check_first then Err E_EMPTY else Panic site_args0
  | _ :: _ =>
    if negb runcmd_argv_passed then Err E_UNMODELLED else
    (* if runDir != "" { cmd.Dir = runDir }: the directory reaches the OS unchanged *)
    let d := if runcmd_dir_set_when_nonempty then dir else [] in
    match os args d with
    | StartErr => if runcmd_start_error_returned then Err E_START else Err E_UNMODELLED
    | Started p =>
        match run cap strat (p_term p) rchunk sched fuel (init p) with
        | Finished st => Ok (byproducts_of st)
        | Stuck _ => Err E_HANG
        | OutOfFuel => Err E_FUEL
        end
    end
  end.

(* InTotoRun: byProducts := {} ; if len(cmdArgs) != 0 { byProducts, err = RunCommand(cmdArgs, runDir) } *)
Definition in_toto_run_byproducts (strat : strategy) (os : os_fn) (cap rchunk : N) (sched : list N)
           (fuel : nat) (args : list str) (dir : str) : res (list (str * bval)) :=
  match args with
  | [] => Ok []
  | _ :: _ => run_command strat os cap rchunk sched fuel args dir
  end.

End Model.

Arguments Write {O} x d.
Arguments Close {O} x.
Arguments mkProg {O} p_acts p_term.
Arguments p_acts {O} p.
Arguments p_term {O} p.
Arguments mkChan {O} wopen buf got eof.
Arguments wopen {O} c.
Arguments buf {O} c.
Arguments got {O} c.
Arguments eof {O} c.
Arguments mkState {O} s_acts s_alive s_out s_err s_status.
Arguments s_acts {O} s.
Arguments s_alive {O} s.
Arguments s_out {O} s.
Arguments s_err {O} s.
Arguments s_status {O} s.
Arguments ch {O} x st.
Arguments Finished {O} st.
Arguments Stuck {O} st.
Arguments OutOfFuel {O}.
Arguments BInt {O} z.
Arguments BData {O} d.
Arguments BUnknown {O}.
Arguments StartErr {O}.
Arguments Started {O} p.

(* the four action forms of the property text *)
Definition WOut {O : dataops} (d : dty O) : action O := Write SOut d.
Definition WErr {O : dataops} (d : dty O) : action O := Write SErr d.
Definition CloseOut {O : dataops} : action O := Close SOut.
Definition CloseErr {O : dataops} : action O := Close SErr.

(* writes of the two instances (dty is not inferred from a literal) *)
Definition CWrite (x : stream) (n : N) : action count_ops := @Write count_ops x n.
Definition BWrite (x : stream) (s : str) : action bytes_ops := @Write bytes_ops x s.

(* the model instantiated with what the source says now *)
Definition run_command_src (O : dataops) := run_command O runcmd_strategy.
Definition in_toto_run_byproducts_src (O : dataops) := in_toto_run_byproducts O runcmd_strategy.

(* ---- observables for the correspondence run (byte counts) ---- *)
Definition show_bval (v : option (bval count_ops)) : str :=
  match v with
  | Some (BInt z) => show_Z z
  | Some (BData n) => show_N n
  | _ => [63]
  end.

Definition show_rc (r : res (list (str * bval count_ops))) : str :=
  match r with
  | Ok m => bs "OK n=" ++ show_nat (length m)
            ++ bs " rv=" ++ show_bval (alookup m (bs "return-value"))
            ++ bs " out=" ++ show_bval (alookup m (bs "stdout"))
            ++ bs " err=" ++ show_bval (alookup m (bs "stderr"))
  | Err c => if c =? E_HANG then bs "HANG" else if c =? E_FUEL then bs "FUEL"
             else if c =? E_UNMODELLED then bs "UNMODELLED" else bs "ERR"
  | Panic _ => bs "PANIC"
  end.

(* fuel that is ample for the maximal-chunk runs of [run] (a write step ends an action or
   fills the pipe, a read step empties it or moves rchunk bytes); should it ever not be,
   the outcome is the distinct FUEL, never a wrong prediction - and by
   C14_every_schedule_completes fuel >= measure always suffices *)
Fixpoint acts_bytes {O : dataops} (a : list (action O)) : N :=
  match a with
  | [] => 0
  | Write _ d :: r => dlen O d + acts_bytes r
  | Close _ :: r => acts_bytes r
  end.
Definition fuel_for {O : dataops} (cap rchunk : N) (p : program O) : nat :=
  let b := acts_bytes (p_acts p) in
  N.to_nat (8 * N.of_nat (length (p_acts p)) + 8 * (b / N.max 1 (N.min cap (N.max 1 rchunk))) + 32).

(* a process started in the wrong directory ends with this code (the helper child
   of the harness checks its working directory) *)
Definition wrong_dir_code : N := 97.
Definition os_table {O : dataops} (dir : str) (p : program O) : os_fn O :=
  fun _ d => if str_eqb d dir then Started p else Started (mkProg [] (Exit wrong_dir_code)).
Definition os_fail {O : dataops} : os_fn O := fun _ _ => StartErr.
(* the same, keyed on the exact argument vector as well: given any other vector the program
   does something else (the helper child checks the words it gets and ends with this code) *)
Definition wrong_args_code : N := 93.
Fixpoint strs_eqb (a b : list str) : bool :=
  match a, b with
  | [], [] => true
  | x :: a', y :: b' => str_eqb x y && strs_eqb a' b'
  | _, _ => false
  end.
Definition os_table_args {O : dataops} (args : list str) (dir : str) (p : program O) : os_fn O :=
  fun a d => if strs_eqb a args then os_table dir p a d else Started (mkProg [] (Exit wrong_args_code)).
