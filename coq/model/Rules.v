(* Rules.v — executable model of UnpackRule (in_toto/rulelib.go), of
   cleanArtifactPaths / verifyMatchRule / VerifyArtifacts (in_toto/verifylib.go)
   and of the Set operations they use (in_toto/util.go).  No proofs here.

   The glob matcher ("match" of in_toto/match.go, observed as matched && err == nil)
   is a Section variable [gm pattern name]; model/RulesInst.v instantiates it with
   the model of property C17.

   Conventions: a Go Set is a duplicate-free list in iteration order; a Go map is an
   association list; `range` takes the list in the order given.  Hash objects that
   are present in an artifact map are non-nil maps; the zero value of an absent key
   (a nil map) is [None] below, and reflect.DeepEqual(nil map, non-nil map) = false. *)
From IT Require Export model.Types model.Clean gen.Consts.

(* ---------- UnpackRule ---------- *)

(* strings.ToLower as far as equality with ASCII words is concerned (all that UnpackRule
   observes of it): A-Z -> a-z, and the only two non-ASCII characters whose lower case is an
   ASCII letter, U+0130 (bytes C4 B0) -> 'i' and U+212A KELVIN SIGN (E2 84 AA) -> 'k'; every
   other byte is kept (any other non-ASCII character keeps the result non-ASCII in Go too).
   See ASSUMPTIONS of checks/c03.py. *)
Fixpoint to_lower (s : str) : str :=
  match s with
  | 196 :: 176 :: r => 105 :: to_lower r
  | 226 :: 132 :: 170 :: r => 107 :: to_lower r
  | c :: r => to_lower_ascii c :: to_lower r
  | [] => []
  end.

(* keyword tables regenerated from the Go source (gen/Consts.v):
   t_rule_keywords = case labels of UnpackRule's switch, in source order;
   t_rule_tokens   = string literals compared with ==/!= in its conditions, sorted *)
Definition kw_generic : list str := firstn 6 t_rule_keywords.   (* first case clause *)
Definition kw_match : str := nth 6 t_rule_keywords [].           (* second case clause *)
Definition tok_from : str := nth 0 t_rule_tokens [].
Definition tok_in : str := nth 1 t_rule_tokens [].
Definition tok_materials : str := nth 2 t_rule_tokens [].
Definition tok_products : str := nth 3 t_rule_tokens [].
Definition tok_with : str := nth 4 t_rule_tokens [].

Record ruledata := mkRD {
  rd_type : str;
  rd_pattern : str;
  rd_src_prefix : str;
  rd_dst_prefix : str;
  rd_dst_type : str;
  rd_dst_name : str }.

Definition err_rule_format : N := 1.
Definition err_no_link : N := 2.
Definition err_disallow : N := 3.
Definition err_require : N := 4.

(* rule[i] / ruleLower[i]; every use below is guarded by a length test, as in Go *)
Definition tk (r : list str) (i : nat) : str := nth i r [].

Definition unpack_rule (rule : rule) : res ruledata :=
  let n := length rule in
  if Nat.eqb n 0 then Err err_rule_format else
  let low := map to_lower rule in
  if mem (tk low 0) kw_generic then
    if negb (Nat.eqb n 2) then Err err_rule_format
    else Ok (mkRD (tk low 0) (tk rule 1) [] [] [] [])
  else if str_eqb (tk low 0) kw_match then
    let shape :=
      if Nat.eqb n 10 && str_eqb (tk low 2) tok_in && str_eqb (tk low 4) tok_with
         && str_eqb (tk low 6) tok_in && str_eqb (tk low 8) tok_from
      then Some (tk rule 3, tk low 5, tk rule 7, tk rule 9)
      else if Nat.eqb n 8 && str_eqb (tk low 2) tok_in && str_eqb (tk low 4) tok_with
              && str_eqb (tk low 6) tok_from
      then Some (tk rule 3, tk low 5, [], tk rule 7)
      else if Nat.eqb n 8 && str_eqb (tk low 2) tok_with && str_eqb (tk low 4) tok_in
              && str_eqb (tk low 6) tok_from
      then Some ([], tk low 3, tk rule 5, tk rule 7)
      else if Nat.eqb n 6 && str_eqb (tk low 2) tok_with && str_eqb (tk low 4) tok_from
      then Some ([], tk low 3, [], tk rule 5)
      else None in
    match shape with
    | None => Err err_rule_format
    | Some (srcPrefix, dstType, dstPrefix, dstName) =>
        if negb (str_eqb dstType tok_materials) && negb (str_eqb dstType tok_products)
        then Err err_rule_format
        else Ok (mkRD (tk low 0) (tk rule 1) srcPrefix dstPrefix dstType dstName)
    end
  else Err err_rule_format.

(* ---------- hash objects ---------- *)

(* reflect.DeepEqual on two non-nil map[string]string: same length and every key of
   the first is bound to the same value in the second *)
Definition hashobj_eqb (h1 h2 : hashobj) : bool :=
  Nat.eqb (length h1) (length h2) &&
  forallb (fun kv => match alookup h2 (fst kv) with
                     | Some v => str_eqb v (snd kv)
                     | None => false
                     end) h1.

(* DeepEqual(m1[k1], m2[k2]) where an absent key yields the nil map *)
Definition deep_equal (a b : option hashobj) : bool :=
  match a, b with
  | None, None => true
  | Some h1, Some h2 => hashobj_eqb h1 h2
  | _, _ => false
  end.

(* ---------- cleanArtifactPaths ---------- *)

(* fresh map filled in sorted key order: a later name overwrites an earlier one
   that cleans to the same path *)
Definition clean_artifact_paths (a : artifacts) : artifacts :=
  fold_left (fun acc name =>
               match alookup a name with
               | Some h => ainsert acc (go_clean name) h
               | None => acc                 (* unreachable: name is a key of a *)
               end)
            (ssort (akeys a)) [].

(* the Set of cleaned keys built by VerifyArtifacts *)
Definition path_set (a : artifacts) : list str :=
  fold_left (fun s p => sadd s (go_clean p)) (akeys a) [].

Definition lit_materials : str := bs "materials".
Definition lit_products : str := bs "products".

Section WithMatcher.
Variable gm : str -> str -> bool.      (* pattern, name *)

(* Set.Filter *)
Definition queue_filter (s : list str) (pattern : str) : list str := filter (gm pattern) s.

(* prefix normalisation of verifyMatchRule *)
Definition norm_prefix (p : str) : str :=
  if is_nil p then []
  else let c := go_clean p in if has_suffix c [slash] then c else c ++ [slash].

(* ---------- verifyMatchRule: the consumed set ---------- *)
Definition verify_match_rule (rd : ruledata) (srcArtifacts : artifacts) (queue : list str)
           (meta : amap link) : list str :=
  match alookup meta (rd_dst_name rd) with
  | None => []
  | Some dstLink =>
      let dstArtifacts0 : artifacts :=
        if str_eqb (rd_dst_type rd) lit_materials then ln_materials dstLink
        else if str_eqb (rd_dst_type rd) lit_products then ln_products dstLink
        else [] in
      let pattern := if is_nil (rd_pattern rd) then [] else go_clean (rd_pattern rd) in
      let srcArtifacts' := clean_artifact_paths srcArtifacts in
      let dstArtifacts := clean_artifact_paths dstArtifacts0 in
      let srcPrefix := norm_prefix (rd_src_prefix rd) in
      let dstPrefix := norm_prefix (rd_dst_prefix rd) in
      filter (fun srcPath =>
                if negb (has_prefix srcPath srcPrefix) then false else
                let srcBasePath := trim_prefix srcPath srcPrefix in
                if negb (gm pattern srcBasePath) then false else
                let dstPath := go_clean (go_join2 dstPrefix srcBasePath) in
                match alookup dstArtifacts dstPath with
                | None => false
                | Some dstArtifact =>
                    deep_equal (alookup srcArtifacts' srcPath) (Some dstArtifact)
                end)
             queue
  end.

(* ---------- VerifyArtifacts ---------- *)

(* one rule against the queue: the new queue, or the error *)
Definition apply_rule (meta : amap link) (arts : artifacts)
           (created deleted modified : list str) (rule : rule) (queue : list str)
  : res (list str) :=
  do rd <- unpack_rule rule;
  let filtered := queue_filter queue (go_clean (rd_pattern rd)) in
  let ty := rd_type rd in
  do consumed <-
    (if str_eqb ty (bs "match") then Ok (verify_match_rule rd arts queue meta)
     else if str_eqb ty (bs "allow") then Ok filtered
     else if str_eqb ty (bs "create") then Ok (sinter filtered created)
     else if str_eqb ty (bs "delete") then Ok (sinter filtered deleted)
     else if str_eqb ty (bs "modify") then Ok (sinter filtered modified)
     else if str_eqb ty (bs "disallow") then
       (if negb (is_nil filtered) then Err err_disallow else Ok [])
     else if str_eqb ty (bs "require") then
       (if negb (mem (rd_pattern rd) queue) then Err err_require else Ok [])
     else Ok []);
  Ok (sdiff queue consumed).

Fixpoint verify_rules (meta : amap link) (arts : artifacts)
         (created deleted modified : list str) (rules : list rule) (queue : list str)
  : res (list str) :=
  match rules with
  | [] => Ok queue
  | r :: rs =>
      do q <- apply_rule meta arts created deleted modified r queue;
      verify_rules meta arts created deleted modified rs q
  end.

Definition item : Type := str * list rule * list rule.   (* name, expected materials, expected products *)

Definition verify_item (meta : amap link) (it : item) : res unit :=
  let '(name, expectedMaterials, expectedProducts) := it in
  match alookup meta name with
  | None => Err err_no_link
  | Some link =>
      let materials := ln_materials link in
      let products := ln_products link in
      let materialPaths := path_set materials in
      let productPaths := path_set products in
      let created := sdiff productPaths materialPaths in
      let deleted := sdiff materialPaths productPaths in
      let remained := sinter materialPaths productPaths in
      (* the names in [remained] are cleaned paths: the hashes are looked up under the cleaned paths as well
         (cleanArtifactPaths; before repair F21 the cleaned name was looked up in the maps as recorded) *)
      let cleanedMaterials := clean_artifact_paths materials in
      let cleanedProducts := clean_artifact_paths products in
      let modified := filter (fun name => negb (deep_equal (alookup cleanedMaterials name) (alookup cleanedProducts name)))
                             remained in
      do _ <- verify_rules meta materials created deleted modified expectedMaterials materialPaths;
      do _ <- verify_rules meta products created deleted modified expectedProducts productPaths;
      Ok tt
  end.

Fixpoint verify_artifacts (items : list item) (meta : amap link) : res unit :=
  match items with
  | [] => Ok tt
  | it :: rest => do _ <- verify_item meta it; verify_artifacts rest meta
  end.

End WithMatcher.
