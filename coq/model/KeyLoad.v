(* KeyLoad.v — model of key loading (in_toto/keylib.go): decodeAndParse / parseKey,
   getDefaultKeyScheme, loadKey, setKeyComponents, generateKeyID, generatePEMBlock,
   LoadKey / LoadKeyDefaults / LoadKeyReader / LoadKeyReaderDefaults, and of the part of
   validateKey / matchKeyTypeScheme (in_toto/model.go) that generateKeyID runs.
   No proofs here (proofs/KeyLoadProofs.v, proofs/KeyLoadPem.v).

   What is an oracle (not modelled):
     * pem.Decode                      -> the decoded first block ([block]) or none
     * the five crypto/x509 parsers    -> for each, the Go object it returned on the block
                                          bytes or failure ([attempts])
     * x509.MarshalPKIXPublicKey       -> the DER stored in [o_pub] of an RSA/ECDSA object
     * SHA-256                         -> the parameter [sha256]
   What is modelled concretely: the order in which parse results are tried, the type
   switch of loadKey / getDefaultKeyScheme, which bytes become KeyVal.Public /
   KeyVal.Private / KeyVal.Certificate, pem.EncodeToMemory (type line, headers, base64
   body in 64-column lines, end line), strings.TrimSpace (ASCII), hex.EncodeToString,
   the canonical JSON of the key description (cjson.EncodeCanonical of the fixed-shape
   map of generateKeyID), and validateKey.

   The base64 body is the parameter [pem_body] of the generic definitions; the concrete
   [b64_lines] below instantiates it (and is what the correspondence check runs). *)
From IT Require Export model.Types.
From IT Require Import model.Show gen.Consts.

(* ---------- Go objects coming out of the parsers ---------- *)

(* dynamic type of the key object: rsa.PublicKey / rsa.PrivateKey, ecdsa.PublicKey /
   ecdsa.PrivateKey, ed25519.PublicKey / ed25519.PrivateKey, or anything else
   (dsa.PublicKey, ecdh.PublicKey, ecdh.PrivateKey, the nil PublicKey of a certificate
   with an unknown algorithm) *)
Inductive ktype := KRsa | KEcdsa | KEd25519 | KUnknown.

(* which parser accepted the block bytes *)
Inductive pemform := PKCS8 | PKCS1 | PKIX | CERT | SEC1.

(* o_pub : RSA / ECDSA: x509.MarshalPKIXPublicKey(key.Public()) (PKIX DER);
           Ed25519: the 32 raw bytes of the public key (the Go value itself).
   o_priv: None for a public key object.  Some raw for a private key object:
           Ed25519: the 64 raw bytes (seed ++ public; the Go value itself);
           RSA / ECDSA: the code never looks inside (it re-uses the PEM block bytes),
           the content is irrelevant. *)
Record kobj := mkObj { o_type : ktype; o_pub : str; o_priv : option str }.

(* pem.Block returned by pem.Decode; headers as the Go map in any order (distinct keys) *)
Record block := mkBlock { b_type : str; b_hdrs : list (str * str); b_bytes : str }.

(* outcome of each parser on the block bytes; for ParseCertificate the object is the
   certificate's PublicKey field *)
Record attempts := mkAtt {
  a_pkcs8 : option kobj;     (* x509.ParsePKCS8PrivateKey *)
  a_pkcs1 : option kobj;     (* x509.ParsePKCS1PrivateKey *)
  a_pkix  : option kobj;     (* x509.ParsePKIXPublicKey   *)
  a_cert  : option kobj;     (* x509.ParseCertificate  (.PublicKey) *)
  a_sec1  : option kobj }.   (* x509.ParseECPrivateKey    *)

(* result of parseKey: the accepted form and the object *)
Record parsed := mkParsed { p_form : pemform; p_obj : kobj }.
Definition p_type (p : parsed) : ktype := o_type (p_obj p).
Definition p_pub_der (p : parsed) : str := o_pub (p_obj p).
Definition p_priv_der (p : parsed) : option str := o_priv (p_obj p).

(* the bytes handed to a loader, seen through the oracles *)
Record pemdata := mkPem { d_block : option block; d_att : attempts }.

(* io.Reader argument: nil, a reader whose Read fails, or data *)
Inductive reader := RNil | RFail | RData (d : pemdata).

(* ---------- error classes ---------- *)
Definition err_no_pem_block : N := 1901.
Definition err_failed_pem_parsing : N := 1902.
Definition err_unsupported_key_type : N := 1903.
Definition err_unexpected_load : N := 1904.
Definition err_invalid_hex : N := 1905.
Definition err_empty_field : N := 1906.
Definition err_scheme_keytype_mismatch : N := 1907.
Definition err_unsupported_hash_algs : N := 1908.
Definition err_io : N := 1909.

(* ---------- small string functions ---------- *)

(* strings.TrimSpace restricted to ASCII input (every string it is applied to here is
   PEM text with a constant type, or lower-case hex) *)
Definition is_space (c : N) : bool :=
  (c =? 9) || (c =? 10) || (c =? 11) || (c =? 12) || (c =? 13) || (c =? 32).
Fixpoint drop_space (s : str) : str :=
  match s with
  | [] => []
  | c :: s' => if is_space c then drop_space s' else s
  end.
Definition trim_space (s : str) : str := rev (drop_space (rev (drop_space s))).

(* hex.EncodeToString / fmt.Sprintf("%x") *)
Definition hex_digit (n : N) : N := if n <? 10 then 48 + n else 87 + n.
Fixpoint hex_encode (s : str) : str :=
  match s with
  | [] => []
  | c :: s' => hex_digit (c / 16) :: hex_digit (c mod 16) :: hex_encode s'
  end.

(* regexp ^[a-fA-F0-9]+$ *)
Definition is_hex_char (c : N) : bool :=
  is_digit c || ((97 <=? c) && (c <=? 102)) || ((65 <=? c) && (c <=? 70)).
Definition validate_hex_string (s : str) : bool := negb (is_nil s) && forallb is_hex_char s.

(* ---------- base64 (encoding/base64 StdEncoding) and the PEM line breaker ---------- *)
Definition b64_char (n : N) : N :=
  if n <? 26 then 65 + n
  else if n <? 52 then 97 + (n - 26)
  else if n <? 62 then 48 + (n - 52)
  else if n =? 62 then 43 else 47.

Fixpoint b64_encode (s : str) : str :=
  match s with
  | [] => []
  | [a] => [b64_char (a / 4); b64_char ((a mod 4) * 16); 61; 61]
  | [a; b] => [b64_char (a / 4); b64_char ((a mod 4) * 16 + b / 16); b64_char ((b mod 16) * 4); 61]
  | a :: b :: c :: s' =>
      b64_char (a / 4) :: b64_char ((a mod 4) * 16 + b / 16) ::
      b64_char ((b mod 16) * 4 + c / 64) :: b64_char (c mod 64) :: b64_encode s'
  end.

(* encoding/pem lineBreaker: full lines of 64 characters each followed by "\n", a
   non-empty remainder followed by "\n".  48 input bytes make one full line.
   fuel = number of input bytes + 1 (each round consumes 48 bytes) *)
Fixpoint b64_lines_fuel (fuel : nat) (s : str) : str :=
  match fuel with
  | O => []
  | S f =>
    match s with
    | [] => []
    | _ => b64_encode (firstn 48 s) ++ [10] ++ b64_lines_fuel f (skipn 48 s)
    end
  end.
Definition b64_lines (s : str) : str := b64_lines_fuel (S (length s)) s.

(* ---------- canonical JSON of the key description ---------- *)

(* strings.ReplaceAll(s, <one byte>, rep) *)
Fixpoint replace_byte (c : N) (rep : str) (s : str) : str :=
  match s with
  | [] => []
  | x :: s' => (if x =? c then rep else [x]) ++ replace_byte c rep s'
  end.

(* cjson.encodeCanonicalString: escape backslashes, then double quotes, then wrap *)
Definition canon_string (s : str) : str :=
  [34] ++ replace_byte 34 [92; 34] (replace_byte 92 [92; 92] s) ++ [34].

(* a []interface{} of strings: "[" items separated by "," "]" *)
Definition canon_strings (l : list str) : str :=
  match l with
  | [] => [91; 93]
  | x :: l' => [91] ++ canon_string x ++ concat_str (map (fun y => 44 :: canon_string y) l') ++ [93]
  end.

(* KeyIDHashAlgorithms: a nil slice marshals to null, a non-nil one to an array *)
Definition canon_algs (a : option (list str)) : str :=
  match a with None => bs "null" | Some l => canon_strings l end.

(* cjson.EncodeCanonical(map{"keytype","scheme","keyid_hash_algorithms","keyval":{"public"}}):
   object keys in sorted order.  (The json.Marshal / Decode round trip inside
   EncodeCanonical is the identity on valid UTF-8 strings; see ASSUMPTIONS.) *)
Definition key_desc_canon (keytype scheme : str) (algs : option (list str)) (public : str) : str :=
  bs "{""keyid_hash_algorithms"":" ++ canon_algs algs ++
  bs ",""keytype"":" ++ canon_string keytype ++
  bs ",""keyval"":{""public"":" ++ canon_string public ++
  bs "},""scheme"":" ++ canon_string scheme ++ bs "}".

Definition desc_keys : list str :=
  [bs "keyid_hash_algorithms"; bs "keytype"; bs "keyval"; bs "scheme"].

(* ---------- validateKey (model.go), as run by generateKeyID ---------- *)

Definition match_key_type_scheme (keytype scheme : str) : res unit :=
  if str_eqb keytype c_rsaKeyType then
    if mem scheme t_getSupportedRSASchemes then Ok tt else Err err_scheme_keytype_mismatch
  else if str_eqb keytype c_ed25519KeyType then
    if mem scheme t_getSupportedEd25519Schemes then Ok tt else Err err_scheme_keytype_mismatch
  else if str_eqb keytype c_ecdsaKeyType then
    if mem scheme t_getSupportedEcdsaSchemes then Ok tt else Err err_scheme_keytype_mismatch
  else Err err_unsupported_key_type.

(* supported.IsSubSet(NewSet(algs...)) *)
Definition is_sub_set (s sub : list str) : bool :=
  if (length s <? length sub)%nat then false else forallb (fun x => mem x s) sub.
Definition new_set (l : list str) : list str := fold_left sadd l [].

Definition validate_key (k : key) (algs : option (list str)) : res unit :=
  if negb (validate_hex_string (k_keyid k)) then Err err_invalid_hex
  else if is_nil (k_keytype k) then Err err_empty_field
  else if is_nil (k_public k) && is_nil (k_cert k) then Err err_empty_field
  else if is_nil (k_scheme k) then Err err_empty_field
  else
    do _ <- match_key_type_scheme (k_keytype k) (k_scheme k);
    match algs with
    | None => Ok tt
    | Some l =>
        if is_sub_set t_getSupportedKeyIDHashAlgorithms (new_set l) then Ok tt
        else Err err_unsupported_hash_algs
    end.

Definition algs_list (a : option (list str)) : list str :=
  match a with None => [] | Some l => l end.

(* ---------- parseKey / decodeAndParse / getDefaultKeyScheme (no parameters) ---------- *)

(* parseKey: PKCS8, PKCS1, PKIX, certificate, EC — first success wins *)
Definition parse_key (a : attempts) : res parsed :=
  match a_pkcs8 a with
  | Some o => Ok (mkParsed PKCS8 o)
  | None =>
  match a_pkcs1 a with
  | Some o => Ok (mkParsed PKCS1 o)
  | None =>
  match a_pkix a with
  | Some o => Ok (mkParsed PKIX o)
  | None =>
  match a_cert a with
  | Some o => Ok (mkParsed CERT o)
  | None =>
  match a_sec1 a with
  | Some o => Ok (mkParsed SEC1 o)
  | None => Err err_failed_pem_parsing
  end end end end end.

Definition decode_and_parse (d : pemdata) : res (block * parsed) :=
  match d_block d with
  | None => Err err_no_pem_block
  | Some b => do p <- parse_key (d_att d); Ok (b, p)
  end.

Definition default_hash_algs : list str := [bs "sha256"; bs "sha512"].

(* getDefaultKeyScheme: the type switch; the certificate case recurses on its PublicKey,
   which is what [p_obj] holds for the CERT form *)
Definition default_scheme_of (t : ktype) : res str :=
  match t with
  | KRsa => Ok c_rsassapsssha256Scheme
  | KEd25519 => Ok c_ed25519Scheme
  | KEcdsa => Ok c_ecdsaSha2nistp256
  | KUnknown => Err err_unsupported_key_type
  end.
Definition get_default_key_scheme (p : parsed) : res (str * option (list str)) :=
  do s <- default_scheme_of (p_type p); Ok (s, Some default_hash_algs).

Definition keytype_name (t : ktype) : str :=
  match t with
  | KRsa => c_rsaKeyType | KEcdsa => c_ecdsaKeyType | KEd25519 => c_ed25519KeyType
  | KUnknown => []
  end.

(* ---------- everything that depends on SHA-256 and on the PEM body encoder ---------- *)
Section Load.
Variable sha256 : str -> str.        (* crypto/sha256.Sum256, 32 raw bytes *)
Variable pem_body : str -> str.      (* base64 + line breaker; instantiated by b64_lines *)

(* pem.EncodeToMemory(&pem.Block{Type, Headers, Bytes}); "" when a header key contains
   a colon (Encode fails, EncodeToMemory returns nil) *)
Definition pem_header_line (k v : str) : str := k ++ bs ": " ++ v ++ [10].
Definition pem_headers (h : list (str * str)) : str :=
  match h with
  | [] => []
  | _ =>
    let proc := bs "Proc-Type" in
    (match alookup h proc with Some v => pem_header_line proc v | None => [] end) ++
    concat_str (map (fun k => match alookup h k with Some v => pem_header_line k v | None => [] end)
                    (ssort (filter (fun k => negb (str_eqb k proc)) (akeys h)))) ++ [10]
  end.
Definition pem_encode (ty : str) (h : list (str * str)) (bytes : str) : str :=
  if existsb (fun k => existsb (N.eqb 58) k) (akeys h) then []
  else bs "-----BEGIN " ++ ty ++ bs "-----" ++ [10] ++ pem_headers h ++ pem_body bytes ++
       bs "-----END " ++ ty ++ bs "-----" ++ [10].

(* generatePEMBlock *)
Definition generate_pem_block (bytes ty : str) : str := pem_encode ty [] bytes.

(* generateKeyID *)
Definition key_desc_of (k : key) (algs : option (list str)) : str :=
  key_desc_canon (k_keytype k) (k_scheme k) algs (k_public k).

Definition generate_key_id (k : key) (algs : option (list str)) : res key :=
  let id := hex_encode (sha256 (key_desc_of k algs)) in
  let k' := mkKey id (k_hashalgs k) (k_keytype k) (k_private k) (k_public k) (k_cert k) (k_scheme k) in
  do _ <- validate_key k' algs; Ok k'.

(* setKeyComponents: KeyVal is replaced as a whole (the certificate field is cleared) *)
Definition set_key_components (pub priv keytype scheme : str) (algs : option (list str)) : res key :=
  let has_priv := (0 <? length priv)%nat in
  let mk (private public : str) := mkKey [] (algs_list algs) keytype private public [] scheme in
  do k <-
    (if str_eqb keytype c_rsaKeyType then
       if has_priv then
         Ok (mk (trim_space (generate_pem_block priv c_pemRSAPrivateKey))
                (trim_space (generate_pem_block pub c_pemPublicKey)))
       else Ok (mk [] (trim_space (generate_pem_block pub c_pemPublicKey)))
     else if str_eqb keytype c_ecdsaKeyType then
       if has_priv then
         Ok (mk (trim_space (generate_pem_block priv c_pemPrivateKey))
                (trim_space (generate_pem_block pub c_pemPublicKey)))
       else Ok (mk [] (trim_space (generate_pem_block pub c_pemPublicKey)))
     else if str_eqb keytype c_ed25519KeyType then
       if has_priv then Ok (mk (trim_space (hex_encode priv)) (trim_space (hex_encode pub)))
       else Ok (mk [] (trim_space (hex_encode pub)))
     else Err err_unsupported_key_type);
  generate_key_id k algs.

(* loadKey on a non-certificate object (the arms of the type switch) *)
Definition load_obj (o : kobj) (b : block) (scheme : str) (algs : option (list str)) : res key :=
  match o_type o, o_priv o with
  | KRsa, None => set_key_components (o_pub o) [] c_rsaKeyType scheme algs
  | KRsa, Some _ => set_key_components (o_pub o) (b_bytes b) c_rsaKeyType scheme algs
  | KEd25519, None => set_key_components (o_pub o) [] c_ed25519KeyType scheme algs
  | KEd25519, Some raw => set_key_components (o_pub o) raw c_ed25519KeyType scheme algs
  | KEcdsa, Some _ => set_key_components (o_pub o) (b_bytes b) c_ecdsaKeyType scheme algs
  | KEcdsa, None => set_key_components (o_pub o) [] c_ecdsaKeyType scheme algs
  | KUnknown, _ => Err err_unexpected_load
  end.

(* loadKey: the x509.Certificate arm loads the certificate's public key and then
   stores the re-encoded PEM block (type and headers of the input block) *)
Definition load_parsed (p : parsed) (b : block) (scheme : str) (algs : option (list str)) : res key :=
  match p_form p with
  | CERT =>
      do k <- load_obj (p_obj p) b scheme algs;
      Ok (mkKey (k_keyid k) (k_hashalgs k) (k_keytype k) (k_private k) (k_public k)
                (pem_encode (b_type b) (b_hdrs b) (b_bytes b)) (k_scheme k))
  | _ => load_obj (p_obj p) b scheme algs
  end.

(* LoadKeyReader *)
Definition load_key_reader (r : reader) (scheme : str) (algs : option (list str)) : res key :=
  match r with
  | RNil => Err err_no_pem_block
  | RFail => Err err_io
  | RData d =>
      do bp <- decode_and_parse d;
      load_parsed (snd bp) (fst bp) scheme algs
  end.

(* LoadKeyReaderDefaults *)
Definition load_key_reader_defaults (r : reader) : res key :=
  match r with
  | RNil => Err err_no_pem_block
  | RFail => Err err_io
  | RData d =>
      do bp <- decode_and_parse d;
      do sa <- get_default_key_scheme (snd bp);
      load_parsed (snd bp) (fst bp) (fst sa) (snd sa)
  end.

(* LoadKey / LoadKeyDefaults: None = os.Open fails *)
Definition load_key (f : option pemdata) (scheme : str) (algs : option (list str)) : res key :=
  match f with None => Err err_io | Some d => load_key_reader (RData d) scheme algs end.
Definition load_key_defaults (f : option pemdata) : res key :=
  match f with None => Err err_io | Some d => load_key_reader_defaults (RData d) end.

(* internal/spiffe SVIDDetails.InTotoKey: the SVID's private key is marshalled as PKCS#8
   (x509.MarshalPKCS8PrivateKey, an oracle: [d] is what pem.Decode and the parsers say about
   that "PRIVATE KEY" block; None = the marshalling fails), loaded with the defaults, and the
   leaf certificate's raw DER is attached as a "CERTIFICATE" block *)
Definition svid_in_toto_key (d : option pemdata) (cert_raw : str) : res key :=
  match d with
  | None => Err err_unsupported_key_type
  | Some d =>
      do k <- load_key_reader_defaults (RData d);
      Ok (mkKey (k_keyid k) (k_hashalgs k) (k_keytype k) (k_private k) (k_public k)
                (pem_encode (bs "CERTIFICATE") [] cert_raw) (k_scheme k))
  end.

End Load.

(* ---------- helpers for the correspondence check ---------- *)

(* hex literal -> bytes (keeps the generated case terms small) *)
Definition unhex_digit (c : N) : N :=
  if is_digit c then c - 48 else if (97 <=? c) then c - 87 else c - 55.
Fixpoint unhex (s : str) : str :=
  match s with
  | a :: b :: s' => (unhex_digit a * 16 + unhex_digit b) :: unhex s'
  | _ => []
  end.
Definition hx (s : String.string) : str := unhex (bs s).
Arguments hx s%string.

(* the check runs the model with sha256 := identity, so that the key id field shows the
   hex of the exact bytes the model says are hashed *)
Definition sha_id (s : str) : str := s.
(* observables longer than 8000 bytes (large certificates) are shortened to a prefix, their
   length and a digest: Coq's read-back of a vm_compute result is not tail recursive and a
   differing observable is printed back by the check *)
Definition compact (s : str) : str :=
  if N.of_nat (length s) <=? 8000 then s
  else firstn 400 s ++ bs "...#" ++ show_N (obs_hash s) ++ bs "/" ++ show_nat (length s).
Definition show_load (r : res key) : str := compact (show_res show_key r).
