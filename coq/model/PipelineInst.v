(* PipelineInst.v — the pipeline of model/Pipeline.v with the component models plugged in:
   link loading and thresholds (model/Threshold.v), artifact rules with the glob (model/Rules.v,
   model/Glob.v), parameter substitution (model/Subst.v), expiry (model/Expiry.v), and a
   flat-directory world for the inspections.  Per scenario the correspondence harness
   (harness/e2e) supplies finite tables for what lies outside the model: which (metadata
   object, key) pairs verify cryptographically (computed with Go's crypto directly), the effect
   of each inspection command from a small catalogue, the digests of the files present. *)
From IT Require Export model.Pipeline model.Threshold model.RulesInst model.Subst model.Expiry model.Show.

Inductive cmdkind := CLog | CTouch (name : str) (hex : str) | CFail (rv : Z) | CMissing.

(* the run directory: relative path -> sha256 hex; [w_prefix] is what artifact names are
   prefixed with ("" when inspections record ".", the run directory path otherwise);
   [w_dump_here] says that inspection links are dumped into the run directory itself *)
Record world := mkWorld { w_prefix : str; w_files : amap str }.

Definition art_name (prefix p : str) : str := if is_nil prefix then p else prefix ++ [47] ++ p.
Definition sha256_name : str := bs "sha256".
Definition record_world (w : world) : artifacts :=
  map (fun f => (art_name (w_prefix w) (fst f), [(sha256_name, snd f)])) (w_files w).

Fixpoint strs_eqb (a b : list str) : bool :=
  match a, b with
  | [], [] => true
  | x :: a', y :: b' => str_eqb x y && strs_eqb a' b'
  | _, _ => false
  end.
Fixpoint cmd_lookup (t : list (list str * cmdkind)) (cmd : list str) : option cmdkind :=
  match t with
  | [] => None
  | (c, k) :: r => if strs_eqb c cmd then Some k else cmd_lookup r cmd
  end.

Definition retval_key : str := bs "return-value".
Definition e_cmd_start : N := 130.

(* RunInspections, one iteration: record, run, record; the link is then dumped as <name>.link into
   the current directory, which is the run directory unless an explicit one was given *)
(* an entry of the run directory that cannot be recorded - a symbolic link whose target does not exist - is listed
   with the digest "!": recording the directory (materials are recorded before the command is started) then fails *)
Definition unreadable_mark : str := bs "!".
Definition e_record : N := 131.
Definition world_recordable (w : world) : bool :=
  negb (existsb (fun f => str_eqb (snd f) unreadable_mark) (w_files w)).

Definition run_insp_tbl (cmds : list (list str * cmdkind)) (dsse : bool) (w : world) (i : inspection)
  : res (link * world) :=
  if negb (world_recordable w) then Err e_record else
  let mats := record_world w in
  let finish (w' : world) (bp : list (str * jv)) :=
      let l := mkLink (bs "link") (i_name i) mats (record_world w') bp (i_run i) [] in
      let w'' := if is_nil (w_prefix w') then mkWorld (w_prefix w') (ainsert (w_files w') (i_name i ++ bs ".link") (bs "?")) else w' in
      Ok (l, w'') in
  match i_run i with
  | [] => finish w []
  | _ =>
    match cmd_lookup cmds (i_run i) with
    | Some CLog => finish w [(retval_key, JNum 0)]
    | Some (CTouch n h) => finish (mkWorld (w_prefix w) (ainsert (w_files w) n h)) [(retval_key, JNum 0)]
    | Some (CFail rv) => finish w [(retval_key, JNum rv)]
    | Some CMissing | None => Err e_cmd_start
    end
  end.

Definition retval_zero_tbl (l : link) : bool :=
  match alookup (ln_byproducts l) retval_key with Some (JNum 0) => true | _ => false end.

Definition vsig_tbl (t : list (str * str)) (e : env) (k : key) : bool :=
  existsb (fun r => str_eqb (fst r) (e_pbytes e) && str_eqb (snd r) (k_keyid k)) t.

Definition zero_key : key := mkKey [] [] [] [] [] [] [].

(* (step name, key id) pairs for which Step.CheckCertConstraints succeeds *)
Definition cc_tbl (t : list (str * str)) (st : step) (k : key) : bool :=
  existsb (fun r => str_eqb (fst r) (s_name st) && str_eqb (snd r) (k_keyid k)) t.

(* LoadLayoutCertificates: every root CA entry and every intermediate CA entry of the layout, and every PEM text handed
   over by the caller, must yield at least one certificate (x509.CertPool.AppendCertsFromPEM reports whether it added one).
   [pems]: the texts that do - computed by the harness with encoding/pem and crypto/x509.ParseCertificate directly *)
Definition pem_ok (pems : list str) (p : str) : bool := existsb (str_eqb p) pems.
Definition certs_ok_tbl (pems : list str) (l : layout) (inter : list str) : bool :=
  forallb (fun kv => pem_ok pems (k_cert (snd kv))) (l_rootcas l) &&
  forallb (fun kv => pem_ok pems (k_cert (snd kv))) (l_intermediatecas l) &&
  forallb (pem_ok pems) inter.

Definition verify_inst (now : Z) (truths : list (str * str)) (tc : list (str * key)) (tcc : list (str * str)) (pems : list str)
           (cmds : list (list str * cmdkind)) :=
  verify world (vsig_tbl truths)
         (fun s => is_ok (verify_expiration now s))
         substitute
         (certs_ok_tbl pems)
         load_all
         (fun l _ sm => verify_thresholds (vsig_tbl truths) (tbl_get_cert tc) (cc_tbl tcc) l sm)
         (fun items meta => verify_artifacts_go items meta)
         (run_insp_tbl cmds) retval_zero_tbl (fun _ => []) zero_key.

Definition insp_log (tr : list event) : list str :=
  flat_map (fun e => match e with EvRunInspection _ n => [n] | _ => [] end) tr.

Definition show_summary (s : env) : str :=
  match e_payload s with
  | PLink l => (match e_wrapper s with DSSE => bs "D:" | Legacy => bs "L:" end) ++
               show_tuple [show_str (ln_name l); show_artifacts (ln_materials l); show_artifacts (ln_products l)]
  | PLayout _ => []
  end.

(* observable compared with the implementation: verdict | summary | inspections executed *)
Definition e2e_run (now : Z) (truths : list (str * str)) (tc : list (str * key)) (tcc : list (str * str)) (pems : list str)
           (cmds : list (list str * cmdkind))
           (prefix : str) (files : amap str) (d : linkdir) (layout_env : env) (keys : amap key)
           (step_name : str) (params : amap str) : str :=
  match verify_inst now truths tc tcc pems cmds 8 (mkWorld prefix files) [] d layout_env keys step_name params [] with
  | (Ok s, _, tr) => bs "accept|" ++ show_summary s ++ [124] ++ join [44] (insp_log tr)
  | (Err _, _, tr) => bs "reject||" ++ join [44] (insp_log tr)
  | (Panic _, _, tr) => bs "PANIC||" ++ join [44] (insp_log tr)
  end.
