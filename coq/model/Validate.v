(* Validate.v — executable model of ValidateMetablock and the validate* family of
   in_toto/model.go (property C12).  Transcription of the Go control flow: same
   order of checks, first failing check returns.  No proofs in this file.

   External behaviour enters as Section variables:
     rule_ok    : UnpackRule accepts the rule            (model/Rules.v, builder of C03)
     expiry_ok  : time.Parse(ISO8601DateSchema, s) works (model/Expiry.v, builder of C06)
     pem_kind   : what decodeAndParse makes of a PEM string (Go crypto; finite table per case)
   model/ValidateInst.v instantiates the first two. *)
From IT Require Export model.Types.
From IT Require Import gen.Consts.

Inductive pemkind : Type :=
| PkRSAPub | PkECDSAPub | PkRSAPriv | PkECDSAPriv | PkCert | PkOther.

(* what Metablock.Signed holds *)
Inductive signed : Type :=
| SgLayout (l : layout)
| SgLink (l : link)
| SgOther.                 (* anything else (nil, pointer, map...) *)

Definition ev_type : N := 1220.        (* wrong _type / unknown signed type *)
Definition ev_hex : N := 1221.         (* ErrInvalidHexString *)
Definition ev_name : N := 1222.        (* empty name *)
Definition ev_dupname : N := 1223.     (* non unique step or inspection name *)
Definition ev_rule : N := 1224.        (* invalid artifact rule *)
Definition ev_expiry : N := 1225.      (* expiry does not parse *)
Definition ev_keyid : N := 1226.       (* map id differs from key id *)
Definition ev_private : N := 1227.     (* ErrNoPublicKey *)
Definition ev_empty : N := 1228.       (* ErrEmptyKeyField *)
Definition ev_scheme : N := 1229.      (* ErrSchemeKeyTypeMismatch *)
Definition ev_keytype : N := 1230.     (* ErrUnsupportedKeyType *)
Definition ev_hashalg : N := 1231.     (* ErrUnsupportedKeyIDHashAlgorithms *)
Definition ev_pem : N := 1232.         (* ErrNoPEMBlock / ErrFailedPEMParsing *)
Definition ev_keymismatch : N := 1233. (* ErrKeyKeyTypeMismatch *)
Definition ev_invalidkey : N := 1234.  (* ErrInvalidKey *)

(* regexp ^[a-fA-F0-9]+$ (Go: $ is end of text) *)
Definition is_hex_char (c : N) : bool :=
  is_digit c || ((97 <=? c) && (c <=? 102)) || ((65 <=? c) && (c <=? 70)).
Definition is_hex (s : str) : bool := negb (is_nil s) && forallb is_hex_char s.

Definition validate_hex (s : str) : res unit := if is_hex s then Ok tt else Err ev_hex.

(* for _, x := range xs { if err := f x; err != nil { return err } } *)
Fixpoint each {A} (f : A -> res unit) (l : list A) : res unit :=
  match l with
  | [] => Ok tt
  | x :: l' => do _ <- f x; each f l'
  end.

Definition dedup (l : list str) : list str := fold_left sadd l [].

Section Validate.
  Variable rule_ok : rule -> bool.
  Variable expiry_ok : str -> bool.
  Variable pem_kind : str -> option pemkind.

  (* ---- keys ---- *)

  Definition match_public (k : pemkind) (keytype : str) : res unit :=
    match k with
    | PkRSAPub => if negb (str_eqb keytype c_rsaKeyType) then Err ev_keymismatch else Ok tt
    | PkECDSAPub => if negb (str_eqb keytype c_ecdsaKeyType) then Err ev_keymismatch else Ok tt
    | _ => Err ev_invalidkey
    end.
  Definition match_private (k : pemkind) (keytype : str) : res unit :=
    match k with
    | PkRSAPriv => if negb (str_eqb keytype c_rsaKeyType) then Err ev_keymismatch else Ok tt
    | PkECDSAPriv => if negb (str_eqb keytype c_ecdsaKeyType) then Err ev_keymismatch else Ok tt
    | _ => Err ev_invalidkey
    end.

  Definition validate_keyval (k : key) : res unit :=
    if str_eqb (k_keytype k) c_ed25519KeyType then
      do _ <- validate_hex (k_public k);
      if negb (is_nil (k_private k)) then validate_hex (k_private k) else Ok tt
    else if str_eqb (k_keytype k) c_rsaKeyType || str_eqb (k_keytype k) c_ecdsaKeyType then
      match pem_kind (k_public k) with
      | None => Err ev_pem
      | Some pk =>
          do _ <- match_public pk (k_keytype k);
          if negb (is_nil (k_private k)) then
            match pem_kind (k_private k) with
            | None => Err ev_pem
            | Some sk => match_private sk (k_keytype k)
            end
          else Ok tt
      end
    else Err ev_keytype.

  Definition match_keytype_scheme (k : key) : res unit :=
    if str_eqb (k_keytype k) c_rsaKeyType then
      if mem (k_scheme k) t_getSupportedRSASchemes then Ok tt else Err ev_scheme
    else if str_eqb (k_keytype k) c_ed25519KeyType then
      if mem (k_scheme k) t_getSupportedEd25519Schemes then Ok tt else Err ev_scheme
    else if str_eqb (k_keytype k) c_ecdsaKeyType then
      if mem (k_scheme k) t_getSupportedEcdsaSchemes then Ok tt else Err ev_scheme
    else Err ev_keytype.

  (* supported.IsSubSet(NewSet(algs...)) *)
  Definition hashalgs_supported (algs : list str) : bool :=
    let sub := dedup algs in
    if Nat.ltb (length (dedup t_getSupportedKeyIDHashAlgorithms)) (length sub) then false
    else forallb (fun a => mem a t_getSupportedKeyIDHashAlgorithms) sub.

  Definition validate_key (k : key) : res unit :=
    do _ <- validate_hex (k_keyid k);
    if is_nil (k_keytype k) then Err ev_empty
    else if is_nil (k_public k) && is_nil (k_cert k) then Err ev_empty
    else if is_nil (k_scheme k) then Err ev_empty
    else
      do _ <- match_keytype_scheme k;
      (* only when KeyIDHashAlgorithms != nil; nil and empty agree: the empty set is a subset *)
      if hashalgs_supported (k_hashalgs k) then Ok tt else Err ev_hashalg.

  Definition validate_public_key (k : key) : res unit :=
    if negb (is_nil (k_private k)) then Err ev_private else validate_key k.

  (* range over the map in the order given *)
  Definition validate_layout_keys (keys : amap key) : res unit :=
    each (fun p : str * key =>
            if negb (str_eqb (k_keyid (snd p)) (fst p)) then Err ev_keyid
            else validate_public_key (snd p)) keys.

  (* ---- supply chain items ---- *)

  Definition validate_rules (rules : list rule) : res unit :=
    each (fun r => if rule_ok r then Ok tt else Err ev_rule) rules.

  Definition validate_sci (name : str) (mats prods : list rule) : res unit :=
    if is_nil name then Err ev_name
    else do _ <- validate_rules mats; validate_rules prods.

  Definition validate_step (s : step) : res unit :=
    do _ <- validate_sci (s_name s) (s_mats s) (s_prods s);
    if negb (str_eqb (s_type s) (bs "step")) then Err ev_type
    else each validate_hex (s_pubkeys s).

  Definition validate_inspection (i : inspection) : res unit :=
    do _ <- validate_sci (i_name i) (i_mats i) (i_prods i);
    if negb (str_eqb (i_type i) (bs "inspection")) then Err ev_type else Ok tt.

  (* the two loops of validateLayout over the shared namesSeen map *)
  Fixpoint validate_steps (seen : list str) (l : list step) : res (list str) :=
    match l with
    | [] => Ok seen
    | s :: l' =>
        if mem (s_name s) seen then Err ev_dupname
        else do _ <- validate_step s; validate_steps (s_name s :: seen) l'
    end.
  Fixpoint validate_inspections (seen : list str) (l : list inspection) : res (list str) :=
    match l with
    | [] => Ok seen
    | i :: l' =>
        if mem (i_name i) seen then Err ev_dupname
        else do _ <- validate_inspection i; validate_inspections (i_name i :: seen) l'
    end.

  Definition validate_layout (l : layout) : res unit :=
    if negb (str_eqb (l_type l) (bs "layout")) then Err ev_type
    else if negb (expiry_ok (l_expires l)) then Err ev_expiry
    else
      do _ <- validate_layout_keys (l_keys l);
      do _ <- validate_layout_keys (l_rootcas l);
      do _ <- validate_layout_keys (l_intermediatecas l);
      do seen <- validate_steps [] (l_steps l);
      do _ <- validate_inspections seen (l_inspect l);
      Ok tt.

  (* ---- links ---- *)

  Definition validate_artifacts (a : artifacts) : res unit :=
    each (fun p : str * hashobj => each (fun h : str * str => validate_hex (snd h)) (snd p)) a.

  Definition validate_link (l : link) : res unit :=
    if negb (str_eqb (ln_type l) (bs "link")) then Err ev_type
    else do _ <- validate_artifacts (ln_materials l); validate_artifacts (ln_products l).

  (* ---- signatures, metablock ---- *)

  Definition validate_signature (s : signature) : res unit :=
    do _ <- validate_hex (sg_keyid s); validate_hex (sg_sig s).

  Definition validate_metablock (sg : signed) (sigs : list signature) : res unit :=
    do _ <- match sg with
            | SgLayout l => validate_layout l
            | SgLink l => validate_link l
            | SgOther => Err ev_type
            end;
    each validate_signature sigs.
End Validate.
