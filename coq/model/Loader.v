(* Loader.v — executable model of the metadata loaders and writers (property C12):
     LoadMetadata, Metablock.Load, loadPayload, checkRequiredJSONFields,
     loadEnvelope, Metablock.Dump, Envelope.SetPayload / Dump
   over PARSED JSON trees [jv] (model/Types.v).  No proofs in this file.

   Level of the model.  Lexing is encoding/json's: the model receives the tree
   the lexer produces — objects as member lists in DOCUMENT ORDER WITH
   DUPLICATES KEPT, strings after unquoting, numbers as [JNum z] (literal
   -?digits) or [JFloat lit] (anything else).  A file that is not well-formed
   JSON is [None].  Everything encoding/json does on top of the token stream is
   transcribed here, generically over a field schema [shape]:

   * struct decoding walks the members in document order; a member is matched
     to a field by exact name first, otherwise by folded name (decode.go:
     fields.byExactName / byFoldedName(foldName key)); foldName upper-cases ASCII
     letters and maps every rune to the least element of its simple-fold orbit:
     the only non-ASCII runes that fold to an ASCII letter are U+017F (ſ -> S)
     and U+212A (Kelvin sign -> K) — [fold_name] handles exactly these;
   * the value of a member is decoded INTO THE CURRENT VALUE of the field
     (d.value(subv)): a second member for the same field updates what the first
     one left — a string/number is overwritten, [null] is a no-op for
     strings/ints/structs and resets slices/maps/interfaces to nil, a struct is
     merged field by field, a map keeps its entries and gets the new ones, a
     slice is re-filled from index 0 REUSING the old elements (and the old
     backing array beyond the new length, modelled by the [stale] tail);
   * unknown members are errors only when the decoder has DisallowUnknownFields
     ([strict = true]: loadPayload's decoder, at every struct level); map
     elements are decoded into a fresh zero value;
   * type mismatches are errors (the decoder saves the first error, goes on,
     and returns it at the end: only success/failure is observable, so every
     decoding error is the single code [e_decode]);
   * a Go [int] takes only integral literals within int64 ("1.0", "1e0" are
     errors: strconv.ParseInt).
   Not modelled: float64 range errors of huge exponents inside interface{}
   fields (strconv.ParseFloat), listed in the plugin's ASSUMPTIONS. *)
From IT Require Export model.Types.
From IT Require Import gen.Consts model.Show.

(* ------------------------------------------------------------------ *)
(* schema of a Go type as encoding/json sees it                        *)

Inductive shape : Type :=
| SStr                      (* string *)
| SInt                      (* int *)
| SAny                      (* interface{} *)
| SSlice (e : shape)        (* []T *)
| SMap (e : shape)          (* map[string]T *)
| SStruct (fs : list (str * bool * shape)).   (* JSON name, omitempty, type; embedded structs flattened *)

Definition f_name (f : str * bool * shape) : str := fst (fst f).
Definition f_omit (f : str * bool * shape) : bool := snd (fst f).
Definition f_shape (f : str * bool * shape) : shape := snd f.

(* decoded Go values (untyped universe; [wf] in spec/LoaderSpec.v relates them to shapes) *)
Inductive gv : Type :=
| GStr (s : str)
| GInt (z : Z)
| GAny (j : option jv)                 (* interface{}: nil, or the generic value of a JSON tree *)
| GNil                                 (* nil slice / nil map *)
| GSlice (l : list gv) (stale : list gv) (* non-nil slice; [stale] = old elements still in the backing array beyond len *)
| GMap (m : list (str * gv))           (* non-nil map, insertion order *)
| GStruct (fs : list (str * gv)).      (* by JSON field name, schema order *)

Fixpoint gzero (sh : shape) : gv :=
  match sh with
  | SStr => GStr []
  | SInt => GInt 0%Z
  | SAny => GAny None
  | SSlice _ => GNil
  | SMap _ => GNil
  | SStruct fs =>
      GStruct ((fix go (fs : list (str * bool * shape)) : list (str * gv) :=
                  match fs with
                  | [] => []
                  | (n, _, s) :: fs' => (n, gzero s) :: go fs'
                  end) fs)
  end.

(* error classes *)
Definition e_syntax : N := 1201.       (* not well-formed JSON *)
Definition e_decode : N := 1202.       (* encoding/json error: type mismatch, unknown field, int range *)
Definition e_parts : N := 1203.        (* absent/null signed|payload|signatures *)
Definition e_payload_type : N := 1204. (* ErrInvalidPayloadType *)
Definition e_unknown_type : N := 1205. (* ErrUnknownMetadataType *)
Definition e_required : N := 1206.     (* required field ... missing *)
Definition e_base64 : N := 1207.       (* payload not base64 / not JSON *)

(* ------------------------------------------------------------------ *)
(* field matching                                                       *)

Definition to_upper_ascii (c : N) : N := if is_lower c then c - 32 else c.

(* foldName restricted to what can make a key equal an ASCII field name *)
Fixpoint fold_name (s : str) : str :=
  match s with
  | [] => []
  | 197 :: 191 :: r => 83 :: fold_name r               (* U+017F LATIN SMALL LETTER LONG S  -> 'S' *)
  | 226 :: 132 :: 170 :: r => 75 :: fold_name r        (* U+212A KELVIN SIGN -> 'K' *)
  | c :: r => to_upper_ascii c :: fold_name r
  end.

Definition find_field (fs : list (str * bool * shape)) (k : str) : option (str * bool * shape) :=
  match find (fun f => str_eqb k (f_name f)) fs with
  | Some f => Some f
  | None => find (fun f => str_eqb (fold_name k) (fold_name (f_name f))) fs
  end.

(* replace the value stored under an existing name (position kept) *)
Fixpoint aset {V} (m : list (str * V)) (k : str) (v : V) : list (str * V) :=
  match m with
  | [] => []
  | (k', v') :: m' => if str_eqb k k' then (k', v) :: m' else (k', v') :: aset m' k v
  end.

Definition int_ok (z : Z) : bool := ((-9223372036854775808 <=? z) && (z <=? 9223372036854775807))%Z.

(* ------------------------------------------------------------------ *)
(* decodeState.value : decode the tree [j] into the current value [old] *)

Fixpoint decode (strict : bool) (sh : shape) (old : gv) (j : jv) {struct j} : res gv :=
  match j with
  | JNull =>
      (* literalStore 'n': SetZero for interface/map/slice, ignored otherwise *)
      match sh with
      | SAny | SSlice _ | SMap _ => Ok (gzero sh)
      | SStr | SInt | SStruct _ => Ok old
      end
  | JBool _ =>
      match sh with SAny => Ok (GAny (Some j)) | _ => Err e_decode end
  | JNum z =>
      match sh with
      | SAny => Ok (GAny (Some j))
      | SInt => if int_ok z then Ok (GInt z) else Err e_decode
      | _ => Err e_decode
      end
  | JFloat _ =>
      match sh with SAny => Ok (GAny (Some j)) | _ => Err e_decode end
  | JStr s =>
      match sh with
      | SAny => Ok (GAny (Some j))
      | SStr => Ok (GStr s)
      | _ => Err e_decode
      end
  | JArr l =>
      match sh with
      | SAny => Ok (GAny (Some j))
      | SSlice e =>
          (* decodeState.array: element i is decoded into the old element i of the
             backing array (zero when beyond it); the slice is truncated to the new
             length; an empty JSON array gives a fresh empty slice *)
          let backing := match old with GSlice l0 st => l0 ++ st | _ => [] end in
          match l with
          | [] => Ok (GSlice [] [])
          | _ =>
            match (fix go (l : list jv) (bk : list gv) : res (list gv * list gv) :=
                     match l with
                     | [] => Ok ([], bk)
                     | x :: l' =>
                         do v <- decode strict e (hd (gzero e) bk) x;
                         do r <- go l' (tl bk);
                         Ok (v :: fst r, snd r)
                     end) l backing with
            | Ok r => Ok (GSlice (fst r) (snd r))
            | Err c => Err c
            | Panic s => Panic s
            end
          end
      | _ => Err e_decode
      end
  | JObj m =>
      match sh with
      | SAny => Ok (GAny (Some j))
      | SMap e =>
          (* a nil map is made; an existing one keeps its entries; each member is
             decoded into a fresh gzero element and stored (SetMapIndex) *)
          let m0 := match old with GMap m0 => m0 | _ => [] end in
          match (fix go (m : list (str * jv)) (cur : list (str * gv)) : res (list (str * gv)) :=
                   match m with
                   | [] => Ok cur
                   | (k, x) :: m' =>
                       do v <- decode strict e (gzero e) x;
                       go m' (ainsert cur k v)
                   end) m m0 with
          | Ok r => Ok (GMap r)
          | Err c => Err c
          | Panic s => Panic s
          end
      | SStruct fs =>
          let cur0 := match old with
                      | GStruct c => c
                      | _ => match gzero sh with GStruct c => c | _ => [] end
                      end in
          match (fix go (m : list (str * jv)) (cur : list (str * gv)) : res (list (str * gv)) :=
                   match m with
                   | [] => Ok cur
                   | (k, x) :: m' =>
                       match find_field fs k with
                       | Some f =>
                           do v <- decode strict (f_shape f)
                                     (match alookup cur (f_name f) with Some o => o | None => gzero (f_shape f) end) x;
                           go m' (aset cur (f_name f) v)
                       | None => if strict then Err e_decode else go m' cur
                       end
                   end) m cur0 with
          | Ok r => Ok (GStruct r)
          | Err c => Err c
          | Panic s => Panic s
          end
      | _ => Err e_decode
      end
  end.

(* ------------------------------------------------------------------ *)
(* json.Marshal on the tree level                                       *)

(* isEmptyValue of encode.go (for omitempty) *)
Definition is_empty_val (v : gv) : bool :=
  match v with
  | GStr s => is_nil s
  | GInt z => Z.eqb z 0
  | GAny None => true
  | GAny (Some _) => false
  | GNil => true
  | GSlice l _ => is_nil l
  | GMap m => is_nil m
  | GStruct _ => false
  end.

Definition field_val (fs : list (str * gv)) (n : str) (sh : shape) : gv :=
  match alookup fs n with Some v => v | None => gzero sh end.

(* maps are written in the order of the association list (encoding/json sorts
   the keys: the theorems quantify over member permutations of the tree) *)
Fixpoint encode (sh : shape) (v : gv) {struct sh} : jv :=
  match sh with
  | SStr => match v with GStr s => JStr s | _ => JNull end
  | SInt => match v with GInt z => JNum z | _ => JNull end
  | SAny => match v with GAny (Some j) => j | _ => JNull end
  | SSlice e =>
      match v with
      | GSlice l _ => JArr (map (encode e) l)
      | _ => JNull
      end
  | SMap e =>
      match v with
      | GMap m => JObj (map (fun p => (fst p, encode e (snd p))) m)
      | _ => JNull
      end
  | SStruct fs =>
      match v with
      | GStruct vs =>
          JObj ((fix go (fs : list (str * bool * shape)) : list (str * jv) :=
                   match fs with
                   | [] => []
                   | (n, omit, s) :: fs' =>
                       let x := field_val vs n s in
                       if omit && is_empty_val x then go fs' else (n, encode s x) :: go fs'
                   end) fs)
      | _ => JNull
      end
  end.

(* ------------------------------------------------------------------ *)
(* the schema of the in-toto types.  [gen/Schema.v] (builder of C11) is the
   regenerated source of these tables; model/LoaderSchema.v checks that the
   literal below equals what is regenerated from the Go structs.            *)

Definition fld (n : String.string) (omit : bool) (s : shape) : str * bool * shape := (bs n, omit, s).
Arguments fld n%string omit s.

Definition sh_strs : shape := SSlice SStr.
Definition sh_rules : shape := SSlice (SSlice SStr).

Definition sh_keyval : shape := SStruct
  [fld "private" true SStr; fld "public" false SStr; fld "certificate" true SStr].
Definition sh_key : shape := SStruct
  [fld "keyid" false SStr; fld "keyid_hash_algorithms" false sh_strs; fld "keytype" false SStr;
   fld "keyval" false sh_keyval; fld "scheme" false SStr].
Definition sh_cc : shape := SStruct
  [fld "common_name" false SStr; fld "dns_names" false sh_strs; fld "emails" false sh_strs;
   fld "organizations" false sh_strs; fld "roots" false sh_strs; fld "uris" false sh_strs].
Definition sh_step : shape := SStruct
  [fld "_type" false SStr; fld "pubkeys" false sh_strs; fld "cert_constraints" true (SSlice sh_cc);
   fld "expected_command" false sh_strs; fld "threshold" false SInt;
   fld "name" false SStr; fld "expected_materials" false sh_rules; fld "expected_products" false sh_rules].
Definition sh_insp : shape := SStruct
  [fld "_type" false SStr; fld "run" false sh_strs;
   fld "name" false SStr; fld "expected_materials" false sh_rules; fld "expected_products" false sh_rules].
Definition sh_keymap : shape := SMap sh_key.
Definition sh_layout : shape := SStruct
  [fld "_type" false SStr; fld "steps" false (SSlice sh_step); fld "inspect" false (SSlice sh_insp);
   fld "keys" false sh_keymap; fld "rootcas" true sh_keymap; fld "intermediatecas" true sh_keymap;
   fld "expires" false SStr; fld "readme" false SStr].
Definition sh_artifacts : shape := SMap (SMap SStr).
Definition sh_link : shape := SStruct
  [fld "_type" false SStr; fld "name" false SStr; fld "materials" false sh_artifacts;
   fld "products" false sh_artifacts; fld "byproducts" false (SMap SAny); fld "command" false sh_strs;
   fld "environment" false (SMap SAny)].
Definition sh_sig : shape := SStruct          (* in_toto.Signature *)
  [fld "keyid" false SStr; fld "sig" false SStr; fld "cert" true SStr].
Definition sh_dsig : shape := SStruct         (* dsse.Signature *)
  [fld "keyid" false SStr; fld "sig" false SStr].
Definition sh_envelope : shape := SStruct     (* dsse.Envelope *)
  [fld "payloadType" false SStr; fld "payload" false SStr; fld "signatures" false (SSlice sh_dsig)].

Definition k_payloadType : str := bs "payloadType".
Definition k_payload : str := bs "payload".
Definition k_signatures : str := bs "signatures".
Definition k_signed : str := bs "signed".
Definition k_type : str := bs "_type".
Definition v_link : str := bs "link".
Definition v_layout : str := bs "layout".

(* ------------------------------------------------------------------ *)
(* map[string]X views of a JSON object: the LAST member with that exact key *)

Fixpoint obj_last (m : list (str * jv)) (k : str) : option jv :=
  match m with
  | [] => None
  | (k', v) :: m' =>
      match obj_last m' k with
      | Some r => Some r
      | None => if str_eqb k k' then Some v else None
      end
  end.

Definition has_key (m : list (str * jv)) (k : str) : bool :=
  match obj_last m k with Some _ => true | None => false end.

(* rawData[k] == nil : absent, or present with the value null (a nil pointer to json.RawMessage) *)
Definition raw_nil (m : list (str * jv)) (k : str) : bool :=
  match obj_last m k with
  | None => true
  | Some JNull => true
  | Some _ => false
  end.

Definition raw_get (m : list (str * jv)) (k : str) : jv :=
  match obj_last m k with Some v => v | None => JNull end.

(* checkRequiredJSONFields: every field of the struct type whose tag has no
   omitempty must be a key of the generic map (exact, case-sensitive) *)
Fixpoint check_required (m : list (str * jv)) (fs : list (str * bool * shape)) : res unit :=
  match fs with
  | [] => Ok tt
  | f :: fs' =>
      if negb (has_key m (f_name f)) && negb (f_omit f) then Err e_required
      else check_required m fs'
  end.

Definition struct_fields (sh : shape) : list (str * bool * shape) :=
  match sh with SStruct fs => fs | _ => [] end.

(* what a loader returns *)
Inductive gpayload : Type := GLink (v : gv) | GLayout (v : gv).

Record loaded : Type := mkLoaded {
  ld_wrapper : wrapper;
  ld_payload : gpayload;
  ld_sigs : gv }.       (* Legacy: []Signature ; DSSE: []dsse.Signature *)

(* loadPayload (util.go) on the tree of the payload bytes *)
Definition load_payload (j : jv) : res gpayload :=
  match j with
  | JObj m =>
      (* json.Unmarshal into map[string]any succeeded *)
      match obj_last m k_type with
      | Some (JStr t) =>
          if str_eqb t v_link then
            do _ <- check_required m (struct_fields sh_link);
            do v <- decode true sh_link (gzero sh_link) j;
            Ok (GLink v)
          else if str_eqb t v_layout then
            do _ <- check_required m (struct_fields sh_layout);
            do v <- decode true sh_layout (gzero sh_layout) j;
            Ok (GLayout v)
          else Err e_unknown_type
      | _ => Err e_unknown_type
      end
  | JNull => Err e_unknown_type     (* nil map: payload["_type"] is nil *)
  | _ => Err e_decode               (* cannot unmarshal ... into map[string]interface{} *)
  end.

Section Loader.
  (* base64 (standard, then URL alphabet: dsse.b64Decode) followed by JSON
     lexing of the WHOLE byte string; None when either fails *)
  Variable b64json : str -> option jv.
  (* canonical-JSON serialisation of a tree followed by base64 (SetPayload) *)
  Variable enc_payload : jv -> str.

  Definition struct_str (v : gv) (n : str) : str :=
    match v with
    | GStruct fs => match alookup fs n with Some (GStr s) => s | _ => [] end
    | _ => []
    end.
  Definition struct_get (v : gv) (n : str) : gv :=
    match v with
    | GStruct fs => match alookup fs n with Some x => x | None => GNil end
    | _ => GNil
    end.

  (* loadEnvelope *)
  Definition load_envelope (env : gv) : res loaded :=
    match b64json (struct_str env k_payload) with
    | None => Err e_base64
    | Some pj =>
        do p <- load_payload pj;
        Ok (mkLoaded DSSE p (struct_get env k_signatures))
    end.

  (* the legacy branch shared (as duplicated code) by LoadMetadata and Metablock.Load;
     [old_sigs] is the Signatures field of the receiver (nil for a fresh Metablock) *)
  Definition load_legacy (old_sigs : gv) (m : list (str * jv)) : res loaded :=
    if raw_nil m k_signed || raw_nil m k_signatures then Err e_parts
    else
      do sigs <- decode false (SSlice sh_sig) old_sigs (raw_get m k_signatures);
      do p <- load_payload (raw_get m k_signed);
      Ok (mkLoaded Legacy p sigs).

  (* LoadMetadata *)
  Definition load_metadata (file : option jv) : res loaded :=
    match file with
    | None => Err e_syntax
    | Some (JObj m) =>
        if has_key m k_payloadType then
          if raw_nil m k_payload || raw_nil m k_signatures then Err e_parts
          else
            do env <- decode false sh_envelope (gzero sh_envelope) (JObj m);
            if negb (str_eqb (struct_str env k_payloadType) c_PayloadType) then Err e_payload_type
            else load_envelope env
        else load_legacy GNil m
    | Some JNull => load_legacy GNil []     (* nil map *)
    | Some _ => Err e_decode                (* not an object *)
    end.

  (* deprecated Metablock.Load *)
  Definition metablock_load (old_sigs : gv) (file : option jv) : res loaded :=
    match file with
    | None => Err e_syntax
    | Some (JObj m) => load_legacy old_sigs m
    | Some JNull => load_legacy old_sigs []
    | Some _ => Err e_decode
    end.

  (* ---------------- writers ---------------- *)

  Definition payload_shape (p : gpayload) : shape :=
    match p with GLink _ => sh_link | GLayout _ => sh_layout end.
  Definition payload_val (p : gpayload) : gv :=
    match p with GLink v => v | GLayout v => v end.

  (* Metablock.Dump : an absent signature list is written as [] *)
  Definition dump_metablock (p : gpayload) (sigs : gv) : jv :=
    let sigs' := match sigs with GNil => GSlice [] [] | _ => sigs end in
    JObj [(k_signed, encode (payload_shape p) (payload_val p));
          (k_signatures, encode (SSlice sh_sig) sigs')].

  (* Envelope.SetPayload: fresh envelope with an empty, non-nil signature list *)
  Definition set_payload (p : gpayload) : gv :=
    GStruct [(k_payloadType, GStr c_PayloadType);
             (k_payload, GStr (enc_payload (encode (payload_shape p) (payload_val p))));
             (k_signatures, GSlice [] [])].
  (* appending signatures (Sign keeps the existing ones) *)
  Definition env_with_sigs (env : gv) (sigs : list gv) : gv :=
    match env with
    | GStruct fs =>
        let old := match alookup fs k_signatures with Some (GSlice l _) => l | _ => [] end in
        GStruct (aset fs k_signatures (GSlice (old ++ sigs) []))
    | _ => env
    end.
  (* Envelope.Dump *)
  Definition dump_envelope (env : gv) : jv := encode sh_envelope env.

  Definition dump (w : wrapper) (p : gpayload) (sigs : list gv) : jv :=
    match w with
    | Legacy => dump_metablock p (match sigs with [] => GNil | _ => GSlice sigs [] end)
    | DSSE => dump_envelope (env_with_sigs (set_payload p) sigs)
    end.
End Loader.

(* ------------------------------------------------------------------ *)
(* canonical rendering of loaded values (mirrored by harness/c12/show.go) *)


Fixpoint kinsert {V} (p : str * V) (l : list (str * V)) : list (str * V) :=
  match l with
  | [] => [p]
  | q :: l' => if str_leb (fst p) (fst q) then p :: l else q :: kinsert p l'
  end.
Definition ksort {V} (l : list (str * V)) : list (str * V) := fold_right kinsert [] l.

(* map[string]any view of an object: last duplicate wins *)
Fixpoint dedup_last (m : list (str * jv)) : list (str * jv) :=
  match m with
  | [] => []
  | (k, v) :: m' => if ahas m' k then dedup_last m' else (k, v) :: dedup_last m'
  end.

Fixpoint show_jv (j : jv) : str :=
  match j with
  | JNull => bs "n"
  | JBool b => show_bool b
  | JNum z => 35 :: show_Z z ++ [59]
  | JFloat lit => 102 :: show_str lit
  | JStr s => show_str s
  | JArr l => [91] ++ concat_str (map show_jv l) ++ [93]
  | JObj m =>
      let shown := (fix go (m : list (str * jv)) : list (str * str) :=
                      match m with [] => [] | (k, v) :: m' => (k, show_jv v) :: go m' end) m in
      let dd := (fix dd (m : list (str * str)) : list (str * str) :=
                   match m with [] => [] | (k, v) :: m' => if ahas m' k then dd m' else (k, v) :: dd m' end) shown in
      [123] ++ concat_str (map (fun p => show_str (fst p) ++ snd p) (ksort dd)) ++ [125]
  end.

Fixpoint show_gv (v : gv) : str :=
  match v with
  | GStr s => show_str s
  | GInt z => show_Z z ++ [59]
  | GAny None => bs "N"
  | GAny (Some j) => 97 :: show_jv j
  | GNil => bs "N"
  | GSlice l _ => [91] ++ concat_str (map show_gv l) ++ [93]
  | GMap m =>
      let shown := (fix go (m : list (str * gv)) : list (str * str) :=
                      match m with [] => [] | (k, x) :: m' => (k, show_gv x) :: go m' end) m in
      [123] ++ concat_str (map (fun p => show_str (fst p) ++ snd p) (ksort shown)) ++ [125]
  | GStruct fs =>
      [40] ++ concat_str ((fix go (m : list (str * gv)) : list str :=
                             match m with [] => [] | (_, x) :: m' => show_gv x :: go m' end) fs) ++ [41]
  end.

(* signature lists are shown through their element view (nil = empty: Envelope.Sigs()
   always returns a non-nil list, and "the same signatures" does not tell them apart) *)
Definition show_sigs (v : gv) : str :=
  match v with GNil => [91; 93] | _ => show_gv v end.

Definition show_loaded (l : loaded) : str :=
  (match ld_wrapper l with Legacy => bs "L" | DSSE => bs "D" end) ++
  (match ld_payload l with GLink v => bs "link" ++ show_gv v | GLayout v => bs "layout" ++ show_gv v end) ++
  show_sigs (ld_sigs l).

(* structural equality and key-sorted normal form of trees (used by the
   correspondence run to compare the model's dump with the real file) *)
Fixpoint jv_eqb (a b : jv) {struct a} : bool :=
  match a, b with
  | JNull, JNull => true
  | JBool x, JBool y => Bool.eqb x y
  | JNum x, JNum y => Z.eqb x y
  | JFloat x, JFloat y => str_eqb x y
  | JStr x, JStr y => str_eqb x y
  | JArr l, JArr l' =>
      (fix go (l l' : list jv) : bool :=
         match l, l' with
         | [], [] => true
         | x :: r, y :: r' => jv_eqb x y && go r r'
         | _, _ => false
         end) l l'
  | JObj m, JObj m' =>
      (fix go (m m' : list (str * jv)) : bool :=
         match m, m' with
         | [], [] => true
         | (k, x) :: r, (k', y) :: r' => str_eqb k k' && jv_eqb x y && go r r'
         | _, _ => false
         end) m m'
  | _, _ => false
  end.

Fixpoint jsort (j : jv) : jv :=
  match j with
  | JArr l => JArr (map jsort l)
  | JObj m =>
      JObj (ksort ((fix go (m : list (str * jv)) : list (str * jv) :=
                      match m with [] => [] | (k, v) :: m' => (k, jsort v) :: go m' end) m))
  | _ => j
  end.
