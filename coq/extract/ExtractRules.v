(* extraction of the path.Clean / UnpackRule / VerifyArtifacts model (C03) instantiated with
   the glob model of C17, and of the deciders of the theorems' well-formedness hypotheses *)
From IT Require Import model.RulesInst model.RulesWf.
From Coq Require Import ExtrOcamlBasic.
Extraction "rules.ml" go_clean go_join2 unpack_rule verify_match_rule_go verify_rules_go
  verify_artifacts_go path_set wf_metab wf_itemsb.
