(* extraction of the expiry model (C06 string-level correspondence) *)
From IT Require Import model.Expiry.
From Coq Require Import ExtrOcamlBasic.
Extraction "expiry.ml" parse_expiry verify_expiration.
