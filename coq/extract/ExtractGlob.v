(* extraction of the glob model and of the declarative spec (C17 correspondence) *)
From IT Require Import spec.GlobSpec.
From Coq Require Import ExtrOcamlBasic.
Extraction "glob.ml" gmatch_x spec_match pattern_aligned utf8_valid set_filter spec_filter.
