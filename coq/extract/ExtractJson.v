(* extraction of the JSON model (C11 value-level correspondence) *)
From IT Require Import model.ToJson.
From Coq Require Import ExtrOcamlBasic.
Extraction "json.ml" canon dsse_payload_bytes dsse_payload sanitize_jv num_of_lit std_parse encode_std_sorted.
