(* extraction of the replacer model and its declarative spec (C18 thorough tier) *)
From IT Require Import spec.SubstSpec proofs.SubstProofs.
From Coq Require Import ExtrOcamlBasic.
Extraction "subst.ml" replace spec_replace mk_pairs.
