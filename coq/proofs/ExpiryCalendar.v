(* ExpiryCalendar.v — validation of the declarative calendar arithmetic of
   spec/ExpirySpec.v, for ALL years (not only 0..9999): day 0 is 1970-01-01 and
   the calendar successor of every valid date is exactly one day later.  These
   two facts determine days_from_civil on valid dates. *)
From IT Require Import spec.ExpirySpec.
From Coq Require Import ZifyBool Zify.
Local Open Scope Z_scope.

Lemma days_epoch : days_from_civil 1970 1 1 = 0.
Proof. reflexivity. Qed.

Lemma month_cases m : 1 <= m <= 12 ->
  m = 1 \/ m = 2 \/ m = 3 \/ m = 4 \/ m = 5 \/ m = 6 \/ m = 7 \/ m = 8 \/ m = 9 \/ m = 10 \/ m = 11 \/ m = 12.
Proof. lia. Qed.

(* the year part: March 1st of year y is 365 or 366 days after March 1st of y-1 *)
Lemma feb_to_mar y :
  days_from_civil y 3 1 = days_from_civil y 2 (if leap_year y then 29 else 28) + 1.
Proof.
  unfold days_from_civil, leap_year.
  change (3 <=? 2) with false. change (2 <=? 2) with true. cbv iota.
  change ((153 * (3 - 3) + 2) / 5) with 0. change ((153 * (2 + 9) + 2) / 5) with 337.
  destruct ((y mod 4 =? 0) && (negb (y mod 100 =? 0) || (y mod 400 =? 0))) eqn:E;
    Z.div_mod_to_equations; lia.
Qed.

Theorem days_succ y m d : 1 <= m <= 12 -> 1 <= d <= month_length y m ->
  let '(y', m', d') := next_day y m d in days_from_civil y' m' d' = days_from_civil y m d + 1.
Proof.
  intros Hm Hd. unfold next_day.
  destruct (d <? month_length y m) eqn:Ed.
  - unfold days_from_civil. lia.
  - assert (Hd' : d = month_length y m) by lia. subst d. clear Ed Hd.
    destruct (month_cases m Hm) as [->|[->|[->|[->|[->|[->|[->|[->|[->|[->|[->| ->]]]]]]]]]]];
      try (unfold month_length, days_from_civil; cbn; lia).
    + (* February -> March *)
      unfold month_length. change (2 =? 2) with true. cbv iota. change (2 <? 12) with true. cbv iota.
      change (2 + 1) with 3. apply feb_to_mar.
    + (* December 31st -> January 1st *)
      change (12 <? 12) with false. cbv iota. unfold month_length, days_from_civil. cbn.
      replace (y + 1 - 1) with y by lia. lia.
Qed.

(* month_length agrees with the familiar table *)
Lemma month_length_table y :
  map (month_length y) [1; 2; 3; 4; 5; 6; 7; 8; 9; 10; 11; 12] =
  [31; if leap_year y then 29 else 28; 31; 30; 31; 30; 31; 31; 30; 31; 30; 31].
Proof. reflexivity. Qed.

Lemma leap_year_spec y :
  leap_year y = true <-> (y mod 4 = 0 /\ (y mod 100 <> 0 \/ y mod 400 = 0)).
Proof. unfold leap_year. lia. Qed.
