(* PipelineThreshold.v — composition of the pipeline theorems with the threshold model (C02):
   a sublayout is entered only for a link that was loaded from a listed file of that step and that is
   authorised for the step by the key route or by the certificate route. *)
From IT Require Import model.PipelineInst proofs.PipelineProofs proofs.SubstProofs.
From IT Require Import spec.ThresholdSpec proofs.ThresholdMaps proofs.ThresholdProofs proofs.ThresholdLoad.

Section PT.
  Variable vsig : env -> key -> bool.
  Variable get_cert : signature -> option key.
  Variable cc_ok : step -> key -> bool.

  Lemma verify_steps_nodup l sm : forall steps acc r,
    verify_steps vsig get_cert cc_ok l steps sm acc = Ok r -> NoDup (akeys acc) -> NoDup (akeys r).
  Proof.
    induction steps as [|s steps IH]; intros acc r H Hnd; simpl in H.
    - inversion H; subst. exact Hnd.
    - destruct (verify_step_thresholds vsig get_cert cc_ok l s (step_links sm (s_name s))) as [vs|c|p]; try discriminate.
      apply (IH _ _ H). apply ainsert_nodup. exact Hnd.
  Qed.

  (* an entry of a verified map: some step of that name, a link loaded for that step from the listing,
     authorised by the key route or the certificate route *)
  Theorem verified_entry_is_authorised l files loaded verified sname links kid e :
    load_all l files = Ok loaded -> verify_thresholds vsig get_cert cc_ok l loaded = Ok verified ->
    In (sname, links) verified -> In (kid, e) links ->
    exists st, In st (l_steps l) /\ s_name st = sname /\
      In (kid, e) (load_name sname files) /\
      (authorised_key vsig l st kid e \/ authorised_cert vsig get_cert cc_ok st kid e).
  Proof.
    intros Hl Hv Hin Hin2. unfold verify_thresholds in Hv.
    assert (Hnd : NoDup (akeys verified)) by (eapply verify_steps_nodup; [exact Hv | constructor]).
    assert (Hlk : alookup verified sname = Some links) by (apply alookup_in; assumption).
    destruct (verify_steps_entries vsig get_cert cc_ok l loaded _ _ _ Hv _ _ Hlk) as [Hx|[st [Hst [Hn Hok]]]]; [discriminate|].
    apply verify_step_ok in Hok as [-> _].
    assert (Hwf : map_wf (step_links loaded sname)).
    { unfold step_links. destruct (alookup loaded sname) as [m|] eqn:E; [eapply load_all_wf; eassumption | constructor]. }
    apply (counted_entry_iff vsig get_cert cc_ok l st _ kid e Hwf) in Hin2 as [Hloaded Hauth].
    exists st. split; [exact Hst|]. split; [exact Hn|]. split; [|exact Hauth].
    unfold step_links in Hloaded. destruct (alookup loaded sname) as [m|] eqn:E; [|contradiction].
    unfold load_all in Hl. destruct (load_steps_entries _ _ _ _ Hl _ _ E) as [Hx| ->]; [discriminate | exact Hloaded].
  Qed.
End PT.
