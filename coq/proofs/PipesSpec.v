(* PipesSpec.v — declarative side of property C14: what "captured completely"
   means, the laws an instance of the data abstraction has to satisfy, and the
   vocabulary (reachability, schedules) the theorems are stated in. *)
From IT Require Export model.Pipes.

(* laws of the data abstraction *)
Record datalaws (O : dataops) : Prop := mkLaws {
  len_nil : dlen O (dnil O) = 0;
  len_app : forall a b, dlen O (dapp O a b) = dlen O a + dlen O b;
  len_take : forall k d, dlen O (dtake O k d) = N.min k (dlen O d);
  len_skip : forall k d, dlen O (dskip O k d) = dlen O d - k;
  take_skip : forall k d, dapp O (dtake O k d) (dskip O k d) = d;
  dapp_assoc : forall a b c, dapp O (dapp O a b) c = dapp O a (dapp O b c);
  dapp_nil_l : forall a, dapp O (dnil O) a = a;
  dapp_nil_r : forall a, dapp O a (dnil O) = a;
  len0_nil : forall d, dlen O d = 0 -> d = dnil O }.

Lemma count_laws : datalaws count_ops.
Proof.
  constructor; simpl; intros; try lia.
Qed.

Lemma bytes_laws : datalaws bytes_ops.
Proof.
  constructor; simpl; intros.
  - reflexivity.
  - rewrite app_length. lia.
  - rewrite firstn_length. lia.
  - rewrite skipn_length. lia.
  - apply firstn_skipn.
  - symmetry. apply app_assoc.
  - reflexivity.
  - apply app_nil_r.
  - destruct d; [reflexivity | simpl in H; lia].
Qed.

(* what the model assumes about the text of RunCommand / waitErrToExitCode, checked
   against the facts the translator read off the source (gen/RunCmd.v) *)
Definition pair_list_eqb (a b : list (str * str)) : bool :=
  (length a =? length b)%nat &&
  forallb (fun xy => str_eqb (fst (fst xy)) (fst (snd xy)) && str_eqb (snd (fst xy)) (snd (snd xy)))
          (combine a b).
Definition zopt_eqb (a : option Z) (z : Z) : bool :=
  match a with Some y => Z.eqb y z | None => false end.
Definition source_wiring_ok : bool :=
  runcmd_empty_check_first && runcmd_argv_passed && runcmd_dir_set_when_nonempty
  && runcmd_start_error_returned
  && pair_list_eqb runcmd_returned
       [(bs "return-value", bs "wait-exit-code");
        (bs "stdout", bs "stdout-capture");
        (bs "stderr", bs "stderr-capture")]
  && is_nil runcmd_other_cmd_fields        (* no WaitDelay, Cancel, Env, SysProcAttr, Stdin ... *)
  && (length intotorun_cmdargs_calls =? 2)%nat
  && forallb (fun xy => str_eqb (fst xy) (snd xy))
       (combine intotorun_cmdargs_calls [bs "len(cmdArgs)"; bs "RunCommand(cmdArgs, runDir)"])
  && (length intotorun_byproducts_uses =? 3)%nat   (* nothing rewrites the capture before it is stored *)
  && forallb (fun xy => str_eqb (fst xy) (snd xy))
       (combine intotorun_byproducts_uses
                [bs "byProducts := map[string]interface{}{}";
                 bs "byProducts, err = RunCommand(cmdArgs, runDir)";
                 bs "ByProducts: byProducts"])
  && zopt_eqb waiterr_default (-1) && zopt_eqb waiterr_on_nil 0
  && match waiterr_on_exiterror with ExExitStatus => true | _ => false end.

Section Spec.
Variable O : dataops.
Notation D := (dty O).

(* everything the child writes to stream x, in order ... *)
Fixpoint writes_of (x : stream) (a : list (action O)) : D :=
  match a with
  | [] => dnil O
  | Write y d :: r => if stream_eqb x y then dapp O d (writes_of x r) else writes_of x r
  | Close _ :: r => writes_of x r
  end.

(* ... up to the point where it closes that stream itself (later writes fail) *)
Fixpoint until_close (x : stream) (a : list (action O)) : list (action O) :=
  match a with
  | [] => []
  | Close y :: r => if stream_eqb x y then [] else Close y :: until_close x r
  | w :: r => w :: until_close x r
  end.

Definition expected_stream (x : stream) (p : program O) : D :=
  writes_of x (until_close x (p_acts p)).

(* exit code as is, -1 for a signal *)
Definition expected_status (t : termination) : Z :=
  match t with Exit c => Z.of_N c | Signal _ => (-1)%Z end.

(* the one final state a run may end in *)
Definition expected_final (p : program O) : state O :=
  mkState [] false
          (mkChan false (dnil O) (expected_stream SOut p) true)
          (mkChan false (dnil O) (expected_stream SErr p) true)
          (Some (expected_status (p_term p))).

(* the map a caller must get back *)
Definition expected_byproducts (p : program O) : list (str * bval O) :=
  [(bs "return-value", BInt (expected_status (p_term p)));
   (bs "stdout", BData (expected_stream SOut p));
   (bs "stderr", BData (expected_stream SErr p))].

(* termination measure: every transition strictly decreases it
     2 x bytes still to be written + 1 per remaining action   (child)
     + bytes sitting in the pipes
     + 1 while the child is alive, 1 per stream not yet at EOF, 1 until Wait returned *)
Fixpoint acts_weight (a : list (action O)) : N :=
  match a with
  | [] => 0
  | Write _ d :: r => 2 * dlen O d + 1 + acts_weight r
  | Close _ :: r => 1 + acts_weight r
  end.
Definition measure (st : state O) : N :=
  acts_weight (s_acts st) + dlen O (buf (s_out st)) + dlen O (buf (s_err st))
  + N.b2n (s_alive st) + N.b2n (negb (eof (s_out st))) + N.b2n (negb (eof (s_err st)))
  + match s_status st with None => 1 | Some _ => 0 end.

Section Sys.
Variable cap : N.
Variable strat : strategy.
Variable tm : termination.

(* n transitions lead from a to b *)
Inductive steps : nat -> state O -> state O -> Prop :=
| steps_O : forall a, steps 0 a a
| steps_S : forall n a b c, step O cap strat tm a b -> steps n b c -> steps (S n) a c.

Definition reachable (a b : state O) : Prop := exists n, steps n a b.

Definition final (st : state O) : Prop := s_status st <> None.
Definition stuck (st : state O) : Prop := forall st', ~ step O cap strat tm st st'.
End Sys.

End Spec.

Arguments writes_of {O} x a.
Arguments until_close {O} x a.
Arguments expected_stream {O} x p.
Arguments expected_final {O} p.
Arguments expected_byproducts {O} p.
Arguments acts_weight {O} a.
Arguments measure {O} st.
Arguments steps {O} cap strat tm n a b.
Arguments reachable {O} cap strat tm a b.
Arguments final {O} st.
Arguments stuck {O} cap strat tm st.
