(* JsonProofs.v — canonical form: normal forms, permutation invariance, refusal
   of non-integral numbers.  (Round trips through the parsers: JsonRoundTrip.v) *)
From IT Require Import model.Json spec.JsonSpec proofs.JsonOrder proofs.JsonNum.
From Coq Require Import Sorting.Sorted.

(* ---------- induction over values with nested lists ---------- *)

Section JvInd.
  Variable P : jv -> Prop.
  Hypothesis Hnull : P JNull.
  Hypothesis Hbool : forall b, P (JBool b).
  Hypothesis Hnum : forall z, P (JNum z).
  Hypothesis Hfloat : forall l, P (JFloat l).
  Hypothesis Hstr : forall s, P (JStr s).
  Hypothesis Harr : forall l, Forall P l -> P (JArr l).
  Hypothesis Hobj : forall m, Forall (fun kx => P (snd kx)) m -> P (JObj m).

  Fixpoint jv_ind' (v : jv) : P v :=
    match v with
    | JNull => Hnull
    | JBool b => Hbool b
    | JNum z => Hnum z
    | JFloat l => Hfloat l
    | JStr s => Hstr s
    | JArr l => Harr l ((fix go (l : list jv) : Forall P l :=
                           match l with [] => Forall_nil _ | x :: l' => Forall_cons x (jv_ind' x) (go l') end) l)
    | JObj m => Hobj m ((fix go (m : list (str * jv)) : Forall (fun kx => P (snd kx)) m :=
                           match m with
                           | [] => Forall_nil _
                           | kx :: m' => Forall_cons kx (jv_ind' (snd kx)) (go m')
                           end) m)
    end.
End JvInd.

(* ---------- the local fixpoints are maps ---------- *)

Fixpoint seq_list {A} (l : list (res A)) : res (list A) :=
  match l with [] => Ok [] | r :: l' => do a <- r; do t <- seq_list l'; Ok (a :: t) end.

Lemma canon_arr l : canon (JArr l) = do items <- seq_list (map canon l); Ok (91 :: sep_concat items ++ [93]).
Proof.
  cbn [canon]. f_equal.
  induction l as [|x l IH]; [reflexivity|]. cbn [map seq_list]. rewrite <- IH. reflexivity.
Qed.

Lemma canon_obj m : canon (JObj m) =
  do ps <- seq_res (norm_pairs (map_snd canon m)); Ok (123 :: sep_concat (map (member canon_escape) ps) ++ [125]).
Proof.
  cbn [canon]. f_equal. f_equal. f_equal.
  induction m as [|[k x] m IH]; [reflexivity|]. cbn [map_snd map fst snd]. rewrite IH. reflexivity.
Qed.

Lemma sort_keys_arr l : sort_keys (JArr l) = JArr (map sort_keys l).
Proof. reflexivity. Qed.

Lemma sort_keys_obj m : sort_keys (JObj m) = JObj (norm_pairs (map_snd sort_keys m)).
Proof.
  cbn [sort_keys]. f_equal. f_equal.
  induction m as [|[k x] m IH]; [reflexivity|]. cbn [map_snd map fst snd]. rewrite IH. reflexivity.
Qed.

Lemma genc_arr esc l : genc esc (JArr l) = 91 :: sep_concat (map (genc esc) l) ++ [93].
Proof. reflexivity. Qed.

Lemma genc_obj esc m : genc esc (JObj m) =
  123 :: sep_concat (map (member esc) (map_snd (genc esc) m)) ++ [125].
Proof.
  cbn [genc]. f_equal. f_equal. f_equal.
  induction m as [|[k x] m IH]; [reflexivity|]. cbn [map_snd map fst snd]. rewrite IH. reflexivity.
Qed.

Lemma all_strs_obj P m : all_strs P (JObj m) = forallb (fun kx => P (fst kx) && all_strs P (snd kx)) m.
Proof.
  cbn [all_strs]. induction m as [|[k x] m IH]; [reflexivity|]. cbn [forallb fst snd]. rewrite IH. reflexivity.
Qed.

Lemma jv_wf_obj m : jv_wf (JObj m) = forallb (fun kx => jv_wf (snd kx)) m.
Proof.
  cbn [jv_wf]. induction m as [|[k x] m IH]; [reflexivity|]. cbn [forallb snd]. rewrite IH. reflexivity.
Qed.

Lemma nodup_keys_arr l : nodup_keys (JArr l) <-> Forall nodup_keys l.
Proof.
  cbn [nodup_keys]. induction l as [|x l IH]; [split; constructor|].
  split.
  - intros [A B]. constructor; [exact A | apply IH; exact B].
  - intro H. inversion H; subst. split; [assumption | apply IH; assumption].
Qed.

Lemma nodup_keys_obj m : nodup_keys (JObj m) <-> NoDup (map fst m) /\ Forall (fun kx => nodup_keys (snd kx)) m.
Proof.
  cbn [nodup_keys].
  assert (E : (fix go (m : list (str * jv)) : Prop :=
                 match m with [] => True | (k, x) :: m' => nodup_keys x /\ go m' end) m
              <-> Forall (fun kx => nodup_keys (snd kx)) m).
  { induction m as [|[k x] m IH]; [split; constructor|]. split.
    - intros [A B]. constructor; [exact A | apply IH; exact B].
    - intro H. inversion H; subst. split; [assumption | apply IH; assumption]. }
  rewrite E. reflexivity.
Qed.

Lemma has_bad_number_obj m : has_bad_number (JObj m) = existsb (fun kx => has_bad_number (snd kx)) m.
Proof.
  cbn [has_bad_number]. induction m as [|[k x] m IH]; [reflexivity|]. cbn [existsb snd]. rewrite IH. reflexivity.
Qed.

Lemma json_valid_strings_all v : json_valid_strings v = all_strs no_ctrl v.
Proof.
  induction v using jv_ind'; try reflexivity.
  - cbn [json_valid_strings all_strs]. induction H as [|x l Hx _ IH]; [reflexivity|].
    cbn [forallb]. rewrite Hx, IH. reflexivity.
  - rewrite all_strs_obj. cbn [json_valid_strings].
    induction H as [|[k x] m Hx _ IH]; [reflexivity|].
    cbn [forallb fst snd] in *. rewrite Hx, IH. reflexivity.
Qed.

(* ---------- map_snd / seq helpers ---------- *)

Lemma map_snd_map_snd {A B C} (f : A -> B) (g : B -> C) l : map_snd g (map_snd f l) = map_snd (fun x => g (f x)) l.
Proof. unfold map_snd. rewrite map_map. reflexivity. Qed.

Lemma map_snd_ext_in {A B} (f g : A -> B) l : (forall kx, In kx l -> f (snd kx) = g (snd kx)) -> map_snd f l = map_snd g l.
Proof. intro H. unfold map_snd. apply map_ext_in. intros kx Hin. rewrite (H kx Hin). reflexivity. Qed.

Lemma map_snd_id {A} (l : list (str * A)) : map_snd (fun x => x) l = l.
Proof. unfold map_snd. induction l as [|[k x] l IH]; [reflexivity|]. cbn [map fst snd]. rewrite IH. reflexivity. Qed.

Lemma ksorted_map_snd {A B} (f : A -> B) l : ksorted l -> ksorted (map_snd f l).
Proof.
  induction 1 as [|x l Hs IH Hall]; [constructor|].
  cbn [map_snd map]. constructor; [exact IH|].
  fold (map_snd f l). unfold map_snd. rewrite Forall_map. eapply Forall_impl; [|exact Hall]. intros y Hy. exact Hy.
Qed.

Lemma seq_res_map_snd_ok {A B} (f : A -> res B) (g : A -> B) l :
  (forall kx, In kx l -> f (snd kx) = Ok (g (snd kx))) -> seq_res (map_snd f l) = Ok (map_snd g l).
Proof.
  induction l as [|[k x] l IH]; intro H; [reflexivity|].
  pose proof (H (k, x) (or_introl eq_refl)) as Hx. cbn [snd] in Hx.
  cbn [map_snd map seq_res fst snd]. rewrite Hx. cbn [rbind].
  fold (map_snd f l). fold (map_snd g l). rewrite IH by (intros kx Hin; apply H; right; exact Hin). reflexivity.
Qed.

Lemma seq_res_ok_inv {A} (l : list (str * res A)) ps : seq_res l = Ok ps ->
  l = map_snd (@Ok A) ps.
Proof.
  revert ps. induction l as [|[k r] l IH]; intros ps H.
  - inversion H. reflexivity.
  - cbn [seq_res] in H. destruct r as [a| |]; try discriminate. cbn [rbind] in H.
    destruct (seq_res l) as [t| |] eqn:E; try discriminate. inversion H; subst.
    cbn [map_snd map fst snd]. f_equal. apply IH. reflexivity.
Qed.

Lemma seq_list_ok_inv {A} (l : list (res A)) xs : seq_list l = Ok xs -> l = map (@Ok A) xs.
Proof.
  revert xs. induction l as [|r l IH]; intros xs H.
  - inversion H. reflexivity.
  - cbn [seq_list] in H. destruct r as [a| |]; try discriminate. cbn [rbind] in H.
    destruct (seq_list l) as [t| |] eqn:E; try discriminate. inversion H; subst.
    cbn [map]. f_equal. apply IH. reflexivity.
Qed.

Lemma seq_list_map_ok {A B} (f : A -> res B) (g : A -> B) l :
  (forall x, In x l -> f x = Ok (g x)) -> seq_list (map f l) = Ok (map g l).
Proof.
  induction l as [|x l IH]; intro H; [reflexivity|].
  cbn [map seq_list]. rewrite (H x) by (left; reflexivity). cbn [rbind].
  rewrite IH by (intros y Hin; apply H; right; exact Hin). reflexivity.
Qed.

(* ---------- canon factors through the normal form ---------- *)

Lemma canon_sort_keys v : canon (sort_keys v) = canon v.
Proof.
  induction v using jv_ind'; try reflexivity.
  - rewrite sort_keys_arr, !canon_arr. rewrite map_map. f_equal. f_equal.
    apply map_ext_in. intros x Hin. rewrite Forall_forall in H. apply H. exact Hin.
  - rewrite sort_keys_obj, !canon_obj. f_equal. f_equal.
    rewrite (norm_pairs_map_snd sort_keys m), map_snd_map_snd.
    rewrite (norm_pairs_map_snd (fun x => canon (sort_keys x)) (norm_pairs m)).
    rewrite (norm_pairs_id (norm_pairs m)) by apply norm_pairs_sorted.
    rewrite (norm_pairs_map_snd canon m).
    apply map_snd_ext_in. intros kx Hin. rewrite Forall_forall in H. apply H.
    apply norm_pairs_incl. exact Hin.
Qed.

Lemma sort_keys_idem v : sort_keys (sort_keys v) = sort_keys v.
Proof.
  induction v using jv_ind'; try reflexivity.
  - rewrite !sort_keys_arr. f_equal. rewrite map_map. apply map_ext_in. intros x Hin.
    rewrite Forall_forall in H. apply H. exact Hin.
  - rewrite !sort_keys_obj. f_equal.
    rewrite (norm_pairs_map_snd sort_keys m), map_snd_map_snd.
    rewrite (norm_pairs_map_snd (fun x => sort_keys (sort_keys x)) (norm_pairs m)).
    rewrite (norm_pairs_id (norm_pairs m)) by apply norm_pairs_sorted.
    apply map_snd_ext_in. intros kx Hin. rewrite Forall_forall in H. apply H.
    apply norm_pairs_incl. exact Hin.
Qed.

(* a successful canonicalisation is the plain rendering of the normal form *)
Lemma canon_genc v : forall out, canon v = Ok out -> out = genc canon_escape (sort_keys v).
Proof.
  induction v using jv_ind'; intros out Hb.
  - inversion Hb. reflexivity.
  - inversion Hb. reflexivity.
  - cbn [canon] in Hb. destruct (int64_range z); inversion Hb. reflexivity.
  - cbn [canon] in Hb. destruct (int64_literal l); inversion Hb. reflexivity.
  - inversion Hb. reflexivity.
  - rewrite canon_arr in Hb. destruct (seq_list (map canon l)) as [items| |] eqn:E; try discriminate.
    cbn [rbind] in Hb. inversion Hb; subst out. rewrite sort_keys_arr, genc_arr. f_equal. f_equal. f_equal.
    rewrite map_map. apply seq_list_ok_inv in E.
    clear Hb. revert items E. induction H as [|x l Hx _ IH]; intros items E.
    + destruct items; [reflexivity | discriminate].
    + destruct items as [|a items]; [discriminate|]. cbn [map] in E. inversion E as [[E1 E2]].
      cbn [map]. f_equal; [apply Hx; exact E1 | apply IH; exact E2].
  - rewrite canon_obj in Hb.
    destruct (seq_res (norm_pairs (map_snd canon m))) as [ps| |] eqn:E; try discriminate.
    cbn [rbind] in Hb. inversion Hb; subst out. rewrite sort_keys_obj, genc_obj. f_equal. f_equal. f_equal. f_equal.
    apply seq_res_ok_inv in E. rewrite norm_pairs_map_snd in E.
    rewrite norm_pairs_map_snd, map_snd_map_snd.
    assert (Hin : forall kx, In kx (norm_pairs m) -> forall o, canon (snd kx) = Ok o -> o = genc canon_escape (sort_keys (snd kx))).
    { intros kx Hi. rewrite Forall_forall in H. apply H. apply norm_pairs_incl. exact Hi. }
    clear Hb H. revert ps E Hin. generalize (norm_pairs m) as l.
    induction l as [|[k x] l IH]; intros ps E Hin.
    + destruct ps; [reflexivity | discriminate].
    + destruct ps as [|[k' a] ps]; [discriminate|]. cbn [map_snd map fst snd] in E. inversion E as [[E1 E2 E3]].
      cbn [map_snd map fst snd]. f_equal.
      * f_equal. apply (Hin (k, x)); [left; reflexivity | exact E2].
      * apply IH; [exact E3 | intros kx Hi; apply Hin; right; exact Hi].
Qed.

(* ---------- permutation invariance ---------- *)

Lemma map_snd_app {A B} (f : A -> B) a b : map_snd f (a ++ b) = map_snd f a ++ map_snd f b.
Proof. unfold map_snd. apply map_app. Qed.

Lemma jperm_sort_keys a b : jperm a b -> nodup_keys a -> sort_keys a = sort_keys b /\ nodup_keys b.
Proof.
  induction 1 as [v | a b c _ IH1 _ IH2 | m1 m2 Hp | pre x y post _ IH | pre k x y post _ IH]; intro Hnd.
  - auto.
  - destruct (IH1 Hnd) as [E1 N1]. destruct (IH2 N1) as [E2 N2]. split; [congruence | exact N2].
  - apply nodup_keys_obj in Hnd as [Hk Hv]. split.
    + rewrite !sort_keys_obj. f_equal. apply norm_pairs_perm_eq.
      * rewrite map_snd_keys. exact Hk.
      * unfold map_snd. apply Permutation_map. exact Hp.
    + apply nodup_keys_obj. split.
      * eapply Permutation_NoDup; [apply Permutation_map; exact Hp | exact Hk].
      * eapply Permutation_Forall; [exact Hp | exact Hv].
  - apply nodup_keys_arr in Hnd. apply Forall_app in Hnd as [Hpre Hx]. inversion Hx as [|? ? Hx' Hpost]; subst.
    destruct (IH Hx') as [E N]. split.
    + rewrite !sort_keys_arr, !map_app. cbn [map]. rewrite E. reflexivity.
    + apply nodup_keys_arr. apply Forall_app. split; [exact Hpre | constructor; assumption].
  - apply nodup_keys_obj in Hnd as [Hk Hv]. apply Forall_app in Hv as [Hpre Hx].
    inversion Hx as [|? ? Hx' Hpost]; subst. cbn [snd] in Hx'.
    destruct (IH Hx') as [E N]. split.
    + rewrite !sort_keys_obj, !map_snd_app. cbn [map_snd map fst snd]. rewrite E. reflexivity.
    + apply nodup_keys_obj. split.
      * rewrite map_app in *. cbn [map fst] in *. exact Hk.
      * apply Forall_app. split; [exact Hpre | constructor; assumption].
Qed.

Theorem canon_perm_invariant a b : jperm a b -> nodup_keys a -> canon a = canon b.
Proof.
  intros Hp Hnd. destruct (jperm_sort_keys _ _ Hp Hnd) as [E _].
  rewrite <- (canon_sort_keys a), <- (canon_sort_keys b), E. reflexivity.
Qed.

(* ---------- numbers that canonical JSON cannot carry are refused ---------- *)

Lemma seq_list_err {A} (l : list (res A)) : (exists r, In r l /\ is_ok r = false) -> is_ok (seq_list l) = false.
Proof.
  induction l as [|r l IH]; intros [r0 [Hin Hr]]; [destruct Hin|].
  cbn [seq_list]. destruct r as [a| |]; try reflexivity. cbn [rbind].
  destruct Hin as [<-|Hin]; [discriminate|].
  assert (H : is_ok (seq_list l) = false) by (apply IH; exists r0; auto).
  destruct (seq_list l); try reflexivity. discriminate.
Qed.

Lemma seq_res_err {A} (l : list (str * res A)) : (exists kr, In kr l /\ is_ok (snd kr) = false) -> is_ok (seq_res l) = false.
Proof.
  induction l as [|[k r] l IH]; intros [r0 [Hin Hr]]; [destruct Hin|].
  cbn [seq_res]. destruct r as [a| |]; try reflexivity. cbn [rbind].
  destruct Hin as [<-|Hin]; [discriminate|].
  assert (H : is_ok (seq_res l) = false) by (apply IH; exists r0; auto).
  destruct (seq_res l); try reflexivity. discriminate.
Qed.

Lemma is_ok_bind_false {A B} (r : res A) (f : A -> res B) : is_ok r = false -> is_ok (rbind r f) = false.
Proof. destruct r; [discriminate | reflexivity | reflexivity]. Qed.

(* for values with unique member names: a bad number anywhere makes canon fail *)
Lemma nonintegral_refused v : nodup_keys v -> has_bad_number v = true -> is_ok (canon v) = false.
Proof.
  induction v using jv_ind'; intros Hnd Hbad; try discriminate.
  - cbn [has_bad_number canon] in *. destruct (int64_range z); [discriminate | reflexivity].
  - cbn [has_bad_number canon] in *. destruct (int64_literal l); [discriminate | reflexivity].
  - rewrite canon_arr. apply is_ok_bind_false. apply seq_list_err.
    cbn [has_bad_number] in Hbad. apply existsb_exists in Hbad as [x [Hin Hx]].
    exists (canon x). split; [apply in_map; exact Hin|].
    rewrite Forall_forall in H. apply H; [exact Hin | | exact Hx].
    apply nodup_keys_arr in Hnd. rewrite Forall_forall in Hnd. apply Hnd. exact Hin.
  - rewrite canon_obj. apply is_ok_bind_false. apply seq_res_err.
    rewrite has_bad_number_obj in Hbad. apply existsb_exists in Hbad as [kx [Hin Hx]].
    apply nodup_keys_obj in Hnd as [Hk Hv].
    exists (fst kx, canon (snd kx)). split.
    + unfold norm_pairs. rewrite dedup_last_id by (rewrite map_snd_keys; exact Hk).
      eapply Permutation_in; [apply sort_pairs_perm|]. unfold map_snd.
      apply (in_map (fun kx => (fst kx, canon (snd kx)))). exact Hin.
    + cbn [snd]. rewrite Forall_forall in H, Hv. apply H; [exact Hin | apply Hv; exact Hin | exact Hx].
Qed.
