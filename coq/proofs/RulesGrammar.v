(* RulesGrammar.v — UnpackRule accepts exactly the ten rule shapes of the
   specification's grammar (spec/RulesSpec.v), with ASCII-case-insensitive keywords,
   and never panics. *)
From IT Require Import model.Rules spec.RulesSpec proofs.RulesBasics.

Arguments str_eqb : simpl never.
Arguments bs : simpl never.

(* the ruledata UnpackRule returns for a rule of the grammar *)
Definition type_token (ty : atype) : str :=
  match ty with Materials => bs "materials" | Products => bs "products" end.

Definition rd_of (sr : srule) : ruledata :=
  match sr with
  | SCreate p => mkRD (bs "create") p [] [] [] []
  | SModify p => mkRD (bs "modify") p [] [] [] []
  | SDelete p => mkRD (bs "delete") p [] [] [] []
  | SAllow p => mkRD (bs "allow") p [] [] [] []
  | SDisallow p => mkRD (bs "disallow") p [] [] [] []
  | SRequire f => mkRD (bs "require") f [] [] [] []
  | SMatch p sp ty dp s => mkRD (bs "match") p sp dp (type_token ty) s
  end.

(* the regenerated keyword tables are the expected ones *)
Definition expected_keywords : list str :=
  [bs "create"; bs "modify"; bs "delete"; bs "allow"; bs "disallow"; bs "require"; bs "match"].
Definition expected_tokens : list str :=
  [bs "from"; bs "in"; bs "materials"; bs "products"; bs "with"].

Lemma keywords_ok : t_rule_keywords = expected_keywords /\ t_rule_tokens = expected_tokens.
Proof. split; vm_compute; reflexivity. Qed.

Lemma kw_generic_eq : kw_generic =
  [bs "create"; bs "modify"; bs "delete"; bs "allow"; bs "disallow"; bs "require"].
Proof. vm_compute. reflexivity. Qed.
Lemma kw_match_eq : kw_match = bs "match". Proof. vm_compute. reflexivity. Qed.
Lemma tok_from_eq : tok_from = bs "from". Proof. vm_compute. reflexivity. Qed.
Lemma tok_in_eq : tok_in = bs "in". Proof. vm_compute. reflexivity. Qed.
Lemma tok_with_eq : tok_with = bs "with". Proof. vm_compute. reflexivity. Qed.
Lemma tok_materials_eq : tok_materials = bs "materials". Proof. vm_compute. reflexivity. Qed.
Lemma tok_products_eq : tok_products = bs "products". Proof. vm_compute. reflexivity. Qed.

Lemma ci_lower t kw : ci t kw <-> to_lower t = bs kw.
Proof. reflexivity. Qed.

Lemma eqb_ci t kw : str_eqb (to_lower t) (bs kw) = true <-> ci t kw.
Proof. rewrite str_eqb_eq. reflexivity. Qed.

(* unpack_rule with the tables replaced by their values *)
Lemma unpack_rule_unfold rule :
  unpack_rule rule =
  let n := length rule in
  if Nat.eqb n 0 then Err err_rule_format else
  let low := map to_lower rule in
  if mem (tk low 0) [bs "create"; bs "modify"; bs "delete"; bs "allow"; bs "disallow"; bs "require"] then
    if negb (Nat.eqb n 2) then Err err_rule_format
    else Ok (mkRD (tk low 0) (tk rule 1) [] [] [] [])
  else if str_eqb (tk low 0) (bs "match") then
    let shape :=
      if Nat.eqb n 10 && str_eqb (tk low 2) (bs "in") && str_eqb (tk low 4) (bs "with")
         && str_eqb (tk low 6) (bs "in") && str_eqb (tk low 8) (bs "from")
      then Some (tk rule 3, tk low 5, tk rule 7, tk rule 9)
      else if Nat.eqb n 8 && str_eqb (tk low 2) (bs "in") && str_eqb (tk low 4) (bs "with")
              && str_eqb (tk low 6) (bs "from")
      then Some (tk rule 3, tk low 5, [], tk rule 7)
      else if Nat.eqb n 8 && str_eqb (tk low 2) (bs "with") && str_eqb (tk low 4) (bs "in")
              && str_eqb (tk low 6) (bs "from")
      then Some ([], tk low 3, tk rule 5, tk rule 7)
      else if Nat.eqb n 6 && str_eqb (tk low 2) (bs "with") && str_eqb (tk low 4) (bs "from")
      then Some ([], tk low 3, [], tk rule 5)
      else None in
    match shape with
    | None => Err err_rule_format
    | Some (srcPrefix, dstType, dstPrefix, dstName) =>
        if negb (str_eqb dstType (bs "materials")) && negb (str_eqb dstType (bs "products"))
        then Err err_rule_format
        else Ok (mkRD (tk low 0) (tk rule 1) srcPrefix dstPrefix dstType dstName)
    end
  else Err err_rule_format.
Proof.
  unfold unpack_rule.
  rewrite kw_generic_eq, kw_match_eq, tok_from_eq, tok_in_eq, tok_with_eq, tok_materials_eq, tok_products_eq.
  reflexivity.
Qed.

(* ---------- shape => accepted ---------- *)

Lemma atype_tok_lower t ty : atype_tok t ty -> to_lower t = type_token ty.
Proof. intros [t' H|t' H]; exact H. Qed.

Lemma dst_type_ok ty :
  negb (str_eqb (type_token ty) (bs "materials")) && negb (str_eqb (type_token ty) (bs "products")) = false.
Proof. destruct ty; vm_compute; reflexivity. Qed.

Lemma unpack_rule_complete r sr : rule_shape r sr -> unpack_rule r = Ok (rd_of sr).
Proof.
  intro H. rewrite unpack_rule_unfold.
  destruct H;
    repeat match goal with
           | H : ci ?t ?k |- _ => change (to_lower t = bs k) in H
           | H : atype_tok _ _ |- _ => apply atype_tok_lower in H
           end;
    cbv zeta; cbn [length Nat.eqb map tk nth];
    repeat match goal with H : to_lower _ = _ |- _ => rewrite H; clear H end;
    try reflexivity.
  all: cbn [andb str_eqb].
  all: repeat match goal with
              | |- context [str_eqb (bs ?a) (bs ?b)] =>
                  let v := eval vm_compute in (str_eqb (bs a) (bs b)) in
                  change (str_eqb (bs a) (bs b)) with v
              end; cbn [andb negb mem orb].
  all: rewrite ?dst_type_ok; try reflexivity.
Qed.

(* ---------- accepted => shape ---------- *)

Lemma dst_type_cases x :
  negb (str_eqb x (bs "materials")) && negb (str_eqb x (bs "products")) = false ->
  x = bs "materials" \/ x = bs "products".
Proof.
  destruct (str_eqb_spec x (bs "materials")); [auto|].
  destruct (str_eqb_spec x (bs "products")); [auto|]. discriminate.
Qed.

Lemma atype_tok_of t : to_lower t = bs "materials" \/ to_lower t = bs "products" ->
  exists ty, atype_tok t ty /\ to_lower t = type_token ty.
Proof.
  intros [H|H]; [exists Materials | exists Products]; (split; [constructor; exact H | exact H]).
Qed.

Ltac split_andb H :=
  repeat match type of H with
         | _ && _ = true => let H' := fresh H in apply andb_true_iff in H as [H H']
         end.

Ltac eqb_hyps :=
  repeat match goal with
         | H : _ && _ = true |- _ => let H' := fresh H in apply andb_true_iff in H as [H H']
         | H : str_eqb (to_lower _) (bs _) = true |- _ => apply eqb_ci in H
         | H : true = true |- _ => clear H
         end.

Lemma mem6 x a b c d e f :
  mem x [a; b; c; d; e; f] = true -> x = a \/ x = b \/ x = c \/ x = d \/ x = e \/ x = f.
Proof.
  intro H. apply mem_In in H. simpl in H. intuition.
Qed.

Lemma unpack_rule_sound r d : unpack_rule r = Ok d -> exists sr, rule_shape r sr /\ d = rd_of sr.
Proof.
  rewrite unpack_rule_unfold. cbv zeta.
  destruct r as [|t0 [|t1 [|t2 [|t3 [|t4 [|t5 [|t6 [|t7 [|t8 [|t9 [|t10 r]]]]]]]]]]];
    cbn [length Nat.eqb map tk nth andb negb]; intro H; try discriminate.
  (* generic keyword present: only length 2 survives *)
  all: destruct (mem (to_lower t0) _) eqn:Hg;
    [ try discriminate
    | destruct (str_eqb (to_lower t0) (bs "match")) eqn:Hm; [|discriminate] ].
  all: cbn [andb] in H; try discriminate.
  - (* two tokens, generic keyword *)
    inversion H; subst d. clear H. apply mem6 in Hg.
    destruct Hg as [E|[E|[E|[E|[E|E]]]]]; rewrite E.
    + exists (SCreate t1). split; [constructor; exact E | reflexivity].
    + exists (SModify t1). split; [constructor; exact E | reflexivity].
    + exists (SDelete t1). split; [constructor; exact E | reflexivity].
    + exists (SAllow t1). split; [constructor; exact E | reflexivity].
    + exists (SDisallow t1). split; [constructor; exact E | reflexivity].
    + exists (SRequire t1). split; [constructor; exact E | reflexivity].
  - (* six tokens *)
    destruct (str_eqb (to_lower t2) (bs "with") && str_eqb (to_lower t4) (bs "from")) eqn:C; [|discriminate].
    destruct (negb (str_eqb (to_lower t3) (bs "materials")) && negb (str_eqb (to_lower t3) (bs "products"))) eqn:T;
      [discriminate|].
    inversion H; subst d. clear H. eqb_hyps.
    destruct (atype_tok_of _ (dst_type_cases _ T)) as (ty & Hty & Ety).
    exists (SMatch t1 [] ty [] t5). split; [constructor; assumption|].
    simpl. rewrite Ety. f_equal. exact Hm.
  - (* eight tokens: two shapes *)
    destruct (str_eqb (to_lower t2) (bs "in") && str_eqb (to_lower t4) (bs "with")
              && str_eqb (to_lower t6) (bs "from")) eqn:C1.
    + destruct (negb (str_eqb (to_lower t5) (bs "materials")) && negb (str_eqb (to_lower t5) (bs "products"))) eqn:T;
        [discriminate|].
      inversion H; subst d. clear H. eqb_hyps.
      destruct (atype_tok_of _ (dst_type_cases _ T)) as (ty & Hty & Ety).
      exists (SMatch t1 t3 ty [] t7). split; [constructor; assumption|].
      simpl. rewrite Ety. f_equal. exact Hm.
    + destruct (str_eqb (to_lower t2) (bs "with") && str_eqb (to_lower t4) (bs "in")
                && str_eqb (to_lower t6) (bs "from")) eqn:C2; [|discriminate].
      destruct (negb (str_eqb (to_lower t3) (bs "materials")) && negb (str_eqb (to_lower t3) (bs "products"))) eqn:T;
        [discriminate|].
      inversion H; subst d. clear H C1. eqb_hyps.
      destruct (atype_tok_of _ (dst_type_cases _ T)) as (ty & Hty & Ety).
      exists (SMatch t1 [] ty t5 t7). split; [constructor; assumption|].
      simpl. rewrite Ety. f_equal. exact Hm.
  - (* ten tokens *)
    destruct (str_eqb (to_lower t2) (bs "in") && str_eqb (to_lower t4) (bs "with")
              && str_eqb (to_lower t6) (bs "in") && str_eqb (to_lower t8) (bs "from")) eqn:C; [|discriminate].
    destruct (negb (str_eqb (to_lower t5) (bs "materials")) && negb (str_eqb (to_lower t5) (bs "products"))) eqn:T;
      [discriminate|].
    inversion H; subst d. clear H. eqb_hyps.
    destruct (atype_tok_of _ (dst_type_cases _ T)) as (ty & Hty & Ety).
    exists (SMatch t1 t3 ty t7 t9). split; [constructor; assumption|].
    simpl. rewrite Ety. f_equal. exact Hm.
Qed.

Theorem unpack_rule_grammar r d :
  unpack_rule r = Ok d <-> exists sr, rule_shape r sr /\ d = rd_of sr.
Proof.
  split; [apply unpack_rule_sound|]. intros (sr & Hs & ->). apply unpack_rule_complete, Hs.
Qed.

(* anything else is an error — never a panic, never accepted *)
Theorem unpack_rule_total r :
  (exists d, unpack_rule r = Ok d) \/ unpack_rule r = Err err_rule_format.
Proof.
  unfold unpack_rule.
  repeat match goal with
         | |- context [if ?c then _ else _] => destruct c
         | |- context [match ?x with Some _ => _ | None => _ end] => destruct x as [[[[? ?] ?] ?]|]
         end; eauto.
Qed.

Lemma unpack_rule_err r : (forall sr, ~ rule_shape r sr) -> unpack_rule r = Err err_rule_format.
Proof.
  intro H. destruct (unpack_rule_total r) as [(d & Hd)|E]; [|exact E].
  apply unpack_rule_sound in Hd as (sr & Hs & _). exfalso. eapply H, Hs.
Qed.

(* the grammar is unambiguous *)
Lemma rd_of_inj sr1 sr2 : rd_of sr1 = rd_of sr2 -> sr1 = sr2.
Proof.
  destruct sr1, sr2; simpl; intro H; inversion H; subst; try reflexivity;
    try (match goal with E : bs _ = bs _ |- _ => vm_compute in E; discriminate E end).
  f_equal. destruct dst_type, dst_type0; try reflexivity;
    match goal with E : type_token _ = type_token _ |- _ => vm_compute in E; discriminate E end.
Qed.

Lemma rule_shape_functional r sr1 sr2 : rule_shape r sr1 -> rule_shape r sr2 -> sr1 = sr2.
Proof.
  intros H1 H2. apply unpack_rule_complete in H1. apply unpack_rule_complete in H2.
  rewrite H1 in H2. inversion H2. apply rd_of_inj. assumption.
Qed.

(* the model's to_lower is the spec's lower; on ASCII tokens both are the bytewise map *)
Lemma to_lower_lower s : to_lower s = lower s.
Proof. reflexivity. Qed.

Lemma lower_ascii s : Forall (fun c => c < 128) s -> lower s = map to_lower_ascii s.
Proof.
  induction s as [|c s IH]; intro H; [reflexivity|]. inversion H as [|? ? Hc Hs]; subst.
  specialize (IH Hs).
  assert (E : lower (c :: s) = to_lower_ascii c :: lower s).
  { clear IH H Hs. destruct c as [|p]; [reflexivity|].
    do 7 (destruct p as [p|p|]; try reflexivity); exfalso; lia. }
  rewrite E, IH. reflexivity.
Qed.

(* changing the case of keyword tokens does not change the parse *)
Lemma ci_case_insensitive t t' kw : to_lower t = to_lower t' -> ci t kw -> ci t' kw.
Proof. unfold ci. intros E H. change (to_lower t' = bs kw). rewrite <- E. exact H. Qed.
