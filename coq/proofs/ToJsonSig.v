(* ToJsonSig.v — the signable bytes determine the metadata: two well-typed Go values with
   the same canonical bytes are equal up to the order of map entries (and nil/empty at
   omitempty positions).  Composition of canon's injectivity (JsonRoundTrip) with the
   structure of json.Marshal's output (ToJson). *)
From IT Require Import model.ToJson spec.JsonSpec spec.SchemaSpec.
From IT Require Import proofs.JsonOrder proofs.JsonStr proofs.JsonProofs proofs.JsonRoundTrip proofs.ToJsonProofs proofs.ToJsonInj.

(* map keys unique in every map of a Go value (Go maps always are) *)
Fixpoint gv_nodup (g : gval) : Prop :=
  match g with
  | GList l => (fix go (l : list gval) : Prop := match l with [] => True | x :: l' => gv_nodup x /\ go l' end) l
  | GMap m => NoDup (map fst m) /\
              (fix go (m : list (str * gval)) : Prop := match m with [] => True | (k, x) :: m' => gv_nodup x /\ go m' end) m
  | GStruct fs => (fix go (l : list gval) : Prop := match l with [] => True | x :: l' => gv_nodup x /\ go l' end) fs
  | GAny v => nodup_keys v
  | _ => True
  end.

(* number literals inside interface{} values are well formed *)
Fixpoint gv_wf (g : gval) : bool :=
  match g with
  | GList l => forallb gv_wf l
  | GMap m => (fix go (m : list (str * gval)) : bool := match m with [] => true | (k, x) :: m' => gv_wf x && go m' end) m
  | GStruct fs => forallb gv_wf fs
  | GAny v => jv_wf v
  | _ => true
  end.

(* normal form up to the order of map entries *)
Fixpoint gsort (g : gval) : gval :=
  match g with
  | GList l => GList (map gsort l)
  | GMap m => GMap (norm_pairs ((fix go (m : list (str * gval)) : list (str * gval) :=
                                   match m with [] => [] | (k, x) :: m' => (k, gsort x) :: go m' end) m))
  | GStruct fs => GStruct (map gsort fs)
  | GAny v => GAny (sort_keys v)
  | _ => g
  end.

Lemma gsort_map m : gsort (GMap m) = GMap (norm_pairs (map_snd gsort m)).
Proof.
  cbn [gsort]. f_equal. f_equal. induction m as [|[k x] m IH]; [reflexivity|]. cbn [map_snd map fst snd]. rewrite IH. reflexivity.
Qed.

Lemma gv_nodup_list l : gv_nodup (GList l) <-> Forall gv_nodup l.
Proof.
  cbn [gv_nodup]. induction l as [|x l IH]; [split; constructor|]. split.
  - intros [A B]. constructor; [exact A | apply IH; exact B].
  - intro H. inversion H; subst. split; [assumption | apply IH; assumption].
Qed.
Lemma gv_nodup_struct l : gv_nodup (GStruct l) <-> Forall gv_nodup l.
Proof.
  cbn [gv_nodup]. induction l as [|x l IH]; [split; constructor|]. split.
  - intros [A B]. constructor; [exact A | apply IH; exact B].
  - intro H. inversion H; subst. split; [assumption | apply IH; assumption].
Qed.
Lemma gv_nodup_map m : gv_nodup (GMap m) <-> NoDup (map fst m) /\ Forall (fun kx => gv_nodup (snd kx)) m.
Proof.
  cbn [gv_nodup].
  assert (E : (fix go (m : list (str * gval)) : Prop := match m with [] => True | (k, x) :: m' => gv_nodup x /\ go m' end) m
              <-> Forall (fun kx => gv_nodup (snd kx)) m).
  { induction m as [|[k x] m IH]; [split; constructor|]. split.
    - intros [A B]. constructor; [exact A | apply IH; exact B].
    - intro H. inversion H; subst. split; [assumption | apply IH; assumption]. }
  rewrite E. reflexivity.
Qed.
Lemma gv_wf_map m : gv_wf (GMap m) = forallb (fun kx => gv_wf (snd kx)) m.
Proof. cbn [gv_wf]. induction m as [|[k x] m IH]; [reflexivity|]. cbn [forallb snd]. rewrite IH. reflexivity. Qed.

(* ---------- lookups characterise pair lists with unique keys ---------- *)

Lemma alookup_none_notin {V} (m : amap V) k : alookup m k = None <-> ~ In k (map fst m).
Proof.
  induction m as [|[k' v] m IH]; simpl; [tauto|].
  destruct (str_eqb k k') eqn:E.
  - apply str_eqb_eq in E. subst. split; [discriminate | intro H; exfalso; apply H; left; reflexivity].
  - apply str_eqb_neq in E. rewrite IH. split; [intros H [A|A]; [congruence | tauto] | tauto].
Qed.

Lemma In_alookup {V} (m : amap V) k v : NoDup (map fst m) -> In (k, v) m -> alookup m k = Some v.
Proof.
  induction m as [|[k' v'] m IH]; intros Hnd Hin; [destruct Hin|].
  inversion Hnd as [|? ? Hk Hnd']; subst. simpl. destruct Hin as [E|Hin].
  - inversion E; subst. rewrite str_eqb_refl. reflexivity.
  - destruct (str_eqb k k') eqn:E.
    + apply str_eqb_eq in E. subst. exfalso. apply Hk. apply in_map_iff. exists (k', v). auto.
    + apply IH; assumption.
Qed.

Lemma alookup_perm {V} (a b : amap V) k : NoDup (map fst a) -> Permutation a b -> alookup a k = alookup b k.
Proof.
  intros Hnd Hp.
  assert (Hnb : NoDup (map fst b)) by (eapply Permutation_NoDup; [apply Permutation_map; exact Hp | exact Hnd]).
  destruct (alookup a k) as [v|] eqn:E.
  - symmetry. apply In_alookup; [exact Hnb|]. eapply Permutation_in; [exact Hp|]. apply alookup_In. exact E.
  - symmetry. apply alookup_none_notin. apply alookup_none_notin in E. intro H. apply E.
    eapply Permutation_in; [apply Permutation_map; apply Permutation_sym; exact Hp | exact H].
Qed.

Lemma NoDup_pairs {V} (a : amap V) : NoDup (map fst a) -> NoDup a.
Proof.
  induction a as [|x a IH]; intro H; [constructor|]. inversion H; subst. constructor; [|apply IH; assumption].
  intro Hin. apply H2. apply in_map. exact Hin.
Qed.

Lemma lookup_eq_norm {V} (a b : amap V) : NoDup (map fst a) -> NoDup (map fst b) ->
  (forall k, alookup a k = alookup b k) -> norm_pairs a = norm_pairs b.
Proof.
  intros Ha Hb H. apply norm_pairs_perm_eq; [exact Ha|].
  apply NoDup_Permutation; [apply NoDup_pairs; exact Ha | apply NoDup_pairs; exact Hb|].
  intros [k v]. split; intro Hin.
  - apply alookup_In. rewrite <- H. apply In_alookup; assumption.
  - apply alookup_In. rewrite H. apply In_alookup; assumption.
Qed.

Lemma norm_eq_lookup {V} (a b : amap V) : NoDup (map fst a) -> NoDup (map fst b) ->
  norm_pairs a = norm_pairs b -> forall k, alookup a k = alookup b k.
Proof.
  intros Ha Hb H k. unfold norm_pairs in H. rewrite !dedup_last_id in H by assumption.
  rewrite (alookup_perm a (sort_pairs a) k Ha (sort_pairs_perm a)).
  rewrite (alookup_perm b (sort_pairs b) k Hb (sort_pairs_perm b)). rewrite H. reflexivity.
Qed.

Lemma alookup_map_snd {A B} (f : A -> B) (m : amap A) k : alookup (map_snd f m) k = option_map f (alookup m k).
Proof.
  induction m as [|[k' v] m IH]; [reflexivity|]. cbn [map_snd map fst snd alookup].
  destruct (str_eqb k k'); [reflexivity | exact IH].
Qed.

(* ---------- shape of json.Marshal's output ---------- *)

Lemma map_json_lookup t m ps : map_json t m = Ok ps ->
  Forall (fun kx => utf8_valid (fst kx) = true) m ->
  map fst ps = map fst m /\
  forall k, match alookup m k with
            | Some x => exists a, to_json t x = Ok a /\ alookup ps k = Some a
            | None => alookup ps k = None
            end.
Proof.
  revert ps. induction m as [|[k0 x] m IH]; intros ps H Hu.
  - inversion H. split; [reflexivity | intro k; reflexivity].
  - cbn [map_json] in H. apply rbind_ok_inv in H as [a [A H]]. apply rbind_ok_inv in H as [r [R H]]. inversion H; subst ps.
    inversion Hu as [|? ? Hk Hu']; subst. cbn [fst] in Hk. rewrite (utf8_sanitize_id k0 Hk).
    destruct (IH r R Hu') as [Ekeys Hl]. split; [cbn [map fst]; rewrite Ekeys; reflexivity|].
    intro k. cbn [alookup]. destruct (str_eqb k k0); [exists a; auto | apply Hl].
Qed.

Lemma fields_json_lookup fds : forall fs ps, fields_json fds fs = Ok ps -> NoDup (map f_json fds) ->
  forall k, ~ In k (map f_json fds) -> alookup ps k = None.
Proof.
  intros fs ps H _ k Hk. apply alookup_none_notin. intro Hin. apply Hk. eapply fields_json_keys; eassumption.
Qed.

Lemma fields_json_nodup fds : forall fs ps, fields_json fds fs = Ok ps -> NoDup (map f_json fds) -> NoDup (map fst ps).
Proof.
  induction fds as [|fd fds IH]; intros [|x fs] ps H Hnd; cbn [fields_json] in H; try discriminate.
  - inversion H. constructor.
  - apply rbind_ok_inv in H as [r [R H]]. inversion Hnd as [|? ? Hn Hnd']; subst.
    pose proof (IH fs r R Hnd') as Hr. pose proof (fields_json_keys _ _ _ R) as K.
    destruct (f_omitempty fd && is_empty_g x).
    + inversion H; subst. exact Hr.
    + apply rbind_ok_inv in H as [a [_ H]]. inversion H; subst. cbn [map fst]. constructor; [|exact Hr].
      intro Hin. apply Hn. apply K. exact Hin.
Qed.

(* the image of a well-formed Go value is a well-formed JSON value with unique names *)
Lemma sanitize_wf v : jv_utf8 v = true -> sanitize_jv v = v.
Proof. apply sanitize_jv_id. Qed.

Lemma to_json_wf g : forall t j, gv_wf g = true -> gv_utf8 g = true -> to_json t g = Ok j -> jv_wf j = true.
Proof.
  induction g using gval_ind'; intros t j Hwf Hu J.
  - destruct t; try discriminate. inversion J. reflexivity.
  - destruct t; try discriminate. inversion J. reflexivity.
  - destruct t; try discriminate. inversion J. reflexivity.
  - destruct t; try discriminate; inversion J; reflexivity.
  - destruct t as [| | |t'| | |]; try discriminate. rewrite to_json_list in J. apply rbind_ok_inv in J as [js [L J]].
    inversion J; subst j. cbn [jv_wf]. cbn [gv_wf gv_utf8] in Hwf, Hu. rewrite forallb_forall in Hwf, Hu.
    clear J. revert js L. induction H as [|x l Hx _ IH]; intros js L.
    + inversion L. reflexivity.
    + cbn [list_json] in L. apply rbind_ok_inv in L as [a [A L]]. apply rbind_ok_inv in L as [r [R L]]. inversion L; subst js.
      cbn [forallb]. rewrite (Hx t' a) by (try apply Hwf; try apply Hu; try exact A; left; reflexivity).
      apply IH; [intros y Hy; apply Hwf; right; exact Hy | intros y Hy; apply Hu; right; exact Hy | exact R].
  - destruct t as [| | | |t'| |]; try discriminate. rewrite to_json_map in J. apply rbind_ok_inv in J as [ps [M J]].
    inversion J; subst j. rewrite jv_wf_obj. rewrite gv_wf_map in Hwf. rewrite gv_utf8_map in Hu. rewrite forallb_forall in Hwf, Hu.
    clear J. revert ps M. induction H as [|[k x] m Hx _ IH]; intros ps M.
    + inversion M. reflexivity.
    + cbn [map_json] in M. apply rbind_ok_inv in M as [a [A M]]. apply rbind_ok_inv in M as [r [R M]]. inversion M; subst ps.
      pose proof (Hu (k, x) (or_introl eq_refl)) as Hkx. cbn [fst snd] in Hkx. apply andb_true_iff in Hkx as [_ Hux].
      cbn [forallb snd]. cbn [snd] in Hx. rewrite (Hx t' a (Hwf (k, x) (or_introl eq_refl)) Hux A).
      apply IH; [intros y Hy; apply Hwf; right; exact Hy | intros y Hy; apply Hu; right; exact Hy | exact R].
  - destruct t as [| | | | |n|]; try discriminate. rewrite to_json_struct in J.
    destruct (flat_fields n) as [fds|]; [|discriminate]. apply rbind_ok_inv in J as [ps [F J]]. inversion J; subst j.
    rewrite jv_wf_obj. cbn [gv_wf gv_utf8] in Hwf, Hu. rewrite forallb_forall in Hwf, Hu.
    clear J. revert fds ps F. induction H as [|x fs Hx _ IH]; intros fds ps F.
    + destruct fds; cbn [fields_json] in F; [inversion F; reflexivity | discriminate].
    + destruct fds as [|fd fds]; cbn [fields_json] in F; [discriminate|].
      apply rbind_ok_inv in F as [r [R F]].
      assert (Hr : forallb (fun kx : str * jv => jv_wf (snd kx)) r = true).
      { apply (IH (fun y Hy => Hwf y (or_intror Hy)) (fun y Hy => Hu y (or_intror Hy)) fds r R). }
      destruct (f_omitempty fd && is_empty_g x).
      * inversion F; subst. exact Hr.
      * apply rbind_ok_inv in F as [a [A F]]. inversion F; subst ps. cbn [forallb snd].
        rewrite (Hx (f_ty fd) a (Hwf x (or_introl eq_refl)) (Hu x (or_introl eq_refl)) A). exact Hr.
  - destruct t; try discriminate. inversion J; subst j. cbn [gv_wf gv_utf8] in Hwf, Hu. rewrite sanitize_jv_id by exact Hu. exact Hwf.
  - destruct t; discriminate.
Qed.

(* a present omitempty value keeps its normal form *)
Lemma norm_empty_nonempty t x : omit_ty_ok t = true -> wt t x -> is_empty_g x = false ->
  norm_empty true (gnorm t x) = gnorm t x.
Proof.
  intros Ht W E. destruct t; try discriminate.
  - destruct x; try contradiction. reflexivity.
  - destruct x as [| | | |l| | | |]; try contradiction; [discriminate|].
    rewrite gnorm_list. destruct l; [discriminate | reflexivity].
  - destruct x as [| | | | |m| | |]; try contradiction; [discriminate|].
    rewrite gnorm_map. destruct m as [|[k v] m]; [discriminate | reflexivity].
Qed.

Lemma sort_keys_is_obj j m : sort_keys j = JObj m -> exists m0, j = JObj m0.
Proof. destruct j; try discriminate. intros _. eexists; reflexivity. Qed.

(* ---------- the key lemma ---------- *)

Lemma to_json_sort_inj g1 : forall t g2 j1 j2, wt t g1 -> wt t g2 -> gv_utf8 g1 = true -> gv_utf8 g2 = true ->
  gv_nodup g1 -> gv_nodup g2 ->
  to_json t g1 = Ok j1 -> to_json t g2 = Ok j2 -> sort_keys j1 = sort_keys j2 ->
  gsort (gnorm t g1) = gsort (gnorm t g2).
Proof.
  induction g1 using gval_ind'; intros t g2 j1 j2 W1 W2 U1 U2 N1 N2 J1 J2 S.
  - destruct t; try contradiction. destruct g2; try contradiction.
    cbn [to_json gv_utf8] in *. rewrite utf8_sanitize_id in J1, J2 by assumption.
    inversion J1; inversion J2; subst. cbn [sort_keys] in S. inversion S. reflexivity.
  - destruct t; try contradiction. destruct g2; try contradiction. cbn [to_json] in *.
    inversion J1; inversion J2; subst. cbn [sort_keys] in S. inversion S. reflexivity.
  - destruct t; try contradiction. destruct g2; try contradiction. cbn [to_json] in *.
    inversion J1; inversion J2; subst. cbn [sort_keys] in S. inversion S. reflexivity.
  - (* nil *)
    destruct t; try contradiction; destruct g2; try contradiction; try reflexivity; exfalso; cbn [to_json] in J1; inversion J1; subst j1.
    + rewrite to_json_list in J2. apply rbind_ok_inv in J2 as [js [_ E]]. inversion E; subst. discriminate.
    + rewrite to_json_map in J2. apply rbind_ok_inv in J2 as [js [_ E]]. inversion E; subst. rewrite sort_keys_obj in S. discriminate.
  - (* list *)
    destruct t as [| | |t'| | |]; try contradiction. rewrite to_json_list in J1. apply rbind_ok_inv in J1 as [js1 [L1 E1]].
    inversion E1; subst j1.
    destruct g2 as [| | | |l2| | | |]; try contradiction.
    { exfalso. cbn [to_json] in J2. inversion J2; subst. discriminate. }
    rewrite to_json_list in J2. apply rbind_ok_inv in J2 as [js2 [L2 E2]]. inversion E2; subst j2.
    rewrite !sort_keys_arr in S. inversion S as [S'].
    rewrite !gnorm_list. cbn [gsort]. f_equal. rewrite !map_map.
    apply wt_list in W1. apply wt_list in W2. apply gv_nodup_list in N1. apply gv_nodup_list in N2.
    cbn [gv_utf8] in U1, U2. rewrite forallb_forall in U1, U2.
    clear E1 E2 S. revert l2 js1 js2 L1 L2 S' W2 U2 N2. induction H as [|x l Hx _ IH]; intros l2 js1 js2 L1 L2 S' W2 U2 N2.
    + cbn [list_json] in L1. inversion L1; subst. destruct js2; [|discriminate]. destruct l2 as [|y l2]; [reflexivity|].
      cbn [list_json] in L2. apply rbind_ok_inv in L2 as [a [_ L2]]. apply rbind_ok_inv in L2 as [r [_ L2]]. discriminate.
    + cbn [list_json] in L1. apply rbind_ok_inv in L1 as [a [A1 L1]]. apply rbind_ok_inv in L1 as [r [R1 L1]].
      inversion L1; subst js1. destruct js2 as [|a2 r2]; [discriminate|]. cbn [map] in S'. inversion S' as [[Sa Sr]].
      destruct l2 as [|y l2]; [cbn [list_json] in L2; discriminate|].
      cbn [list_json] in L2. apply rbind_ok_inv in L2 as [a2' [A2 L2]]. apply rbind_ok_inv in L2 as [r2' [R2 L2]].
      inversion L2; subst a2' r2'. inversion W1; subst. inversion W2; subst. inversion N1; subst. inversion N2; subst.
      cbn [map]. f_equal.
      * eapply Hx; try eassumption; [apply U1 | apply U2]; left; reflexivity.
      * eapply IH; try eassumption; intros z Hz; [apply U1 | apply U2]; right; exact Hz.
  - (* map *)
    destruct t as [| | | |t'| |]; try contradiction. rewrite to_json_map in J1. apply rbind_ok_inv in J1 as [ps1 [M1 E1]].
    inversion E1; subst j1.
    destruct g2 as [| | | | |m2| | |]; try contradiction.
    { exfalso. cbn [to_json] in J2. inversion J2; subst. rewrite sort_keys_obj in S. discriminate. }
    rewrite to_json_map in J2. apply rbind_ok_inv in J2 as [ps2 [M2 E2]]. inversion E2; subst j2.
    rewrite !sort_keys_obj in S. inversion S as [S'].
    rewrite !gnorm_map, !gsort_map, !map_snd_map_snd. f_equal.
    apply wt_map in W1. apply wt_map in W2. apply gv_nodup_map in N1 as [K1 N1]. apply gv_nodup_map in N2 as [K2 N2].
    rewrite gv_utf8_map in U1, U2. rewrite forallb_forall in U1, U2.
    assert (Uk1 : Forall (fun kx : str * gval => utf8_valid (fst kx) = true) m).
    { apply Forall_forall. intros kx Hin. specialize (U1 kx Hin). apply andb_true_iff in U1. tauto. }
    assert (Uk2 : Forall (fun kx : str * gval => utf8_valid (fst kx) = true) m2).
    { apply Forall_forall. intros kx Hin. specialize (U2 kx Hin). apply andb_true_iff in U2. tauto. }
    destruct (map_json_lookup t' m ps1 M1 Uk1) as [Ek1 Hl1]. destruct (map_json_lookup t' m2 ps2 M2 Uk2) as [Ek2 Hl2].
    assert (Hlk : forall k, alookup (map_snd sort_keys ps1) k = alookup (map_snd sort_keys ps2) k).
    { apply norm_eq_lookup; [rewrite map_snd_keys, Ek1; exact K1 | rewrite map_snd_keys, Ek2; exact K2 | exact S']. }
    apply lookup_eq_norm; [rewrite map_snd_keys; exact K1 | rewrite map_snd_keys; exact K2 |].
    intro k. rewrite !alookup_map_snd. specialize (Hlk k). rewrite !alookup_map_snd in Hlk.
    specialize (Hl1 k). specialize (Hl2 k).
    destruct (alookup m k) as [x1|] eqn:A1; destruct (alookup m2 k) as [x2|] eqn:A2.
    + destruct Hl1 as [a1 [T1 P1]]. destruct Hl2 as [a2 [T2 P2]]. rewrite P1, P2 in Hlk. cbn [option_map] in *.
      inversion Hlk as [Hs]. f_equal.
      pose proof (alookup_In _ _ _ A1) as I1. pose proof (alookup_In _ _ _ A2) as I2.
      rewrite Forall_forall in H, W1, W2, N1, N2.
      pose proof (U1 _ I1) as Ux1. pose proof (U2 _ I2) as Ux2. cbn [fst snd] in Ux1, Ux2.
      apply andb_true_iff in Ux1 as [_ Ux1]. apply andb_true_iff in Ux2 as [_ Ux2].
      pose proof (H (k, x1) I1 t' x2 a1 a2) as HH. cbn [snd] in HH.
      apply HH; [apply (W1 _ I1) | apply (W2 _ I2) | exact Ux1 | exact Ux2 | apply (N1 _ I1) | apply (N2 _ I2) | exact T1 | exact T2 | exact Hs].
    + destruct Hl1 as [a1 [T1 P1]]. rewrite P1, Hl2 in Hlk. discriminate.
    + destruct Hl2 as [a2 [T2 P2]]. rewrite P2, Hl1 in Hlk. discriminate.
    + reflexivity.
  - (* struct *)
    destruct t as [| | | | |n|]; try contradiction. destruct g2 as [| | | | | |fs2| |]; try contradiction.
    apply wt_struct in W1 as [fds [Ef Wf1]]. apply wt_struct in W2 as [fds' [Ef' Wf2]].
    assert (fds' = fds) by congruence. subst fds'. clear Ef'.
    rewrite to_json_struct, Ef in J1, J2. apply rbind_ok_inv in J1 as [ps1 [F1 E1]]. apply rbind_ok_inv in J2 as [ps2 [F2 E2]].
    inversion E1; subst j1. inversion E2; subst j2. rewrite !sort_keys_obj in S. inversion S as [S'].
    rewrite !(gnorm_struct n _ fds Ef). cbn [gsort]. f_equal.
    pose proof (flat_names_nodup n fds Ef) as Hnd.
    assert (Hom : forall fd, In fd fds -> f_omitempty fd = true -> omit_ty_ok (f_ty fd) = true).
    { intros fd Hin. apply (flat_omit_ok n fds fd Ef Hin). }
    assert (Hlk : forall k, alookup (map_snd sort_keys ps1) k = alookup (map_snd sort_keys ps2) k).
    { apply norm_eq_lookup; [rewrite map_snd_keys; eapply fields_json_nodup; eassumption
                            | rewrite map_snd_keys; eapply fields_json_nodup; eassumption | exact S']. }
    apply gv_nodup_struct in N1. apply gv_nodup_struct in N2.
    cbn [gv_utf8] in U1, U2. rewrite forallb_forall in U1, U2.
    assert (Hlk' : forall k, In k (map f_json fds) -> alookup (map_snd sort_keys ps1) k = alookup (map_snd sort_keys ps2) k)
      by (intros k _; apply Hlk).
    clear Ef E1 E2 S S' Hlk. revert fds fs2 ps1 ps2 F1 F2 Wf1 Wf2 U2 N2 Hnd Hom Hlk'.
    induction H as [|x fs Hx _ IH]; intros fds fs2 ps1 ps2 F1 F2 Wf1 Wf2 U2 N2 Hnd Hom Hlk.
    + destruct fds as [|fd fds]; cbn [wt_fields] in Wf1; [|contradiction].
      destruct fs2 as [|y fs2]; cbn [wt_fields] in Wf2; [reflexivity | contradiction].
    + destruct fds as [|fd fds]; cbn [wt_fields] in Wf1; [contradiction|]. destruct Wf1 as [Wx Wf1].
      destruct fs2 as [|y fs2]; cbn [wt_fields] in Wf2; [contradiction|]. destruct Wf2 as [Wy Wf2].
      cbn [map] in Hnd. inversion Hnd as [|? ? Hnotin Hnd']; subst.
      inversion N1 as [|? ? Nx N1']; subst. inversion N2 as [|? ? Ny N2']; subst.
      cbn [fields_json] in F1, F2.
      apply rbind_ok_inv in F1 as [r1 [R1 F1]]. apply rbind_ok_inv in F2 as [r2 [R2 F2]].
      pose proof (fields_json_keys _ _ _ R1) as K1. pose proof (fields_json_keys _ _ _ R2) as K2.
      assert (Hn1 : alookup (map_snd sort_keys r1) (f_json fd) = None).
      { apply alookup_none_notin. rewrite map_snd_keys. intro Hin. apply Hnotin. apply K1. exact Hin. }
      assert (Hn2 : alookup (map_snd sort_keys r2) (f_json fd) = None).
      { apply alookup_none_notin. rewrite map_snd_keys. intro Hin. apply Hnotin. apply K2. exact Hin. }
      (* lookups of the other names only see the tails *)
      assert (Htl : forall p1 p2, (forall k, In k (map f_json fds) -> alookup (map_snd sort_keys p1) k = alookup (map_snd sort_keys r1) k) ->
                                  (forall k, In k (map f_json fds) -> alookup (map_snd sort_keys p2) k = alookup (map_snd sort_keys r2) k) ->
                                  ps1 = p1 -> ps2 = p2 ->
                                  map gsort (gnorm_fields fds fs) = map gsort (gnorm_fields fds fs2)).
      { intros p1 p2 H1 H2 -> ->. eapply IH; try eassumption;
          try (intros z Hz; apply U1; right; exact Hz); try (intros z Hz; apply U2; right; exact Hz);
          try (intros fd' Hin; apply Hom; right; exact Hin).
        intros k Hk. rewrite <- H1, <- H2 by exact Hk. apply Hlk. right. exact Hk. }
      assert (Hskip : forall (a : jv) r k, In k (map f_json fds) ->
                        alookup (map_snd sort_keys ((f_json fd, a) :: r)) k = alookup (map_snd sort_keys r) k).
      { intros a r k Hk. cbn [map_snd map fst snd alookup]. destruct (str_eqb k (f_json fd)) eqn:E; [|reflexivity].
        apply str_eqb_eq in E. subst k. contradiction. }
      pose proof (Hlk (f_json fd) (or_introl eq_refl)) as Hhead.
      cbn [gnorm_fields map].
      destruct (f_omitempty fd) eqn:Eo; cbn [andb] in F1, F2.
      * destruct (is_empty_g x) eqn:Ex; destruct (is_empty_g y) eqn:Ey.
        -- inversion F1; inversion F2; subst. f_equal; [|eapply Htl; eauto].
           f_equal. apply empty_norm_eq; auto. apply Hom; [left; reflexivity | exact Eo].
        -- exfalso. inversion F1; subst ps1. apply rbind_ok_inv in F2 as [a [_ F2]]. inversion F2; subst ps2.
           rewrite Hn1 in Hhead. cbn [map_snd map fst snd alookup] in Hhead. rewrite str_eqb_refl in Hhead. discriminate.
        -- exfalso. inversion F2; subst ps2. apply rbind_ok_inv in F1 as [a [_ F1]]. inversion F1; subst ps1.
           rewrite Hn2 in Hhead. cbn [map_snd map fst snd alookup] in Hhead. rewrite str_eqb_refl in Hhead. discriminate.
        -- apply rbind_ok_inv in F1 as [a1 [A1 F1]]. apply rbind_ok_inv in F2 as [a2 [A2 F2]].
           inversion F1; subst ps1. inversion F2; subst ps2.
           cbn [map_snd map fst snd alookup] in Hhead. rewrite str_eqb_refl in Hhead. inversion Hhead as [Hs].
           assert (Ho : omit_ty_ok (f_ty fd) = true) by (apply Hom; [left; reflexivity | exact Eo]).
           rewrite !norm_empty_nonempty by assumption.
           f_equal; [|eapply Htl; [intros k Hk; apply Hskip; exact Hk | intros k Hk; apply Hskip; exact Hk | reflexivity | reflexivity]].
           eapply Hx; try eassumption; [apply U1 | apply U2]; left; reflexivity.
      * apply rbind_ok_inv in F1 as [a1 [A1 F1]]. apply rbind_ok_inv in F2 as [a2 [A2 F2]].
        inversion F1; subst ps1. inversion F2; subst ps2.
        cbn [map_snd map fst snd alookup] in Hhead. rewrite str_eqb_refl in Hhead. inversion Hhead as [Hs].
        cbn [norm_empty].
        f_equal; [|eapply Htl; [intros k Hk; apply Hskip; exact Hk | intros k Hk; apply Hskip; exact Hk | reflexivity | reflexivity]].
        eapply Hx; try eassumption; [apply U1 | apply U2]; left; reflexivity.
  - (* interface value *)
    destruct t; try contradiction. destruct g2; try contradiction.
    cbn [to_json gv_utf8] in *. rewrite sanitize_jv_id in J1, J2 by assumption.
    inversion J1; inversion J2; subst. cbn [gnorm gsort]. f_equal. exact S.
  - destruct t; contradiction.
Qed.

(* two Go values signed to the same bytes are the same metadata *)
Theorem signable_injective t g1 g2 b : wt t g1 -> wt t g2 -> gv_utf8 g1 = true -> gv_utf8 g2 = true ->
  gv_wf g1 = true -> gv_wf g2 = true -> gv_nodup g1 -> gv_nodup g2 ->
  signable_g t g1 = Ok b -> signable_g t g2 = Ok b -> gsort (gnorm t g1) = gsort (gnorm t g2).
Proof.
  intros W1 W2 U1 U2 F1 F2 N1 N2 S1 S2. unfold signable_g in S1, S2.
  apply rbind_ok_inv in S1 as [j1 [J1 C1]]. apply rbind_ok_inv in S2 as [j2 [J2 C2]].
  eapply to_json_sort_inj; try eassumption.
  apply (canon_injective_nf j1 j2 b); [exact (to_json_wf g1 t j1 F1 U1 J1) | exact (to_json_wf g2 t j2 F2 U2 J2) | exact C1 | exact C2].
Qed.

(* the same for the shared records (links with links, layouts with layouts) *)
Theorem signable_payload_injective p1 p2 b : payload_ty p1 = payload_ty p2 ->
  gv_utf8 (payload_to_gval p1) = true -> gv_utf8 (payload_to_gval p2) = true ->
  gv_wf (payload_to_gval p1) = true -> gv_wf (payload_to_gval p2) = true ->
  gv_nodup (payload_to_gval p1) -> gv_nodup (payload_to_gval p2) ->
  signable p1 = Ok b -> signable p2 = Ok b ->
  gsort (gnorm (payload_ty p1) (payload_to_gval p1)) = gsort (gnorm (payload_ty p1) (payload_to_gval p2)).
Proof.
  intros Et U1 U2 F1 F2 N1 N2 S1 S2. rewrite signable_eq in S1, S2. rewrite <- Et in S2.
  eapply signable_injective; try eassumption; [apply wt_payload | rewrite Et; apply wt_payload].
Qed.
