(* ToJsonInj.v — json.Marshal of well-typed Go values is injective, up to the one
   identification the format makes: at omitempty positions an empty list/map and a
   nil one are both written as "absent". *)
From IT Require Import model.ToJson spec.JsonSpec spec.SchemaSpec.
From IT Require Import proofs.JsonOrder proofs.JsonStr proofs.JsonProofs proofs.ToJsonProofs.

(* strings and map keys of a Go value are valid UTF-8 *)
Fixpoint gv_utf8 (g : gval) : bool :=
  match g with
  | GStr s => utf8_valid s
  | GList l => forallb gv_utf8 l
  | GMap m => (fix go (m : list (str * gval)) : bool :=
                 match m with [] => true | (k, x) :: m' => utf8_valid k && gv_utf8 x && go m' end) m
  | GStruct fs => forallb gv_utf8 fs
  | GAny v => jv_utf8 v
  | _ => true
  end.

Definition norm_empty (omit : bool) (g : gval) : gval :=
  if omit then match g with GList [] => GNil | GMap [] => GNil | _ => g end else g.

(* normal form: an empty list/map at an omitempty position becomes nil; nothing else changes *)
Fixpoint gnorm (t : ty) (g : gval) {struct g} : gval :=
  match t, g with
  | TList t', GList l => GList ((fix go (l : list gval) : list gval :=
                                   match l with [] => [] | x :: l' => gnorm t' x :: go l' end) l)
  | TMap t', GMap m => GMap ((fix go (m : list (str * gval)) : list (str * gval) :=
                                match m with [] => [] | (k, x) :: m' => (k, gnorm t' x) :: go m' end) m)
  | TStruct n, GStruct fs =>
    match flat_fields n with
    | None => g
    | Some fds => GStruct ((fix go (fds : list field) (fs : list gval) {struct fs} : list gval :=
                              match fds, fs with
                              | fd :: fds', x :: fs' => norm_empty (f_omitempty fd) (gnorm (f_ty fd) x) :: go fds' fs'
                              | _, _ => fs
                              end) fds fs)
    end
  | _, _ => g
  end.

Fixpoint gnorm_fields (fds : list field) (fs : list gval) {struct fs} : list gval :=
  match fds, fs with
  | fd :: fds', x :: fs' => norm_empty (f_omitempty fd) (gnorm (f_ty fd) x) :: gnorm_fields fds' fs'
  | _, _ => fs
  end.

Lemma gnorm_list t l : gnorm (TList t) (GList l) = GList (map (gnorm t) l).
Proof. cbn [gnorm]. f_equal. Qed.

Lemma gnorm_map t m : gnorm (TMap t) (GMap m) = GMap (map_snd (gnorm t) m).
Proof.
  cbn [gnorm]. f_equal. induction m as [|[k x] m IH]; [reflexivity|]. cbn [map_snd map fst snd]. rewrite IH. reflexivity.
Qed.

Lemma gnorm_struct n fs fds : flat_fields n = Some fds -> gnorm (TStruct n) (GStruct fs) = GStruct (gnorm_fields fds fs).
Proof.
  intro H. cbn [gnorm]. rewrite H. f_equal.
Qed.

Lemma gv_utf8_map m : gv_utf8 (GMap m) = forallb (fun kx => utf8_valid (fst kx) && gv_utf8 (snd kx)) m.
Proof.
  cbn [gv_utf8]. induction m as [|[k x] m IH]; [reflexivity|]. cbn [forallb fst snd]. rewrite IH. reflexivity.
Qed.

(* the sanitised image of valid strings is the value itself *)
Lemma sanitize_jv_id v : jv_utf8 v = true -> sanitize_jv v = v.
Proof.
  unfold jv_utf8. induction v using jv_ind'; intro Hu; try reflexivity.
  - cbn [sanitize_jv all_strs] in *. rewrite utf8_sanitize_id by exact Hu. reflexivity.
  - cbn [sanitize_jv all_strs] in *. f_equal. rewrite forallb_forall in Hu.
    induction H as [|x l Hx _ IH]; [reflexivity|]. cbn [map]. f_equal.
    + apply Hx. apply Hu. left. reflexivity.
    + apply IH. intros y Hy. apply Hu. right. exact Hy.
  - rewrite all_strs_obj in Hu. rewrite forallb_forall in Hu. cbn [sanitize_jv]. f_equal.
    induction H as [|[k x] m Hx _ IH]; [reflexivity|].
    pose proof (Hu (k, x) (or_introl eq_refl)) as Hkx. cbn [fst snd] in Hkx. apply andb_true_iff in Hkx as [Hk Hv].
    rewrite (utf8_sanitize_id k Hk). cbn [snd] in Hx. rewrite (Hx Hv). f_equal.
    apply IH. intros y Hy. apply Hu. right. exact Hy.
Qed.

Lemma fields_json_keys fds : forall fs r, fields_json fds fs = Ok r -> incl (map fst r) (map f_json fds).
Proof.
  induction fds as [|fd fds IH]; intros [|x fs] r H; cbn [fields_json] in H; try discriminate.
  - inversion H. intros y Hy. exact Hy.
  - destruct (fields_json fds fs) as [r0| |] eqn:E; try discriminate. cbn [rbind] in H.
    specialize (IH fs r0 E).
    destruct (f_omitempty fd && is_empty_g x).
    + inversion H; subst. intros y Hy. right. apply IH. exact Hy.
    + destruct (to_json (f_ty fd) x) as [a| |]; try discriminate. cbn [rbind] in H. inversion H; subst.
      intros y Hy. destruct Hy as [<-|Hy]; [left; reflexivity | right; apply IH; exact Hy].
Qed.

(* two empty values of an omitempty-capable type have the same normal form *)
Lemma empty_norm_eq t x1 x2 : omit_ty_ok t = true -> wt t x1 -> wt t x2 ->
  is_empty_g x1 = true -> is_empty_g x2 = true ->
  norm_empty true (gnorm t x1) = norm_empty true (gnorm t x2).
Proof.
  intros Ht W1 W2 E1 E2.
  destruct t; try discriminate.
  - destruct x1 as [s1| | | | | | | |]; try contradiction. destruct x2 as [s2| | | | | | | |]; try contradiction.
    destruct s1; [|discriminate]. destruct s2; [|discriminate]. reflexivity.
  - destruct x1 as [| | | |l1| | | |]; try contradiction; destruct x2 as [| | | |l2| | | |]; try contradiction;
      try (destruct l1; [|discriminate]); try (destruct l2; [|discriminate]); reflexivity.
  - destruct x1 as [| | | | |m1| | |]; try contradiction; destruct x2 as [| | | | |m2| | |]; try contradiction;
      try (destruct m1; [|discriminate]); try (destruct m2; [|discriminate]); reflexivity.
Qed.

Lemma rbind_ok_inv {A B} (r : res A) (f : A -> res B) b : rbind r f = Ok b -> exists a, r = Ok a /\ f a = Ok b.
Proof. destruct r as [a| |]; try discriminate. intro H. exists a. auto. Qed.

Theorem to_json_injective_aux g1 : forall t g2 j, wt t g1 -> wt t g2 -> gv_utf8 g1 = true -> gv_utf8 g2 = true ->
  to_json t g1 = Ok j -> to_json t g2 = Ok j -> gnorm t g1 = gnorm t g2.
Proof.
  induction g1 using gval_ind'; intros t g2 j W1 W2 U1 U2 J1 J2.
  - (* string *)
    destruct t; try contradiction. destruct g2; try contradiction.
    cbn [to_json gv_utf8] in *. rewrite utf8_sanitize_id in J1, J2 by assumption. congruence.
  - destruct t; try contradiction. destruct g2; try contradiction. cbn [to_json] in *. congruence.
  - destruct t; try contradiction. destruct g2; try contradiction. cbn [to_json] in *. congruence.
  - (* nil *)
    destruct t; try contradiction; destruct g2; try contradiction; try reflexivity; exfalso.
    + rewrite to_json_list in J2. cbn [to_json] in J1. apply rbind_ok_inv in J2 as [js [_ E]]. congruence.
    + rewrite to_json_map in J2. cbn [to_json] in J1. apply rbind_ok_inv in J2 as [js [_ E]]. congruence.
  - (* list *)
    destruct t as [| | |t'| | |]; try contradiction. rewrite to_json_list in J1. apply rbind_ok_inv in J1 as [js1 [L1 E1]].
    destruct g2 as [| | | |l2| | | |]; try contradiction.
    { exfalso. cbn [to_json] in J2. congruence. }
    rewrite to_json_list in J2. apply rbind_ok_inv in J2 as [js2 [L2 E2]].
    assert (js1 = js2) by congruence. subst js2. clear E1 E2.
    rewrite !gnorm_list. f_equal.
    apply wt_list in W1. apply wt_list in W2. cbn [gv_utf8] in U1, U2. rewrite forallb_forall in U1, U2.
    revert l2 js1 L1 L2 W2 U2. induction H as [|x l Hx _ IH]; intros l2 js L1 L2 W2 U2.
    + cbn [list_json] in L1. inversion L1; subst. destruct l2 as [|y l2]; [reflexivity|].
      cbn [list_json] in L2. apply rbind_ok_inv in L2 as [a [_ L2]]. apply rbind_ok_inv in L2 as [r [_ L2]]. discriminate.
    + cbn [list_json] in L1. apply rbind_ok_inv in L1 as [a [A1 L1]]. apply rbind_ok_inv in L1 as [r [R1 L1]].
      inversion L1; subst js. destruct l2 as [|y l2]; [cbn [list_json] in L2; discriminate|].
      cbn [list_json] in L2. apply rbind_ok_inv in L2 as [a2 [A2 L2]]. apply rbind_ok_inv in L2 as [r2 [R2 L2]].
      inversion L2; subst a2 r2. inversion W1; subst. inversion W2; subst.
      cbn [map]. f_equal.
      * eapply Hx; try eassumption; [apply U1 | apply U2]; left; reflexivity.
      * eapply IH; try eassumption; intros z Hz; [apply U1 | apply U2]; right; exact Hz.
  - (* map *)
    destruct t as [| | | |t'| |]; try contradiction. rewrite to_json_map in J1. apply rbind_ok_inv in J1 as [ps1 [M1 E1]].
    destruct g2 as [| | | | |m2| | |]; try contradiction.
    { exfalso. cbn [to_json] in J2. congruence. }
    rewrite to_json_map in J2. apply rbind_ok_inv in J2 as [ps2 [M2 E2]].
    assert (ps1 = ps2) by congruence. subst ps2. clear E1 E2.
    rewrite !gnorm_map. f_equal.
    apply wt_map in W1. apply wt_map in W2. rewrite gv_utf8_map in U1, U2. rewrite forallb_forall in U1, U2.
    revert m2 ps1 M1 M2 W2 U2. induction H as [|[k x] m Hx _ IH]; intros m2 ps M1 M2 W2 U2.
    + cbn [map_json] in M1. inversion M1; subst. destruct m2 as [|[k2 y] m2]; [reflexivity|].
      cbn [map_json] in M2. apply rbind_ok_inv in M2 as [a [_ M2]]. apply rbind_ok_inv in M2 as [r [_ M2]]. discriminate.
    + cbn [map_json] in M1. apply rbind_ok_inv in M1 as [a [A1 M1]]. apply rbind_ok_inv in M1 as [r [R1 M1]].
      inversion M1; subst ps. destruct m2 as [|[k2 y] m2]; [cbn [map_json] in M2; discriminate|].
      cbn [map_json] in M2. apply rbind_ok_inv in M2 as [a2 [A2 M2]]. apply rbind_ok_inv in M2 as [r2 [R2 M2]].
      inversion M2 as [[Ek Ea Er]]. subst a2 r2. inversion W1; subst. inversion W2; subst. cbn [snd] in *.
      pose proof (U1 (k, x) (or_introl eq_refl)) as Ukx. pose proof (U2 (k2, y) (or_introl eq_refl)) as Uky.
      cbn [fst snd] in Ukx, Uky. apply andb_true_iff in Ukx as [Uk Ux]. apply andb_true_iff in Uky as [Uk2 Uy].
      rewrite (utf8_sanitize_id k Uk), (utf8_sanitize_id k2 Uk2) in Ek. subst k2.
      cbn [map_snd map fst snd]. f_equal.
      * f_equal. eapply Hx; eassumption.
      * eapply IH; try eassumption; intros z Hz; [apply U1 | apply U2]; right; exact Hz.
  - (* struct *)
    destruct t as [| | | | |n|]; try contradiction. destruct g2 as [| | | | | |fs2| |]; try contradiction.
    apply wt_struct in W1 as [fds [Ef Wf1]]. apply wt_struct in W2 as [fds' [Ef' Wf2]].
    assert (fds' = fds) by congruence. subst fds'. clear Ef'.
    rewrite to_json_struct, Ef in J1, J2. apply rbind_ok_inv in J1 as [ps1 [F1 E1]]. apply rbind_ok_inv in J2 as [ps2 [F2 E2]].
    assert (ps1 = ps2) by congruence. subst ps2. clear E1 E2.
    rewrite !(gnorm_struct n _ fds Ef). f_equal.
    pose proof (flat_names_nodup n fds Ef) as Hnd.
    assert (Hom : forall fd, In fd fds -> f_omitempty fd = true -> omit_ty_ok (f_ty fd) = true).
    { intros fd Hin. apply (flat_omit_ok n fds fd Ef Hin). }
    cbn [gv_utf8] in U1, U2. rewrite forallb_forall in U1, U2.
    clear Ef. revert fds fs2 ps1 F1 F2 Wf1 Wf2 U2 Hnd Hom.
    induction H as [|x fs Hx _ IH]; intros fds fs2 ps F1 F2 Wf1 Wf2 U2 Hnd Hom.
    + destruct fds as [|fd fds]; cbn [wt_fields] in Wf1; [|contradiction].
      destruct fs2 as [|y fs2]; cbn [wt_fields] in Wf2; [reflexivity | contradiction].
    + destruct fds as [|fd fds]; cbn [wt_fields] in Wf1; [contradiction|]. destruct Wf1 as [Wx Wf1].
      destruct fs2 as [|y fs2]; cbn [wt_fields] in Wf2; [contradiction|]. destruct Wf2 as [Wy Wf2].
      cbn [map] in Hnd. inversion Hnd as [|? ? Hnotin Hnd']; subst.
      cbn [fields_json] in F1, F2.
      apply rbind_ok_inv in F1 as [r1 [R1 F1]]. apply rbind_ok_inv in F2 as [r2 [R2 F2]].
      pose proof (fields_json_keys _ _ _ R1) as K1. pose proof (fields_json_keys _ _ _ R2) as K2.
      assert (Htail : forall r, r1 = r -> r2 = r -> gnorm_fields fds fs = gnorm_fields fds fs2).
      { intros r -> ->. eapply IH; try eassumption.
        - intros z Hz. apply U1. right. exact Hz.
        - intros z Hz. apply U2. right. exact Hz.
        - intros fd' Hin. apply Hom. right. exact Hin. }
      cbn [gnorm_fields].
      destruct (f_omitempty fd) eqn:Eo; cbn [andb] in F1, F2.
      * destruct (is_empty_g x) eqn:Ex; destruct (is_empty_g y) eqn:Ey.
        -- inversion F1; inversion F2; subst. f_equal; [|eapply Htail; reflexivity].
           apply empty_norm_eq; auto. apply Hom; [left; reflexivity | exact Eo].
        -- exfalso. inversion F1; subst ps. apply rbind_ok_inv in F2 as [a [_ F2]]. inversion F2; subst r1.
           apply Hnotin. apply K1. left. reflexivity.
        -- exfalso. inversion F2; subst ps. apply rbind_ok_inv in F1 as [a [_ F1]]. inversion F1; subst r2.
           apply Hnotin. apply K2. left. reflexivity.
        -- apply rbind_ok_inv in F1 as [a1 [A1 F1]]. apply rbind_ok_inv in F2 as [a2 [A2 F2]].
           inversion F1; subst ps. inversion F2 as [[Ea Er]]. subst a2.
           f_equal; [|eapply Htail; [reflexivity | first [exact Er | symmetry; exact Er]]].
           f_equal. eapply Hx; try eassumption; [apply U1 | apply U2]; left; reflexivity.
      * apply rbind_ok_inv in F1 as [a1 [A1 F1]]. apply rbind_ok_inv in F2 as [a2 [A2 F2]].
        inversion F1; subst ps. inversion F2 as [[Ea Er]]. subst a2.
        f_equal; [|eapply Htail; [reflexivity | first [exact Er | symmetry; exact Er]]].
        cbn [norm_empty]. eapply Hx; try eassumption; [apply U1 | apply U2]; left; reflexivity.
  - (* interface value *)
    destruct t; try contradiction. destruct g2; try contradiction.
    cbn [to_json gv_utf8] in *. rewrite sanitize_jv_id in J1, J2 by assumption. congruence.
  - destruct t; contradiction.
Qed.

Theorem to_json_injective t g1 g2 j : wt t g1 -> wt t g2 -> gv_utf8 g1 = true -> gv_utf8 g2 = true ->
  to_json t g1 = Ok j -> to_json t g2 = Ok j -> gnorm t g1 = gnorm t g2.
Proof. intros. eapply to_json_injective_aux; eassumption. Qed.
