(* ThresholdMaps.v — elementary facts about association lists used as Go maps
   (lookup / insert / keys / permutations), needed by the C02 proofs. *)
From IT Require Import model.Base.

Lemma akeys_app {V} (a b : amap V) : akeys (a ++ b) = akeys a ++ akeys b.
Proof. apply map_app. Qed.

Lemma ainsert_fresh {V} (m : amap V) k v :
  ~ In k (akeys m) -> ainsert m k v = m ++ [(k, v)].
Proof.
  induction m as [|[k' v'] m IH]; simpl; intro H; [reflexivity|].
  destruct (str_eqb k k') eqn:E.
  - apply str_eqb_eq in E. subst. tauto.
  - rewrite IH; tauto.
Qed.

Lemma ainsert_keys_present {V} (m : amap V) k v :
  In k (akeys m) -> akeys (ainsert m k v) = akeys m.
Proof.
  induction m as [|[k' v'] m IH]; simpl; intro H; [tauto|].
  destruct (str_eqb k k') eqn:E; simpl; [reflexivity|].
  f_equal. apply IH. destruct H as [H|H]; [|assumption].
  apply str_eqb_neq in E. congruence.
Qed.

Lemma ainsert_keys_in {V} (m : amap V) k v x :
  In x (akeys (ainsert m k v)) <-> x = k \/ In x (akeys m).
Proof.
  destruct (in_dec str_eq_dec k (akeys m)) as [Hin|Hnin].
  - rewrite ainsert_keys_present by assumption. split; [tauto|]. intros [->|H]; assumption.
  - rewrite ainsert_fresh by assumption. rewrite akeys_app, in_app_iff. simpl.
    split.
    + intros [H|[H|[]]]; auto.
    + intros [H|H]; auto.
Qed.

Lemma ainsert_nodup {V} (m : amap V) k v :
  NoDup (akeys m) -> NoDup (akeys (ainsert m k v)).
Proof.
  intro H. destruct (in_dec str_eq_dec k (akeys m)) as [Hin|Hnin].
  - rewrite ainsert_keys_present; assumption.
  - rewrite ainsert_fresh by assumption. rewrite akeys_app. simpl.
    apply (Permutation_NoDup (Permutation_app_comm [k] (akeys m))). simpl. constructor; assumption.
Qed.

Lemma alookup_ainsert_same {V} (m : amap V) k v : alookup (ainsert m k v) k = Some v.
Proof.
  induction m as [|[k' v'] m IH]; simpl.
  - rewrite str_eqb_refl. reflexivity.
  - destruct (str_eqb k k') eqn:E; simpl; rewrite E; [reflexivity | exact IH].
Qed.

Lemma alookup_ainsert_other {V} (m : amap V) k k' v :
  k <> k' -> alookup (ainsert m k' v) k = alookup m k.
Proof.
  intro Hne. induction m as [|[k2 v2] m IH]; simpl.
  - apply str_eqb_neq in Hne. rewrite Hne. reflexivity.
  - destruct (str_eqb k' k2) eqn:E; simpl.
    + apply str_eqb_eq in E. subst k2. apply str_eqb_neq in Hne. rewrite Hne. reflexivity.
    + rewrite IH. reflexivity.
Qed.

Lemma alookup_In {V} (m : amap V) k v : alookup m k = Some v -> In (k, v) m.
Proof.
  induction m as [|[k' v'] m IH]; simpl; [discriminate|].
  destruct (str_eqb k k') eqn:E; intro H.
  - apply str_eqb_eq in E. inversion H. subst. left; reflexivity.
  - right. apply IH. assumption.
Qed.

Lemma alookup_none {V} (m : amap V) k : alookup m k = None <-> ~ In k (akeys m).
Proof.
  induction m as [|[k' v'] m IH]; simpl; [tauto|].
  destruct (str_eqb k k') eqn:E.
  - apply str_eqb_eq in E. subst. split; [discriminate | intro H; exfalso; apply H; auto].
  - rewrite IH. apply str_eqb_neq in E. split; intro H; [intros [H1|H1]; [congruence | tauto] | tauto].
Qed.

Lemma In_akeys {V} (m : amap V) k v : In (k, v) m -> In k (akeys m).
Proof. intro H. apply (in_map fst) in H. exact H. Qed.

Lemma In_alookup {V} (m : amap V) k v :
  NoDup (akeys m) -> In (k, v) m -> alookup m k = Some v.
Proof.
  induction m as [|[k' v'] m IH]; simpl; intros Hnd Hin; [tauto|].
  inversion Hnd as [|? ? Hni Hnd']; subst.
  destruct Hin as [Hin|Hin].
  - inversion Hin; subst. rewrite str_eqb_refl. reflexivity.
  - destruct (str_eqb k k') eqn:E.
    + apply str_eqb_eq in E. subst. exfalso. apply Hni. eapply In_akeys; eassumption.
    + apply IH; assumption.
Qed.

Lemma nodup_keys_inj {V} (m : amap V) p q :
  NoDup (akeys m) -> In p m -> In q m -> fst p = fst q -> p = q.
Proof.
  intros Hnd Hp Hq Hfst. destruct p as [k v], q as [k' v']. simpl in Hfst. subst k'.
  pose proof (In_alookup _ _ _ Hnd Hp) as H1. pose proof (In_alookup _ _ _ Hnd Hq) as H2.
  congruence.
Qed.

Lemma akeys_perm {V} (m m' : amap V) : Permutation m m' -> Permutation (akeys m) (akeys m').
Proof. apply Permutation_map. Qed.

Lemma alookup_perm {V} (m m' : amap V) k :
  NoDup (akeys m) -> Permutation m m' -> alookup m k = alookup m' k.
Proof.
  intros Hnd Hp.
  assert (Hnd' : NoDup (akeys m')) by (eapply Permutation_NoDup; [apply akeys_perm; eassumption | assumption]).
  destruct (alookup m k) as [v|] eqn:E.
  - symmetry. apply In_alookup; [assumption|]. eapply Permutation_in; [eassumption|]. apply alookup_In. assumption.
  - destruct (alookup m' k) as [v'|] eqn:E'; [|reflexivity].
    apply alookup_In in E'. apply Permutation_sym in Hp.
    pose proof (Permutation_in _ Hp E') as Hin. apply In_alookup in Hin; [congruence | assumption].
Qed.

Lemma filter_perm {A} (f : A -> bool) (l l' : list A) :
  Permutation l l' -> Permutation (filter f l) (filter f l').
Proof.
  induction 1 as [|x l l' _ IH|x y l|l l' l'' _ IH1 _ IH2]; simpl.
  - constructor.
  - destruct (f x); [constructor|]; assumption.
  - destruct (f x), (f y); try reflexivity. apply perm_swap.
  - eapply Permutation_trans; eassumption.
Qed.

Lemma filter_keys_nodup {V} (f : str * V -> bool) (m : amap V) :
  NoDup (akeys m) -> NoDup (akeys (filter f m)).
Proof.
  induction m as [|p m IH]; simpl; intro H; [constructor|].
  inversion H as [|? ? Hni Hnd]; subst.
  destruct (f p); simpl; [constructor|]; auto.
  intro Hin. apply Hni. unfold akeys in *. apply in_map_iff in Hin as [q [Hq Hin]].
  apply filter_In in Hin as [Hin _]. rewrite <- Hq. apply in_map. assumption.
Qed.

(* has_prefix / trim lemmas *)
Lemma has_prefix_app (p x : str) : has_prefix (p ++ x) p = true.
Proof. induction p as [|c p IH]; simpl; [reflexivity|]. rewrite N.eqb_refl. exact IH. Qed.

Lemma has_prefix_split (s p : str) : has_prefix s p = true -> s = p ++ skipn (length p) s.
Proof.
  revert s; induction p as [|c p IH]; intros s H; simpl in *; [reflexivity|].
  destruct s as [|x s]; [discriminate|].
  apply andb_true_iff in H as [H1 H2]. apply N.eqb_eq in H1. subst. f_equal. apply IH. assumption.
Qed.

Lemma skipn_app_exact {A} (p x : list A) : skipn (length p) (p ++ x) = x.
Proof. induction p; simpl; auto. Qed.

Lemma trim_prefix_app (p x : str) : trim_prefix (p ++ x) p = x.
Proof. unfold trim_prefix. rewrite has_prefix_app. apply skipn_app_exact. Qed.

Lemma trim_suffix_app (a s : str) : trim_suffix (a ++ s) s = a.
Proof.
  unfold trim_suffix, has_suffix. rewrite rev_app_distr, has_prefix_app.
  rewrite app_length. replace (length a + length s - length s)%nat with (length a + 0)%nat by lia.
  rewrite firstn_app_2. simpl. apply app_nil_r.
Qed.
