(* GlobParse.v — the chunk-level functions of the model expressed through the
   specification's parser:
     get_esc / class_loop      vs  p_esc / p_ranges
     match_chunk               vs  parse_pattern + [eat] (deterministic consumption of star-free items)
     scan_chunk                vs  parse_pattern (a pattern parses iff its chunks parse; items concatenate)
     check_rest                vs  parse_pattern *)
From IT Require Import spec.GlobSpec proofs.GlobDecode.
Arguments decode_rune : simpl never.
Arguments p_esc : simpl never.

(* ------------------------------------------------------------------ *)
(* fuel of the specification's parser is irrelevant once above the length *)
Lemma p_esc_shrink : forall p r q, p_esc p = Some (r, q) -> (length q < length p)%nat.
Proof.
  intros p r q. unfold p_esc. destruct p as [|c rest]; [discriminate|].
  destruct ((c =? 45) || (c =? 93)); [discriminate|].
  set (q0 := if c =? 92 then rest else c :: rest).
  assert (Hq0 : (length q0 <= length (c :: rest))%nat) by (subst q0; destruct (c =? 92); simpl; lia).
  clearbody q0. destruct q0 as [|d q0']; [discriminate|].
  destruct (decode_rune (d :: q0')) as [r0 n] eqn:E.
  destruct ((r0 =? rune_error) && Nat.eqb n 1); [discriminate|].
  intros H; inversion H; subst. rewrite skipn_length.
  pose proof (decode_width (d :: q0') ltac:(discriminate)) as W. rewrite E in W. cbn [length snd] in *. lia.
Qed.

Lemma p_ranges_S : forall f p acc,
  p_ranges (S f) p acc =
    match p with
    | [] => None
    | c :: p' =>
      if (c =? 93) && negb (is_nil acc) then Some (rev acc, p')
      else
        match p_esc p with
        | None => None
        | Some (lo, p1) =>
          match p1 with
          | [] => None
          | d :: p2 =>
            if d =? 45 then
              match p_esc p2 with
              | None => None
              | Some (hi, p3) => p_ranges f p3 ((lo, hi) :: acc)
              end
            else p_ranges f p1 ((lo, lo) :: acc)
          end
        end
    end.
Proof. reflexivity. Qed.

Lemma p_ranges_fuel : forall f1 f2 p acc, (length p < f1)%nat -> (length p < f2)%nat ->
  p_ranges f1 p acc = p_ranges f2 p acc.
Proof.
  induction f1 as [|f1 IH]; intros f2 p acc H1 H2; [lia|].
  destruct f2 as [|f2]; [lia|]. rewrite !p_ranges_S.
  destruct p as [|c p']; [reflexivity|].
  destruct ((c =? 93) && negb (is_nil acc)); [reflexivity|].
  destruct (p_esc (c :: p')) as [[lo p1]|] eqn:E1; [|reflexivity].
  apply p_esc_shrink in E1. destruct p1 as [|d p2]; [reflexivity|].
  destruct (d =? 45).
  - destruct (p_esc p2) as [[hi p3]|] eqn:E2; [|reflexivity].
    apply p_esc_shrink in E2. apply IH; simpl in *; lia.
  - apply IH; simpl in *; lia.
Qed.

Lemma p_ranges_shrink : forall f p acc rs rest,
  p_ranges f p acc = Some (rs, rest) -> (length rest < length p)%nat.
Proof.
  induction f as [|f IH]; intros p acc rs rest H; [discriminate|].
  rewrite p_ranges_S in H. destruct p as [|c p']; [discriminate|].
  destruct ((c =? 93) && negb (is_nil acc)).
  - inversion H; subst. simpl; lia.
  - destruct (p_esc (c :: p')) as [[lo p1]|] eqn:E1; [|discriminate].
    apply p_esc_shrink in E1. destruct p1 as [|d p2]; [discriminate|].
    destruct (d =? 45).
    + destruct (p_esc p2) as [[hi p3]|] eqn:E2; [|discriminate].
      apply p_esc_shrink in E2. apply IH in H. simpl in *; lia.
    + apply IH in H. simpl in *; lia.
Qed.

(* the class body parser at its canonical fuel *)
Definition pr (q : str) (acc : list (N * N)) := p_ranges (S (length q)) q acc.

Definition class_neg (p' : str) : bool := match p' with d :: _ => d =? 94 | [] => false end.
Definition class_body (p' : str) : str := if class_neg p' then tl p' else p'.

Lemma class_body_length : forall p', (length (class_body p') <= length p')%nat.
Proof. intros [|d p']; unfold class_body, class_neg; [simpl; lia|]. destruct (d =? 94); simpl; lia. Qed.

Lemma parse_f_S : forall f c p',
  parse_f (S f) (c :: p') =
    if c =? 42 then option_map (cons IStar) (parse_f f p')
    else if c =? 63 then option_map (cons IAny) (parse_f f p')
    else if c =? 92 then
      match p' with
      | [] => None
      | d :: p'' => option_map (cons (ILit d)) (parse_f f p'')
      end
    else if c =? 91 then
      match pr (class_body p') [] with
      | None => None
      | Some (rs, rest) => option_map (cons (IClass (class_neg p') rs)) (parse_f f rest)
      end
    else option_map (cons (ILit c)) (parse_f f p').
Proof. reflexivity. Qed.

Lemma parse_f_nil : forall f, parse_f (S f) [] = Some [].
Proof. reflexivity. Qed.

Lemma parse_f_fuel : forall f1 f2 p, (length p < f1)%nat -> (length p < f2)%nat ->
  parse_f f1 p = parse_f f2 p.
Proof.
  induction f1 as [|f1 IH]; intros f2 p H1 H2; [lia|].
  destruct f2 as [|f2]; [lia|]. destruct p as [|c p']; [reflexivity|].
  rewrite !parse_f_S. simpl in H1, H2.
  destruct (c =? 42); [f_equal; apply IH; lia|].
  destruct (c =? 63); [f_equal; apply IH; lia|].
  destruct (c =? 92).
  { destruct p' as [|d p'']; [reflexivity|]. f_equal. simpl in *. apply IH; lia. }
  destruct (c =? 91).
  { destruct (pr (class_body p') []) as [[rs rest]|] eqn:E; [|reflexivity].
    apply p_ranges_shrink in E. pose proof (class_body_length p').
    f_equal. apply IH; lia. }
  f_equal; apply IH; lia.
Qed.

Lemma parse_pattern_nil : parse_pattern [] = Some [].
Proof. reflexivity. Qed.

Lemma parse_pattern_cons : forall c p',
  parse_pattern (c :: p') =
    if c =? 42 then option_map (cons IStar) (parse_pattern p')
    else if c =? 63 then option_map (cons IAny) (parse_pattern p')
    else if c =? 92 then
      match p' with
      | [] => None
      | d :: p'' => option_map (cons (ILit d)) (parse_pattern p'')
      end
    else if c =? 91 then
      match pr (class_body p') [] with
      | None => None
      | Some (rs, rest) => option_map (cons (IClass (class_neg p') rs)) (parse_pattern rest)
      end
    else option_map (cons (ILit c)) (parse_pattern p').
Proof.
  intros c p'. unfold parse_pattern. rewrite parse_f_S. cbn [length].
  destruct (c =? 42); [reflexivity|].
  destruct (c =? 63); [reflexivity|].
  destruct (c =? 92).
  { destruct p' as [|d p'']; [reflexivity|]. f_equal. apply parse_f_fuel; simpl; lia. }
  destruct (c =? 91).
  { destruct (pr (class_body p') []) as [[rs rest]|] eqn:E; [|reflexivity].
    apply p_ranges_shrink in E. pose proof (class_body_length p').
    f_equal. apply parse_f_fuel; lia. }
  reflexivity.
Qed.

Lemma parse_f_pattern : forall f p, (length p < f)%nat -> parse_f f p = parse_pattern p.
Proof. intros. apply parse_f_fuel; [assumption|lia]. Qed.

Lemma pr_unfold : forall q acc,
  pr q acc =
    match q with
    | [] => None
    | c :: q' =>
      if (c =? 93) && negb (is_nil acc) then Some (rev acc, q')
      else
        match p_esc q with
        | None => None
        | Some (lo, q1) =>
          match q1 with
          | [] => None
          | d :: q2 =>
            if d =? 45 then
              match p_esc q2 with
              | None => None
              | Some (hi, q3) => pr q3 ((lo, hi) :: acc)
              end
            else pr q1 ((lo, lo) :: acc)
          end
        end
    end.
Proof.
  intros q acc. unfold pr at 1. rewrite p_ranges_S.
  destruct q as [|c q']; [reflexivity|].
  destruct ((c =? 93) && negb (is_nil acc)); [reflexivity|].
  destruct (p_esc (c :: q')) as [[lo q1]|] eqn:E1; [|reflexivity].
  apply p_esc_shrink in E1. destruct q1 as [|d q2]; [reflexivity|].
  destruct (d =? 45).
  - destruct (p_esc q2) as [[hi q3]|] eqn:E2; [|reflexivity].
    apply p_esc_shrink in E2. apply p_ranges_fuel; simpl in *; lia.
  - apply p_ranges_fuel; simpl in *; lia.
Qed.

(* ------------------------------------------------------------------ *)
(* getEsc is the class character of the grammar plus one character of lookahead *)
Lemma get_esc_p_esc : forall chunk,
  get_esc chunk = match p_esc chunk with
                  | Some (r, q) => if is_nil q then None else Some (r, q)
                  | None => None
                  end.
Proof.
  intros chunk. unfold get_esc, p_esc. destruct chunk as [|c rest]; [reflexivity|].
  destruct ((c =? 45) || (c =? 93)); [reflexivity|].
  destruct (if c =? 92 then rest else c :: rest) as [|d q0]; [reflexivity|].
  destruct (decode_rune (d :: q0)) as [r n].
  destruct ((r =? rune_error) && Nat.eqb n 1); [reflexivity|].
  destruct (skipn n (d :: q0)); reflexivity.
Qed.

Lemma in_ranges_snoc : forall acc lo hi r,
  in_ranges (rev ((lo, hi) :: acc)) r = in_ranges (rev acc) r || ((lo <=? r) && (r <=? hi)).
Proof.
  intros. unfold in_ranges. simpl rev. rewrite existsb_app. simpl. rewrite orb_false_r. reflexivity.
Qed.

Lemma class_loop_spec : forall fuel chunk r acc nr m,
  (length chunk < fuel)%nat ->
  (0 <? nr) = negb (is_nil acc) ->
  m = in_ranges (rev acc) r ->
  class_loop fuel chunk r m nr =
    match p_ranges fuel chunk acc with
    | None => CLBad
    | Some (rs, rest) => CLOk (in_ranges rs r) rest
    end.
Proof.
  induction fuel as [|f IH]; intros chunk r acc nr m Hlen Hnr Hm; [lia|].
  rewrite p_ranges_S. cbn [class_loop].
  destruct chunk as [|c chunk'].
  { reflexivity. }
  rewrite Hnr. destruct ((c =? 93) && negb (is_nil acc)) eqn:Ecl.
  { simpl tl. subst m. reflexivity. }
  rewrite get_esc_p_esc.
  destruct (p_esc (c :: chunk')) as [[lo p1]|] eqn:E1; [|reflexivity].
  apply p_esc_shrink in E1.
  destruct p1 as [|d p2]; [reflexivity|]. cbn [is_nil].
  assert (Hnr' : (0 <? nr + 1) = true) by (apply N.ltb_lt; lia).
  destruct (d =? 45).
  - rewrite get_esc_p_esc.
    destruct (p_esc p2) as [[hi p3]|] eqn:E2; [|reflexivity].
    apply p_esc_shrink in E2.
    destruct p3 as [|e p4]; cbn [is_nil].
    + destruct f; reflexivity.
    + apply IH.
      * simpl in *; lia.
      * rewrite Hnr'. reflexivity.
      * rewrite in_ranges_snoc. subst m. reflexivity.
  - apply IH.
    + simpl in *; lia.
    + rewrite Hnr'. reflexivity.
    + rewrite in_ranges_snoc. subst m. reflexivity.
Qed.

(* ------------------------------------------------------------------ *)
(* matchChunk: parse the chunk, then consume the name item by item.
   A '*' inside a chunk never occurs at top level in match(); matchChunk itself
   would treat it as the byte 42, hence the IStar clause. *)
Fixpoint eat (is : list item) (s : str) : option str :=
  match is with
  | [] => Some s
  | IStar :: is' => match s with x :: s' => if 42 =? x then eat is' s' else None | [] => None end
  | IAny :: is' => if is_nil s then None else eat is' (skip_char s)
  | ILit b :: is' => match s with x :: s' => if b =? x then eat is' s' else None | [] => None end
  | IClass neg rs :: is' =>
      if is_nil s then None
      else if xorb (in_ranges rs (first_char s)) neg then eat is' (skip_char s) else None
  end.

Definition chunk_result (ois : option (list item)) (s : str) (failed : bool) : cres :=
  match ois with
  | None => CBad
  | Some is => if failed then CFail
               else match eat is s with Some t => COk t | None => CFail end
  end.

Lemma match_chunk_f_S : forall f c chunk' s failed0,
  match_chunk_f (S f) (c :: chunk') s failed0 =
      let failed := failed0 || is_nil s in
      if c =? 91 then
        let r := if failed then 0 else first_char s in
        let s1 := if failed then s else skip_char s in
        let negated := class_neg chunk' in
        let chunk2 := class_body chunk' in
        match class_loop (S (length chunk2)) chunk2 r false 0 with
        | CLOk m chunk3 => match_chunk_f f chunk3 s1 (failed || Bool.eqb m negated)
        | CLBad => CBad
        | CLPanic => CPanic
        | CLFuel => CFuel
        end
      else if c =? 63 then
        match_chunk_f f chunk' (if failed then s else skip_char s) failed
      else
        let lit (ch : N) (rest : str) :=
          if failed then match_chunk_f f rest s true
          else match s with
               | [] => CPanic
               | x :: s' => match_chunk_f f rest s' (negb (ch =? x))
               end in
        if c =? 92 then
          match chunk' with
          | [] => CBad
          | c2 :: chunk'' => lit c2 chunk''
          end
        else lit c chunk'.
Proof. reflexivity. Qed.

Lemma match_chunk_f_spec : forall fuel chunk s failed, (length chunk <= fuel)%nat ->
  match_chunk_f fuel chunk s failed = chunk_result (parse_f (S fuel) chunk) s failed.
Proof.
  induction fuel as [|f IH]; intros chunk s failed Hlen.
  { destruct chunk; [|simpl in Hlen; lia]. simpl. destruct failed; reflexivity. }
  destruct chunk as [|c chunk'].
  { simpl. destruct failed; reflexivity. }
  rewrite match_chunk_f_S, parse_f_S. cbv zeta. simpl in Hlen.
  destruct (c =? 91) eqn:E91.
  { (* class *)
    assert (E42 : c =? 42 = false) by (apply N.eqb_eq in E91; subst; reflexivity).
    assert (E63 : c =? 63 = false) by (apply N.eqb_eq in E91; subst; reflexivity).
    assert (E92 : c =? 92 = false) by (apply N.eqb_eq in E91; subst; reflexivity).
    rewrite E42, E63, E92.
    rewrite (class_loop_spec _ _ _ [] 0 false) by (try reflexivity; lia).
    fold (pr (class_body chunk') []).
    destruct (pr (class_body chunk') []) as [[rs rest]|] eqn:Ep; [|reflexivity].
    apply p_ranges_shrink in Ep. pose proof (class_body_length chunk').
    rewrite IH by lia.
    destruct (parse_f (S f) rest) as [is|]; [|reflexivity]. cbn [option_map chunk_result].
    destruct failed; [reflexivity|]. cbn [orb].
    destruct s as [|x s']; [reflexivity|]. cbn [is_nil eat].
    destruct (in_ranges rs (first_char (x :: s'))), (class_neg chunk'); reflexivity. }
  destruct (c =? 63) eqn:E63.
  { assert (E42 : c =? 42 = false) by (apply N.eqb_eq in E63; subst; reflexivity).
    rewrite E42. rewrite IH by lia.
    destruct (parse_f (S f) chunk') as [is|]; [|reflexivity]. cbn [option_map chunk_result].
    destruct failed; [reflexivity|]. cbn [orb].
    destruct s as [|x s']; reflexivity. }
  destruct (c =? 92) eqn:E92.
  { assert (E42 : c =? 42 = false) by (apply N.eqb_eq in E92; subst; reflexivity).
    rewrite E42. destruct chunk' as [|c2 chunk'']; [reflexivity|]. simpl in Hlen.
    destruct failed; cbn [orb].
    - rewrite IH by lia. destruct (parse_f (S f) chunk''); reflexivity.
    - destruct s as [|x s']; cbn [is_nil].
      + rewrite IH by lia. destruct (parse_f (S f) chunk''); reflexivity.
      + rewrite IH by lia. destruct (parse_f (S f) chunk'') as [is|]; [|reflexivity].
        cbn [option_map chunk_result eat]. destruct (c2 =? x); reflexivity. }
  (* literal byte, including a '*' *)
  assert (Hlit : (if failed || is_nil s
                  then match_chunk_f f chunk' s true
                  else match s with
                       | [] => CPanic
                       | x :: s' => match_chunk_f f chunk' s' (negb (c =? x))
                       end) = chunk_result (option_map (cons (ILit c)) (parse_f (S f) chunk')) s failed).
  { destruct failed; cbn [orb].
    - rewrite IH by lia. destruct (parse_f (S f) chunk'); reflexivity.
    - destruct s as [|x s']; cbn [is_nil].
      + rewrite IH by lia. destruct (parse_f (S f) chunk'); reflexivity.
      + rewrite IH by lia. destruct (parse_f (S f) chunk') as [is|]; [|reflexivity].
        cbn [option_map chunk_result eat]. destruct (c =? x); reflexivity. }
  rewrite Hlit. destruct (c =? 42) eqn:E42; [|reflexivity].
  apply N.eqb_eq in E42. subst c.
  destruct (parse_f (S f) chunk') as [is|]; [|reflexivity].
  cbn [option_map chunk_result eat]. reflexivity.
Qed.

Lemma match_chunk_spec : forall chunk s,
  match_chunk chunk s = chunk_result (parse_pattern chunk) s false.
Proof. intros. unfold match_chunk. apply match_chunk_f_spec. lia. Qed.

(* ------------------------------------------------------------------ *)
(* scanChunk cuts the pattern at a place where the specification's parser is
   between two terms; the chunk parses iff the same text parses inside the whole
   pattern. *)
Lemma list_len_ind : forall (P : str -> Prop),
  (forall p, (forall q, (length q < length p)%nat -> P q) -> P p) -> forall p, P p.
Proof.
  intros P H p. remember (length p) as k eqn:Hk. revert p Hk.
  induction k as [k IH] using lt_wf_ind. intros p Hk. apply H. intros q Hq.
  eapply IH; [|reflexivity]. lia.
Qed.

Lemma scan_split_cons : forall c p' ir,
  scan_split (c :: p') ir =
    if c =? 92 then
      match p' with
      | [] => ([c], [])
      | d :: p'' => let (a, b) := scan_split p'' ir in (c :: d :: a, b)
      end
    else if c =? 91 then let (a, b) := scan_split p' true in (c :: a, b)
    else if c =? 93 then let (a, b) := scan_split p' false in (c :: a, b)
    else if c =? 42 then
      if ir then let (a, b) := scan_split p' ir in (c :: a, b) else ([], c :: p')
    else let (a, b) := scan_split p' ir in (c :: a, b).
Proof. reflexivity. Qed.

Lemma scan_split_app : forall p ir a b, scan_split p ir = (a, b) -> p = a ++ b.
Proof.
  induction p as [p IH] using list_len_ind. intros ir a b H.
  destruct p as [|c p']; [inversion H; reflexivity|].
  rewrite scan_split_cons in H.
  destruct (c =? 92).
  { destruct p' as [|d p'']; [inversion H; reflexivity|].
    destruct (scan_split p'' ir) as [a' b'] eqn:E. inversion H; subst.
    apply IH in E; [|simpl; lia]. simpl. congruence. }
  destruct (c =? 91).
  { destruct (scan_split p' true) as [a' b'] eqn:E. inversion H; subst.
    apply IH in E; [|simpl; lia]. simpl. congruence. }
  destruct (c =? 93).
  { destruct (scan_split p' false) as [a' b'] eqn:E. inversion H; subst.
    apply IH in E; [|simpl; lia]. simpl. congruence. }
  destruct (c =? 42).
  { destruct ir.
    - destruct (scan_split p' true) as [a' b'] eqn:E. inversion H; subst.
      apply IH in E; [|simpl; lia]. simpl. congruence.
    - inversion H; reflexivity. }
  destruct (scan_split p' ir) as [a' b'] eqn:E. inversion H; subst.
  apply IH in E; [|simpl; lia]. simpl. congruence.
Qed.

(* what is left after the chunk is empty or begins with a star *)
Lemma scan_split_rest : forall p ir a b, scan_split p ir = (a, b) -> b = [] \/ exists r', b = 42 :: r'.
Proof.
  induction p as [p IH] using list_len_ind. intros ir a b H.
  destruct p as [|c p']; [inversion H; left; reflexivity|].
  rewrite scan_split_cons in H.
  destruct (c =? 92).
  { destruct p' as [|d p'']; [inversion H; left; reflexivity|].
    destruct (scan_split p'' ir) as [a' b'] eqn:E. inversion H; subst.
    eapply IH; [|exact E]. simpl; lia. }
  destruct (c =? 91).
  { destruct (scan_split p' true) as [a' b'] eqn:E. inversion H; subst.
    eapply IH; [|exact E]. simpl; lia. }
  destruct (c =? 93).
  { destruct (scan_split p' false) as [a' b'] eqn:E. inversion H; subst.
    eapply IH; [|exact E]. simpl; lia. }
  destruct (c =? 42) eqn:E42.
  { destruct ir.
    - destruct (scan_split p' true) as [a' b'] eqn:E. inversion H; subst.
      eapply IH; [|exact E]. simpl; lia.
    - inversion H; subst. right. apply N.eqb_eq in E42. subst. eexists; reflexivity. }
  destruct (scan_split p' ir) as [a' b'] eqn:E. inversion H; subst.
  eapply IH; [|exact E]. simpl; lia.
Qed.

(* inside a class the first byte always stays in the chunk *)
Lemma scan_split_true_head : forall c p' a b, scan_split (c :: p') true = (a, b) ->
  exists a', a = c :: a'.
Proof.
  intros c p' a b H. rewrite scan_split_cons in H.
  destruct (c =? 92).
  { destruct p' as [|d p'']; [inversion H; eexists; reflexivity|].
    destruct (scan_split p'' true). inversion H. eexists; reflexivity. }
  destruct (c =? 91); [destruct (scan_split p' true); inversion H; eexists; reflexivity|].
  destruct (c =? 93); [destruct (scan_split p' false); inversion H; eexists; reflexivity|].
  destruct (c =? 42); destruct (scan_split p' true); inversion H; eexists; reflexivity.
Qed.

(* bytes >= 128 are never special for scanChunk *)
Lemma scan_split_high : forall cont t ir, Forall (fun b => 128 <= b) cont ->
  scan_split (cont ++ t) ir = let (a, b) := scan_split t ir in (cont ++ a, b).
Proof.
  induction cont as [|x cont IH]; intros t ir HF.
  { simpl. destruct (scan_split t ir); reflexivity. }
  inversion HF as [|? ? Hx HF']; subst. simpl app. rewrite scan_split_cons.
  assert (E1 : x =? 92 = false) by (apply N.eqb_neq; lia).
  assert (E2 : x =? 91 = false) by (apply N.eqb_neq; lia).
  assert (E3 : x =? 93 = false) by (apply N.eqb_neq; lia).
  assert (E4 : x =? 42 = false) by (apply N.eqb_neq; lia).
  rewrite E1, E2, E3, E4, IH by assumption.
  destruct (scan_split t ir); reflexivity.
Qed.

(* decoding errors survive truncation *)
Lemma decode_err_prefix : forall x y, x <> [] ->
  decode_rune (x ++ y) = (rune_error, 1%nat) -> decode_rune x = (rune_error, 1%nat).
Proof.
  intros [|b0 x'] y Hx; [congruence|]. simpl app. unfold decode_rune.
  destruct (b0 <? 128); [auto|].
  destruct (in_rng 194 223 b0).
  { destruct x' as [|b1 x'']; cbn [app]; auto. }
  destruct (in_rng 224 239 b0).
  { destruct x' as [|b1 [|b2 x'']]; cbn [app]; auto. }
  destruct (in_rng 240 244 b0).
  { destruct x' as [|b1 [|b2 [|b3 x'']]]; cbn [app]; auto. }
  auto.
Qed.

Lemma is_cont_high : forall b, is_cont b = true -> 128 <= b.
Proof. intros b H. unfold is_cont in H. apply andb_true_iff in H as [H _]. apply N.leb_le in H. exact H. Qed.

(* a successfully decoded character: its bytes, and nothing after them matters *)
Lemma decode_ok_struct : forall s r n, s <> [] -> decode_rune s = (r, n) ->
  (r =? rune_error) && Nat.eqb n 1 = false ->
  exists b0 cont, s = (b0 :: cont) ++ skipn n s /\ length (b0 :: cont) = n /\
    Forall (fun b => 128 <= b) cont /\
    (forall t, decode_rune ((b0 :: cont) ++ t) = (r, n)).
Proof.
  intros [|b0 s1] r n Hs H Hok; [congruence|]. unfold decode_rune in H.
  assert (Herr : (rune_error, 1%nat) = (r, n) -> False).
  { intros E. injection E as <- <-. discriminate Hok. }
  destruct (b0 <? 128) eqn:E0.
  { injection H as <- <-. exists b0, []. repeat split; auto.
    intros t. unfold decode_rune. cbn [app]. rewrite E0. reflexivity. }
  destruct (in_rng 194 223 b0) eqn:E2.
  { destruct s1 as [|b1 s2]; [exfalso; apply Herr; exact H|].
    destruct (is_cont b1) eqn:C1; [|exfalso; apply Herr; exact H].
    injection H as <- <-. exists b0, [b1]. repeat split; auto.
    - constructor; [apply is_cont_high; assumption|constructor].
    - intros t. unfold decode_rune. cbn [app]. rewrite E0, E2, C1. reflexivity. }
  destruct (in_rng 224 239 b0) eqn:E3.
  { destruct s1 as [|b1 [|b2 s3]]; try (exfalso; apply Herr; exact H; fail).
    destruct (in_rng (if b0 =? 224 then 160 else 128) (if b0 =? 237 then 159 else 191) b1 && is_cont b2) eqn:C;
      [|exfalso; apply Herr; exact H].
    injection H as <- <-. exists b0, [b1; b2]. repeat split; auto.
    - apply andb_true_iff in C as [C1 C2].
      constructor; [|constructor; [apply is_cont_high; assumption|constructor]].
      apply in_rng_ge in C1. destruct (b0 =? 224); lia.
    - intros t. unfold decode_rune. cbn [app]. rewrite E0, E2, E3, C. reflexivity. }
  destruct (in_rng 240 244 b0) eqn:E4.
  { destruct s1 as [|b1 [|b2 [|b3 s4]]]; try (exfalso; apply Herr; exact H; fail).
    destruct (in_rng (if b0 =? 240 then 144 else 128) (if b0 =? 244 then 143 else 191) b1 && is_cont b2 && is_cont b3) eqn:C;
      [|exfalso; apply Herr; exact H].
    injection H as <- <-. exists b0, [b1; b2; b3]. repeat split; auto.
    - apply andb_true_iff in C as [C C3]. apply andb_true_iff in C as [C1 C2].
      constructor; [|constructor; [apply is_cont_high; assumption|constructor; [apply is_cont_high; assumption|constructor]]].
      apply in_rng_ge in C1. destruct (b0 =? 240); lia.
    - intros t. unfold decode_rune. cbn [app]. rewrite E0, E2, E3, E4, C. reflexivity. }
  exfalso; apply Herr; exact H.
Qed.

Lemma skipn_length_app : forall (A : Type) (l t : list A), skipn (length l) (l ++ t) = t.
Proof. induction l; intros; simpl; auto. Qed.

Definition closes (q : str) (acc : list (N * N)) : bool :=
  match q with c :: _ => (c =? 93) && negb (is_nil acc) | [] => false end.

Lemma pr_unfold' : forall q acc,
  pr q acc =
    if closes q acc then Some (rev acc, tl q)
    else
      match p_esc q with
      | None => None
      | Some (lo, q1) =>
        match q1 with
        | [] => None
        | d :: q2 =>
          if d =? 45 then
            match p_esc q2 with
            | None => None
            | Some (hi, q3) => pr q3 ((lo, hi) :: acc)
            end
          else pr q1 ((lo, lo) :: acc)
        end
      end.
Proof. intros q acc. rewrite pr_unfold. destruct q; reflexivity. Qed.

(* a class character that parses: its text [pre], independent of what follows,
   and scanChunk passes over it without leaving the class *)
Lemma p_esc_some_struct : forall q lo q1, p_esc q = Some (lo, q1) ->
  exists c pre', q = (c :: pre') ++ q1 /\
    (forall t, p_esc ((c :: pre') ++ t) = Some (lo, t)) /\
    (forall t, scan_split ((c :: pre') ++ t) true = let (a, b) := scan_split t true in ((c :: pre') ++ a, b)).
Proof.
  intros q lo q1 H. unfold p_esc in H. destruct q as [|c rest]; [discriminate|].
  destruct ((c =? 45) || (c =? 93)) eqn:Ec; [discriminate|].
  destruct (c =? 92) eqn:E92.
  - destruct rest as [|d r']; [discriminate|].
    destruct (decode_rune (d :: r')) as [r0 n] eqn:Ed.
    destruct ((r0 =? rune_error) && Nat.eqb n 1) eqn:Eok; [discriminate|].
    injection H as <- <-.
    destruct (decode_ok_struct (d :: r') r0 n ltac:(discriminate) Ed Eok) as (b0 & cont & Hs & Hlen & Hhigh & Hdec).
    exists c, (b0 :: cont). split; [|split].
    + cbn [app] in *. f_equal. exact Hs.
    + intros t. unfold p_esc. cbn [app]. rewrite Ec, E92.
      change (b0 :: cont ++ t) with ((b0 :: cont) ++ t). rewrite Hdec, Eok.
      rewrite <- Hlen. rewrite skipn_length_app. reflexivity.
    + intros t. cbn [app]. rewrite scan_split_cons, E92.
      rewrite scan_split_high by assumption. destruct (scan_split t true); reflexivity.
  - destruct (decode_rune (c :: rest)) as [r0 n] eqn:Ed.
    destruct ((r0 =? rune_error) && Nat.eqb n 1) eqn:Eok; [discriminate|].
    injection H as <- <-.
    destruct (decode_ok_struct (c :: rest) r0 n ltac:(discriminate) Ed Eok) as (b0 & cont & Hs & Hlen & Hhigh & Hdec).
    assert (b0 = c) by (cbn [app] in Hs; congruence). subst b0.
    exists c, cont. split; [|split].
    + exact Hs.
    + intros t. unfold p_esc. cbn [app]. rewrite Ec, E92.
      change (c :: cont ++ t) with ((c :: cont) ++ t). rewrite Hdec, Eok.
      rewrite <- Hlen. rewrite skipn_length_app. reflexivity.
    + intros t. cbn [app]. rewrite scan_split_cons, E92.
      apply orb_false_iff in Ec as [_ E93]. rewrite E93.
      rewrite scan_split_high by assumption.
      destruct (c =? 91); [destruct (scan_split t true); reflexivity|].
      destruct (c =? 42); destruct (scan_split t true); reflexivity.
Qed.

Lemma p_esc_none_scan : forall q a b, p_esc q = None -> scan_split q true = (a, b) -> p_esc a = None.
Proof.
  intros q a b H Hs. destruct q as [|c rest].
  { inversion Hs. reflexivity. }
  unfold p_esc in H.
  destruct ((c =? 45) || (c =? 93)) eqn:Ec.
  { apply scan_split_true_head in Hs as [a' ->]. unfold p_esc. rewrite Ec. reflexivity. }
  destruct (c =? 92) eqn:E92.
  - rewrite scan_split_cons, E92 in Hs. destruct rest as [|d r'].
    { inversion Hs; subst. unfold p_esc. rewrite Ec, E92. reflexivity. }
    destruct (scan_split r' true) as [a' b'] eqn:E'. inversion Hs; subst.
    destruct (decode_rune (d :: r')) as [r0 n] eqn:Ed.
    destruct ((r0 =? rune_error) && Nat.eqb n 1) eqn:Eok; [|discriminate].
    apply andb_true_iff in Eok as [Er En]. apply N.eqb_eq in Er. apply Nat.eqb_eq in En. subst r0 n.
    apply scan_split_app in E'. subst r'.
    change (d :: a' ++ b) with ((d :: a') ++ b) in Ed.
    apply decode_err_prefix in Ed; [|discriminate].
    unfold p_esc. rewrite Ec, E92, Ed. reflexivity.
  - pose proof (scan_split_app _ _ _ _ Hs) as Happ.
    apply scan_split_true_head in Hs as [a' ->].
    destruct (decode_rune (c :: rest)) as [r0 n] eqn:Ed.
    destruct ((r0 =? rune_error) && Nat.eqb n 1) eqn:Eok; [|discriminate].
    apply andb_true_iff in Eok as [Er En]. apply N.eqb_eq in Er. apply Nat.eqb_eq in En. subst r0 n.
    rewrite Happ in Ed. apply decode_err_prefix in Ed; [|discriminate].
    unfold p_esc. rewrite Ec, E92, Ed. reflexivity.
Qed.

(* the class body: [q] is the pattern text at the start of a range, [a] the part of it that
   scanChunk puts into the chunk *)
Lemma scan_class : forall k q acc, (length q <= k)%nat -> forall a b, scan_split q true = (a, b) ->
  match pr q acc with
  | Some (rs, q3) => exists a3, pr a acc = Some (rs, a3) /\ scan_split q3 false = (a3, b)
  | None => pr a acc = None
  end.
Proof.
  induction k as [|k IH]; intros q acc Hlen a b Hs.
  { destruct q; [|simpl in Hlen; lia]. inversion Hs. reflexivity. }
  destruct q as [|c q'].
  { inversion Hs. reflexivity. }
  rewrite (pr_unfold' (c :: q')).
  destruct (closes (c :: q') acc) eqn:Ecl.
  { (* the closing bracket *)
    cbn [closes] in Ecl. apply andb_true_iff in Ecl as [E93 Hacc]. apply N.eqb_eq in E93. subst c.
    rewrite scan_split_cons in Hs. cbn in Hs.
    destruct (scan_split q' false) as [a3 b3] eqn:E3. inversion Hs; subst.
    exists a3. split; [|exact E3]. rewrite pr_unfold'. cbn [closes]. rewrite Hacc, N.eqb_refl. reflexivity. }
  destruct (p_esc (c :: q')) as [[lo q1]|] eqn:E1.
  2:{ pose proof (p_esc_none_scan _ _ _ E1 Hs) as Ha.
      apply scan_split_true_head in Hs as [a' ->].
      rewrite pr_unfold'. cbn [closes] in *. rewrite Ecl, Ha. reflexivity. }
  pose proof (p_esc_shrink _ _ _ E1) as Hsh1.
  destruct (p_esc_some_struct _ _ _ E1) as (c0 & pre' & Hq & Hpe & Hsc).
  cbn [app] in Hq, Hpe, Hsc.
  assert (c0 = c) by congruence. subst c0.
  rewrite Hq, Hsc in Hs.
  destruct (scan_split q1 true) as [a1 b1] eqn:Es1. inversion Hs; subst a b. clear Hs.
  assert (Hcl : closes (c :: pre' ++ a1) acc = false) by exact Ecl.
  destruct q1 as [|d q2].
  { inversion Es1; subst. rewrite pr_unfold', Hcl, Hpe. reflexivity. }
  pose proof (scan_split_true_head _ _ _ _ Es1) as [a2 Ha1]. subst a1.
  destruct (d =? 45) eqn:E45.
  - apply N.eqb_eq in E45. subst d. rewrite scan_split_cons in Es1. cbn in Es1.
    destruct (scan_split q2 true) as [a2' b2] eqn:Es2. inversion Es1; subst a2' b2. clear Es1.
    destruct (p_esc q2) as [[hi q3]|] eqn:E2.
    2:{ pose proof (p_esc_none_scan _ _ _ E2 Es2) as Ha.
        rewrite pr_unfold', Hcl, Hpe. cbn. rewrite Ha. reflexivity. }
    pose proof (p_esc_shrink _ _ _ E2) as Hsh2.
    destruct (p_esc_some_struct _ _ _ E2) as (c2 & pre2 & Hq2 & Hpe2 & Hsc2).
    cbn [app] in Hq2, Hpe2, Hsc2. rewrite Hq2, Hsc2 in Es2.
    destruct (scan_split q3 true) as [a3 b3] eqn:Es3. inversion Es2; subst a2 b1. clear Es2.
    assert (IHq3 := IH q3 ((lo, hi) :: acc) ltac:(simpl in *; lia) a3 b3 Es3).
    rewrite (pr_unfold' (c :: pre' ++ 45 :: c2 :: pre2 ++ a3)), Hcl, Hpe. cbn [N.eqb Pos.eqb].
    rewrite Hpe2. exact IHq3.
  - assert (IHq1 := IH (d :: q2) ((lo, lo) :: acc) ltac:(simpl in *; lia) (d :: a2) b1 Es1).
    rewrite (pr_unfold' (c :: pre' ++ d :: a2)), Hcl, Hpe, E45. exact IHq1.
Qed.

Definition nostar (is : list item) : bool :=
  forallb (fun it => match it with IStar => false | _ => true end) is.

Definition seq_items (a b : option (list item)) : option (list item) :=
  match a with
  | None => None
  | Some ci => option_map (app ci) b
  end.

Lemma seq_items_cons : forall it a b,
  option_map (cons it) (seq_items a b) = seq_items (option_map (cons it) a) b.
Proof. intros it [ci|] [ri|]; reflexivity. Qed.

Lemma class_neg_body_scan : forall p' a b, scan_split p' true = (a, b) ->
  class_neg a = class_neg p' /\
  exists a', scan_split (class_body p') true = (a', b) /\ class_body a = a'.
Proof.
  intros p' a b Hs. destruct p' as [|d p''].
  { inversion Hs; subst. split; [reflexivity|]. exists []. split; reflexivity. }
  pose proof (scan_split_true_head _ _ _ _ Hs) as [a0 ->].
  split; [reflexivity|]. unfold class_body, class_neg.
  destruct (d =? 94) eqn:E94.
  - apply N.eqb_eq in E94. subst d. rewrite scan_split_cons in Hs. cbn in Hs.
    destruct (scan_split p'' true) as [a1 b1] eqn:E. inversion Hs; subst.
    exists a0. split; [exact E|reflexivity].
  - exists (d :: a0). split; [assumption|reflexivity].
Qed.

Lemma scan_split_parse : forall k p, (length p <= k)%nat -> forall chunk rest,
  scan_split p false = (chunk, rest) ->
  parse_pattern p = seq_items (parse_pattern chunk) (parse_pattern rest) /\
  (forall ci, parse_pattern chunk = Some ci -> nostar ci = true).
Proof.
  induction k as [|k IH]; intros p Hlen chunk rest Hs.
  { destruct p; [|simpl in Hlen; lia]. inversion Hs; subst. split; [reflexivity|].
    intros ci H. inversion H. reflexivity. }
  destruct p as [|c p'].
  { inversion Hs; subst. split; [reflexivity|]. intros ci H. inversion H. reflexivity. }
  simpl in Hlen. rewrite scan_split_cons in Hs.
  destruct (c =? 92) eqn:E92.
  { assert (E42 : c =? 42 = false) by (apply N.eqb_eq in E92; subst; reflexivity).
    assert (E63 : c =? 63 = false) by (apply N.eqb_eq in E92; subst; reflexivity).
    destruct p' as [|d p''].
    { inversion Hs; subst. rewrite !parse_pattern_cons, E42, E63, E92. split; [reflexivity|discriminate]. }
    destruct (scan_split p'' false) as [a b] eqn:E. inversion Hs; subst. simpl in Hlen.
    destruct (IH p'' ltac:(lia) a rest E) as [IH1 IH2].
    rewrite (parse_pattern_cons c (d :: p'')), (parse_pattern_cons c (d :: a)), E42, E63, E92, IH1.
    split; [apply seq_items_cons|].
    intros ci H. destruct (parse_pattern a) as [ca|]; [|discriminate]. inversion H; subst.
    simpl. apply IH2. reflexivity. }
  destruct (c =? 91) eqn:E91.
  { assert (E42 : c =? 42 = false) by (apply N.eqb_eq in E91; subst; reflexivity).
    assert (E63 : c =? 63 = false) by (apply N.eqb_eq in E91; subst; reflexivity).
    destruct (scan_split p' true) as [a b] eqn:E. inversion Hs; subst.
    destruct (class_neg_body_scan _ _ _ E) as [Hneg [a' [Ea' Hbody]]].
    rewrite (parse_pattern_cons c p'), (parse_pattern_cons c a), E42, E63, E92, E91, Hneg, Hbody.
    pose proof (class_body_length p') as Hbl.
    pose proof (scan_class (length (class_body p')) (class_body p') [] ltac:(lia) a' rest Ea') as Hcl.
    destruct (pr (class_body p') []) as [[rs q3]|] eqn:Ep.
    2:{ rewrite Hcl. split; [reflexivity|discriminate]. }
    destruct Hcl as [a3 [Hpa Hs3]]. rewrite Hpa.
    apply p_ranges_shrink in Ep.
    destruct (IH q3 ltac:(lia) a3 rest Hs3) as [IH1 IH2].
    rewrite IH1. split; [apply seq_items_cons|].
    intros ci H. destruct (parse_pattern a3) as [ca|]; [|discriminate]. inversion H; subst.
    simpl. apply IH2. reflexivity. }
  destruct (c =? 93) eqn:E93.
  { assert (E42 : c =? 42 = false) by (apply N.eqb_eq in E93; subst; reflexivity).
    assert (E63 : c =? 63 = false) by (apply N.eqb_eq in E93; subst; reflexivity).
    destruct (scan_split p' false) as [a b] eqn:E. inversion Hs; subst.
    destruct (IH p' ltac:(lia) a rest E) as [IH1 IH2].
    rewrite (parse_pattern_cons c p'), (parse_pattern_cons c a), E42, E63, E92, E91, IH1.
    split; [apply seq_items_cons|].
    intros ci H. destruct (parse_pattern a) as [ca|]; [|discriminate]. inversion H; subst.
    simpl. apply IH2. reflexivity. }
  destruct (c =? 42) eqn:E42.
  { inversion Hs; subst. split.
    - rewrite parse_pattern_nil. cbn [seq_items]. destruct (parse_pattern (c :: p')); reflexivity.
    - intros ci H. inversion H. reflexivity. }
  destruct (scan_split p' false) as [a b] eqn:E. inversion Hs; subst.
  destruct (IH p' ltac:(lia) a rest E) as [IH1 IH2].
  rewrite (parse_pattern_cons c p'), (parse_pattern_cons c a), E42, E92, E91, IH1.
  destruct (c =? 63); (split; [apply seq_items_cons|]);
    intros ci H; (destruct (parse_pattern a) as [ca|]; [|discriminate]); inversion H; subst;
    simpl; apply IH2; reflexivity.
Qed.
