(* NoPanicIndex.v — the theorems that spec/PanicSpec.v cites by name in its ByTheorem
   justifications, each with its statement and proof term.  props/C15.v checks by vm_compute
   that every cited name occurs here, so a justification cannot cite a theorem that does not
   exist (or no longer type-checks). *)
From Coq Require Import String.
From IT Require Import model.Glob model.PipelineInst model.Validate.
From IT Require Import proofs.GlobProofs proofs.NoPanicInst proofs.NoPanicKeys.
Local Open Scope string_scope.

Record indexed : Type := mkIdx { ix_name : string; ix_stmt : Prop; ix_proof : ix_stmt }.

Definition key_use_statement : Prop :=
  forall (pem_kind : str -> option pemkind) (k : key),
    is_panic (get_sv pem_kind k) = false /\
    is_panic (key_sign pem_kind k) = false /\
    is_panic (key_verify pem_kind k) = false.

Lemma key_use_no_panic : key_use_statement.
Proof.
  intros pem_kind k. split; [apply get_sv_no_panic | split; [apply key_sign_no_panic | apply key_verify_no_panic]].
Qed.

Definition theorem_index : list indexed := [
  mkIdx "C15_no_panic_match"
        (forall p n, gmatch_x p n <> XPanic /\ gmatch_x p n <> XFuel)
        gmatch_no_panic;
  mkIdx "C15_no_panic_in_toto_verify"
        (forall now truths tc tcc pems cmds fuel w path d layout_env keys step_name params inter,
           is_panic (fst (fst (verify_inst now truths tc tcc pems cmds fuel w path d layout_env keys step_name params inter))) = false)
        verify_inst_no_panic;
  mkIdx "C15_no_panic_key_use" key_use_statement key_use_no_panic
]%list.

Definition index_names : list string := List.map ix_name theorem_index.
