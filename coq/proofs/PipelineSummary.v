(* The summary link of an accepting run reports the artifacts of the very links on which the step rules were
   evaluated: materials of the rule-checked link of the first step, products of the rule-checked link of the last. *)
From IT Require Import model.Pipeline proofs.PipelineProofs.

Lemma env_links_lookup_fwd m ml n e :
  env_links m = Ok ml -> alookup m n = Some e -> exists lk, alookup ml n = Some lk /\ env_link e = Ok lk.
Proof.
  revert ml. induction m as [|[k e0] r IH]; intros ml; simpl.
  - intros _ H; discriminate.
  - destruct (env_link e0) as [l|c|p] eqn:El; simpl; try discriminate.
    destruct (env_links r) as [r'|c|p] eqn:Er; simpl; try discriminate.
    intro H; inversion H; subst. simpl. destruct (str_eqb n k).
    + intro H2; inversion H2; subst. exists l. auto.
    + apply IH. reflexivity.
Qed.

Section S.
  Context (World : Type) (vsig : env -> key -> bool) (expiry_ok : str -> bool)
          (subst : layout -> amap str -> res layout) (certs_ok : layout -> list str -> bool)
          (load_all : layout -> list (str * option env) -> res (amap (amap env)))
          (verify_thresholds : layout -> list str -> amap (amap env) -> res (amap (amap env)))
          (verify_rules : list item -> amap link -> res unit)
          (run_insp : bool -> World -> inspection -> res (link * World))
          (retval_zero : link -> bool) (pbytes : link -> str) (zero_key : key).

  Notation verify := (verify World vsig expiry_ok subst certs_ok load_all verify_thresholds verify_rules run_insp retval_zero pbytes zero_key).

  Theorem summary_endpoints_rule_checked :
    forall fuel w path d layout_env keys step_name params inter s w' tr,
      verify (S fuel) w path d layout_env keys step_name params inter = (Ok s, w', tr) ->
      exists layout rl,
        verify_rules (map step_item (l_steps layout)) rl = Ok tt /\
        match l_steps layout with
        | [] => e_payload s = PLink empty_link
        | s0 :: _ => exists f t,
            alookup rl (s_name s0) = Some f /\ alookup rl (s_name (last (l_steps layout) s0)) = Some t /\
            e_payload s = PLink (mkLink (ln_type f) step_name (ln_materials f) (ln_products t) (ln_byproducts t) (ln_command t) [])
        end.
  Proof.
    intros fuel w path d layout_env keys step_name params inter s w' tr H. apply verify_ok_inv in H.
    destruct H as [l0 l loaded verified resolved reduced rl imeta w2 tr2 Hs Hp He Hsu Hc Hl Ht Hss Hal Hred Hel Hr1 Hin Hr2 Hsum].
    exists l, rl. split; [exact Hr1|].
    destruct (get_summary_spec pbytes _ _ _ _ _ Hsum) as [Hm _].
    destruct (l_steps l) as [|s0 rest] eqn:Hst; [exact Hm|].
    destruct Hm as [e0 [el [f [t [H0 [Hl' [Hf [Htt Hpay]]]]]]]].
    destruct (env_links_lookup_fwd _ _ _ _ Hel H0) as [f' [Hf1 Hf2]].
    destruct (env_links_lookup_fwd _ _ _ _ Hel Hl') as [t' [Ht1 Ht2]].
    rewrite Hf in Hf2; inversion Hf2; subst f'. rewrite Htt in Ht2; inversion Ht2; subst t'.
    exists f, t. auto.
  Qed.
End S.
