(* ConcProofs.v — serializability of independent threads (property C16).

   Main results
     projection            every thread of an interleaving is, at every moment, exactly where it
                           would be had it run alone from the initial store for as many steps as the
                           schedule gave it; the shared store agrees with that solo run on the
                           thread's footprint, and is untouched outside all write footprints
     seq_run_inv           the same characterisation for the calls made one after the other
     serializable          finished interleaving = sequential run in any order (results and store)
     no_shared_state_serializable   the special case of an empty write set
   Induction on the schedule (from its end: [rev_ind]); the step case is the commutation
   argument: a step of thread j cannot be observed on the footprint of any thread i <> j. *)
From IT Require Import model.Base model.Conc.
Local Open Scope nat_scope.

Section ConcProofs.
Context {V L : Type}.
Notation prog := (prog V L).
Notation config := (config V L).
Notation store := (store V).

(* ---------- lists ---------- *)

Lemma length_upd_nth {A} i (x : A) l : length (upd_nth i x l) = length l.
Proof.
  revert i; induction l as [|y l IH]; intros [|i]; simpl; auto.
Qed.

Lemma nth_error_upd_nth_eq {A} i (x : A) l :
  i < length l -> nth_error (upd_nth i x l) i = Some x.
Proof.
  revert i; induction l as [|y l IH]; intros [|i] H; simpl in *; try lia; auto.
  apply IH; lia.
Qed.

Lemma nth_error_upd_nth_neq {A} i j (x : A) l :
  i <> j -> nth_error (upd_nth i x l) j = nth_error l j.
Proof.
  revert i j; induction l as [|y l IH]; intros [|i] [|j] H; simpl; auto; try congruence.
Qed.

Lemma nth_error_ext_eq {A} (l l' : list A) :
  (forall i, nth_error l i = nth_error l' i) -> l = l'.
Proof.
  revert l'; induction l as [|x l IH]; intros [|y l'] H; auto.
  - specialize (H 0); discriminate.
  - specialize (H 0); discriminate.
  - f_equal.
    + specialize (H 0); simpl in H; congruence.
    + apply IH; intro i; exact (H (S i)).
Qed.

Lemma nth_error_map_opt {A B} (f : A -> B) l i :
  nth_error (map f l) i = option_map f (nth_error l i).
Proof.
  revert i; induction l as [|x l IH]; intros [|i]; simpl; auto.
Qed.

Lemma nth_error_some_lt {A} (l : list A) i x : nth_error l i = Some x -> i < length l.
Proof. intro H. apply nth_error_Some. congruence. Qed.

Lemma nth_error_lt_some {A} (l : list A) i : i < length l -> exists x, nth_error l i = Some x.
Proof.
  intro H. destruct (nth_error l i) eqn:E; eauto.
  apply nth_error_None in E. lia.
Qed.

Lemma run_app (a b : list nat) (c : config) : run (a ++ b) c = run b (run a c).
Proof. revert c; induction a as [|i a IH]; intro c; simpl; auto. Qed.

Lemma count_snoc_eq (l : list nat) i : count_occ Nat.eq_dec (l ++ [i]) i = S (count_occ Nat.eq_dec l i).
Proof. rewrite count_occ_app. simpl. destruct (Nat.eq_dec i i); [lia | congruence]. Qed.

Lemma count_snoc_neq (l : list nat) i j : j <> i -> count_occ Nat.eq_dec (l ++ [j]) i = count_occ Nat.eq_dec l i.
Proof. intro H. rewrite count_occ_app. simpl. destruct (Nat.eq_dec j i); [congruence | lia]. Qed.

(* ---------- the store ---------- *)

Lemma upd_other (s : store) g v g' : g' <> g -> upd s g v g' = s g'.
Proof. intro H. unfold upd. apply str_eqb_neq in H. rewrite H. reflexivity. Qed.

Lemma upd_agree (s s' : store) g v g' : s g' = s' g' -> upd s g v g' = upd s' g v g'.
Proof. intro H. unfold upd. destruct (str_eqb g' g); auto. Qed.

(* ---------- one step ---------- *)

Lemma step1_shrink_writes (s : store) (p : prog) g : writes (snd (step1 s p)) g -> writes p g.
Proof.
  destruct p as [r|k|g0 k|g0 v k]; simpl; intro H; auto.
  - apply writes_after_local; exact H.
  - eapply writes_after_read; exact H.
  - apply writes_after_write; exact H.
Qed.

Lemma step1_shrink_reads (s : store) (p : prog) g : reads (snd (step1 s p)) g -> reads p g.
Proof.
  destruct p as [r|k|g0 k|g0 v k]; simpl; intro H; auto.
  - apply reads_after_local; exact H.
  - eapply reads_after_read; exact H.
  - apply reads_after_write; exact H.
Qed.

(* a step changes the store at most where the program writes *)
Lemma step1_frame (s : store) (p : prog) g : ~ writes p g -> fst (step1 s p) g = s g.
Proof.
  destruct p as [r|k|g0 k|g0 v k]; simpl; intro H; auto.
  apply upd_other. intro E; subst g0. apply H. apply writes_here.
Qed.

(* a step only looks at the store where the program reads *)
Lemma step1_agree (s s' : store) (p : prog) :
  (forall g, reads p g -> s g = s' g) ->
  snd (step1 s p) = snd (step1 s' p) /\
  forall g, s g = s' g -> fst (step1 s p) g = fst (step1 s' p) g.
Proof.
  intro H. destruct p as [r|k|g0 k|g0 v k]; simpl; split; auto.
  - rewrite (H g0 (reads_here g0 k)). reflexivity.
  - intros g Hg. apply upd_agree; exact Hg.
Qed.

Lemma alone_shrink_writes n (s : store) (p : prog) g : writes (snd (alone n (s, p))) g -> writes p g.
Proof.
  induction n as [|n IH]; simpl; auto.
  intro H. apply IH. eapply step1_shrink_writes; exact H.
Qed.

Lemma alone_shrink_reads n (s : store) (p : prog) g : reads (snd (alone n (s, p))) g -> reads p g.
Proof.
  induction n as [|n IH]; simpl; auto.
  intro H. apply IH. eapply step1_shrink_reads; exact H.
Qed.

(* ---------- big step vs small step ---------- *)

Lemma exec_step1 (s : store) (p : prog) : exec (fst (step1 s p)) (snd (step1 s p)) = exec s p.
Proof. destruct p; reflexivity. Qed.

Lemma exec_alone n (s : store) (p : prog) :
  exec (fst (alone n (s, p))) (snd (alone n (s, p))) = exec s p.
Proof.
  induction n as [|n IH]; simpl; auto.
  rewrite exec_step1. exact IH.
Qed.

Lemma alone_done n (s : store) (p : prog) r :
  snd (alone n (s, p)) = Done r -> exec s p = (fst (alone n (s, p)), r).
Proof.
  intro H. rewrite <- (exec_alone n s p). rewrite H. reflexivity.
Qed.

Lemma exec_frame (p : prog) : forall (s : store) g, ~ writes p g -> fst (exec s p) g = s g.
Proof.
  induction p as [r|k IH|g0 k IH|g0 v k IH]; intros s g H; simpl; auto.
  - apply IH. intro W. apply H. apply writes_after_local; exact W.
  - apply IH. intro W. apply H. eapply writes_after_read; exact W.
  - rewrite IH.
    + apply upd_other. intro E; subst g0. apply H. apply writes_here.
    + intro W. apply H. apply writes_after_write; exact W.
Qed.

Lemma exec_agree (p : prog) : forall (s s' : store),
  (forall g, reads p g -> s g = s' g) ->
  snd (exec s p) = snd (exec s' p) /\
  forall g, s g = s' g -> fst (exec s p) g = fst (exec s' p) g.
Proof.
  induction p as [r|k IH|g0 k IH|g0 v k IH]; intros s s' H; simpl.
  - split; auto.
  - apply IH. intros g R. apply H. apply reads_after_local; exact R.
  - rewrite (H g0 (reads_here g0 k)).
    apply IH. intros g R. apply H. eapply reads_after_read; exact R.
  - destruct (IH (upd s g0 v) (upd s' g0 v)) as [A B].
    + intros g R. apply upd_agree. apply H. apply reads_after_write; exact R.
    + split; [exact A|]. intros g E. apply B. apply upd_agree; exact E.
Qed.

(* ---------- projection of an interleaving onto its threads ---------- *)

Definition count (sched : list nat) (i : nat) : nat := count_occ Nat.eq_dec sched i.

Record proj_inv (s0 : store) (ts0 : list prog) (sched : list nat) (c : config) : Prop := {
  pi_len : length (snd c) = length ts0;
  pi_thread : forall i p0, nth_error ts0 i = Some p0 ->
      nth_error (snd c) i = Some (snd (alone (count sched i) (s0, p0)));
  pi_store : forall i p0 g, nth_error ts0 i = Some p0 -> reads p0 g \/ writes p0 g ->
      fst c g = fst (alone (count sched i) (s0, p0)) g;
  pi_rest : forall g, (forall p0, In p0 ts0 -> ~ writes p0 g) -> fst c g = s0 g
}.

Lemma proj_inv_step (s0 : store) (ts0 : list prog) sched c j :
  independent ts0 -> proj_inv s0 ts0 sched c -> proj_inv s0 ts0 (sched ++ [j]) (step_at j c).
Proof.
  intros Hind [Hlen Hth Hst Hrest].
  unfold step_at. destruct (nth_error (snd c) j) as [pj|] eqn:Ej.
  - (* thread j moves *)
    assert (Hj : j < length ts0) by (rewrite <- Hlen; eapply nth_error_some_lt; eauto).
    destruct (nth_error_lt_some ts0 j Hj) as [pj0 Ej0].
    pose proof (Hth j pj0 Ej0) as Ecur. rewrite Ej in Ecur. injection Ecur as Ecur.
    (* pj is where thread j is when alone; its store agrees with the shared one on j's footprint *)
    assert (Hagree : forall g, reads pj g -> fst c g = fst (alone (count sched j) (s0, pj0)) g).
    { intros g R. apply (Hst j pj0 g Ej0). left. subst pj. eapply alone_shrink_reads; exact R. }
    destruct (step1_agree (fst c) (fst (alone (count sched j) (s0, pj0))) pj Hagree) as [Anext Astore].
    assert (Wj : forall g, writes pj g -> writes pj0 g).
    { intros g W. subst pj. eapply alone_shrink_writes; exact W. }
    constructor; simpl.
    + rewrite length_upd_nth. exact Hlen.
    + intros i p0 Ei. destruct (Nat.eq_dec i j) as [->|Nij].
      * rewrite Ej0 in Ei. injection Ei as <-.
        unfold count. rewrite count_snoc_eq. simpl.
        rewrite nth_error_upd_nth_eq by (rewrite Hlen; exact Hj).
        f_equal. fold (count sched j). rewrite <- Ecur. exact Anext.
      * unfold count. rewrite count_snoc_neq by congruence.
        rewrite nth_error_upd_nth_neq by congruence. apply Hth; exact Ei.
    + intros i p0 g Ei Fp. destruct (Nat.eq_dec i j) as [->|Nij].
      * rewrite Ej0 in Ei. injection Ei as <-.
        unfold count. rewrite count_snoc_eq. simpl. fold (count sched j).
        rewrite <- Ecur. apply Astore. apply (Hst j pj0 g Ej0 Fp).
      * unfold count. rewrite count_snoc_neq by congruence. fold (count sched i).
        rewrite step1_frame.
        -- apply (Hst i p0 g Ei Fp).
        -- intro W. apply Wj in W.
           destruct (Hind j i pj0 p0 g (not_eq_sym Nij) Ej0 Ei W) as [NR NW].
           destruct Fp; contradiction.
    + intros g Hg. rewrite step1_frame.
      * apply Hrest; exact Hg.
      * intro W. apply Wj in W. apply (Hg pj0); [eapply nth_error_In; eauto | exact W].
  - (* stutter: no such thread *)
    assert (Hj : forall i p0, nth_error ts0 i = Some p0 -> j <> i).
    { intros i p0 Ei E. subst i. apply nth_error_some_lt in Ei.
      apply nth_error_None in Ej. lia. }
    constructor.
    + exact Hlen.
    + intros i p0 Ei. unfold count. rewrite count_snoc_neq by (eapply Hj; eauto). apply Hth; exact Ei.
    + intros i p0 g Ei Fp. unfold count. rewrite count_snoc_neq by (eapply Hj; eauto). apply (Hst i p0 g Ei Fp).
    + exact Hrest.
Qed.

Theorem projection (s0 : store) (ts0 : list prog) :
  independent ts0 -> forall sched, proj_inv s0 ts0 sched (run sched (s0, ts0)).
Proof.
  intros Hind sched. induction sched as [|j sched IH] using rev_ind.
  - simpl. constructor; simpl; auto.
  - rewrite run_app. simpl. apply proj_inv_step; assumption.
Qed.

(* whenever a thread has returned, in whatever interleaving, it has returned what it returns
   when run alone from the initial store, and the variables it touches hold what they would then *)
Theorem finished_thread (s0 : store) (ts0 : list prog) sched i p0 r :
  independent ts0 -> nth_error ts0 i = Some p0 ->
  nth_error (snd (run sched (s0, ts0))) i = Some (Done r) ->
  r = snd (exec s0 p0) /\
  forall g, reads p0 g \/ writes p0 g -> fst (run sched (s0, ts0)) g = fst (exec s0 p0) g.
Proof.
  intros Hind Ei Hd. destruct (projection s0 ts0 Hind sched) as [_ Hth Hst _].
  rewrite (Hth i p0 Ei) in Hd. injection Hd as Hd.
  pose proof (alone_done _ _ _ _ Hd) as E. rewrite E. simpl. split; [reflexivity|].
  intros g Fp. apply (Hst i p0 g Ei Fp).
Qed.

(* ---------- the calls made one after the other ---------- *)

Record seq_inv (s0 : store) (ts0 : list prog) (ran : list nat) (c : config) : Prop := {
  si_len : length (snd c) = length ts0;
  si_ran : forall i p0, nth_error ts0 i = Some p0 -> In i ran ->
      nth_error (snd c) i = Some (Done (snd (exec s0 p0))) /\
      forall g, writes p0 g -> fst c g = fst (exec s0 p0) g;
  si_todo : forall i p0, nth_error ts0 i = Some p0 -> ~ In i ran ->
      nth_error (snd c) i = Some p0 /\
      forall g, reads p0 g \/ writes p0 g -> fst c g = s0 g;
  si_rest : forall g, (forall p0, In p0 ts0 -> ~ writes p0 g) -> fst c g = s0 g
}.

Lemma seq_inv_step (s0 : store) (ts0 : list prog) ran c j :
  independent ts0 -> seq_inv s0 ts0 ran c -> seq_inv s0 ts0 (j :: ran) (seq_step j c).
Proof.
  intros Hind [Hlen Hran Htodo Hrest].
  unfold seq_step. destruct (nth_error (snd c) j) as [pj|] eqn:Ej.
  - assert (Hj : j < length ts0) by (rewrite <- Hlen; eapply nth_error_some_lt; eauto).
    destruct (nth_error_lt_some ts0 j Hj) as [pj0 Ej0].
    destruct (in_dec Nat.eq_dec j ran) as [Rj|NRj].
    + (* the call was made already: it is Done and running it again changes nothing *)
      destruct (Hran j pj0 Ej0 Rj) as [Ed Ew]. rewrite Ej in Ed. injection Ed as ->.
      simpl. constructor; simpl.
      * rewrite length_upd_nth; exact Hlen.
      * intros i p0 Ei Ri. destruct (Nat.eq_dec i j) as [->|Nij].
        -- rewrite Ej0 in Ei. injection Ei as <-.
           rewrite nth_error_upd_nth_eq by (rewrite Hlen; exact Hj). split; [reflexivity | exact Ew].
        -- rewrite nth_error_upd_nth_neq by congruence. apply Hran; [exact Ei|].
           destruct Ri as [E|Ri]; [congruence | exact Ri].
      * intros i p0 Ei NRi. assert (Nij : i <> j) by (intro E; apply NRi; left; congruence).
        rewrite nth_error_upd_nth_neq by congruence. apply Htodo; [exact Ei|].
        intro Ri; apply NRi; right; exact Ri.
      * exact Hrest.
    + (* first time: it starts from a store that agrees with s0 on its footprint *)
      destruct (Htodo j pj0 Ej0 NRj) as [Ep Es]. rewrite Ej in Ep. injection Ep as ->.
      assert (Hagree : forall g, reads pj0 g -> fst c g = s0 g) by (intros g R; apply Es; left; exact R).
      destruct (exec_agree pj0 (fst c) s0 Hagree) as [Ares Astore].
      constructor; simpl.
      * rewrite length_upd_nth; exact Hlen.
      * intros i p0 Ei Ri. destruct (Nat.eq_dec i j) as [->|Nij].
        -- rewrite Ej0 in Ei. injection Ei as <-.
           rewrite nth_error_upd_nth_eq by (rewrite Hlen; exact Hj). split; [rewrite Ares; reflexivity|].
           intros g W. apply Astore. apply Es. right; exact W.
        -- rewrite nth_error_upd_nth_neq by congruence.
           destruct Ri as [E|Ri]; [congruence|].
           destruct (Hran i p0 Ei Ri) as [Ed Ew]. split; [exact Ed|].
           intros g W. rewrite exec_frame; [apply Ew; exact W|].
           intro Wj. destruct (Hind i j p0 pj0 g Nij Ei Ej0 W) as [_ NW]. contradiction.
      * intros i p0 Ei NRi. assert (Nij : i <> j) by (intro E; apply NRi; left; congruence).
        assert (NRi' : ~ In i ran) by (intro Ri; apply NRi; right; exact Ri).
        rewrite nth_error_upd_nth_neq by congruence.
        destruct (Htodo i p0 Ei NRi') as [Ep' Es']. split; [exact Ep'|].
        intros g Fp. rewrite exec_frame; [apply Es'; exact Fp|].
        intro Wj. destruct (Hind j i pj0 p0 g (not_eq_sym Nij) Ej0 Ei Wj) as [NR NW].
        destruct Fp; contradiction.
      * intros g Hg. rewrite exec_frame; [apply Hrest; exact Hg|].
        apply (Hg pj0). eapply nth_error_In; eauto.
  - assert (Hj : forall i p0, nth_error ts0 i = Some p0 -> i <> j).
    { intros i p0 Ei E. subst i. apply nth_error_some_lt in Ei.
      apply nth_error_None in Ej. lia. }
    constructor.
    + exact Hlen.
    + intros i p0 Ei Ri. apply Hran; [exact Ei|].
      destruct Ri as [E|Ri]; [exfalso; eapply Hj; eauto | exact Ri].
    + intros i p0 Ei NRi. apply Htodo; [exact Ei|]. intro Ri; apply NRi; right; exact Ri.
    + exact Hrest.
Qed.

Lemma seq_run_inv (s0 : store) (ts0 : list prog) :
  independent ts0 -> forall order ran c,
  seq_inv s0 ts0 ran c -> seq_inv s0 ts0 (rev order ++ ran) (seq_run order c).
Proof.
  intros Hind order. induction order as [|j o IH]; intros ran c H; simpl; [exact H|].
  rewrite <- app_assoc. simpl. apply IH. apply seq_inv_step; assumption.
Qed.

Lemma seq_inv_init (s0 : store) (ts0 : list prog) : seq_inv s0 ts0 [] (s0, ts0).
Proof.
  constructor; simpl; auto.
  - intros i p0 _ [].
Qed.

Theorem sequential (s0 : store) (ts0 : list prog) order :
  independent ts0 -> seq_inv s0 ts0 (rev order) (seq_run order (s0, ts0)).
Proof.
  intro Hind. rewrite <- (app_nil_r (rev order)).
  apply seq_run_inv; [exact Hind | apply seq_inv_init].
Qed.

(* ---------- serializability ---------- *)

Lemma finished_done (c : config) i p :
  finished c = true -> nth_error (snd c) i = Some p -> exists r, p = Done r.
Proof.
  unfold finished. intros F E. rewrite forallb_forall in F.
  specialize (F p (nth_error_In _ _ E)). destruct p; try discriminate. eauto.
Qed.

Theorem serializable (ts : list prog) (s0 : store) sched order :
  independent ts ->
  finished (run sched (s0, ts)) = true ->
  (forall i, i < length ts -> In i order) ->
  results (run sched (s0, ts)) = results (seq_run order (s0, ts))
  /\ (forall i p g, nth_error ts i = Some p -> writes p g ->
        fst (run sched (s0, ts)) g = fst (seq_run order (s0, ts)) g)
  /\ (forall g, (forall p, In p ts -> ~ writes p g) ->
        fst (run sched (s0, ts)) g = fst (seq_run order (s0, ts)) g).
Proof.
  intros Hind Hfin Hall.
  pose proof (projection s0 ts Hind sched) as [Clen Cth Cst Crest].
  pose proof (sequential s0 ts order Hind) as [Slen Sran _ Srest].
  assert (Hdone : forall i p, nth_error ts i = Some p ->
            nth_error (snd (run sched (s0, ts))) i = Some (Done (snd (exec s0 p)))
            /\ forall g, reads p g \/ writes p g -> fst (run sched (s0, ts)) g = fst (exec s0 p) g).
  { intros i p Ei. pose proof (Cth i p Ei) as E.
    destruct (finished_done _ _ _ Hfin E) as [r Er].
    destruct (finished_thread s0 ts sched i p r Hind Ei) as [-> Hs]; [rewrite E, Er; reflexivity|].
    split; [rewrite E, Er; reflexivity | exact Hs]. }
  assert (Hin : forall i p, nth_error ts i = Some p -> In i (rev order)).
  { intros i p Ei. apply in_rev. rewrite rev_involutive. apply Hall. eapply nth_error_some_lt; eauto. }
  split; [|split].
  - unfold results. apply nth_error_ext_eq. intro i. rewrite !nth_error_map_opt.
    destruct (nth_error ts i) as [p|] eqn:Ei.
    + destruct (Hdone i p Ei) as [-> _].
      destruct (Sran i p Ei (Hin i p Ei)) as [-> _]. reflexivity.
    + apply nth_error_None in Ei.
      assert (E1 : nth_error (snd (run sched (s0, ts))) i = None) by (apply nth_error_None; lia).
      assert (E2 : nth_error (snd (seq_run order (s0, ts))) i = None) by (apply nth_error_None; lia).
      rewrite E1, E2. reflexivity.
  - intros i p g Ei W.
    destruct (Hdone i p Ei) as [_ Hs]. rewrite (Hs g (or_intror W)).
    destruct (Sran i p Ei (Hin i p Ei)) as [_ Hw]. rewrite (Hw g W). reflexivity.
  - intros g Hg. rewrite (Crest g Hg), (Srest g Hg). reflexivity.
Qed.

Lemma write_free_independent (ts : list prog) : write_free ts -> independent ts.
Proof.
  intros H i j pi pj g _ Ei _ W. exfalso. eapply H; [eapply nth_error_In; exact Ei | exact W].
Qed.

(* no written shared variable: every finished interleaving returns what the calls return one after
   the other in any order, and the shared store is never changed by either *)
Theorem no_shared_state_serializable (ts : list prog) (s0 : store) sched order :
  write_free ts ->
  finished (run sched (s0, ts)) = true ->
  (forall i, i < length ts -> In i order) ->
  results (run sched (s0, ts)) = results (seq_run order (s0, ts))
  /\ forall g, fst (run sched (s0, ts)) g = s0 g /\ fst (seq_run order (s0, ts)) g = s0 g.
Proof.
  intros Hwf Hfin Hall. pose proof (write_free_independent ts Hwf) as Hind.
  destruct (serializable ts s0 sched order Hind Hfin Hall) as [R _].
  split; [exact R|]. intro g.
  pose proof (projection s0 ts Hind sched) as [_ _ _ Crest].
  pose proof (sequential s0 ts order Hind) as [_ _ _ Srest].
  split; [apply Crest | apply Srest]; intros p Hp; apply Hwf; exact Hp.
Qed.

(* mid-flight version: at any point of any interleaving a call that has returned has returned its
   sequential result (no assumption that the others have finished) *)
Theorem no_shared_state_prefix (ts : list prog) (s0 : store) sched i p r :
  write_free ts -> nth_error ts i = Some p ->
  nth_error (snd (run sched (s0, ts))) i = Some (Done r) ->
  r = snd (exec s0 p).
Proof.
  intros Hwf Ei Hd.
  destruct (finished_thread s0 ts sched i p r (write_free_independent ts Hwf) Ei Hd) as [E _]. exact E.
Qed.

(* the inventory form: all writes of the calls go to variables of a list that is empty *)
Theorem inventory_serializable (ws : list var) (ts : list prog) (s0 : store) sched order :
  ws = [] -> writes_within ws ts ->
  finished (run sched (s0, ts)) = true ->
  (forall i, i < length ts -> In i order) ->
  results (run sched (s0, ts)) = results (seq_run order (s0, ts))
  /\ forall g, fst (run sched (s0, ts)) g = s0 g /\ fst (seq_run order (s0, ts)) g = s0 g.
Proof.
  intros -> Hw. apply no_shared_state_serializable.
  intros p g Hp W. exact (Hw p g Hp W).
Qed.

(* "in any order": a permutation of the thread numbers names every thread *)
Lemma perm_covers order n : Permutation order (seq 0 n) -> forall i, i < n -> In i order.
Proof.
  intros P i Hi. eapply Permutation_in; [apply Permutation_sym; exact P|].
  apply in_seq. lia.
Qed.

Theorem no_shared_state_serializable_perm (ts : list prog) (s0 : store) sched order :
  write_free ts ->
  finished (run sched (s0, ts)) = true ->
  Permutation order (seq 0 (length ts)) ->
  results (run sched (s0, ts)) = results (seq_run order (s0, ts))
  /\ forall g, fst (run sched (s0, ts)) g = s0 g /\ fst (seq_run order (s0, ts)) g = s0 g.
Proof.
  intros Hwf Hfin P. apply no_shared_state_serializable; auto. apply perm_covers; exact P.
Qed.

(* ---------- the sequential run is itself one of the interleavings ---------- *)

(* number of atomic actions of an uninterrupted execution *)
Fixpoint steps (s : store) (p : prog) : nat :=
  match p with
  | Done _ => 0
  | Local k => S (steps s k)
  | Read g k => S (steps s (k (s g)))
  | Write g v k => S (steps (upd s g v) k)
  end.

(* the schedule that lets each call of [order] run to its end before the next one starts *)
Fixpoint seq_sched (order : list nat) (c : config) : list nat :=
  match order with
  | [] => []
  | i :: o =>
      repeat i (match nth_error (snd c) i with Some p => steps (fst c) p | None => 0 end)
      ++ seq_sched o (seq_step i c)
  end.

Lemma alone_front n (s : store) (p : prog) :
  alone (S n) (s, p) = alone n (step1 s p).
Proof.
  induction n as [|n IH].
  - simpl. destruct (step1 s p); reflexivity.
  - change (alone (S (S n)) (s, p)) with
      (step1 (fst (alone (S n) (s, p))) (snd (alone (S n) (s, p)))).
    rewrite IH. reflexivity.
Qed.

Lemma alone_steps (p : prog) : forall s : store,
  alone (steps s p) (s, p) = (fst (exec s p), Done (snd (exec s p))).
Proof.
  induction p as [r|k IH|g0 k IH|g0 v k IH]; intro s.
  - reflexivity.
  - cbn [steps exec]. rewrite alone_front. cbn [step1]. apply IH.
  - cbn [steps exec]. rewrite alone_front. cbn [step1]. apply IH.
  - cbn [steps exec]. rewrite alone_front. cbn [step1]. apply IH.
Qed.

Lemma upd_nth_same {A} i (x : A) l : nth_error l i = Some x -> upd_nth i x l = l.
Proof.
  revert i; induction l as [|y l IH]; intros [|i] H; simpl in *; try discriminate.
  - congruence.
  - f_equal. apply IH; exact H.
Qed.

Lemma upd_nth_twice {A} i (x y : A) l : upd_nth i x (upd_nth i y l) = upd_nth i x l.
Proof.
  revert i; induction l as [|z l IH]; intros [|i]; simpl; auto. f_equal. apply IH.
Qed.

Lemma run_repeat n : forall i (s : store) (ts : list prog) p,
  nth_error ts i = Some p ->
  run (repeat i n) (s, ts) = (fst (alone n (s, p)), upd_nth i (snd (alone n (s, p))) ts).
Proof.
  induction n as [|n IH]; intros i s ts p E.
  - simpl. rewrite (upd_nth_same i p ts E). reflexivity.
  - cbn [repeat run]. unfold step_at. cbn [fst snd]. rewrite E.
    rewrite (IH i (fst (step1 s p)) (upd_nth i (snd (step1 s p)) ts) (snd (step1 s p))).
    + rewrite upd_nth_twice. rewrite alone_front.
      destruct (step1 s p); reflexivity.
    + apply nth_error_upd_nth_eq. eapply nth_error_some_lt; exact E.
Qed.

Lemma seq_step_is_run i (c : config) :
  run (repeat i (match nth_error (snd c) i with Some p => steps (fst c) p | None => 0 end)) c
  = seq_step i c.
Proof.
  unfold seq_step. destruct c as [s ts]. cbn [fst snd].
  destruct (nth_error ts i) as [p|] eqn:E; [|reflexivity].
  rewrite (run_repeat _ i s ts p E). rewrite alone_steps. reflexivity.
Qed.

Theorem seq_run_is_interleaving order : forall c : config,
  run (seq_sched order c) c = seq_run order c.
Proof.
  induction order as [|i o IH]; intro c; [reflexivity|].
  cbn [seq_sched seq_run]. rewrite run_app. rewrite seq_step_is_run. apply IH.
Qed.

(* every pool can be run to the end *)
Lemma seq_step_done i j (c : config) p :
  nth_error (snd c) j = Some p -> (is_done p = true \/ j = i) ->
  exists r, nth_error (snd (seq_step i c)) j = Some (Done r).
Proof.
  intros E H. unfold seq_step.
  destruct (nth_error (snd c) i) as [pi|] eqn:Ei.
  - cbn [snd]. destruct (Nat.eq_dec i j) as [->|N].
    + rewrite nth_error_upd_nth_eq by (eapply nth_error_some_lt; eauto). eauto.
    + rewrite nth_error_upd_nth_neq by exact N.
      destruct H as [H|H]; [|congruence]. destruct p; try discriminate. eauto.
  - destruct H as [H|H]; [|subst; congruence]. destruct p; try discriminate. eauto.
Qed.

Lemma seq_step_keeps i j (c : config) p :
  nth_error (snd c) j = Some p -> exists p', nth_error (snd (seq_step i c)) j = Some p'.
Proof.
  intro E. apply nth_error_lt_some. unfold seq_step.
  destruct (nth_error (snd c) i); cbn [snd]; [rewrite length_upd_nth|]; eapply nth_error_some_lt; eauto.
Qed.

Lemma seq_run_done order : forall (c : config) j p,
  nth_error (snd c) j = Some p -> (is_done p = true \/ In j order) ->
  exists r, nth_error (snd (seq_run order c)) j = Some (Done r).
Proof.
  induction order as [|i o IH]; intros c j p E H.
  - destruct H as [H|[]]. destruct p; try discriminate. simpl. eauto.
  - cbn [seq_run]. destruct H as [H|[H|H]].
    + destruct (seq_step_done i j c p E (or_introl H)) as [r Er].
      apply (IH _ j (Done r) Er). left; reflexivity.
    + destruct (seq_step_done i j c p E (or_intror (eq_sym H))) as [r Er].
      apply (IH _ j (Done r) Er). left; reflexivity.
    + destruct (seq_step_keeps i j c p E) as [p' E'].
      apply (IH _ j p' E'). right; exact H.
Qed.

Theorem seq_run_finished (c : config) order :
  (forall i, i < length (snd c) -> In i order) -> finished (seq_run order c) = true.
Proof.
  intro Hall. unfold finished. apply forallb_forall. intros p Hp.
  apply In_nth_error in Hp. destruct Hp as [j Ej].
  assert (Hlen : forall o (c' : config), length (snd (seq_run o c')) = length (snd c')).
  { induction o as [|i o IH]; intro c'; [reflexivity|]. cbn [seq_run]. rewrite IH.
    unfold seq_step. destruct (nth_error (snd c') i); cbn [snd]; [apply length_upd_nth | reflexivity]. }
  assert (Hj : j < length (snd c)) by (rewrite <- (Hlen order c); eapply nth_error_some_lt; eauto).
  destruct (nth_error_lt_some _ _ Hj) as [p0 E0].
  destruct (seq_run_done order c j p0 E0 (or_intror (Hall j Hj))) as [r Er].
  rewrite Ej in Er. injection Er as ->. reflexivity.
Qed.

Theorem terminating_schedule_exists (c : config) :
  exists sched, finished (run sched c) = true.
Proof.
  exists (seq_sched (seq 0 (length (snd c))) c).
  rewrite seq_run_is_interleaving. apply seq_run_finished.
  intros i Hi. apply in_seq. lia.
Qed.

End ConcProofs.
