(* KeyLoadProofs.v — lemmas about the key loading model (model/KeyLoad.v). *)
From IT Require Import model.KeyLoad gen.Consts proofs.KeyLoadSpec proofs.KeyLoadCanon.

(* ---------- TrimSpace on the strings it is applied to ---------- *)

Lemma is_space_ge33 c : 33 <= c -> is_space c = false.
Proof.
  intro H. unfold is_space.
  repeat match goal with |- context [?a =? ?b] => rewrite (proj2 (N.eqb_neq a b)) by lia end.
  reflexivity.
Qed.

Lemma drop_space_id s : (forall c, In c s -> is_space c = false) -> drop_space s = s.
Proof. destruct s as [|c s]; intro H; cbn [drop_space]; [reflexivity|]. rewrite (H c (in_eq _ _)). reflexivity. Qed.

Lemma trim_space_id s : (forall c, In c s -> is_space c = false) -> trim_space s = s.
Proof.
  intro H. unfold trim_space. rewrite (drop_space_id s H).
  rewrite drop_space_id; [apply rev_involutive|].
  intros c Hc. apply H. apply in_rev. exact Hc.
Qed.

Lemma hex_digit_ge n : 48 <= hex_digit n.
Proof. unfold hex_digit. destruct (n <? 10); lia. Qed.

Lemma hex_encode_no_space s c : In c (hex_encode s) -> is_space c = false.
Proof.
  induction s as [|x s IH]; cbn [hex_encode]; intro H; [destruct H|].
  destruct H as [<-|[<-|H]]; [apply is_space_ge33; pose proof (hex_digit_ge (x / 16)); lia
                             |apply is_space_ge33; pose proof (hex_digit_ge (x mod 16)); lia|auto].
Qed.

Lemma trim_hex s : trim_space (hex_encode s) = hex_encode s.
Proof. apply trim_space_id. intros c. apply hex_encode_no_space. Qed.

Lemma trim_dash m : trim_space (45 :: m ++ [45; 10]) = 45 :: m ++ [45].
Proof.
  unfold trim_space.
  assert (E1 : drop_space (45 :: m ++ [45; 10]) = 45 :: m ++ [45; 10]) by reflexivity.
  rewrite E1.
  assert (E2 : rev (45 :: m ++ [45; 10]) = 10 :: 45 :: rev m ++ [45]).
  { change (45 :: m ++ [45; 10]) with ((45 :: m) ++ [45; 10]).
    rewrite rev_app_distr. reflexivity. }
  rewrite E2.
  assert (E3 : drop_space (10 :: 45 :: rev m ++ [45]) = 45 :: rev m ++ [45]) by reflexivity.
  rewrite E3.
  change (45 :: rev m ++ [45]) with ((45 :: rev m) ++ [45]).
  rewrite rev_app_distr. cbn [rev app]. rewrite rev_involutive. reflexivity.
Qed.

(* ---------- hex ---------- *)

Lemma hex_digit_inj a b : a < 16 -> b < 16 -> hex_digit a = hex_digit b -> a = b.
Proof.
  unfold hex_digit. intros Ha Hb.
  destruct (a <? 10) eqn:Ea; destruct (b <? 10) eqn:Eb;
    try apply N.ltb_lt in Ea; try apply N.ltb_ge in Ea; try apply N.ltb_lt in Eb; try apply N.ltb_ge in Eb; lia.
Qed.

Lemma byte_split x y : x < 256 -> y < 256 -> x / 16 = y / 16 -> x mod 16 = y mod 16 -> x = y.
Proof.
  intros Hx Hy Hd Hm.
  rewrite (N.div_mod x 16), (N.div_mod y 16) by discriminate. rewrite Hd, Hm. reflexivity.
Qed.

Lemma hex_encode_inj : forall s s', bytes s -> bytes s' -> hex_encode s = hex_encode s' -> s = s'.
Proof.
  induction s as [|x s IH]; intros [|y s'] Hs Hs' H; cbn [hex_encode] in H; try discriminate; [reflexivity|].
  inversion Hs as [|? ? Hx Hs1]; inversion Hs' as [|? ? Hy Hs1']; subst.
  inversion H as [[H1 H2 H3]].
  assert (x / 16 < 16) by (apply N.div_lt_upper_bound; [discriminate|exact Hx]).
  assert (y / 16 < 16) by (apply N.div_lt_upper_bound; [discriminate|exact Hy]).
  assert (x mod 16 < 16) by (apply N.mod_lt; discriminate).
  assert (y mod 16 < 16) by (apply N.mod_lt; discriminate).
  apply hex_digit_inj in H1; [|assumption|assumption].
  apply hex_digit_inj in H2; [|assumption|assumption].
  f_equal; [apply byte_split; assumption | apply IH; assumption].
Qed.

Lemma hex_digit_is_hex a : a < 16 -> is_hex_char (hex_digit a) = true.
Proof.
  intro Ha. unfold hex_digit, is_hex_char, is_digit.
  destruct (a <? 10) eqn:Ea; [apply N.ltb_lt in Ea|apply N.ltb_ge in Ea].
  - replace (48 <=? 48 + a) with true by (symmetry; apply N.leb_le; lia).
    replace (48 + a <=? 57) with true by (symmetry; apply N.leb_le; lia). reflexivity.
  - replace (97 <=? 87 + a) with true by (symmetry; apply N.leb_le; lia).
    replace (87 + a <=? 102) with true by (symmetry; apply N.leb_le; lia).
    rewrite orb_true_r. reflexivity.
Qed.

Lemma hex_encode_all_hex s : bytes s -> forallb is_hex_char (hex_encode s) = true.
Proof.
  induction 1 as [|x s Hx Hs IH]; cbn [hex_encode forallb]; [reflexivity|].
  rewrite !hex_digit_is_hex, IH; [reflexivity| |].
  - apply N.mod_lt; discriminate.
  - apply N.div_lt_upper_bound; [discriminate|exact Hx].
Qed.

Lemma hex_encode_valid s : s <> [] -> bytes s -> validate_hex_string (hex_encode s) = true.
Proof.
  intros Hne Hb. unfold validate_hex_string. rewrite (hex_encode_all_hex s Hb).
  destruct s; [congruence|reflexivity].
Qed.

Lemma hex_encode_nonempty s : s <> [] -> hex_encode s <> [].
Proof. destruct s; [congruence|discriminate]. Qed.

Section Proofs.
Variable sha256 : str -> str.
Variable pem_body : str -> str.

Notation pem_text := (pem_text pem_body).
Notation pem_encode := (pem_encode pem_body).
Notation generate_pem_block := (generate_pem_block pem_body).

Lemma pem_text_shape ty d : exists m, pem_text ty d = 45 :: m ++ [45].
Proof.
  exists (bs "----BEGIN " ++ ty ++ bs "-----" ++ [10] ++ pem_body d ++ bs "-----END " ++ ty ++ bs "----").
  unfold KeyLoadSpec.pem_text.
  change (bs "-----BEGIN ") with (45 :: bs "----BEGIN ").
  change (bs "-----") with (bs "----" ++ [45]) at 2.
  rewrite <- ?app_assoc. cbn [app]. rewrite <- ?app_assoc. reflexivity.
Qed.

Lemma pem_encode_nohdr ty d : pem_encode ty [] d = pem_text ty d ++ [10].
Proof.
  unfold KeyLoad.pem_encode, KeyLoadSpec.pem_text, akeys. cbn [map existsb].
  change (pem_headers []) with (@nil N). rewrite app_nil_l.
  rewrite <- ?app_assoc. reflexivity.
Qed.

Lemma trim_pem ty d : trim_space (generate_pem_block d ty) = pem_text ty d.
Proof.
  unfold KeyLoad.generate_pem_block. rewrite pem_encode_nohdr.
  destruct (pem_text_shape ty d) as [m E]. rewrite E.
  change ((45 :: m ++ [45]) ++ [10]) with (45 :: (m ++ [45]) ++ [10]).
  rewrite <- app_assoc. cbn [app]. apply trim_dash.
Qed.

Lemma pem_text_nonempty ty d : pem_text ty d <> [].
Proof. destruct (pem_text_shape ty d) as [m E]. rewrite E. discriminate. Qed.

Lemma pem_text_inj ty d d' :
  (forall x y, pem_body x = pem_body y -> x = y) -> pem_text ty d = pem_text ty d' -> d = d'.
Proof.
  intros Hinj H. unfold KeyLoadSpec.pem_text in H.
  do 4 apply app_inv_head in H.
  rewrite !app_assoc in H. do 3 apply app_inv_tail in H. apply Hinj. exact H.
Qed.

(* ---------- the model computes the declarative description ---------- *)

Lemma kt_rsa_rsa : str_eqb c_rsaKeyType c_rsaKeyType = true. Proof. reflexivity. Qed.
Lemma kt_ec_rsa : str_eqb c_ecdsaKeyType c_rsaKeyType = false. Proof. reflexivity. Qed.
Lemma kt_ec_ec : str_eqb c_ecdsaKeyType c_ecdsaKeyType = true. Proof. reflexivity. Qed.
Lemma kt_ed_rsa : str_eqb c_ed25519KeyType c_rsaKeyType = false. Proof. reflexivity. Qed.
Lemma kt_ed_ec : str_eqb c_ed25519KeyType c_ecdsaKeyType = false. Proof. reflexivity. Qed.
Lemma kt_ed_ed : str_eqb c_ed25519KeyType c_ed25519KeyType = true. Proof. reflexivity. Qed.

Notation set_key_components := (set_key_components sha256 pem_body).
Notation generate_key_id := (generate_key_id sha256).
Notation spec_key := (spec_key sha256 pem_body).
Notation spec_load := (spec_load sha256 pem_body).
Notation load_obj := (load_obj sha256 pem_body).
Notation load_parsed := (load_parsed sha256 pem_body).

Lemma has_priv_nil (m : str) : (0 <? length m)%nat = negb (is_nil m).
Proof. destruct m; reflexivity. Qed.

Definition spec_result (k : key) (algs : option (list str)) : res key :=
  do _ <- validate_key k algs; Ok k.

Lemma skc_spec t pub m scheme algs : t <> KUnknown ->
  set_key_components pub m (keytype_name t) scheme algs = spec_result (spec_key t pub m [] scheme algs) algs.
Proof.
  intro Ht. unfold KeyLoad.set_key_components. rewrite has_priv_nil.
  destruct t; [| | |congruence]; cbn [keytype_name].
  - rewrite kt_rsa_rsa. destruct m as [|c m]; cbn [is_nil negb rbind]; rewrite ?trim_pem; reflexivity.
  - rewrite kt_ec_rsa, kt_ec_ec. destruct m as [|c m]; cbn [is_nil negb rbind]; rewrite ?trim_pem; reflexivity.
  - rewrite kt_ed_rsa, kt_ed_ec, kt_ed_ed. destruct m as [|c m]; cbn [is_nil negb rbind]; rewrite ?trim_hex; reflexivity.
Qed.

Lemma load_obj_spec o b scheme algs : o_type o <> KUnknown ->
  load_obj o b scheme algs =
  spec_result (spec_key (o_type o) (o_pub o) (priv_material (mkParsed PKIX o) b) [] scheme algs) algs.
Proof.
  intro Ht. unfold KeyLoad.load_obj, priv_material, p_priv_der, p_type. cbn [p_obj].
  destruct (o_type o) eqn:Et; [| | |congruence]; destruct (o_priv o) as [raw|];
    first [ rewrite <- (skc_spec KRsa) by discriminate; reflexivity
          | rewrite <- (skc_spec KEcdsa) by discriminate; reflexivity
          | rewrite <- (skc_spec KEd25519) by discriminate; reflexivity ].
Qed.

Theorem load_parsed_spec p b scheme algs : load_parsed p b scheme algs = spec_load p b scheme algs.
Proof.
  unfold KeyLoad.load_parsed, KeyLoadSpec.spec_load, cert_string.
  destruct (p_type p) eqn:Et; unfold p_type in Et.
  1-3: rewrite load_obj_spec by congruence; rewrite Et;
       change (priv_material (mkParsed PKIX (p_obj p)) b) with (priv_material p b);
       change (o_pub (p_obj p)) with (p_pub_der p);
       unfold spec_result;
       destruct (validate_key _ algs) as [[]|e|e]; destruct (p_form p); reflexivity.
  unfold KeyLoad.load_obj. rewrite Et. destruct (p_form p); reflexivity.
Qed.

(* ---------- consequences ---------- *)

Notation key_desc := (key_desc pem_body).
Notation pub_string := (pub_string pem_body).
Notation priv_string := (priv_string pem_body).
Notation cert_string := (cert_string pem_body).
Notation key_id := (key_id sha256 pem_body).
Notation load_key_reader := (load_key_reader sha256 pem_body).
Notation load_key_reader_defaults := (load_key_reader_defaults sha256 pem_body).
Notation load_key := (load_key sha256 pem_body).
Notation load_key_defaults := (load_key_defaults sha256 pem_body).

Lemma rbind_ok {A B} (r : res A) (f : A -> res B) b : rbind r f = Ok b -> exists a, r = Ok a /\ f a = Ok b.
Proof. destruct r; cbn [rbind]; intro H; [eauto|discriminate|discriminate]. Qed.

Lemma spec_load_ok p b scheme algs k : spec_load p b scheme algs = Ok k ->
  p_type p <> KUnknown /\
  k = spec_key (p_type p) (p_pub_der p) (priv_material p b) (cert_string p b) scheme algs /\
  validate_key (spec_key (p_type p) (p_pub_der p) (priv_material p b) [] scheme algs) algs = Ok tt.
Proof.
  unfold KeyLoadSpec.spec_load. intro H.
  destruct (p_type p) eqn:Et; [| | |discriminate];
    apply rbind_ok in H; destruct H as [[] [Hv Hk]]; inversion Hk; subst;
    (split; [discriminate|split; [reflexivity|exact Hv]]).
Qed.

Lemma load_parsed_ok p b scheme algs k : load_parsed p b scheme algs = Ok k ->
  p_type p <> KUnknown /\
  k = spec_key (p_type p) (p_pub_der p) (priv_material p b) (cert_string p b) scheme algs /\
  validate_key (spec_key (p_type p) (p_pub_der p) (priv_material p b) [] scheme algs) algs = Ok tt.
Proof. rewrite load_parsed_spec. apply spec_load_ok. Qed.

(* validateKey does not look at the private half *)
Lemma validate_key_private_irrelevant id h kt pr pr' pub c s algs :
  validate_key (mkKey id h kt pr pub c s) algs = validate_key (mkKey id h kt pr' pub c s) algs.
Proof. reflexivity. Qed.

Lemma validate_key_spec_priv t pub m m' c s algs :
  validate_key (spec_key t pub m c s algs) algs = validate_key (spec_key t pub m' c s algs) algs.
Proof. reflexivity. Qed.

(* acceptance and every identity-relevant field depend only on the key type, the public half,
   the scheme and the hash list — not on the form, the block, or private material *)
Lemma load_ok_depends_on_public_only p p' b b' scheme algs :
  p_type p = p_type p' -> p_pub_der p = p_pub_der p' ->
  is_ok (load_parsed p b scheme algs) = is_ok (load_parsed p' b' scheme algs).
Proof.
  intros Ht Hp. rewrite !load_parsed_spec. unfold KeyLoadSpec.spec_load. rewrite <- Ht, <- Hp.
  destruct (p_type p); try reflexivity;
    rewrite (validate_key_spec_priv _ _ (priv_material p b) (priv_material p' b'));
    destruct (validate_key _ algs) as [[]|e|e]; reflexivity.
Qed.

Lemma same_pair_same_identity p p' b b' scheme algs k k' :
  p_type p = p_type p' -> p_pub_der p = p_pub_der p' ->
  load_parsed p b scheme algs = Ok k -> load_parsed p' b' scheme algs = Ok k' ->
  key_desc_of k algs = key_desc_of k' algs /\ k_keyid k = k_keyid k' /\ k_public k = k_public k' /\
  k_keytype k = k_keytype k' /\ k_scheme k = k_scheme k' /\ k_hashalgs k = k_hashalgs k'.
Proof.
  intros Ht Hp H H'. apply load_parsed_ok in H. apply load_parsed_ok in H'.
  destruct H as [_ [-> _]]. destruct H' as [_ [-> _]]. rewrite <- Ht, <- Hp.
  unfold key_desc_of, KeyLoadSpec.spec_key. cbn [k_keytype k_scheme k_public k_keyid k_hashalgs]. auto 10.
Qed.

(* the id is the hash of the canonical description of the four public fields *)
Lemma loaded_id_formula p b scheme algs k : load_parsed p b scheme algs = Ok k ->
  k_keyid k = hex_encode (sha256 (key_desc_canon (k_keytype k) (k_scheme k) algs (k_public k))) /\
  key_desc_of k algs = key_desc (p_type p) scheme algs (p_pub_der p).
Proof. intro H. apply load_parsed_ok in H. destruct H as [_ [-> _]]. split; reflexivity. Qed.

(* ---- halves ---- *)

Lemma priv_string_nonempty t m : t <> KUnknown -> (priv_string t m <> [] <-> m <> []).
Proof.
  intro Ht. unfold KeyLoadSpec.priv_string. destruct m as [|c m]; cbn [is_nil].
  - tauto.
  - split; [discriminate|intros _].
    destruct t; [apply pem_text_nonempty|apply pem_text_nonempty|apply hex_encode_nonempty; discriminate|congruence].
Qed.

Lemma private_iff_material p b scheme algs k :
  load_parsed p b scheme algs = Ok k ->
  b_bytes b <> [] ->
  (forall raw, p_priv_der p = Some raw -> p_type p = KEd25519 -> raw <> []) ->
  (k_private k <> [] <-> p_priv_der p <> None).
Proof.
  intros H Hb Hraw. apply load_parsed_ok in H. destruct H as [Ht [-> _]].
  unfold KeyLoadSpec.spec_key. cbn [k_private]. rewrite (priv_string_nonempty _ _ Ht).
  unfold priv_material. destruct (p_priv_der p) as [raw|] eqn:Ep.
  - split; [discriminate|intros _]. destruct (p_type p) eqn:Et; try exact Hb. apply (Hraw raw); reflexivity.
  - tauto.
Qed.

Lemma halves_content p b scheme algs k :
  load_parsed p b scheme algs = Ok k ->
  k_public k = pub_string (p_type p) (p_pub_der p) /\
  k_private k = priv_string (p_type p) (priv_material p b) /\
  k_cert k = cert_string p b.
Proof. intro H. apply load_parsed_ok in H. destruct H as [_ [-> _]]. auto. Qed.

(* ---- type, scheme, validation ---- *)

Lemma kt_ec_ed : str_eqb c_ecdsaKeyType c_ed25519KeyType = false. Proof. reflexivity. Qed.

Lemma mkts_spec t s : t <> KUnknown ->
  match_key_type_scheme (keytype_name t) s =
  if mem s (schemes_of t) then Ok tt else Err err_scheme_keytype_mismatch.
Proof.
  intro Ht. unfold match_key_type_scheme.
  destruct t; [| | |congruence]; cbn [keytype_name schemes_of].
  - rewrite kt_rsa_rsa. reflexivity.
  - rewrite kt_ec_rsa, kt_ec_ed, kt_ec_ec. reflexivity.
  - rewrite kt_ed_rsa, kt_ed_ed. reflexivity.
Qed.

Lemma keytype_name_nonempty t : t <> KUnknown -> is_nil (keytype_name t) = false.
Proof. intro Ht. destruct t; [reflexivity|reflexivity|reflexivity|congruence]. Qed.

Definition algs_ok (a : option (list str)) : bool :=
  match a with
  | None => true
  | Some l => is_sub_set t_getSupportedKeyIDHashAlgorithms (new_set l)
  end.

Lemma validate_key_char t pub m c s a : t <> KUnknown ->
  validate_hex_string (key_id t s a pub) = true ->
  pub_string t pub <> [] ->
  validate_key (spec_key t pub m c s a) a =
  if is_nil s then Err err_empty_field
  else if mem s (schemes_of t) then (if algs_ok a then Ok tt else Err err_unsupported_hash_algs)
  else Err err_scheme_keytype_mismatch.
Proof.
  intros Ht Hhex Hpub. unfold validate_key, KeyLoadSpec.spec_key.
  cbn [k_keyid k_keytype k_public k_cert k_scheme]. rewrite Hhex. cbn [negb].
  rewrite (keytype_name_nonempty t Ht).
  destruct (pub_string t pub) eqn:Ep; [congruence|]. cbn [is_nil andb].
  destruct (is_nil s); [reflexivity|]. rewrite (mkts_spec t s Ht).
  destruct (mem s (schemes_of t)); cbn [rbind]; [|reflexivity].
  destruct a as [l|]; cbn [algs_ok]; [|reflexivity].
  destruct (is_sub_set _ _); reflexivity.
Qed.

Lemma validate_key_ok_scheme t pub m c s a : t <> KUnknown ->
  validate_key (spec_key t pub m c s a) a = Ok tt -> mem s (schemes_of t) = true /\ algs_ok a = true.
Proof.
  intros Ht H. unfold validate_key, KeyLoadSpec.spec_key in H.
  cbn [k_keyid k_keytype k_public k_cert k_scheme] in H.
  destruct (negb _); [discriminate|]. destruct (is_nil (keytype_name t)); [discriminate|].
  destruct (_ && _); [discriminate|]. destruct (is_nil s); [discriminate|].
  rewrite (mkts_spec t s Ht) in H. destruct (mem s (schemes_of t)); cbn [rbind] in H; [|discriminate].
  split; [reflexivity|]. destruct a as [l|]; cbn [algs_ok]; [|reflexivity].
  destruct (is_sub_set _ _); [reflexivity|discriminate].
Qed.

Lemma load_key_reader_ok d scheme algs k : load_key_reader (RData d) scheme algs = Ok k ->
  exists b p, decode_and_parse d = Ok (b, p) /\ load_parsed p b scheme algs = Ok k.
Proof.
  unfold KeyLoad.load_key_reader. intro H. apply rbind_ok in H. destruct H as [[b p] [Hd Hl]].
  exists b, p. auto.
Qed.

Lemma load_key_reader_defaults_ok d k : load_key_reader_defaults (RData d) = Ok k ->
  exists b p s, decode_and_parse d = Ok (b, p) /\ default_scheme_of (p_type p) = Ok s /\
                load_parsed p b s (Some default_hash_algs) = Ok k.
Proof.
  unfold KeyLoad.load_key_reader_defaults. intro H. apply rbind_ok in H. destruct H as [[b p] [Hd H]].
  apply rbind_ok in H. destruct H as [[s a] [Hs Hl]]. cbn [fst snd] in *.
  unfold get_default_key_scheme in Hs. apply rbind_ok in Hs. destruct Hs as [s0 [Hs0 E]]. inversion E; subst.
  exists b, p, s. auto.
Qed.

Lemma explicit_type_and_scheme d scheme algs k : load_key_reader (RData d) scheme algs = Ok k ->
  exists b p, decode_and_parse d = Ok (b, p) /\ p_type p <> KUnknown /\
    k_keytype k = keytype_name (p_type p) /\ k_scheme k = scheme /\ k_hashalgs k = algs_list algs /\
    mem scheme (schemes_of (p_type p)) = true /\ algs_ok algs = true.
Proof.
  intro H. apply load_key_reader_ok in H. destruct H as [b [p [Hd Hl]]]. exists b, p.
  apply load_parsed_ok in Hl. destruct Hl as [Ht [-> Hv]].
  apply validate_key_ok_scheme in Hv; [|exact Ht]. destruct Hv. auto 10.
Qed.

Lemma defaults_type_and_scheme d k : load_key_reader_defaults (RData d) = Ok k ->
  exists b p, decode_and_parse d = Ok (b, p) /\ p_type p <> KUnknown /\
    k_keytype k = keytype_name (p_type p) /\ default_scheme_of (p_type p) = Ok (k_scheme k) /\
    k_hashalgs k = default_hash_algs.
Proof.
  intro H. apply load_key_reader_defaults_ok in H. destruct H as [b [p [s [Hd [Hs Hl]]]]]. exists b, p.
  apply load_parsed_ok in Hl. destruct Hl as [Ht [-> _]]. auto 10.
Qed.

Lemma default_scheme_supported t s : default_scheme_of t = Ok s -> mem s (schemes_of t) = true /\ is_nil s = false.
Proof. destruct t; cbn [default_scheme_of]; intro H; inversion H; subst; split; reflexivity. Qed.

(* with the defaults every supported key loads *)
Lemma defaults_total d b p :
  (forall x, sha256 x <> [] /\ bytes (sha256 x)) ->
  decode_and_parse d = Ok (b, p) -> p_type p <> KUnknown ->
  (p_type p = KEd25519 -> p_pub_der p <> []) ->
  exists k, load_key_reader_defaults (RData d) = Ok k.
Proof.
  intros Hsha Hd Ht Hed. unfold KeyLoad.load_key_reader_defaults. rewrite Hd. cbn [rbind fst snd].
  unfold get_default_key_scheme.
  destruct (default_scheme_of (p_type p)) as [s|e|e] eqn:Es; [|destruct (p_type p); try discriminate; congruence ..].
  cbn [rbind fst snd]. rewrite load_parsed_spec. unfold KeyLoadSpec.spec_load.
  destruct (default_scheme_supported _ _ Es) as [Hm Hn].
  assert (Hv : validate_key (spec_key (p_type p) (p_pub_der p) (priv_material p b) [] s (Some default_hash_algs))
                            (Some default_hash_algs) = Ok tt).
  { rewrite validate_key_char; [rewrite Hn, Hm; reflexivity|exact Ht| |].
    - unfold KeyLoadSpec.key_id. destruct (Hsha (key_desc (p_type p) s (Some default_hash_algs) (p_pub_der p))).
      apply hex_encode_valid; assumption.
    - destruct (p_type p) eqn:Et; cbn [KeyLoadSpec.pub_string];
        [apply pem_text_nonempty|apply pem_text_nonempty|apply hex_encode_nonempty; apply Hed; reflexivity|congruence]. }
  destruct (p_type p) eqn:Et; [| | |congruence]; rewrite Hv; cbn [rbind]; eauto.
Qed.

(* ---- refusals ---- *)

Lemma refused_no_reader scheme algs :
  is_ok (load_key_reader RNil scheme algs) = false /\ is_ok (load_key_reader RFail scheme algs) = false /\
  is_ok (load_key_reader_defaults RNil) = false /\ is_ok (load_key_reader_defaults RFail) = false /\
  is_ok (load_key None scheme algs) = false /\ is_ok (load_key_defaults None) = false.
Proof. repeat split; reflexivity. Qed.

Lemma refused_no_block d scheme algs : d_block d = None ->
  is_ok (load_key_reader (RData d) scheme algs) = false /\ is_ok (load_key_reader_defaults (RData d)) = false.
Proof.
  intro H. unfold KeyLoad.load_key_reader, KeyLoad.load_key_reader_defaults, decode_and_parse. rewrite H. split; reflexivity.
Qed.

Lemma refused_no_parser d scheme algs :
  a_pkcs8 (d_att d) = None -> a_pkcs1 (d_att d) = None -> a_pkix (d_att d) = None ->
  a_cert (d_att d) = None -> a_sec1 (d_att d) = None ->
  is_ok (load_key_reader (RData d) scheme algs) = false /\ is_ok (load_key_reader_defaults (RData d)) = false.
Proof.
  intros H1 H2 H3 H4 H5.
  unfold KeyLoad.load_key_reader, KeyLoad.load_key_reader_defaults, decode_and_parse, parse_key.
  rewrite H1, H2, H3, H4, H5. destruct (d_block d); split; reflexivity.
Qed.

Lemma refused_unknown_type d b p scheme algs : decode_and_parse d = Ok (b, p) -> p_type p = KUnknown ->
  is_ok (load_key_reader (RData d) scheme algs) = false /\ is_ok (load_key_reader_defaults (RData d)) = false.
Proof.
  intros Hd Ht. unfold KeyLoad.load_key_reader, KeyLoad.load_key_reader_defaults. rewrite Hd. cbn [rbind fst snd].
  rewrite load_parsed_spec. unfold KeyLoadSpec.spec_load, get_default_key_scheme. rewrite Ht. split; reflexivity.
Qed.

Lemma file_is_reader d scheme algs :
  load_key (Some d) scheme algs = load_key_reader (RData d) scheme algs /\
  load_key_defaults (Some d) = load_key_reader_defaults (RData d).
Proof. split; reflexivity. Qed.

(* ---- distinctness ---- *)

Lemma keytype_name_inj t t' : t <> KUnknown -> t' <> KUnknown -> keytype_name t = keytype_name t' -> t = t'.
Proof.
  intros Ht Ht' H. destruct t, t'; try reflexivity; try congruence; vm_compute in H; discriminate.
Qed.

Hypothesis pem_body_inj : forall x y, bytes x -> bytes y -> pem_body x = pem_body y -> x = y.

Lemma pem_text_inj_bytes ty d d' : bytes d -> bytes d' -> pem_text ty d = pem_text ty d' -> d = d'.
Proof.
  intros Hd Hd' H. unfold KeyLoadSpec.pem_text in H.
  do 4 apply app_inv_head in H.
  rewrite !app_assoc in H. do 3 apply app_inv_tail in H. apply pem_body_inj; assumption.
Qed.

Lemma pub_string_inj t pub pub' : bytes pub -> bytes pub' -> pub_string t pub = pub_string t pub' -> pub = pub'.
Proof.
  intros Hb Hb' H. destruct t; cbn [KeyLoadSpec.pub_string] in H;
    first [apply (pem_text_inj_bytes _ _ _ Hb Hb' H) | apply (hex_encode_inj _ _ Hb Hb' H)].
Qed.

Theorem key_desc_inj t s a pub t' s' a' pub' :
  t <> KUnknown -> t' <> KUnknown -> bytes pub -> bytes pub' ->
  key_desc t s a pub = key_desc t' s' a' pub' -> t = t' /\ s = s' /\ a = a' /\ pub = pub'.
Proof.
  intros Ht Ht' Hb Hb' H. unfold KeyLoadSpec.key_desc in H.
  apply key_desc_canon_inj in H. destruct H as [Hk [-> [-> Hp]]].
  apply keytype_name_inj in Hk; [subst t'|assumption|assumption].
  apply pub_string_inj in Hp; [subst pub'|assumption|assumption]. auto.
Qed.

Lemma distinct_keys_distinct_desc p p' b b' s s' a a' k k' :
  load_parsed p b s a = Ok k -> load_parsed p' b' s' a' = Ok k' ->
  bytes (p_pub_der p) -> bytes (p_pub_der p') ->
  (p_type p <> p_type p' \/ p_pub_der p <> p_pub_der p' \/ s <> s' \/ a <> a') ->
  key_desc_of k a <> key_desc_of k' a'.
Proof.
  intros H H' Hb Hb' Hne E.
  destruct (loaded_id_formula _ _ _ _ _ H) as [_ D]. destruct (loaded_id_formula _ _ _ _ _ H') as [_ D'].
  apply load_parsed_ok in H. apply load_parsed_ok in H'. destruct H as [Ht _]. destruct H' as [Ht' _].
  rewrite D, D' in E. apply key_desc_inj in E; try assumption.
  destruct E as [E1 [E2 [E3 E4]]]. tauto.
Qed.

Lemma equal_ids_collision p p' b b' s s' a a' k k' :
  (forall x, bytes (sha256 x)) ->
  load_parsed p b s a = Ok k -> load_parsed p' b' s' a' = Ok k' ->
  bytes (p_pub_der p) -> bytes (p_pub_der p') ->
  (p_type p <> p_type p' \/ p_pub_der p <> p_pub_der p' \/ s <> s' \/ a <> a') ->
  k_keyid k = k_keyid k' ->
  exists x y, x <> y /\ sha256 x = sha256 y.
Proof.
  intros Hsha H H' Hb Hb' Hne Hid.
  pose proof (distinct_keys_distinct_desc _ _ _ _ _ _ _ _ _ _ H H' Hb Hb' Hne) as Hd.
  destruct (loaded_id_formula _ _ _ _ _ H) as [I _]. destruct (loaded_id_formula _ _ _ _ _ H') as [I' _].
  exists (key_desc_of k a), (key_desc_of k' a'). split; [exact Hd|].
  rewrite I, I' in Hid. apply hex_encode_inj in Hid; [exact Hid|apply Hsha|apply Hsha].
Qed.

End Proofs.
