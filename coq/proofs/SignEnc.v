(* SignEnc.v — lemmas about the concrete encoders of model/Sign.v:
   hex and base64 decode what they encode; PAE is injective in the body. *)
From IT Require Import model.Sign.

Ltac Zify.zify_post_hook ::= Z.to_euclidean_division_equations.

Definition is_bytes (s : str) : Prop := Forall (fun b => b < 256) s.

(* three-at-a-time induction *)
Lemma list_ind3 {A} (P : list A -> Prop) :
  P [] -> (forall a, P [a]) -> (forall a b, P [a; b]) ->
  (forall a b c r, P r -> P (a :: b :: c :: r)) -> forall l, P l.
Proof.
  intros H0 H1 H2 H3.
  refine (fix F l := match l with
                     | [] => H0
                     | [a] => H1 a
                     | [a; b] => H2 a b
                     | a :: b :: c :: r => H3 a b c r (F r)
                     end).
Qed.

Lemma below_in_seq (n : nat) (v : N) : v < N.of_nat n -> In v (map N.of_nat (seq 0 n)).
Proof.
  intro H. rewrite <- (N2Nat.id v). apply in_map. apply in_seq. lia.
Qed.

(* ---------- hex ---------- *)

Lemma hex_val_digit d : d < 16 -> hex_val (hex_digit d) = Some d.
Proof.
  intro H.
  assert (E : forallb (fun v => match hex_val (hex_digit v) with Some u => u =? v | None => false end)
                      (map N.of_nat (seq 0 16)) = true) by (vm_compute; reflexivity).
  rewrite forallb_forall in E. specialize (E d (below_in_seq 16 d H)).
  destruct (hex_val (hex_digit d)) as [u|]; [|discriminate]. apply N.eqb_eq in E. congruence.
Qed.

Lemma hex_dec_enc s : is_bytes s -> hex_dec (hex_enc s) = Some s.
Proof.
  induction 1 as [|b r Hb Hr IH]; [reflexivity|].
  cbn [hex_enc hex_dec].
  rewrite !hex_val_digit by lia. rewrite IH. f_equal. f_equal. lia.
Qed.

Lemma hex_enc_length s : length (hex_enc s) = (2 * length s)%nat.
Proof. induction s as [|b r IH]; cbn [hex_enc length]; lia. Qed.

(* ---------- base64 ---------- *)

Definition b64_chr_ok (v : N) : bool :=
  match b64_val false (b64_chr v) with
  | Some u => (u =? v) && negb (b64_chr v =? 61) && negb ((b64_chr v =? 10) || (b64_chr v =? 13))
  | None => false
  end.

Lemma b64_chr_ok_all v : v < 64 -> b64_chr_ok v = true.
Proof.
  intro H.
  assert (E : forallb b64_chr_ok (map N.of_nat (seq 0 64)) = true) by (vm_compute; reflexivity).
  rewrite forallb_forall in E. exact (E v (below_in_seq 64 v H)).
Qed.

Lemma b64_val_chr v : v < 64 -> b64_val false (b64_chr v) = Some v.
Proof.
  intro H. pose proof (b64_chr_ok_all v H) as E. unfold b64_chr_ok in E.
  destruct (b64_val false (b64_chr v)) as [u|]; [|discriminate].
  apply andb_true_iff in E as [E _]. apply andb_true_iff in E as [E _].
  apply N.eqb_eq in E. congruence.
Qed.

Lemma b64_chr_not_pad v : v < 64 -> (b64_chr v =? 61) = false.
Proof.
  intro H. pose proof (b64_chr_ok_all v H) as E. unfold b64_chr_ok in E.
  destruct (b64_val false (b64_chr v)) as [u|]; [|discriminate].
  apply andb_true_iff in E as [E _]. apply andb_true_iff in E as [_ E].
  apply negb_true_iff in E. exact E.
Qed.

Lemma b64_chr_not_nl v : v < 64 -> negb ((b64_chr v =? 10) || (b64_chr v =? 13)) = true.
Proof.
  intro H. pose proof (b64_chr_ok_all v H) as E. unfold b64_chr_ok in E.
  destruct (b64_val false (b64_chr v)) as [u|]; [|discriminate].
  apply andb_true_iff in E as [_ E]. exact E.
Qed.

Lemma b64_b1 a : (a / 4) mod 64 < 64.  Proof. lia. Qed.
Lemma b64_b2 a b : (a mod 4) * 16 + (b / 16) mod 16 < 64.  Proof. lia. Qed.
Lemma b64_b2' a : (a mod 4) * 16 < 64.  Proof. lia. Qed.
Lemma b64_b3 b c : (b mod 16) * 4 + (c / 64) mod 4 < 64.  Proof. lia. Qed.
Lemma b64_b3' b : (b mod 16) * 4 < 64.  Proof. lia. Qed.
Lemma b64_b4 c : c mod 64 < 64.  Proof. lia. Qed.

Lemma b64_e1 a b : a < 256 -> ((a / 4) mod 64) * 4 + ((a mod 4) * 16 + (b / 16) mod 16) / 16 = a.
Proof. intros; lia. Qed.
Lemma b64_e1' a : a < 256 -> ((a / 4) mod 64) * 4 + ((a mod 4) * 16) / 16 = a.
Proof. intros; lia. Qed.
Lemma b64_e2 a b c : b < 256 ->
  (((a mod 4) * 16 + (b / 16) mod 16) mod 16) * 16 + ((b mod 16) * 4 + (c / 64) mod 4) / 4 = b.
Proof. intros; lia. Qed.
Lemma b64_e2' a b : b < 256 ->
  (((a mod 4) * 16 + (b / 16) mod 16) mod 16) * 16 + ((b mod 16) * 4) / 4 = b.
Proof. intros; lia. Qed.
Lemma b64_e3 b c : c < 256 -> (((b mod 16) * 4 + (c / 64) mod 4) mod 4) * 64 + c mod 64 = c.
Proof. intros; lia. Qed.

Lemma b64_enc_no_newline s : strip_newlines (b64_enc s) = b64_enc s.
Proof.
  induction s as [|a|a b|a b c r IH] using list_ind3; unfold strip_newlines in *;
    cbn [b64_enc filter].
  - reflexivity.
  - rewrite (b64_chr_not_nl _ (b64_b1 a)), (b64_chr_not_nl _ (b64_b2' a)). reflexivity.
  - rewrite (b64_chr_not_nl _ (b64_b1 a)), (b64_chr_not_nl _ (b64_b2 a b)),
      (b64_chr_not_nl _ (b64_b3' b)). reflexivity.
  - rewrite (b64_chr_not_nl _ (b64_b1 a)), (b64_chr_not_nl _ (b64_b2 a b)),
      (b64_chr_not_nl _ (b64_b3 b c)), (b64_chr_not_nl _ (b64_b4 c)), IH. reflexivity.
Qed.

Lemma b64_dec_q_enc s : is_bytes s -> b64_dec_q false (b64_enc s) = Some s.
Proof.
  induction s as [|a|a b|a b c r IH] using list_ind3; intro HB.
  - reflexivity.
  - inversion HB as [|? ? Ha _]; subst.
    cbn [b64_enc b64_dec_q].
    rewrite (b64_val_chr _ (b64_b1 a)), (b64_val_chr _ (b64_b2' a)).
    change (61 =? 61) with true. cbn [andb is_nil].
    rewrite b64_e1' by assumption. reflexivity.
  - inversion HB as [|? ? Ha HB']; subst. inversion HB' as [|? ? Hb _]; subst.
    cbn [b64_enc b64_dec_q].
    rewrite (b64_val_chr _ (b64_b1 a)), (b64_val_chr _ (b64_b2 a b)).
    rewrite (b64_chr_not_pad _ (b64_b3' b)), (b64_val_chr _ (b64_b3' b)).
    change (61 =? 61) with true. cbn [is_nil].
    rewrite b64_e1, b64_e2' by assumption. reflexivity.
  - inversion HB as [|? ? Ha HB']; subst. inversion HB' as [|? ? Hb HB'']; subst.
    inversion HB'' as [|? ? Hc Hr]; subst.
    cbn [b64_enc b64_dec_q].
    rewrite (b64_val_chr _ (b64_b1 a)), (b64_val_chr _ (b64_b2 a b)).
    rewrite (b64_chr_not_pad _ (b64_b3 b c)), (b64_val_chr _ (b64_b3 b c)).
    rewrite (b64_chr_not_pad _ (b64_b4 c)), (b64_val_chr _ (b64_b4 c)).
    rewrite (IH Hr).
    rewrite b64_e1, b64_e2, b64_e3 by assumption. reflexivity.
Qed.

Lemma b64_dec_enc s : is_bytes s -> b64_dec (b64_enc s) = Some s.
Proof.
  intro H. unfold b64_dec. rewrite b64_enc_no_newline, (b64_dec_q_enc s H). reflexivity.
Qed.

(* ---------- decimal numbers and PAE ---------- *)

Definition all_digits (s : str) : Prop := Forall (fun c => 48 <= c /\ c <= 57) s.

Lemma dec_fuel_digits fuel : forall n acc, all_digits acc -> all_digits (dec_fuel fuel n acc).
Proof.
  induction fuel as [|f IH]; intros n acc Ha; cbn [dec_fuel]; [assumption|].
  assert (Hd : 48 <= 48 + n mod 10 /\ 48 + n mod 10 <= 57) by lia.
  destruct (n <? 10).
  - constructor; assumption.
  - apply IH. constructor; assumption.
Qed.

Lemma show_nat_digits n : all_digits (show_nat n).
Proof. unfold show_nat, show_N. apply dec_fuel_digits. constructor. Qed.

(* a digit string followed by a space and a body of the announced length
   determines the split: the length of the body is the length of the whole
   minus the digits and the space, and digit strings of different lengths
   would announce bodies whose total lengths differ *)
Lemma digits_space_split d1 d2 r1 r2 :
  all_digits d1 -> all_digits d2 -> d1 ++ 32 :: r1 = d2 ++ 32 :: r2 -> d1 = d2 /\ r1 = r2.
Proof.
  revert d2. induction d1 as [|c d1 IH]; intros d2 H1 H2 E.
  - destruct d2 as [|c2 d2]; cbn in E.
    + inversion E. split; reflexivity.
    + inversion E as [[Ec Er]]. inversion H2 as [|? ? [Hc _] _]; subst. lia.
  - destruct d2 as [|c2 d2]; cbn in E.
    + inversion E as [[Ec Er]]. inversion H1 as [|? ? [Hc _] _]; subst. lia.
    + inversion E as [[Ec Er]]. inversion H1; subst. inversion H2; subst.
      destruct (IH d2 ltac:(assumption) ltac:(assumption) Er) as [-> ->]. split; reflexivity.
Qed.

Lemma pae_injective t1 b1 t2 b2 : length t1 = length t2 -> pae t1 b1 = pae t2 b2 -> t1 = t2 /\ b1 = b2.
Proof.
  unfold pae. intros HL E. apply app_inv_head in E. rewrite HL in E. apply app_inv_head in E.
  cbn [app] in E. inversion E as [E1]. clear E.
  assert (E2 : t1 = t2 /\ 32 :: show_nat (length b1) ++ 32 :: b1 = 32 :: show_nat (length b2) ++ 32 :: b2).
  { clear -HL E1. revert t2 HL E1. induction t1 as [|c t1 IH]; intros [|c2 t2] HL E1; try discriminate.
    - split; [reflexivity | exact E1].
    - cbn in E1. inversion E1 as [[Ec Er]]. cbn in HL. injection HL as HL.
      destruct (IH t2 HL Er) as [-> Er']. split; [reflexivity | exact Er']. }
  destruct E2 as [-> E2]. inversion E2 as [E3].
  destruct (digits_space_split _ _ _ _ (show_nat_digits _) (show_nat_digits _) E3) as [_ ->].
  split; reflexivity.
Qed.

(* the in-toto payload type spelled out (c_PayloadType is regenerated from the Go source) *)
Lemma pae_in_toto b :
  pae c_PayloadType b = bs "DSSEv1 28 application/vnd.in-toto+json " ++ show_nat (length b) ++ [32] ++ b.
Proof. reflexivity. Qed.
