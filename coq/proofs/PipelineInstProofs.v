(* PipelineInstProofs.v — facts about the pipeline instantiated with model/Threshold.v:
   the fuel of [verify] is not observable once it exceeds the depth of the link directory tree. *)
From IT Require Import model.PipelineInst proofs.PipelineProofs proofs.SubstProofs.

Lemma load_steps_nil_values steps acc r :
  (forall n m, In (n, m) acc -> m = []) ->
  load_steps steps [] acc = Ok r -> forall n m, In (n, m) r -> m = [].
Proof.
  revert acc. induction steps as [|st rest IH]; intros acc Hacc; simpl.
  - intro H; inversion H; subst. exact Hacc.
  - unfold load_links. change (load_name (s_name st) []) with (@nil (str * env)).
    destruct (zlen (@nil (str * env)) <? s_threshold st)%Z; [discriminate|].
    apply IH. intros n m Hin.
    clear - Hacc Hin. induction acc as [|[k v] a IHa]; simpl in Hin.
    + destruct Hin as [Heq|[]]. inversion Heq; reflexivity.
    + destruct (str_eqb (s_name st) k).
      * destruct Hin as [Heq|Hin]; [inversion Heq; reflexivity | apply (Hacc n m); right; exact Hin].
      * destruct Hin as [Heq|Hin]; [apply (Hacc n m); left; exact Heq|].
        apply IHa; [intros n' m' H'; apply (Hacc n' m'); right; exact H' | exact Hin].
Qed.

Lemma step_links_nil (sm : amap (amap env)) name : (forall n m, In (n, m) sm -> m = []) -> step_links sm name = [].
Proof.
  intro H. unfold step_links. destruct (alookup sm name) as [m|] eqn:E; [|reflexivity].
  apply alookup_some_in in E. apply (H name m E).
Qed.

Theorem inst_empty_dir_no_layouts vsig get_cert cc_ok :
  empty_dir_no_layouts load_all (fun l (_ : list str) sm => verify_thresholds vsig get_cert cc_ok l sm).
Proof.
  intros l inter loaded verified Hl Ht. unfold load_all in Hl.
  pose proof (load_steps_nil_values _ _ _ (fun n m (H : In (n, m) []) => match H with end) Hl) as Hnil.
  unfold verify_thresholds in Ht. destruct (l_steps l) as [|st rest].
  - simpl in Ht. inversion Ht; subst. intros s links k e [].
  - simpl in Ht. rewrite (step_links_nil loaded (s_name st) Hnil) in Ht.
    unfold verify_step_thresholds in Ht. change (verified_links vsig get_cert cc_ok l st []) with (@nil (str * env)) in Ht.
    change (zlen (@nil (str * env)) <? 1)%Z with true in Ht. rewrite orb_true_r in Ht. discriminate.
Qed.

(* for the pipeline with all component models plugged in: every fuel above the depth of the link
   directory tree gives the same result, trace and world - the bound on the recursion is not observable *)
Theorem verify_inst_fuel_stable now truths tc tcc pems cmds f1 f2 d :
  (ld_depth d < f1)%nat -> (ld_depth d < f2)%nat ->
  forall w path layout_env keys step_name params inter,
    verify_inst now truths tc tcc pems cmds f1 w path d layout_env keys step_name params inter =
    verify_inst now truths tc tcc pems cmds f2 w path d layout_env keys step_name params inter.
Proof.
  intros H1 H2 w path layout_env keys step_name params inter. unfold verify_inst.
  apply verify_fuel_stable; [|exact H1|exact H2]. apply inst_empty_dir_no_layouts.
Qed.
