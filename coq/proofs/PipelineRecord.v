(* PipelineRecord.v — the inspection stage of the pipeline instantiated with the model of
   InTotoRun / RecordArtifacts over directory trees (model/Record.v, property C13):
   RunInspections calls InTotoRun(name, runDir, [dir], [dir], run, Key{}, ["sha256"], nil, nil,
   lineNormalization, false, useDSSE) and then dumps <name>.link into the current directory. *)
From IT Require Import model.Pipeline model.Record proofs.PipelineProofs proofs.RecordTop.

Section PR.
  Variable ignored : list str -> str -> bool.
  Variable H : str -> str -> str.
  Variable perm : artifacts -> artifacts.
  Variable cmd_sem : list str -> node -> option (node * list (str * jv)).
  Variable dump_link : node -> str -> link -> node.   (* the tree after <name>.link was written into the current directory *)
  Variable dir : str.                                  (* "." or the explicit run directory *)
  Variable norm : bool.                                (* lineNormalization *)

  Definition sha256_only : list str := [bs "sha256"].

  (* the tree the inspection command leaves behind *)
  Definition after_cmd (w : node) (cmd : list str) : node :=
    if is_nil cmd then w else match cmd_sem cmd w with Some r => fst r | None => w end.

  Definition run_insp_record (dsse : bool) (w : node) (i : inspection) : res (link * node) :=
    match in_toto_run ignored H perm cmd_sem w (i_name i) [dir] [dir] (i_run i) sha256_only [] [] norm false with
    | Ok l => Ok (l, dump_link (after_cmd w (i_run i)) (i_name i) l)
    | Err c => Err c
    | Panic p => Panic p
    end.

  (* every inspection link holds the record of the directory as it was before its command and as it
     was after it: exactly the files present, with sha256 digests (C13_record_spec says what a record is) *)
  Theorem run_insp_record_snapshots dsse w i l w' :
    run_insp_record dsse w i = Ok (l, w') ->
    record_artifacts ignored H perm w sha256_only [] norm false [dir] [] = Ok (ln_materials l) /\
    record_artifacts ignored H perm (after_cmd w (i_run i)) sha256_only [] norm false [dir] [] = Ok (ln_products l) /\
    ln_name l = i_name i /\ ln_command l = i_run i /\
    w' = dump_link (after_cmd w (i_run i)) (i_name i) l /\
    (i_run i <> [] -> exists bp, cmd_sem (i_run i) w = Some (after_cmd w (i_run i), bp) /\ ln_byproducts l = bp).
  Proof.
    unfold run_insp_record.
    destruct (in_toto_run ignored H perm cmd_sem w (i_name i) [dir] [dir] (i_run i) sha256_only [] [] norm false) as [l0|c|p] eqn:E;
      try discriminate.
    intro Heq; inversion Heq; subst; clear Heq.
    apply run_snapshots in E as [root' [bp [Hcmd [Hm [Hp [Hb [Hc Hn]]]]]]].
    unfold after_cmd. destruct (is_nil (i_run i)) eqn:Hnil.
    - inversion Hcmd; subst. repeat split; auto. intro Hne. destruct (i_run i); [congruence | discriminate].
    - rewrite Hcmd. simpl. repeat split; auto. intros _. exists bp. split; [reflexivity | exact Hb].
  Qed.

  (* along a successful run of all inspections: each one recorded the directory left by its predecessor *)
  Theorem insp_run_record_snapshots retval_zero dsse w insps acc w' imeta :
    insp_run node run_insp_record retval_zero dsse w insps acc w' imeta ->
    Forall (fun i => exists wi l,
              record_artifacts ignored H perm wi sha256_only [] norm false [dir] [] = Ok (ln_materials l) /\
              record_artifacts ignored H perm (after_cmd wi (i_run i)) sha256_only [] norm false [dir] [] = Ok (ln_products l) /\
              retval_zero l = true /\ ln_name l = i_name i) insps.
  Proof.
    induction 1 as [w0 acc0|w0 i r acc0 l w1 wf accf Hrun Hz Hrest IH]; [constructor|].
    constructor; [|exact IH].
    apply run_insp_record_snapshots in Hrun as [Hm [Hp [Hn _]]]. exists w0, l. auto.
  Qed.
End PR.
