(* LoaderSchemaTie.v — the literal field schema of model/Loader.v is what the
   translator regenerates from the Go struct declarations (gen/Schema.v). *)
From IT Require Import model.Loader model.LoaderSchema spec.LoaderSpec.

Lemma schema_tie :
  schema_shape "Link" = Some sh_link /\
  schema_shape "Layout" = Some sh_layout /\
  schema_shape "Signature" = Some sh_sig /\
  schema_shape "dsse.Envelope" = Some sh_envelope /\
  schema_shape "dsse.Signature" = Some sh_dsig /\
  schema_shape "Metablock" = Some (SStruct [fld "signed" false SAny; fld "signatures" false (SSlice sh_sig)]).
Proof. vm_compute. repeat split; reflexivity. Qed.

(* field names are pairwise different at every struct level (also after case folding) *)
Fixpoint fold_okb (sh : shape) : bool :=
  match sh with
  | SStr | SInt | SAny => true
  | SSlice e | SMap e => fold_okb e
  | SStruct fs =>
      nodupb (map (fun f => fold_name (f_name f)) fs) &&
      (fix go (fs : list (str * bool * shape)) : bool :=
         match fs with [] => true | (_, _, s) :: fs' => fold_okb s && go fs' end) fs
  end.

Lemma schema_names_ok :
  forallb (fun s => shape_okb s && fold_okb s) [sh_link; sh_layout; sh_sig; sh_envelope; sh_dsig] = true.
Proof. vm_compute. reflexivity. Qed.
