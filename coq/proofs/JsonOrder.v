(* JsonOrder.v — byte order on strings is a strict total order; insertion sort of
   pair lists by key; last-wins deduplication.  Lemmas for C11. *)
From IT Require Import model.Json.
From Coq Require Import Sorting.Sorted.

(* ---------- str_ltb is a strict total order ---------- *)

Lemma str_ltb_irrefl a : str_ltb a a = false.
Proof.
  induction a as [|x a IH]; simpl; [reflexivity|].
  rewrite N.ltb_irrefl, N.eqb_refl. exact IH.
Qed.

Lemma str_ltb_trans a : forall b c, str_ltb a b = true -> str_ltb b c = true -> str_ltb a c = true.
Proof.
  induction a as [|x a IH]; intros [|y b] [|z c] Hab Hbc; simpl in *; try discriminate; try reflexivity.
  destruct (N.ltb_spec x y) as [Hxy|Hxy].
  - destruct (N.ltb_spec y z) as [Hyz|Hyz].
    + destruct (N.ltb_spec x z); [reflexivity | lia].
    + destruct (N.eqb_spec y z) as [->|Hne]; [|discriminate].
      destruct (N.ltb_spec x z); [reflexivity | lia].
  - destruct (N.eqb_spec x y) as [->|Hne]; [|discriminate].
    destruct (N.ltb_spec y z) as [Hyz|Hyz]; [reflexivity|].
    destruct (N.eqb_spec y z) as [->|Hne]; [|discriminate].
    eapply IH; eassumption.
Qed.

Lemma str_ltb_tricho a : forall b, str_ltb a b = false -> str_ltb b a = false -> a = b.
Proof.
  induction a as [|x a IH]; intros [|y b] Hab Hba; simpl in *; try discriminate; try reflexivity.
  destruct (N.ltb_spec x y) as [Hxy|Hxy]; [discriminate|].
  destruct (N.ltb_spec y x) as [Hyx|Hyx]; [discriminate|].
  assert (x = y) by lia. subst y. rewrite N.eqb_refl in *.
  f_equal. apply IH; assumption.
Qed.

Lemma str_ltb_asym a b : str_ltb a b = true -> str_ltb b a = false.
Proof.
  intro H. destruct (str_ltb b a) eqn:E; [|reflexivity].
  pose proof (str_ltb_trans _ _ _ H E) as C. rewrite str_ltb_irrefl in C. discriminate.
Qed.

Lemma str_leb_false_lt a b : str_leb a b = false -> str_ltb b a = true.
Proof. unfold str_leb. destruct (str_ltb b a); simpl; congruence. Qed.

Lemma str_leb_true_neq_lt a b : str_leb a b = true -> a <> b -> str_ltb a b = true.
Proof.
  unfold str_leb. intros H Hne. destruct (str_ltb b a) eqn:E; [discriminate|].
  destruct (str_ltb a b) eqn:E2; [reflexivity|]. exfalso. apply Hne. apply str_ltb_tricho; assumption.
Qed.

Lemma str_ltb_leb a b : str_ltb a b = true -> str_leb a b = true.
Proof. intro H. unfold str_leb. rewrite (str_ltb_asym _ _ H). reflexivity. Qed.

(* ---------- sorted pair lists ---------- *)

Definition klt {A} (x y : str * A) : Prop := str_ltb (fst x) (fst y) = true.
Definition ksorted {A} (l : list (str * A)) : Prop := StronglySorted klt l.

Lemma klt_trans {A} (x y z : str * A) : klt x y -> klt y z -> klt x z.
Proof. unfold klt. apply str_ltb_trans. Qed.

Lemma pinsert_perm {A} (x : str * A) l : Permutation (x :: l) (pinsert x l).
Proof.
  induction l as [|y l IH]; simpl; [apply Permutation_refl|].
  destruct (str_leb (fst x) (fst y)); [apply Permutation_refl|].
  eapply Permutation_trans; [apply perm_swap|]. apply perm_skip. exact IH.
Qed.

Lemma sort_pairs_perm {A} (l : list (str * A)) : Permutation l (sort_pairs l).
Proof.
  induction l as [|x l IH]; simpl; [constructor|].
  eapply Permutation_trans; [apply perm_skip; exact IH|]. apply pinsert_perm.
Qed.

Lemma pinsert_sorted {A} (x : str * A) l :
  ksorted l -> ~ In (fst x) (map fst l) -> ksorted (pinsert x l).
Proof.
  induction l as [|y l IH]; intros Hs Hn; simpl.
  - constructor; constructor.
  - inversion Hs as [|? ? Hs' Hall]; subst.
    destruct (str_leb (fst x) (fst y)) eqn:E.
    + assert (Hxy : klt x y).
      { apply str_leb_true_neq_lt; [exact E|]. intro Heq. apply Hn. simpl. left. symmetry. exact Heq. }
      constructor; [exact Hs|]. constructor; [exact Hxy|].
      eapply Forall_impl; [|exact Hall]. intros z Hz. eapply klt_trans; eassumption.
    + constructor.
      * apply IH; [exact Hs'|]. intro Hin. apply Hn. simpl. right. exact Hin.
      * assert (Hyx : klt y x) by (apply str_leb_false_lt; exact E).
        assert (Hp : Permutation (x :: l) (pinsert x l)) by apply pinsert_perm.
        eapply Permutation_Forall; [exact Hp|]. constructor; assumption.
Qed.

Lemma sort_pairs_sorted {A} (l : list (str * A)) : NoDup (map fst l) -> ksorted (sort_pairs l).
Proof.
  induction l as [|x l IH]; intro Hnd; simpl; [constructor|].
  inversion Hnd as [|? ? Hx Hnd']; subst.
  apply pinsert_sorted; [apply IH; exact Hnd'|].
  intro Hin. apply Hx.
  eapply Permutation_in; [|exact Hin]. apply Permutation_map. apply Permutation_sym. apply sort_pairs_perm.
Qed.

Lemma ksorted_perm_eq {A} (l1 : list (str * A)) : forall l2,
  ksorted l1 -> ksorted l2 -> Permutation l1 l2 -> l1 = l2.
Proof.
  induction l1 as [|x l1 IH]; intros l2 H1 H2 Hp.
  - apply Permutation_nil in Hp. subst. reflexivity.
  - destruct l2 as [|y l2]; [apply Permutation_sym in Hp; apply Permutation_nil in Hp; discriminate|].
    inversion H1 as [|? ? H1' A1]; subst. inversion H2 as [|? ? H2' A2]; subst.
    assert (Hxy : x = y).
    { assert (Hx : In x (y :: l2)) by (eapply Permutation_in; [exact Hp | left; reflexivity]).
      assert (Hy : In y (x :: l1)) by (eapply Permutation_in; [apply Permutation_sym; exact Hp | left; reflexivity]).
      destruct Hx as [Hx|Hx]; [symmetry; exact Hx|].
      destruct Hy as [Hy|Hy]; [exact Hy|].
      rewrite Forall_forall in A1, A2.
      pose proof (A1 _ Hy) as L1. pose proof (A2 _ Hx) as L2. unfold klt in L1, L2.
      rewrite (str_ltb_asym _ _ L1) in L2. discriminate. }
    subst y. f_equal. apply IH; [assumption | assumption |]. eapply Permutation_cons_inv; exact Hp.
Qed.

Lemma ksorted_nodup {A} (l : list (str * A)) : ksorted l -> NoDup (map fst l).
Proof.
  induction l as [|x l IH]; intro H; simpl; [constructor|].
  inversion H as [|? ? H' Hall]; subst. constructor; [|apply IH; exact H'].
  intro Hin. apply in_map_iff in Hin as [y [Hy Hin]].
  rewrite Forall_forall in Hall. pose proof (Hall _ Hin) as L. unfold klt in L.
  rewrite Hy, str_ltb_irrefl in L. discriminate.
Qed.

(* sorting a sorted list changes nothing *)
Lemma sort_pairs_id {A} (l : list (str * A)) : ksorted l -> sort_pairs l = l.
Proof.
  intro H. symmetry. apply ksorted_perm_eq; [exact H | | apply sort_pairs_perm].
  apply sort_pairs_sorted. apply ksorted_nodup. exact H.
Qed.

(* the heart of permutation invariance *)
Lemma sort_pairs_perm_eq {A} (l1 l2 : list (str * A)) :
  NoDup (map fst l1) -> Permutation l1 l2 -> sort_pairs l1 = sort_pairs l2.
Proof.
  intros Hnd Hp.
  assert (Hnd2 : NoDup (map fst l2)) by (eapply Permutation_NoDup; [apply Permutation_map; exact Hp | exact Hnd]).
  apply ksorted_perm_eq; try (apply sort_pairs_sorted; assumption).
  eapply Permutation_trans; [apply Permutation_sym; apply sort_pairs_perm|].
  eapply Permutation_trans; [exact Hp|]. apply sort_pairs_perm.
Qed.

(* ---------- dedup_last ---------- *)

Lemma dedup_last_keys_incl {A} (m : list (str * A)) k : In k (map fst (dedup_last m)) -> In k (map fst m).
Proof.
  induction m as [|[k' v] m IH]; simpl; [tauto|].
  destruct (mem k' (map fst m)); simpl; intro H; [right; apply IH; exact H|].
  destruct H as [H|H]; [left; exact H | right; apply IH; exact H].
Qed.

Lemma dedup_last_nodup {A} (m : list (str * A)) : NoDup (map fst (dedup_last m)).
Proof.
  induction m as [|[k v] m IH]; simpl; [constructor|].
  destruct (mem k (map fst m)) eqn:E; [exact IH|].
  simpl. constructor; [|exact IH].
  intro Hin. apply dedup_last_keys_incl in Hin. apply mem_In in Hin. congruence.
Qed.

Lemma dedup_last_id {A} (m : list (str * A)) : NoDup (map fst m) -> dedup_last m = m.
Proof.
  induction m as [|[k v] m IH]; intro H; simpl; [reflexivity|].
  inversion H as [|? ? Hk H']; subst.
  destruct (mem k (map fst m)) eqn:E; [apply mem_In in E; contradiction|].
  f_equal. apply IH. exact H'.
Qed.

Lemma dedup_last_incl {A} (m : list (str * A)) x : In x (dedup_last m) -> In x m.
Proof.
  induction m as [|[k v] m IH]; simpl; [tauto|].
  destruct (mem k (map fst m)); simpl; intro H; [right; apply IH; exact H|].
  destruct H as [H|H]; [left; exact H | right; apply IH; exact H].
Qed.

Lemma norm_pairs_sorted {A} (m : list (str * A)) : ksorted (norm_pairs m).
Proof. unfold norm_pairs. apply sort_pairs_sorted. apply dedup_last_nodup. Qed.

Lemma norm_pairs_incl {A} (m : list (str * A)) x : In x (norm_pairs m) -> In x m.
Proof.
  unfold norm_pairs. intro H. apply dedup_last_incl.
  eapply Permutation_in; [apply Permutation_sym; apply sort_pairs_perm | exact H].
Qed.

Lemma norm_pairs_id {A} (m : list (str * A)) : ksorted m -> norm_pairs m = m.
Proof.
  intro H. unfold norm_pairs. rewrite dedup_last_id by (apply ksorted_nodup; exact H).
  apply sort_pairs_id. exact H.
Qed.

Lemma norm_pairs_perm_eq {A} (l1 l2 : list (str * A)) :
  NoDup (map fst l1) -> Permutation l1 l2 -> norm_pairs l1 = norm_pairs l2.
Proof.
  intros Hnd Hp. unfold norm_pairs.
  assert (Hnd2 : NoDup (map fst l2)) by (eapply Permutation_NoDup; [apply Permutation_map; exact Hp | exact Hnd]).
  rewrite !dedup_last_id by assumption. apply sort_pairs_perm_eq; assumption.
Qed.

(* mapping over the values commutes with everything that looks at keys only *)
Definition map_snd {A B} (f : A -> B) (l : list (str * A)) : list (str * B) :=
  map (fun kx => (fst kx, f (snd kx))) l.

Lemma map_snd_keys {A B} (f : A -> B) l : map fst (map_snd f l) = map fst l.
Proof. unfold map_snd. rewrite map_map. reflexivity. Qed.

Lemma dedup_last_map_snd {A B} (f : A -> B) l : dedup_last (map_snd f l) = map_snd f (dedup_last l).
Proof.
  induction l as [|[k v] l IH]; simpl; [reflexivity|].
  fold (map_snd f l). rewrite map_snd_keys.
  destruct (mem k (map fst l)); [exact IH|]. simpl. f_equal. exact IH.
Qed.

Lemma pinsert_map_snd {A B} (f : A -> B) x l :
  pinsert (fst x, f (snd x)) (map_snd f l) = map_snd f (pinsert x l).
Proof.
  induction l as [|y l IH]; simpl; [reflexivity|].
  destruct (str_leb (fst x) (fst y)); simpl; [reflexivity|]. f_equal. exact IH.
Qed.

Lemma sort_pairs_map_snd {A B} (f : A -> B) l : sort_pairs (map_snd f l) = map_snd f (sort_pairs l).
Proof.
  induction l as [|x l IH]; simpl; [reflexivity|].
  fold (map_snd f l). rewrite IH. apply pinsert_map_snd.
Qed.

Lemma norm_pairs_map_snd {A B} (f : A -> B) l : norm_pairs (map_snd f l) = map_snd f (norm_pairs l).
Proof. unfold norm_pairs. rewrite dedup_last_map_snd. apply sort_pairs_map_snd. Qed.
