(* JsonNum.v — decimal rendering of integers (Show.show_Z) and the JSON number
   scanner: a rendered integer scans back to itself and denotes the same value. *)
From IT Require Import model.Json.

Lemma dec_val_app ds d : dec_val (ds ++ [d]) = dec_val ds * 10 + (d - 48).
Proof. unfold dec_val. rewrite fold_left_app. reflexivity. Qed.

Lemma all_digits_app a b : all_digits (a ++ b) = all_digits a && all_digits b.
Proof. unfold all_digits. apply forallb_app. Qed.

Lemma digit_ok m : m < 10 -> is_digit (48 + m) = true.
Proof. intro H. unfold is_digit. apply andb_true_iff. split; apply N.leb_le; lia. Qed.

Lemma all_digits_one m : m < 10 -> all_digits [48 + m] = true.
Proof. intro H. unfold all_digits. cbn [forallb]. rewrite (digit_ok _ H). reflexivity. Qed.

(* canonical digit strings: non-empty, digits only, no leading zero except "0" *)
Definition canon_digits (ds : str) : Prop :=
  all_digits ds = true /\ ds <> [] /\ (hd 0 ds = 48 -> ds = [48]).

Lemma dec_fuel_S f n acc :
  dec_fuel (S f) n acc = if n <? 10 then (48 + n mod 10) :: acc else dec_fuel f (n / 10) ((48 + n mod 10) :: acc).
Proof. reflexivity. Qed.

Lemma dec_fuel_spec : forall f n acc, n < 2 ^ N.of_nat (S f) ->
  exists ds, dec_fuel (S f) n acc = ds ++ acc /\ canon_digits ds /\ dec_val ds = n.
Proof.
  induction f as [|f IH]; intros n acc Hn.
  - (* n < 2 *)
    assert (Hn' : n < 2) by (change (2 ^ N.of_nat 1) with 2 in Hn; exact Hn).
    rewrite dec_fuel_S. assert (E : (n <? 10) = true) by (apply N.ltb_lt; lia). rewrite E.
    exists [48 + n mod 10]. split; [reflexivity|].
    assert (Hm : n mod 10 = n) by (apply N.mod_small; lia). rewrite Hm.
    split; [|unfold dec_val; cbn [fold_left]; lia].
    split; [|split; [discriminate|]].
    + apply all_digits_one. lia.
    + cbn [hd]. intro H. f_equal. exact H.
  - rewrite dec_fuel_S. destruct (N.ltb_spec n 10) as [Hlt|Hge].
    + exists [48 + n mod 10]. split; [reflexivity|].
      assert (Hm : n mod 10 = n) by (apply N.mod_small; lia). rewrite Hm.
      split; [|unfold dec_val; cbn [fold_left]; lia].
      split; [|split; [discriminate|]].
      * apply all_digits_one. lia.
      * cbn [hd]. intro H. f_equal. exact H.
    + assert (Hdiv : n / 10 < 2 ^ N.of_nat (S f)).
      { apply N.div_lt_upper_bound; [lia|].
        replace (N.of_nat (S (S f))) with (N.succ (N.of_nat (S f))) in Hn by lia.
        rewrite N.pow_succ_r' in Hn. lia. }
      destruct (IH (n / 10) ((48 + n mod 10) :: acc) Hdiv) as [ds [E [[Hd [Hne Hhd]] Hv]]].
      exists (ds ++ [48 + n mod 10]). split; [rewrite E, <- app_assoc; reflexivity|].
      assert (Hmod : n mod 10 < 10) by (apply N.mod_lt; lia).
      split; [split; [|split]|].
      * rewrite all_digits_app, Hd. rewrite (all_digits_one _ Hmod). reflexivity.
      * intro C. apply app_eq_nil in C as [_ C]. discriminate.
      * intro H. exfalso. destruct ds as [|d ds']; [congruence|]. simpl in H.
        assert (Eds : d :: ds' = [48]) by (apply Hhd; exact H).
        rewrite Eds in Hv. unfold dec_val in Hv. simpl in Hv.
        assert (n / 10 > 0).
        { assert (10 * 1 <= n) by lia. pose proof (N.div_le_lower_bound n 10 1). lia. }
        lia.
      * rewrite dec_val_app, Hv.
        pose proof (N.div_mod' n 10) as Hdm. remember (n mod 10) as m. remember (n / 10) as q. lia.
Qed.

Lemma show_N_spec n : exists ds, show_N n = ds /\ canon_digits ds /\ dec_val ds = n.
Proof.
  unfold show_N.
  destruct (dec_fuel_spec (N.to_nat (N.log2 n)) n []) as [ds [E [Hc Hv]]].
  - rewrite Nat2N.inj_succ, N2Nat.id.
    destruct n as [|p]; [simpl; lia|]. apply N.log2_spec. lia.
  - exists ds. rewrite E, app_nil_r. auto.
Qed.

(* first character of a digit string *)
Lemma canon_digits_hd ds : canon_digits ds -> exists d r, ds = d :: r /\ is_digit d = true.
Proof.
  intros [Hd [Hne _]]. destruct ds as [|d r]; [congruence|].
  exists d, r. split; [reflexivity|]. unfold all_digits in Hd. simpl in Hd.
  apply andb_true_iff in Hd. tauto.
Qed.

Lemma is_digit_range d : is_digit d = true -> 48 <= d <= 57.
Proof. unfold is_digit. intro H. apply andb_true_iff in H as [A B]. apply N.leb_le in A, B. lia. Qed.

Lemma span_digits_all ds : all_digits ds = true -> span_digits ds = (ds, []).
Proof.
  induction ds as [|d ds IH]; simpl; intro H; [reflexivity|].
  unfold all_digits in H. simpl in H. apply andb_true_iff in H as [Hd Hr].
  rewrite Hd. fold (all_digits ds) in Hr. rewrite (IH Hr). reflexivity.
Qed.

(* a rendered non-negative integer, optionally signed, is an integer-form literal
   that the scanner reads completely *)
Lemma canon_digits_int_form ds : canon_digits ds -> int_form ds = true /\ int_form (45 :: ds) = true.
Proof.
  intros Hc. destruct (canon_digits_hd _ Hc) as [d [r [E Hd]]]. destruct Hc as [Ha [_ Hhd]]. subst ds.
  pose proof (is_digit_range _ Hd) as Hr.
  assert (F : (d =? 45) = false) by (apply N.eqb_neq; lia).
  assert (G : negb (d =? 48) || is_nil r = true).
  { destruct (N.eqb_spec d 48) as [->|Hne]; simpl; [|reflexivity].
    assert (E : 48 :: r = [48]) by (apply Hhd; reflexivity). inversion E. reflexivity. }
  split.
  - unfold int_form. rewrite F, Ha, G. reflexivity.
  - unfold int_form. change (45 =? 45) with true. cbv iota. rewrite Ha, G. reflexivity.
Qed.

Lemma canon_digits_scan ds : canon_digits ds ->
  scan_number ds = Some (ds, []) /\ scan_number (45 :: ds) = Some (45 :: ds, []).
Proof.
  intros Hc. destruct (canon_digits_hd _ Hc) as [d [r [E Hd]]]. destruct Hc as [Ha [_ Hhd]]. subst ds.
  pose proof (is_digit_range _ Hd) as Hr.
  assert (F : (d =? 45) = false) by (apply N.eqb_neq; lia).
  assert (G : (d =? 48) && negb (is_nil r) = false).
  { destruct (N.eqb_spec d 48) as [->|Hne]; simpl; [|reflexivity].
    assert (E : 48 :: r = [48]) by (apply Hhd; reflexivity). inversion E. reflexivity. }
  split.
  - unfold scan_number, scan_sign. rewrite F.
    rewrite (span_digits_all _ Ha). rewrite G. unfold scan_frac, scan_exp. rewrite !app_nil_r. reflexivity.
  - unfold scan_number, scan_sign. change (45 =? 45) with true. cbv iota.
    rewrite (span_digits_all _ Ha). rewrite G. unfold scan_frac, scan_exp. rewrite !app_nil_r. reflexivity.
Qed.

Lemma show_Z_cases z :
  (exists ds, show_Z z = ds /\ canon_digits ds /\ z = Z.of_N (dec_val ds)) \/
  (exists ds, show_Z z = 45 :: ds /\ canon_digits ds /\ z = Z.opp (Z.of_N (dec_val ds)) /\ dec_val ds <> 0).
Proof.
  destruct z as [|p|p]; simpl.
  - left. exists [48]. split; [reflexivity|]. split; [|reflexivity].
    split; [reflexivity|]. split; [discriminate|]. auto.
  - left. destruct (show_N_spec (Npos p)) as [ds [E [Hc Hv]]]. exists ds. rewrite Hv. auto.
  - right. destruct (show_N_spec (Npos p)) as [ds [E [Hc Hv]]]. exists ds. rewrite Hv.
    split; [f_equal; exact E|]. split; [exact Hc|]. split; [reflexivity | discriminate].
Qed.

Lemma show_Z_int_form z : int_form (show_Z z) = true.
Proof.
  destruct (show_Z_cases z) as [[ds [E [Hc _]]]|[ds [E [Hc _]]]]; rewrite E;
    [apply (proj1 (canon_digits_int_form _ Hc)) | apply (proj2 (canon_digits_int_form _ Hc))].
Qed.

Lemma show_Z_scan z : scan_number (show_Z z) = Some (show_Z z, []).
Proof.
  destruct (show_Z_cases z) as [[ds [E [Hc _]]]|[ds [E [Hc _]]]]; rewrite E;
    [apply (proj1 (canon_digits_scan _ Hc)) | apply (proj2 (canon_digits_scan _ Hc))].
Qed.

Lemma show_Z_not_minus_zero z : str_eqb (show_Z z) minus_zero = false.
Proof.
  apply str_eqb_neq. destruct (show_Z_cases z) as [[ds [E [Hc _]]]|[ds [E [Hc [_ Hnz]]]]]; rewrite E; clear E.
  - destruct (canon_digits_hd _ Hc) as [d [r [E2 Hd]]]. subst ds.
    pose proof (is_digit_range _ Hd) as Hr. unfold minus_zero. intro C. injection C as C1 C2. rewrite C1 in Hr. lia.
  - unfold minus_zero. intro C. inversion C. subst ds. apply Hnz. reflexivity.
Qed.

Lemma show_Z_value z : z_of_int_form (show_Z z) = z.
Proof.
  destruct (show_Z_cases z) as [[ds [E [Hc Hv]]]|[ds [E [Hc [Hv _]]]]]; rewrite E; clear E.
  - destruct (canon_digits_hd _ Hc) as [d [r [E2 Hd]]]. subst ds.
    pose proof (is_digit_range _ Hd).
    unfold z_of_int_form. assert (F : (d =? 45) = false) by (apply N.eqb_neq; lia). rewrite F. symmetry. exact Hv.
  - unfold z_of_int_form. rewrite N.eqb_refl. symmetry. exact Hv.
Qed.

Lemma num_of_lit_show_Z z : num_of_lit (show_Z z) = JNum z.
Proof.
  unfold num_of_lit. rewrite show_Z_int_form, show_Z_not_minus_zero. simpl. rewrite show_Z_value. reflexivity.
Qed.

Lemma show_Z_first z : exists c r, show_Z z = c :: r /\ ((c =? 45) || is_digit c = true).
Proof.
  destruct (show_Z_cases z) as [[ds [E [Hc _]]]|[ds [E [Hc _]]]]; rewrite E; clear E.
  - destruct (canon_digits_hd _ Hc) as [d [r [E2 Hd]]]. subst ds. exists d, r. rewrite Hd, orb_true_r. auto.
  - exists 45, ds. auto.
Qed.

Lemma show_Z_inj z1 z2 : show_Z z1 = show_Z z2 -> z1 = z2.
Proof. intro H. rewrite <- (show_Z_value z1), <- (show_Z_value z2), H. reflexivity. Qed.

(* ---------- the scanner stops at a value terminator ---------- *)

(* what may follow a value inside a document: nothing, or "," "]" "}" *)
Definition term_ok (rest : str) : Prop :=
  match rest with [] => True | c :: _ => c = 44 \/ c = 93 \/ c = 125 end.

Lemma span_digits_app s rest : term_ok rest ->
  span_digits (s ++ rest) = (fst (span_digits s), snd (span_digits s) ++ rest).
Proof.
  intro Ht. induction s as [|c s IH]; simpl.
  - destruct rest as [|c r]; [reflexivity|]. simpl in Ht.
    assert (E : is_digit c = false).
    { unfold is_digit. destruct Ht as [->|[->| ->]]; reflexivity. }
    simpl. rewrite E. reflexivity.
  - destruct (is_digit c); [|reflexivity]. rewrite IH. destruct (span_digits s). reflexivity.
Qed.

Lemma term_ok_head rest c r : term_ok rest -> rest = c :: r ->
  (c =? 46) = false /\ (c =? 101) = false /\ (c =? 69) = false /\ is_digit c = false /\ (c =? 45) = false.
Proof. intros Ht ->. simpl in Ht. destruct Ht as [->|[->| ->]]; repeat split; reflexivity. Qed.

Lemma scan_frac_app s fr s3 rest : term_ok rest ->
  scan_frac s = Some (fr, s3) -> scan_frac (s ++ rest) = Some (fr, s3 ++ rest).
Proof.
  intros Ht H. destruct s as [|c r]; simpl in *.
  - inversion H; subst. destruct rest as [|c r]; [reflexivity|].
    destruct (term_ok_head _ c r Ht eq_refl) as [E _]. simpl. rewrite E. reflexivity.
  - destruct (c =? 46).
    + rewrite (span_digits_app r rest Ht). destruct (span_digits r) as [fd s3'] eqn:E. simpl.
      destruct (is_nil fd); [discriminate|]. inversion H; subst. reflexivity.
    + inversion H; subst. reflexivity.
Qed.

Lemma scan_exp_app s e s4 rest : term_ok rest ->
  scan_exp s = Some (e, s4) -> scan_exp (s ++ rest) = Some (e, s4 ++ rest).
Proof.
  intros Ht H. destruct s as [|c r]; simpl in *.
  - inversion H; subst. destruct rest as [|c r]; [reflexivity|].
    destruct (term_ok_head _ c r Ht eq_refl) as [_ [E1 [E2 _]]]. simpl. rewrite E1, E2. reflexivity.
  - destruct ((c =? 101) || (c =? 69)).
    + destruct r as [|c2 r2]; simpl in *.
      * discriminate.
      * destruct ((c2 =? 43) || (c2 =? 45)).
        -- rewrite (span_digits_app r2 rest Ht). destruct (span_digits r2) as [ed s4'] eqn:E. simpl.
           destruct (is_nil ed); [discriminate|]. inversion H; subst. reflexivity.
        -- change (c2 :: r2 ++ rest) with ((c2 :: r2) ++ rest).
           rewrite (span_digits_app (c2 :: r2) rest Ht). destruct (span_digits (c2 :: r2)) as [ed s4'] eqn:E. simpl.
           destruct (is_nil ed); [discriminate|]. inversion H; subst. reflexivity.
    + inversion H; subst. reflexivity.
Qed.

Lemma scan_number_app s l r rest : term_ok rest ->
  scan_number s = Some (l, r) -> scan_number (s ++ rest) = Some (l, r ++ rest).
Proof.
  intros Ht H. unfold scan_number in *.
  assert (Hs : scan_sign (s ++ rest) = (fst (scan_sign s), snd (scan_sign s) ++ rest) \/ s = []).
  { destruct s as [|c s']; [right; reflexivity|]. left. simpl. destruct (c =? 45); reflexivity. }
  destruct Hs as [Hs|Hs].
  - rewrite Hs. destruct (scan_sign s) as [sign s1]. simpl.
    rewrite (span_digits_app s1 rest Ht). destruct (span_digits s1) as [ip s2]. simpl.
    destruct ip as [|d0 ds]; [discriminate|].
    destruct ((d0 =? 48) && negb (is_nil ds)); [discriminate|].
    destruct (scan_frac s2) as [[fr s3]|] eqn:Ef; [|discriminate].
    rewrite (scan_frac_app _ _ _ _ Ht Ef).
    destruct (scan_exp s3) as [[e s4]|] eqn:Ee; [|discriminate].
    rewrite (scan_exp_app _ _ _ _ Ht Ee). inversion H; subst. reflexivity.
  - subst s. simpl in H. discriminate.
Qed.

(* ---------- int64 ---------- *)

Lemma int64_range_iff z : int64_range z = true <-> (-9223372036854775808 <= z <= 9223372036854775807)%Z.
Proof.
  unfold int64_range. rewrite andb_true_iff, !Z.leb_le. tauto.
Qed.
