(* LoaderStrict.v — decoding succeeds exactly on the trees that have the schema
   type ([conformsb]); the loaders accept exactly the strict files. *)
From IT Require Import spec.LoaderSpec gen.Consts proofs.LoaderLemmas.

Lemma is_ok_rbind {A B} (r : res A) (f : A -> res B) :
  is_ok (rbind r f) = match r with Ok a => is_ok (f a) | _ => false end.
Proof. destruct r; reflexivity. Qed.

Lemma is_ok_exists {A} (r : res A) : is_ok r = true <-> exists a, r = Ok a.
Proof. destruct r; simpl; split; intro H; try discriminate; eauto; destruct H; discriminate. Qed.

Lemma is_ok_lift_slice r : is_ok (lift_slice r) = is_ok r.
Proof. destruct r; reflexivity. Qed.
Lemma is_ok_lift_map r : is_ok (lift_map r) = is_ok r.
Proof. destruct r; reflexivity. Qed.
Lemma is_ok_lift_struct r : is_ok (lift_struct r) = is_ok r.
Proof. destruct r; reflexivity. Qed.

(* success of decoding does not depend on the value decoded into *)
Theorem decode_ok_conforms : forall j strict sh old,
  is_ok (decode strict sh old j) = conformsb strict sh j.
Proof.
  induction j as [ |b|z|lit|s|l IH|m IH] using jv_ind'; intros strict sh old.
  - destruct sh; reflexivity.
  - destruct sh; reflexivity.
  - destruct sh; simpl; try reflexivity. destruct (int_ok z); reflexivity.
  - destruct sh; reflexivity.
  - destruct sh; reflexivity.
  - destruct sh as [ | | |e|e|fs]; try reflexivity.
    rewrite decode_slice_eq.
    assert (H : forall bk, is_ok (decode_elems strict e l bk) = forallb (conformsb strict e) l).
    { induction IH as [|x l Hx _ IHl]; intro bk; simpl; [reflexivity|].
      rewrite is_ok_rbind. specialize (Hx strict e (hd (gzero e) bk)).
      destruct (decode strict e (hd (gzero e) bk) x) as [v| |]; simpl in Hx; rewrite <- Hx; simpl; try reflexivity.
      rewrite is_ok_rbind. specialize (IHl (tl bk)).
      destruct (decode_elems strict e l (tl bk)); simpl in *; rewrite <- IHl; reflexivity. }
    destruct l as [|x l']; [reflexivity|]. rewrite is_ok_lift_slice. apply H.
  - destruct sh as [ | | |e|e|fs]; try reflexivity.
    + rewrite decode_map_eq, is_ok_lift_map. simpl conformsb.
      generalize (map_of old). induction IH as [|[k x] m Hx _ IHm]; intro cur; simpl; [reflexivity|].
      rewrite is_ok_rbind. simpl in Hx. specialize (Hx strict e (gzero e)).
      destruct (decode strict e (gzero e) x) as [v| |]; simpl in Hx; rewrite <- Hx; simpl; try reflexivity.
      apply IHm.
    + rewrite decode_struct_eq, is_ok_lift_struct. simpl conformsb.
      generalize (struct_of fs old). induction IH as [|[k x] m Hx _ IHm]; intro cur; simpl; [reflexivity|].
      destruct (find_field fs k) as [f|].
      * rewrite is_ok_rbind. simpl in Hx.
        specialize (Hx strict (f_shape f) (match alookup cur (f_name f) with Some o => o | None => gzero (f_shape f) end)).
        destruct (decode strict (f_shape f) _ x) as [v| |]; simpl in Hx; rewrite <- Hx; simpl; try reflexivity.
        apply IHm.
      * destruct strict; simpl; [reflexivity | apply IHm].
Qed.

Corollary decode_ok_iff j strict sh old :
  (exists v, decode strict sh old j = Ok v) <-> conformsb strict sh j = true.
Proof. rewrite <- (decode_ok_conforms j strict sh old). symmetry. apply is_ok_exists. Qed.

(* the decoder has no panic site *)
Lemma is_panic_rbind {A B} (r : res A) (f : A -> res B) :
  is_panic (rbind r f) = match r with Ok a => is_panic (f a) | Err _ => false | Panic _ => true end.
Proof. destruct r; reflexivity. Qed.

Theorem decode_no_panic : forall j strict sh old, is_panic (decode strict sh old j) = false.
Proof.
  induction j as [ |b|z|lit|s|l IH|m IH] using jv_ind'; intros strict sh old.
  - destruct sh; reflexivity.
  - destruct sh; reflexivity.
  - destruct sh; simpl; try reflexivity. destruct (int_ok z); reflexivity.
  - destruct sh; reflexivity.
  - destruct sh; reflexivity.
  - destruct sh as [ | | |e|e|fs]; try reflexivity.
    rewrite decode_slice_eq.
    assert (H : forall bk, is_panic (decode_elems strict e l bk) = false).
    { induction IH as [|x l Hx _ IHl]; intro bk; simpl; [reflexivity|].
      rewrite is_panic_rbind. specialize (Hx strict e (hd (gzero e) bk)).
      destruct (decode strict e (hd (gzero e) bk) x) as [v| |]; simpl in Hx; [|reflexivity|discriminate].
      rewrite is_panic_rbind. specialize (IHl (tl bk)).
      destruct (decode_elems strict e l (tl bk)); simpl in IHl; [reflexivity|reflexivity|discriminate]. }
    destruct l as [|x l']; [reflexivity|]. specialize (H (backing old)).
    destruct (decode_elems strict e (x :: l') (backing old)); simpl in *; [reflexivity|reflexivity|discriminate].
  - destruct sh as [ | | |e|e|fs]; try reflexivity.
    + rewrite decode_map_eq.
      assert (H : forall cur, is_panic (decode_entries strict e m cur) = false).
      { induction IH as [|[k x] m Hx _ IHm]; intro cur; simpl; [reflexivity|].
        rewrite is_panic_rbind. simpl in Hx. specialize (Hx strict e (gzero e)).
        destruct (decode strict e (gzero e) x) as [v| |]; simpl in Hx; [apply IHm|reflexivity|discriminate]. }
      specialize (H (map_of old)).
      destruct (decode_entries strict e m (map_of old)); simpl in *; [reflexivity|reflexivity|discriminate].
    + rewrite decode_struct_eq.
      assert (H : forall cur, is_panic (decode_members strict fs m cur) = false).
      { induction IH as [|[k x] m Hx _ IHm]; intro cur; simpl; [reflexivity|].
        destruct (find_field fs k) as [f|].
        - rewrite is_panic_rbind. simpl in Hx.
          specialize (Hx strict (f_shape f) (match alookup cur (f_name f) with Some o => o | None => gzero (f_shape f) end)).
          destruct (decode strict (f_shape f) _ x) as [v| |]; simpl in Hx; [apply IHm|reflexivity|discriminate].
        - destruct strict; simpl; [reflexivity | apply IHm]. }
      specialize (H (struct_of fs old)).
      destruct (decode_members strict fs m (struct_of fs old)); simpl in *; [reflexivity|reflexivity|discriminate].
Qed.

(* ---------- the loaders ---------- *)

Local Arguments decode : simpl never.
Local Arguments gzero : simpl never.
Local Arguments conformsb : simpl never.

Lemma raw_nil_false m k :
  raw_nil m k = false <-> present_nonnull m k (raw_get m k).
Proof.
  unfold raw_nil, raw_get, present_nonnull.
  destruct (obj_last m k) as [v|]; [|split; [discriminate | intros [H _]; discriminate]].
  destruct v; split; try discriminate; try (intros [_ H]; congruence); intros _; (split; [reflexivity | discriminate]).
Qed.

Lemma present_nonnull_raw m k v : present_nonnull m k v -> raw_nil m k = false /\ raw_get m k = v.
Proof.
  unfold present_nonnull, raw_nil, raw_get. intros [H Hn]. rewrite H. split; [|reflexivity].
  destruct v; try reflexivity. congruence.
Qed.

Lemma check_required_ok m fs :
  check_required m fs = Ok tt <-> (forall f, In f fs -> f_omit f = false -> has_key m (f_name f) = true).
Proof.
  induction fs as [|f fs IH]; simpl.
  - split; [intros _ f [] | reflexivity].
  - destruct (has_key m (f_name f)) eqn:E1; simpl.
    + rewrite IH. split.
      * intros H g [<-|Hg] Ho; [assumption | apply H; assumption].
      * intros H g Hg Ho. apply H; [right|]; assumption.
    + destruct (f_omit f) eqn:E2; simpl.
      * rewrite IH. split.
        -- intros H g [<-|Hg] Ho; [congruence | apply H; assumption].
        -- intros H g Hg Ho. apply H; [right|]; assumption.
      * split; [discriminate|]. intro H. specialize (H f (or_introl eq_refl) E2). congruence.
Qed.

Local Arguments check_required : simpl never.

Lemma markers_distinct : str_eqb v_layout v_link = false.
Proof. vm_compute. reflexivity. Qed.

Definition payload_of (marker : str) (v : gv) : gpayload :=
  if str_eqb marker v_link then GLink v else GLayout v.

(* loadPayload accepts exactly the strict link / layout documents *)
Lemma load_payload_ok j p :
  load_payload j = Ok p <->
  payload_strict j (payload_shape p) (payload_marker p) /\
  decode true (payload_shape p) (gzero (payload_shape p)) j = Ok (payload_val p).
Proof.
  split.
  - unfold load_payload, payload_strict. intro H.
    destruct j as [ |b|z|lit|s|l|pm]; try discriminate.
    destruct (obj_last pm k_type) as [t|] eqn:ET; [|discriminate].
    destruct t as [ |b|z|lit|t|l|mm]; try discriminate.
    destruct (str_eqb t v_link) eqn:E1.
    + apply str_eqb_eq in E1. subst t.
      destruct (check_required pm (struct_fields sh_link)) as [[]| |] eqn:EC; try discriminate.
      simpl in H.
      destruct (decode true sh_link (gzero sh_link) (JObj pm)) as [v| |] eqn:ED; try discriminate.
      simpl in H. inversion H; subst. simpl. split; [|assumption].
      exists pm. split; [reflexivity|]. split; [assumption|]. split.
      * exact (proj1 (check_required_ok _ _) EC).
      * apply decode_ok_iff with (old := gzero sh_link). eauto.
    + destruct (str_eqb t v_layout) eqn:E2; [|discriminate].
      apply str_eqb_eq in E2. subst t.
      destruct (check_required pm (struct_fields sh_layout)) as [[]| |] eqn:EC; try discriminate.
      simpl in H.
      destruct (decode true sh_layout (gzero sh_layout) (JObj pm)) as [v| |] eqn:ED; try discriminate.
      simpl in H. inversion H; subst. simpl. split; [|assumption].
      exists pm. split; [reflexivity|]. split; [assumption|]. split.
      * exact (proj1 (check_required_ok _ _) EC).
      * apply decode_ok_iff with (old := gzero sh_layout). eauto.
  - intros [(pm & -> & Ht & Hr & _) Hd]. unfold load_payload. rewrite Ht.
    pose proof (proj2 (check_required_ok _ _) Hr) as Hr'.
    destruct p as [v|v]; cbn [payload_marker payload_shape payload_val] in *.
    + rewrite str_eqb_refl, Hr'. simpl. rewrite Hd. reflexivity.
    + rewrite markers_distinct, str_eqb_refl, Hr'. simpl. rewrite Hd. reflexivity.
Qed.

Definition is_link (p : gpayload) : bool := match p with GLink _ => true | GLayout _ => false end.
Definition kind_shape (link : bool) : shape := if link then sh_link else sh_layout.
Definition kind_marker (link : bool) : str := if link then v_link else v_layout.

Lemma kind_of_payload p :
  payload_shape p = kind_shape (is_link p) /\ payload_marker p = kind_marker (is_link p).
Proof. destruct p; split; reflexivity. Qed.

Lemma raw_nil_nil k : raw_nil [] k = true.
Proof. reflexivity. Qed.

Section Top.
  Variable b64json : str -> option jv.

  (* Ok => the file is a strict link/layout file *)
  Theorem load_metadata_strict file r :
    load_metadata b64json file = Ok r ->
    file_strict b64json file (ld_wrapper r) (payload_shape (ld_payload r)) (payload_marker (ld_payload r)).
  Proof.
    unfold load_metadata. intro H.
    destruct file as [j|]; [|discriminate].
    destruct j as [ |b|z|lit|s|l|m]; try discriminate.
    destruct (has_key m k_payloadType) eqn:EK.
    - destruct (raw_nil m k_payload) eqn:E1; [discriminate|].
      destruct (raw_nil m k_signatures) eqn:E2; [discriminate|].
      cbn [orb] in H.
      destruct (decode false sh_envelope (gzero sh_envelope) (JObj m)) as [env| |] eqn:ED; try discriminate.
      cbn [rbind] in H.
      destruct (str_eqb (struct_str env k_payloadType) c_PayloadType) eqn:EP; [|discriminate].
      cbn [negb] in H. unfold load_envelope in H.
      destruct (b64json (struct_str env k_payload)) as [pj|] eqn:EB; [|discriminate].
      destruct (load_payload pj) as [p| |] eqn:ELP; try discriminate.
      cbn [rbind] in H. inversion H; subst r. cbn [ld_wrapper ld_payload].
      exists m. split; [reflexivity|]. split; [assumption|].
      exists (raw_get m k_payload), (raw_get m k_signatures), env, pj.
      apply raw_nil_false in E1. apply raw_nil_false in E2. apply str_eqb_eq in EP.
      apply load_payload_ok in ELP as [HS _].
      repeat split; try assumption; try (apply E1); try (apply E2).
      apply decode_ok_iff with (old := gzero sh_envelope). eauto.
    - unfold load_legacy in H.
      destruct (raw_nil m k_signed) eqn:E1; [discriminate|].
      destruct (raw_nil m k_signatures) eqn:E2; [discriminate|].
      cbn [orb] in H.
      destruct (decode false (SSlice sh_sig) GNil (raw_get m k_signatures)) as [sigs| |] eqn:ED; try discriminate.
      cbn [rbind] in H.
      destruct (load_payload (raw_get m k_signed)) as [p| |] eqn:ELP; try discriminate.
      cbn [rbind] in H. inversion H; subst r. cbn [ld_wrapper ld_payload].
      exists m. split; [reflexivity|]. split; [assumption|].
      exists (raw_get m k_signed), (raw_get m k_signatures).
      apply raw_nil_false in E1. apply raw_nil_false in E2.
      apply load_payload_ok in ELP as [HS _].
      repeat split; try assumption; try (apply E1); try (apply E2).
      apply decode_ok_iff with (old := GNil). eauto.
  Qed.

  (* conversely every strict file is accepted, with the wrapper and kind it has *)
  Theorem strict_load_metadata file w link :
    file_strict b64json file w (kind_shape link) (kind_marker link) ->
    exists r, load_metadata b64json file = Ok r /\ ld_wrapper r = w /\ is_link (ld_payload r) = link.
  Proof.
    intros (m & -> & H). unfold load_metadata.
    assert (LP : forall s, payload_strict s (kind_shape link) (kind_marker link) ->
                 exists p, load_payload s = Ok p /\ is_link p = link).
    { intros s HS. pose proof HS as (pm & -> & _ & _ & HC).
      apply decode_ok_iff with (old := gzero (kind_shape link)) in HC as [v Hv].
      exists (if link then GLink v else GLayout v). split; [|destruct link; reflexivity].
      apply load_payload_ok. destruct link; cbn [payload_shape payload_marker payload_val kind_shape kind_marker] in *; auto. }
    destruct w.
    - destruct H as (EK & s & g & H1 & H2 & HC & HS). rewrite EK. unfold load_legacy.
      apply present_nonnull_raw in H1 as [-> ->]. apply present_nonnull_raw in H2 as [-> ->]. cbn [orb].
      apply decode_ok_iff with (old := GNil) in HC as [sigs ->]. cbn [rbind].
      destruct (LP s HS) as (p & -> & Hl). cbn [rbind]. eexists. repeat split. assumption.
    - destruct H as (EK & p & g & env & s & H1 & H2 & HC & HD & HT & HB & HS). rewrite EK.
      apply present_nonnull_raw in H1 as [-> _]. apply present_nonnull_raw in H2 as [-> _]. cbn [orb].
      rewrite HD. cbn [rbind]. rewrite HT, str_eqb_refl. cbn [negb]. unfold load_envelope. rewrite HB.
      destruct (LP s HS) as (p' & -> & Hl). cbn [rbind]. eexists. repeat split. assumption.
  Qed.

  (* the deprecated loader is the agnostic one on files without a payloadType member *)
  Theorem loaders_agree file :
    match file with Some (JObj m) => has_key m k_payloadType = false | _ => True end ->
    metablock_load GNil file = load_metadata b64json file.
  Proof.
    destruct file as [[ | | | | | |m]|]; simpl; try reflexivity.
    intros ->. reflexivity.
  Qed.

  (* with a payloadType member the agnostic loader never takes the legacy route
     and the deprecated one never yields an envelope *)
  Theorem loaders_wrapper file r :
    load_metadata b64json file = Ok r ->
    (ld_wrapper r = DSSE <-> exists m, file = Some (JObj m) /\ has_key m k_payloadType = true).
  Proof.
    intro H. apply load_metadata_strict in H as (m & -> & H).
    destruct (ld_wrapper r).
    - destruct H as (EK & _). split; [discriminate|]. intros (m' & E & EK'). inversion E. subst. congruence.
    - destruct H as (EK & _). split; [|reflexivity]. intros _. eauto.
  Qed.
End Top.

(* ---------- the payload type of an accepted envelope is in the file ---------- *)

Lemma find_field_in fs k f : find_field fs k = Some f -> In f fs.
Proof.
  unfold find_field. destruct (find (fun f0 => str_eqb k (f_name f0)) fs) eqn:E.
  - intro H. inversion H. subst. apply find_some in E. apply E.
  - intro H. apply find_some in H. apply H.
Qed.

Lemma alookup_aset_some {V} (m : list (str * V)) k v x : alookup (aset m k v) k = Some x -> x = v.
Proof.
  induction m as [|[k' v'] m IH]; simpl; [discriminate|].
  destruct (str_eqb k k') eqn:E; simpl; rewrite E; [intro H; inversion H; reflexivity | apply IH].
Qed.

Lemma alookup_aset_some_in {V} (m : list (str * V)) k v x : alookup (aset m k v) k = Some x -> exists o, alookup m k = Some o.
Proof.
  induction m as [|[k' v'] m IH]; simpl; [discriminate|].
  destruct (str_eqb k k') eqn:E; simpl; rewrite E; [eauto | apply IH].
Qed.

(* a string field ends up with the value [s] only if it had it before or a member
   matched to that field carries the JSON string [s] *)
Lemma decode_members_string strict fs n s : 
  (forall f, In f fs -> f_name f = n -> f_shape f = SStr) ->
  forall m cur cur', decode_members strict fs m cur = Ok cur' ->
  alookup cur' n = Some (GStr s) ->
  alookup cur n = Some (GStr s) \/ exists k f, In (k, JStr s) m /\ find_field fs k = Some f /\ f_name f = n.
Proof.
  intros HS. induction m as [|[k x] m IH]; intros cur cur' HD HL; simpl in HD.
  - inversion HD. subst. left. assumption.
  - destruct (find_field fs k) as [f|] eqn:EF.
    + destruct (decode strict (f_shape f) (match alookup cur (f_name f) with Some o => o | None => gzero (f_shape f) end) x)
        as [v| |] eqn:ED; try discriminate.
      cbn [rbind] in HD.
      destruct (IH _ _ HD HL) as [H|(k2 & f2 & Hi & Hf & Hn)].
      * destruct (str_eq_dec (f_name f) n) as [E|E].
        -- subst n. pose proof (HS f (find_field_in _ _ _ EF) eq_refl) as ES. rewrite ES in ED.
           pose proof (alookup_aset_some _ _ _ _ H) as Ev. subst v.
           destruct (alookup_aset_some_in _ _ _ _ H) as [o Ho]. rewrite Ho in ED.
           destruct x; try discriminate.
           ++ unfold decode in ED. inversion ED. subst o. left. assumption.
           ++ unfold decode in ED. inversion ED. subst. right. exists k, f. split; [left; reflexivity | auto].
        -- rewrite alookup_aset_other in H by congruence. left. assumption.
      * right. exists k2, f2. split; [right; assumption | auto].
    + destruct strict; [discriminate|].
      destruct (IH _ _ HD HL) as [H|(k2 & f2 & Hi & Hf & Hn)]; [left; assumption|].
      right. exists k2, f2. split; [right; assumption | auto].
Qed.

(* an accepted envelope has a member, matched to the payloadType field (exactly or
   case-insensitively), whose value is in-toto's payload type *)
Theorem dsse_payload_type_in_file b64json file r :
  load_metadata b64json file = Ok r -> ld_wrapper r = DSSE ->
  exists m k, file = Some (JObj m) /\ In (k, JStr c_PayloadType) m /\
    find_field (struct_fields sh_envelope) k = Some (fld "payloadType" false SStr).
Proof.
  intros H HW. apply load_metadata_strict in H as (m & -> & H). rewrite HW in H.
  destruct H as (_ & p & g & env & s & _ & _ & _ & HD & HT & _).
  exists m. change sh_envelope with (SStruct (struct_fields sh_envelope)) in HD.
  rewrite decode_struct_eq in HD.
  destruct (decode_members false (struct_fields sh_envelope) m
              (struct_of (struct_fields sh_envelope) (gzero (SStruct (struct_fields sh_envelope))))) as [cur'| |] eqn:EM;
    try discriminate.
  simpl in HD. inversion HD. subst env. clear HD.
  assert (HL : alookup cur' k_payloadType = Some (GStr c_PayloadType)).
  { unfold struct_str in HT. destruct (alookup cur' k_payloadType) as [[t| | | | | |]|] eqn:E;
      try (vm_compute in HT; discriminate). subst t. reflexivity. }
  assert (HS : forall f, In f (struct_fields sh_envelope) -> f_name f = k_payloadType -> f_shape f = SStr).
  { intros f Hf Hn. simpl in Hf. unfold f_name, f_shape in *. destruct Hf as [<-|[<-|[<-|[]]]]; simpl in *; try reflexivity;
      apply str_eqb_eq in Hn; vm_compute in Hn; discriminate. }
  destruct (decode_members_string false _ _ _ HS _ _ _ EM HL) as [Hz|(k & f & Hi & Hf & Hn)].
  - vm_compute in Hz. discriminate.
  - exists k. split; [reflexivity|]. split; [assumption|]. rewrite Hf. f_equal.
    pose proof (find_field_in _ _ _ Hf) as Hin. simpl in Hin. unfold f_name in *.
    destruct Hin as [<-|[<-|[<-|[]]]]; simpl in *; try reflexivity;
      apply str_eqb_eq in Hn; vm_compute in Hn; discriminate.
Qed.
