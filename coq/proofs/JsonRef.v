(* JsonRef.v — canon agrees with the reference definition of OLPC canonical JSON
   (spec/JsonSpec.v, relation [olpc]). *)
From IT Require Import model.Json spec.JsonSpec proofs.JsonOrder proofs.JsonNum proofs.JsonProofs.
From Coq Require Import Sorting.Sorted.

Lemma canon_escape_olpc s : canon_escape s = olpc_escape s.
Proof.
  unfold olpc_escape. induction s as [|c s IH]; [reflexivity|].
  cbn [canon_escape flat_map]. destruct ((c =? 92) || (c =? 34)); cbn [app]; rewrite IH; reflexivity.
Qed.

Lemma quote_olpc s : quote (canon_escape s) = olpc_string s.
Proof. unfold quote, olpc_string. rewrite canon_escape_olpc. reflexivity. Qed.

Lemma sep_concat_join l : sep_concat l = join [44] l.
Proof.
  induction l as [|x l IH]; [reflexivity|]. destruct l as [|y l']; [reflexivity|].
  change (sep_concat (x :: y :: l')) with (x ++ 44 :: sep_concat (y :: l')).
  change (join [44] (x :: y :: l')) with (x ++ [44] ++ join [44] (y :: l')). rewrite IH. reflexivity.
Qed.

Lemma member_olpc k b : member canon_escape (k, b) = olpc_string k ++ [58] ++ b.
Proof. unfold member. cbn [fst snd]. rewrite quote_olpc. reflexivity. Qed.

Lemma no_float_obj m : no_float (JObj m) = forallb (fun kx => no_float (snd kx)) m.
Proof.
  cbn [no_float]. induction m as [|[k x] m IH]; [reflexivity|]. cbn [forallb snd]. rewrite IH. reflexivity.
Qed.

Lemma int64_range_pow z : int64_range z = true <-> (- 2 ^ 63 <= z < 2 ^ 63)%Z.
Proof.
  rewrite int64_range_iff. change (2 ^ 63)%Z with 9223372036854775808%Z. lia.
Qed.

(* ---------- canon produces the reference form ---------- *)

Lemma canon_olpc v : forall b, nodup_keys v -> no_float v = true -> canon v = Ok b -> olpc v b.
Proof.
  induction v using jv_ind'; intros out Hnd Hnf Hc.
  - inversion Hc. apply o_null.
  - inversion Hc. destruct b; [apply o_true | apply o_false].
  - cbn [canon] in Hc. destruct (int64_range z) eqn:E; inversion Hc. apply o_int. apply int64_range_pow. exact E.
  - discriminate.
  - inversion Hc. rewrite quote_olpc. apply o_str.
  - rewrite canon_arr in Hc. destruct (seq_list (map canon l)) as [items| |] eqn:E; try discriminate.
    cbn [rbind] in Hc. inversion Hc; subst out.
    change (91 :: sep_concat items ++ [93]) with ([91] ++ sep_concat items ++ [93]). rewrite sep_concat_join.
    apply o_arr. apply nodup_keys_arr in Hnd. cbn [no_float] in Hnf. rewrite forallb_forall in Hnf.
    clear Hc. revert items E. induction H as [|x l Hx _ IH]; intros items E.
    + cbn [map seq_list] in E. inversion E. constructor.
    + cbn [map seq_list] in E. destruct (canon x) as [a| |] eqn:Ea; try discriminate. cbn [rbind] in E.
      destruct (seq_list (map canon l)) as [t| |] eqn:Et; try discriminate. inversion E; subst items.
      inversion Hnd; subst. constructor.
      * apply Hx; [assumption | apply Hnf; left; reflexivity | reflexivity].
      * apply IH; [assumption | intros y Hy; apply Hnf; right; exact Hy | reflexivity].
  - rewrite canon_obj in Hc. destruct (seq_res (norm_pairs (map_snd canon m))) as [ps| |] eqn:E; try discriminate.
    cbn [rbind] in Hc. inversion Hc; subst out.
    change (123 :: sep_concat (map (member canon_escape) ps) ++ [125])
      with ([123] ++ sep_concat (map (member canon_escape) ps) ++ [125]). rewrite sep_concat_join.
    apply nodup_keys_obj in Hnd as [Hk Hv]. rewrite no_float_obj in Hnf. rewrite forallb_forall in Hnf.
    apply (o_obj m (sort_pairs m)).
    + exact Hk.
    + apply sort_pairs_perm.
    + apply sort_pairs_sorted. exact Hk.
    + rewrite norm_pairs_map_snd in E. unfold norm_pairs in E. rewrite (dedup_last_id m Hk) in E.
      assert (Hin : forall kx, In kx (sort_pairs m) -> In kx m).
      { intros kx Hi. eapply Permutation_in; [apply Permutation_sym; apply sort_pairs_perm | exact Hi]. }
      rewrite Forall_forall in H, Hv.
      clear Hc. revert ps E Hin. generalize (sort_pairs m) as l.
      induction l as [|[k x] l IH]; intros ps E Hin.
      * cbn [map_snd map seq_res] in E. inversion E. constructor.
      * cbn [map_snd map seq_res fst snd] in E. destruct (canon x) as [a| |] eqn:Ea; try discriminate. cbn [rbind] in E.
        fold (map_snd canon l) in E. destruct (seq_res (map_snd canon l)) as [t| |] eqn:Et; try discriminate.
        inversion E; subst ps. cbn [map]. rewrite member_olpc. constructor.
        -- pose proof (Hin (k, x) (or_introl eq_refl)) as Hm.
           apply (H (k, x) Hm); [apply (Hv (k, x) Hm) | apply (Hnf (k, x) Hm) | exact Ea].
        -- apply IH; [reflexivity | intros kx Hi; apply Hin; right; exact Hi].
Qed.

(* ---------- the reference form is what canon produces ---------- *)

Lemma olpc_canon : forall v b, olpc v b -> nodup_keys v -> canon v = Ok b.
Proof.
  apply (olpc_mut
           (fun v b => nodup_keys v -> canon v = Ok b)
           (fun l bs => Forall nodup_keys l -> seq_list (map canon l) = Ok bs)
           (fun m bs => Forall (fun kx => nodup_keys (snd kx)) m ->
                        exists ps, seq_res (map_snd canon m) = Ok ps /\ map (member canon_escape) ps = bs)).
  - reflexivity.
  - reflexivity.
  - reflexivity.
  - intros z Hz _. cbn [canon]. apply int64_range_pow in Hz. rewrite Hz. reflexivity.
  - intros s _. cbn [canon]. rewrite quote_olpc. reflexivity.
  - intros l bs _ IH Hnd. apply nodup_keys_arr in Hnd. rewrite canon_arr, (IH Hnd). cbn [rbind].
    rewrite sep_concat_join. reflexivity.
  - intros m m' bs Hk Hp Hasc _ IH Hnd. apply nodup_keys_obj in Hnd as [_ Hv].
    assert (Hv' : Forall (fun kx => nodup_keys (snd kx)) m') by (eapply Permutation_Forall; eassumption).
    destruct (IH Hv') as [ps [E1 E2]].
    rewrite canon_obj, norm_pairs_map_snd.
    assert (Em : norm_pairs m = m').
    { unfold norm_pairs. rewrite (dedup_last_id m Hk). apply ksorted_perm_eq.
      - apply sort_pairs_sorted. exact Hk.
      - exact Hasc.
      - eapply Permutation_trans; [apply Permutation_sym; apply sort_pairs_perm | exact Hp]. }
    rewrite Em, E1. cbn [rbind]. rewrite E2, sep_concat_join. reflexivity.
  - intros _. reflexivity.
  - intros x l b bs _ IHx _ IHl Hnd. inversion Hnd; subst. cbn [map seq_list]. rewrite (IHx H1), (IHl H2). reflexivity.
  - intros _. exists []. split; reflexivity.
  - intros k x m b bs _ IHx _ IHm Hnd. inversion Hnd; subst. cbn [snd] in *.
    destruct (IHm H2) as [ps [E1 E2]]. exists ((k, b) :: ps). split.
    + cbn [map_snd map seq_res fst snd]. rewrite (IHx H1). cbn [rbind]. fold (map_snd canon m). rewrite E1. reflexivity.
    + cbn [map]. rewrite member_olpc, E2. reflexivity.
Qed.

Theorem canon_matches_reference v b : nodup_keys v -> no_float v = true -> (canon v = Ok b <-> olpc v b).
Proof.
  intros Hnd Hnf. split; [apply canon_olpc; assumption | intro H; apply olpc_canon; assumption].
Qed.
