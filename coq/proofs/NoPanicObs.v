(* NoPanicObs.v — observables of the panic-free models that ./check C15 compares with the
   OK / ERR verdict of the real entry points on the structured degenerate inputs
   (definitions only; used by the generated cases files). *)
From IT Require Export model.PipelineInst model.ValidateInst model.Threshold model.Rules.
From IT Require Export proofs.NoPanicKeys.

Definition obs3 {A} (r : res A) : str :=
  match r with Ok _ => bs "OK" | Err _ => bs "ERR" | Panic _ => bs "PANIC" end.

(* UnpackRule *)
Definition c15_rule (r : rule) : str := obs3 (unpack_rule r).

(* ValidateMetablock of an (unsigned) layout *)
Definition c15_validate_layout (l : layout) (sigs : list signature) : str :=
  obs3 (validate_metablock_go (SgLayout l) sigs).

(* Metablock.Sign up to the crypto call: getSignerVerifierFromKey + constructor + Sign preconditions;
   the PEM parser outcome is a finite table computed by the harness with crypto/x509 directly *)
Fixpoint pem_tbl (t : list (str * pemkind)) (s : str) : option pemkind :=
  match t with
  | [] => None
  | (k, v) :: r => if str_eqb k s then Some v else pem_tbl r s
  end.
Definition c15_key_sign (t : list (str * pemkind)) (k : key) : str := obs3 (key_sign (pem_tbl t) k).
Definition c15_key_verify_reaches_crypto (t : list (str * pemkind)) (k : key) : str := obs3 (key_verify (pem_tbl t) k).

(* LoadLinksForLayout + VerifyLinkSignatureThesholds: OK / RE(JECT) / PA(NIC) *)
Definition c15_thresholds (tv : list (str * str * str)) (l : layout) (files : list (str * option env)) : str :=
  match firstn 2 (c02_obs tv [] [] l files) with
  | [79; 75] => bs "OK"
  | [80; 65] => bs "PANIC"
  | _ => bs "ERR"
  end.

(* InTotoVerify without inspections and certificates: accept / reject / PANIC *)
Definition c15_verify (now : Z) (truths : list (str * str)) (d : linkdir) (layout_env : env) (keys : amap key) : str :=
  match firstn 1 (e2e_run now truths [] [] [] [] [] [] d layout_env keys [] []) with
  | [97] => bs "OK"
  | [80] => bs "PANIC"
  | _ => bs "ERR"
  end.
