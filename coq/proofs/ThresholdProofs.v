(* ThresholdProofs.v — lemmas behind the theorems of props/C02.v:
   the verified map is the filter of the loaded map by the declarative
   authorisation predicate; soundness of the threshold; order independence. *)
From IT Require Import spec.ThresholdSpec proofs.ThresholdMaps.

Section Proofs.
  Variable vsig : env -> key -> bool.
  Variable get_cert : signature -> option key.
  Variable cc_ok : step -> key -> bool.

  Notation key_route := (key_route vsig).
  Notation cert_route := (cert_route vsig get_cert cc_ok).
  Notation verify_link := (verify_link vsig get_cert cc_ok).
  Notation verified_links := (verified_links vsig get_cert cc_ok).
  Notation verify_step_thresholds := (verify_step_thresholds vsig get_cert cc_ok).
  Notation verify_steps := (verify_steps vsig get_cert cc_ok).
  Notation verify_thresholds := (verify_thresholds vsig get_cert cc_ok).
  Notation authorised_key := (authorised_key vsig).
  Notation authorised_cert := (authorised_cert vsig get_cert cc_ok).
  Notation authorised := (authorised vsig get_cert cc_ok).
  Notation verified_under := (verified_under vsig get_cert cc_ok).

  (* ---------------- the two routes ---------------- *)

  Lemma key_route_iff l pks kid e :
    key_route l pks kid e = true <->
    In kid pks /\ exists k, alookup (l_keys l) kid = Some k /\ vsig e k = true.
  Proof.
    induction pks as [|a r IH]; simpl.
    - split; [discriminate | intros [[] _]].
    - destruct (str_eqb kid a) eqn:E.
      + apply str_eqb_eq in E. subst a.
        destruct (alookup (l_keys l) kid) as [k|] eqn:Ek.
        * destruct (vsig e k) eqn:Ev.
          -- split; [intros _; split; [left; reflexivity | exists k; auto] | reflexivity].
          -- rewrite IH. split.
             ++ intros [H1 H2]. split; [right; assumption | assumption].
             ++ intros [_ [k' [Hk' Hv]]]. exfalso. congruence.
        * rewrite IH. split.
          -- intros [H1 H2]. split; [right; assumption | assumption].
          -- intros [_ [k' [Hk' _]]]. discriminate.
      + rewrite IH. apply str_eqb_neq in E. split.
        * intros [H1 H2]. split; [right; assumption | assumption].
        * intros [[H1|H1] H2]; [congruence | split; assumption].
  Qed.

  Lemma cert_route_iff st kid e :
    cert_route st kid e = true <-> authorised_cert st kid e.
  Proof.
    unfold Threshold.cert_route, ThresholdSpec.authorised_cert, sig_certificate.
    destruct (sig_for_keyid (env_sigs e) kid) as [sg|] eqn:Es.
    2:{ split; [discriminate | intros [sg [c [H _]]]; discriminate]. }
    destruct (sg_cert sg) as [|b cert] eqn:Ec; simpl.
    { split; [discriminate|]. intros [sg' [c [H1 [H2 _]]]]. inversion H1; subst. congruence. }
    destruct (get_cert sg) as [c|] eqn:Eg.
    2:{ split; [discriminate|]. intros [sg' [c [H1 [_ [H3 _]]]]]. inversion H1; subst. congruence. }
    destruct (str_eqb (k_keyid c) kid) eqn:Ek.
    2:{ split; [discriminate|]. intros [sg' [c' [H1 [_ [H3 [H4 _]]]]]]. inversion H1; subst.
        apply str_eqb_neq in Ek. congruence. }
    apply str_eqb_eq in Ek.
    destruct (cc_ok st c) eqn:Ecc.
    2:{ split; [discriminate|]. intros [sg' [c' [H1 [_ [H3 [_ [H5 _]]]]]]]. inversion H1; subst. congruence. }
    split.
    - intro Hv. exists sg, c. rewrite Ec. repeat split; auto. discriminate.
    - intros [sg' [c' [H1 [_ [H3 [_ [_ H6]]]]]]]. inversion H1; subst. congruence.
  Qed.

  Definition counted (l : layout) (st : step) (p : str * env) : bool :=
    key_route l (s_pubkeys st) (fst p) (snd p) || cert_route st (fst p) (snd p).

  Lemma counted_iff l st kid e : counted l st (kid, e) = true <-> authorised l st kid e.
  Proof.
    unfold counted, ThresholdSpec.authorised, ThresholdSpec.authorised_key. simpl.
    rewrite orb_true_iff, key_route_iff, cert_route_iff. tauto.
  Qed.

  Lemma verify_link_counted l st acc p :
    verify_link l st acc p = if counted l st p then ainsert acc (fst p) (snd p) else acc.
  Proof.
    unfold Threshold.verify_link, counted.
    destruct (key_route l (s_pubkeys st) (fst p) (snd p)); simpl; [reflexivity|].
    destruct (cert_route st (fst p) (snd p)); reflexivity.
  Qed.

  (* ---------------- the verified map is a filter ---------------- *)

  Lemma verified_fold l st links : forall acc,
    NoDup (akeys acc ++ akeys links) ->
    fold_left (verify_link l st) links acc = acc ++ filter (counted l st) links.
  Proof.
    induction links as [|p links IH]; intros acc Hnd; simpl.
    - rewrite app_nil_r. reflexivity.
    - rewrite verify_link_counted. simpl in Hnd.
      destruct (counted l st p) eqn:Ec.
      + assert (Hfresh : ~ In (fst p) (akeys acc)).
        { apply NoDup_remove_2 in Hnd. intro H. apply Hnd. apply in_or_app. left. assumption. }
        rewrite ainsert_fresh by assumption. rewrite <- surjective_pairing.
        rewrite IH.
        * rewrite <- app_assoc. reflexivity.
        * rewrite akeys_app. simpl. rewrite <- app_assoc. simpl. exact Hnd.
      + apply IH. apply NoDup_remove_1 in Hnd. assumption.
  Qed.

  Lemma verified_filter l st links :
    map_wf links -> verified_links l st links = filter (counted l st) links.
  Proof. intro H. unfold Threshold.verified_links. rewrite verified_fold; [reflexivity | exact H]. Qed.

  (* C02_counted_iff *)
  Lemma counted_entry_iff l st links kid e :
    map_wf links ->
    (In (kid, e) (verified_links l st links) <-> In (kid, e) links /\ authorised l st kid e).
  Proof.
    intro H. rewrite verified_filter by assumption. rewrite filter_In, counted_iff. tauto.
  Qed.

  Lemma verified_keys_nodup l st links :
    map_wf links -> NoDup (akeys (verified_links l st links)).
  Proof. intro H. rewrite verified_filter by assumption. apply filter_keys_nodup. exact H. Qed.

  Lemma counted_ids_verified l st links :
    map_wf links -> counted_ids vsig get_cert cc_ok l st links (akeys (verified_links l st links)).
  Proof.
    intro H. split; [apply verified_keys_nodup; assumption|].
    intro kid. split.
    - intro Hin. unfold akeys in Hin. apply in_map_iff in Hin as [[k e] [Hk Hin]]. simpl in Hk. subst k.
      exists e. apply counted_entry_iff; assumption.
    - intros [e He]. apply counted_entry_iff in He; [|assumption]. eapply In_akeys. eassumption.
  Qed.

  (* ---------------- one step ---------------- *)

  Lemma verify_step_ok l st links v :
    verify_step_thresholds l st links = Ok v ->
    v = verified_links l st links /\ (zlen v >= s_threshold st)%Z /\ (1 <= length v)%nat.
  Proof.
    unfold Threshold.verify_step_thresholds.
    destruct ((zlen (verified_links l st links) <? s_threshold st)%Z || (zlen (verified_links l st links) <? 1)%Z) eqn:E;
      [discriminate|].
    intro H. inversion H; subst. apply orb_false_iff in E as [E1 E2].
    apply Z.ltb_ge in E1. apply Z.ltb_ge in E2. unfold zlen in *. repeat split; lia.
  Qed.

  Lemma verify_step_cases l st links :
    (exists v, verify_step_thresholds l st links = Ok v) \/
    verify_step_thresholds l st links = Err err_threshold.
  Proof.
    unfold Threshold.verify_step_thresholds.
    destruct (_ || _); [right | left; eexists]; reflexivity.
  Qed.

  Lemma verify_step_complete l st links :
    (zlen (verified_links l st links) >= s_threshold st)%Z ->
    (1 <= length (verified_links l st links))%nat ->
    verify_step_thresholds l st links = Ok (verified_links l st links).
  Proof.
    intros H1 H2. unfold Threshold.verify_step_thresholds.
    replace (zlen (verified_links l st links) <? s_threshold st)%Z with false by (symmetry; apply Z.ltb_ge; lia).
    replace (zlen (verified_links l st links) <? 1)%Z with false by (symmetry; apply Z.ltb_ge; unfold zlen; lia).
    reflexivity.
  Qed.

  (* every verified link was verified under a key whose id is the counted id *)
  Lemma counted_verified_under l st kid e :
    layout_keys_consistent l -> authorised l st kid e ->
    exists k, verified_under l st kid e k /\ k_keyid k = kid.
  Proof.
    intros Hc [[Hin [k [Hk Hv]]] | [sg [c [H1 [H2 [H3 [H4 [H5 H6]]]]]]]].
    - exists k. split; [left; auto|]. apply Hc. apply alookup_In. assumption.
    - exists c. split; [right; exists sg; auto 10 | assumption].
  Qed.

  (* ---------------- all steps ---------------- *)

  Lemma verify_steps_sound l sm : forall steps acc r,
    verify_steps l steps sm acc = Ok r ->
    forall st, In st steps ->
      exists v, verify_step_thresholds l st (step_links sm (s_name st)) = Ok v.
  Proof.
    induction steps as [|s steps IH]; intros acc r H st Hin; [destruct Hin|].
    simpl in H.
    destruct (verify_step_thresholds l s (step_links sm (s_name s))) as [v|c|p] eqn:E; try discriminate.
    destruct Hin as [<-|Hin]; [exists v; assumption|].
    eapply IH; eassumption.
  Qed.

  (* every entry of the result is either an entry of [acc] or the verified map of a step of that name *)
  Lemma verify_steps_entries l sm : forall steps acc r,
    verify_steps l steps sm acc = Ok r ->
    forall nm v, alookup r nm = Some v ->
      alookup acc nm = Some v \/
      exists st, In st steps /\ s_name st = nm /\
                 verify_step_thresholds l st (step_links sm nm) = Ok v.
  Proof.
    induction steps as [|s steps IH]; intros acc r H nm v Hl; simpl in H.
    - inversion H; subst. left; assumption.
    - destruct (verify_step_thresholds l s (step_links sm (s_name s))) as [vs|c|p] eqn:E; try discriminate.
      destruct (IH _ _ H _ _ Hl) as [Hacc | [st [Hin [Hn Hv]]]].
      + destruct (str_eq_dec nm (s_name s)) as [->|Hne].
        * rewrite alookup_ainsert_same in Hacc. inversion Hacc; subst.
          right. exists s. split; [left; reflexivity | split; [reflexivity | assumption]].
        * rewrite alookup_ainsert_other in Hacc by assumption. left; assumption.
      + right. exists st. split; [right; assumption | split; assumption].
  Qed.

  Lemma verify_steps_keys l sm : forall steps acc r,
    verify_steps l steps sm acc = Ok r ->
    forall nm, In nm (akeys acc) \/ In nm (map s_name steps) -> In nm (akeys r).
  Proof.
    induction steps as [|s steps IH]; intros acc r H nm Hin; simpl in H.
    - inversion H; subst. destruct Hin as [Hin|[]]. assumption.
    - destruct (verify_step_thresholds l s (step_links sm (s_name s))) as [vs|c|p] eqn:E; try discriminate.
      apply (IH _ _ H). simpl in Hin. rewrite ainsert_keys_in.
      destruct Hin as [Hin|[Hin|Hin]]; auto.
  Qed.

  (* C02_nonpositive_threshold_needs_a_link, whole layout: the verified map has an
     entry for every step and no entry is empty *)
  Lemma verify_thresholds_no_empty l sm r :
    verify_thresholds l sm = Ok r ->
    forall st, In st (l_steps l) ->
      exists v, alookup r (s_name st) = Some v /\ v <> [].
  Proof.
    intros H st Hin. unfold Threshold.verify_thresholds in H.
    assert (Hk : In (s_name st) (akeys r)).
    { eapply verify_steps_keys; [eassumption|]. right. apply in_map. assumption. }
    destruct (alookup r (s_name st)) as [v|] eqn:El.
    2:{ apply alookup_none in El. contradiction. }
    exists v. split; [reflexivity|].
    destruct (verify_steps_entries _ _ _ _ _ H _ _ El) as [Hacc | [st' [_ [_ Hv]]]]; [discriminate|].
    apply verify_step_ok in Hv as [_ [_ Hlen]]. destruct v; [simpl in Hlen; lia | discriminate].
  Qed.

  (* C02_threshold_sound *)
  Lemma threshold_sound l sm r :
    (forall nm m, alookup sm nm = Some m -> map_wf m) ->
    verify_thresholds l sm = Ok r ->
    forall st, In st (l_steps l) ->
      exists ids,
        counted_ids vsig get_cert cc_ok l st (step_links sm (s_name st)) ids /\
        (zlen ids >= s_threshold st)%Z /\ (1 <= length ids)%nat.
  Proof.
    intros Hwf H st Hin.
    destruct (verify_steps_sound _ _ _ _ _ H _ Hin) as [v Hv].
    apply verify_step_ok in Hv as [Hv [Ht H1]].
    assert (Hm : map_wf (step_links sm (s_name st))).
    { unfold step_links. destruct (alookup sm (s_name st)) eqn:E; [eapply Hwf; eassumption | constructor]. }
    exists (akeys v). subst v. split; [apply counted_ids_verified; assumption|].
    unfold zlen, akeys in *. rewrite map_length. split; assumption.
  Qed.

  (* with distinct step names the result maps each step to its verified links *)
  Lemma verify_steps_lookup l sm : forall steps acc r,
    verify_steps l steps sm acc = Ok r ->
    NoDup (map s_name steps) ->
    forall st, In st steps ->
      alookup r (s_name st) = Some (verified_links l st (step_links sm (s_name st))).
  Proof.
    induction steps as [|s steps IH]; intros acc r H Hnd st Hin; [destruct Hin|].
    simpl in H. simpl in Hnd. inversion Hnd as [|? ? Hni Hnd']; subst.
    destruct (verify_step_thresholds l s (step_links sm (s_name s))) as [vs|c|p] eqn:E; try discriminate.
    destruct Hin as [<-|Hin].
    - destruct (alookup r (s_name s)) as [v|] eqn:El.
      + destruct (verify_steps_entries _ _ _ _ _ H _ _ El) as [Hacc | [st' [Hin' [Hn _]]]].
        * rewrite alookup_ainsert_same in Hacc. inversion Hacc; subst.
          apply verify_step_ok in E as [E _]. rewrite E. reflexivity.
        * exfalso. apply Hni. rewrite <- Hn. apply in_map. assumption.
      + exfalso. apply alookup_none in El. apply El.
        eapply verify_steps_keys; [eassumption|]. left. rewrite ainsert_keys_in. left; reflexivity.
    - eapply IH; eassumption.
  Qed.

  (* ---------------- order independence ---------------- *)

  Lemma key_route_ext l l' pks kid e :
    (forall a, alookup (l_keys l) a = alookup (l_keys l') a) ->
    key_route l pks kid e = key_route l' pks kid e.
  Proof.
    intro H. induction pks as [|a r IH]; simpl; [reflexivity|].
    rewrite H, IH. reflexivity.
  Qed.

  Lemma counted_keys_perm l l' st p :
    NoDup (akeys (l_keys l)) -> Permutation (l_keys l) (l_keys l') ->
    counted l st p = counted l' st p.
  Proof.
    intros Hnd Hp. unfold counted. f_equal. apply key_route_ext.
    intro a. apply alookup_perm; assumption.
  Qed.

  Lemma verified_perm l l' st links links' :
    map_wf links -> Permutation links links' ->
    NoDup (akeys (l_keys l)) -> Permutation (l_keys l) (l_keys l') ->
    Permutation (verified_links l st links) (verified_links l' st links').
  Proof.
    intros Hwf Hp Hnd Hpk.
    assert (Hwf' : map_wf links') by (eapply Permutation_NoDup; [apply akeys_perm; eassumption | assumption]).
    rewrite !verified_filter by assumption.
    rewrite (filter_ext _ _ (fun p => counted_keys_perm l l' st p Hnd Hpk)).
    apply filter_perm. assumption.
  Qed.

  Definition res_perm {A} (r r' : res (list A)) : Prop :=
    match r, r' with
    | Ok a, Ok b => Permutation a b
    | Err c, Err c' => c = c'
    | _, _ => False
    end.

  Lemma verify_step_perm l l' st links links' :
    map_wf links -> Permutation links links' ->
    NoDup (akeys (l_keys l)) -> Permutation (l_keys l) (l_keys l') ->
    res_perm (verify_step_thresholds l st links) (verify_step_thresholds l' st links').
  Proof.
    intros Hwf Hp Hnd Hpk.
    pose proof (verified_perm l l' st links links' Hwf Hp Hnd Hpk) as HP.
    unfold Threshold.verify_step_thresholds, zlen. rewrite (Permutation_length HP).
    destruct (_ || _); simpl; [reflexivity | assumption].
  Qed.

  (* whole layout: maps related entry-wise up to permutation *)
  Definition maps_perm (a b : amap (amap env)) : Prop :=
    Forall2 (fun p q => fst p = fst q /\ Permutation (snd p) (snd q)) a b.

  Lemma ainsert_maps_perm a b k v v' :
    maps_perm a b -> Permutation v v' -> maps_perm (ainsert a k v) (ainsert b k v').
  Proof.
    intros H Hv. induction H as [|[k1 v1] [k2 v2] a b [Hk Hp] H IH]; simpl.
    - constructor; [split; [reflexivity | assumption] | constructor].
    - simpl in Hk. subst k2. destruct (str_eqb k k1).
      + constructor; [split; [reflexivity | assumption] | assumption].
      + constructor; [split; [reflexivity | assumption] | assumption].
  Qed.

  Definition res_maps_perm (r r' : res (amap (amap env))) : Prop :=
    match r, r' with
    | Ok a, Ok b => maps_perm a b
    | Err c, Err c' => c = c'
    | _, _ => False
    end.

  Lemma verify_steps_perm l l' sm sm' :
    (forall nm, map_wf (step_links sm nm) /\ Permutation (step_links sm nm) (step_links sm' nm)) ->
    NoDup (akeys (l_keys l)) -> Permutation (l_keys l) (l_keys l') ->
    forall steps acc acc', maps_perm acc acc' ->
      res_maps_perm (verify_steps l steps sm acc) (verify_steps l' steps sm' acc').
  Proof.
    intros Hsm Hnd Hpk. induction steps as [|s steps IH]; intros acc acc' Hacc; simpl; [assumption|].
    destruct (Hsm (s_name s)) as [Hwf Hp].
    pose proof (verify_step_perm l l' s _ _ Hwf Hp Hnd Hpk) as HS.
    destruct (verify_step_thresholds l s (step_links sm (s_name s))) as [v|c|p];
      destruct (verify_step_thresholds l' s (step_links sm' (s_name s))) as [v'|c'|p']; simpl in HS; try contradiction.
    - apply IH. apply ainsert_maps_perm; assumption.
    - exact HS.
  Qed.
End Proofs.
