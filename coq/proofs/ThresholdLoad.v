(* ThresholdLoad.v — facts about the link loader (LoadLinksForLayout):
   distinct keys, provenance of the entries, and the completeness argument:
   a file with another name can never produce the map key of an honest file. *)
From IT Require Import spec.ThresholdSpec proofs.ThresholdMaps proofs.ThresholdProofs.

(* ---------------- decode_rune width ---------------- *)

Lemma decode_rune_ascii c s : c < 128 -> decode_rune (c :: s) = (c, 1%nat).
Proof. intro H. unfold decode_rune. apply N.ltb_lt in H. rewrite H. reflexivity. Qed.

Lemma decode_rune_width_pos c s : (1 <= snd (decode_rune (c :: s)))%nat.
Proof.
  unfold decode_rune.
  repeat match goal with
         | |- context [if ?b then _ else _] => destruct b
         | |- context [match ?l with [] => _ | _ :: _ => _ end] => destruct l
         end; simpl; lia.
Qed.

Lemma skip_char_ascii c s : c < 128 -> skip_char (c :: s) = s.
Proof. intro H. unfold skip_char. rewrite decode_rune_ascii by assumption. reflexivity. Qed.

(* ---------------- the eight question marks ---------------- *)

Definition ascii_ok (c : N) : Prop := c < 128 /\ c <> 47.

Lemma skip_qmarks_ascii n : forall a rest,
  length a = n -> Forall ascii_ok a -> skip_qmarks n (a ++ rest) = Some rest.
Proof.
  induction n as [|n IH]; intros a rest Hl Hf.
  - destruct a; [reflexivity | discriminate].
  - destruct a as [|c a]; [discriminate|]. simpl in Hl. injection Hl as Hl'.
    inversion Hf as [|? ? [Hc1 Hc2] Hf']; subst. simpl.
    apply N.eqb_neq in Hc2. rewrite Hc2. rewrite skip_char_ascii by assumption.
    apply IH; [reflexivity | assumption].
Qed.

(* what [skip_qmarks n s = Some r] consumed: a block [a] with s = a ++ r; if [a] is a
   byte prefix of a string whose first n bytes are ASCII, it is exactly those n bytes *)
Lemma skip_qmarks_consumed n : forall s r,
  skip_qmarks n s = Some r ->
  exists a, s = a ++ r /\
    forall k, has_prefix k a = true -> (n <= length k)%nat -> Forall ascii_ok (firstn n k) ->
              a = firstn n k.
Proof.
  induction n as [|n IH]; intros s r H.
  - simpl in H. inversion H; subst. exists []. split; [reflexivity|]. intros; reflexivity.
  - simpl in H. destruct s as [|c s']; [discriminate|].
    destruct (c =? 47) eqn:E47; [discriminate|].
    destruct (IH _ _ H) as [a' [Hs Ha']].
    unfold skip_char in Hs.
    pose proof (decode_rune_width_pos c s') as Hw.
    remember (snd (decode_rune (c :: s'))) as w eqn:Ew.
    exists (firstn w (c :: s') ++ a'). split.
    + rewrite <- app_assoc, <- Hs. symmetry. apply firstn_skipn.
    + intros k Hpre Hlen Hasc.
      destruct w as [|w']; [lia|].
      destruct k as [|k0 k']; [simpl in Hlen; lia|].
      simpl in Hpre. apply andb_true_iff in Hpre as [Hc Hpre]. apply N.eqb_eq in Hc. subst k0.
      simpl in Hasc. inversion Hasc as [|? ? [Hc1 _] Hasc']; subst.
      rewrite decode_rune_ascii in Ew by assumption. simpl in Ew. inversion Ew; subst w'.
      simpl in Hpre. simpl. f_equal.
      apply Ha'; [assumption | simpl in Hlen; lia | assumption].
Qed.

(* ---------------- names ---------------- *)

Lemma ascii_id_first8 kid : ascii_id kid -> length (firstn 8 kid) = 8%nat /\ Forall ascii_ok (firstn 8 kid).
Proof. intros [H1 H2]. split; [apply firstn_length_le; assumption | exact H2]. Qed.

Lemma link_name_matches nm kid : ascii_id kid -> link_file_matches nm (link_name nm kid) = true.
Proof.
  intro H. apply ascii_id_first8 in H as [Hl Hf].
  unfold link_file_matches, link_name.
  replace (nm ++ [46] ++ firstn 8 kid ++ dot_link) with ((nm ++ [46]) ++ firstn 8 kid ++ dot_link)
    by (rewrite <- app_assoc; reflexivity).
  rewrite has_prefix_app, skipn_app_exact.
  rewrite (skip_qmarks_ascii 8 (firstn 8 kid) dot_link Hl Hf). apply str_eqb_refl.
Qed.

Lemma link_name_short nm kid : short_id nm (link_name nm kid) = firstn 8 kid.
Proof.
  unfold short_id, link_name.
  replace (nm ++ [46] ++ firstn 8 kid ++ dot_link) with ((nm ++ [46]) ++ firstn 8 kid ++ dot_link)
    by (rewrite <- app_assoc; reflexivity).
  rewrite trim_prefix_app. apply trim_suffix_app.
Qed.

(* a matching file whose short id is a prefix of an ASCII key id bears that id's link name *)
Lemma matching_name_of_id nm base kid :
  link_file_matches nm base = true -> ascii_id kid ->
  has_prefix kid (short_id nm base) = true ->
  base = link_name nm kid.
Proof.
  unfold link_file_matches. intros Hm [Hlen Hasc] Hpre.
  destruct (has_prefix base (nm ++ [46])) eqn:Ep; [|discriminate].
  apply has_prefix_split in Ep.
  destruct (skip_qmarks 8 (skipn (length (nm ++ [46])) base)) as [rest|] eqn:Eq; [|discriminate].
  apply str_eqb_eq in Hm. subst rest.
  destruct (skip_qmarks_consumed _ _ _ Eq) as [a [Hs Ha]].
  assert (Hshort : short_id nm base = a).
  { unfold short_id. rewrite Ep at 1. rewrite trim_prefix_app, Hs. apply trim_suffix_app. }
  rewrite Hshort in Hpre. specialize (Ha kid Hpre Hlen Hasc). subst a.
  rewrite Ep, Hs. unfold link_name. rewrite <- app_assoc. reflexivity.
Qed.

(* ---------------- the loader ---------------- *)

Lemma first_sig_prefix sigs short kid :
  first_sig_with_prefix sigs short = Some kid -> has_prefix kid short = true.
Proof.
  induction sigs as [|s r IH]; simpl; [discriminate|].
  destruct (has_prefix (sg_keyid s) short) eqn:E; intro H; [inversion H; subst; assumption | auto].
Qed.

Lemma first_sig_in sigs short kid :
  first_sig_with_prefix sigs short = Some kid -> exists s, In s sigs /\ sg_keyid s = kid.
Proof.
  induction sigs as [|s r IH]; simpl; [discriminate|].
  destruct (has_prefix (sg_keyid s) short); intro H.
  - inversion H. exists s. auto.
  - destruct (IH H) as [s' [H1 H2]]. exists s'. auto.
Qed.

(* what one file does to the map *)
Inductive file_effect (nm : str) (f : str * option env) : option (str * env) -> Prop :=
| fe_skip : (link_file_matches nm (fst f) = false \/ snd f = None \/
             exists e, snd f = Some e /\ first_sig_with_prefix (env_sigs e) (short_id nm (fst f)) = None) ->
            file_effect nm f None
| fe_put e kid : link_file_matches nm (fst f) = true -> snd f = Some e ->
            first_sig_with_prefix (env_sigs e) (short_id nm (fst f)) = Some kid ->
            file_effect nm f (Some (kid, e)).

Lemma load_file_effect nm m f :
  exists eff, file_effect nm f eff /\
    load_file nm m f = match eff with None => m | Some (kid, e) => ainsert m kid e end.
Proof.
  unfold load_file.
  destruct (link_file_matches nm (fst f)) eqn:Em.
  2:{ exists None. split; [constructor; auto | reflexivity]. }
  destruct (snd f) as [e|] eqn:Es.
  2:{ exists None. split; [constructor; auto | reflexivity]. }
  destruct (first_sig_with_prefix (env_sigs e) (short_id nm (fst f))) as [kid|] eqn:Ef.
  - exists (Some (kid, e)). split; [econstructor; eauto | reflexivity].
  - exists None. split; [constructor; right; right; eauto | reflexivity].
Qed.

Lemma load_fold_nodup nm files : forall acc,
  NoDup (akeys acc) -> NoDup (akeys (fold_left (load_file nm) files acc)).
Proof.
  induction files as [|f files IH]; intros acc H; simpl; [assumption|].
  apply IH. destruct (load_file_effect nm acc f) as [[[kid e]|] [_ ->]]; [apply ainsert_nodup|]; assumption.
Qed.

(* the loaded map of a step has distinct keys (it is a Go map) *)
Lemma load_name_wf nm files : map_wf (load_name nm files).
Proof. apply load_fold_nodup. constructor. Qed.

(* provenance: every loaded entry comes from a matching, parsable file whose first
   signature with the file's short id as prefix has the entry's key id *)
Definition loaded_from (nm : str) (files : list (str * option env)) (kid : str) (e : env) : Prop :=
  exists base, In (base, Some e) files /\ link_file_matches nm base = true /\
               first_sig_with_prefix (env_sigs e) (short_id nm base) = Some kid.

Lemma load_fold_provenance nm files : forall acc kid e,
  In (kid, e) (fold_left (load_file nm) files acc) ->
  In (kid, e) acc \/ loaded_from nm files kid e.
Proof.
  induction files as [|f files IH]; intros acc kid e H; simpl in H; [left; assumption|].
  destruct (IH _ _ _ H) as [Hacc | [base [H1 [H2 H3]]]].
  2:{ right. exists base. split; [right; assumption | split; assumption]. }
  destruct (load_file_effect nm acc f) as [[[kid' e']|] [Heff Heq]]; rewrite Heq in Hacc.
  2:{ left; assumption. }
  destruct (str_eq_dec kid kid') as [->|Hne].
  - (* the entry for kid' is the one just written or an older one *)
    destruct (in_dec str_eq_dec kid' (akeys acc)) as [Hin|Hnin].
    + assert (Hl : alookup (ainsert acc kid' e') kid' = Some e') by apply alookup_ainsert_same.
      (* In (kid', e) (ainsert acc kid' e') -> e = e' or it was in acc *)
      clear -Hacc Heff. inversion Heff as [|e0 k0 Hm Hs Hf]; subst.
      revert Hacc. induction acc as [|[k v] acc IHa]; simpl.
      * intros [Hx|[]]. inversion Hx; subst. right. exists (fst f). destruct f as [b o]; simpl in *; subst.
        split; [left; reflexivity | split; assumption].
      * destruct (str_eqb kid' k) eqn:E.
        -- intros [Hx|Hx].
           ++ inversion Hx; subst. right. exists (fst f). destruct f as [b o]; simpl in *; subst.
              split; [left; reflexivity | split; assumption].
           ++ left. right. assumption.
        -- intros [Hx|Hx]; [left; left; assumption|].
           destruct (IHa Hx) as [Hl|Hr]; [left; right; assumption | right; assumption].
    + rewrite ainsert_fresh in Hacc by assumption. apply in_app_or in Hacc as [Hacc|[Hx|[]]]; [left; assumption|].
      inversion Hx; subst. inversion Heff as [|e0 k0 Hm Hs Hf]; subst.
      right. exists (fst f). destruct f as [b o]; simpl in *; subst. split; [left; reflexivity | split; assumption].
  - left. clear -Hacc Hne. induction acc as [|[k v] acc IHa]; simpl in Hacc.
    + destruct Hacc as [Hx|[]]. inversion Hx; congruence.
    + destruct (str_eqb kid' k) eqn:E.
      * destruct Hacc as [Hx|Hx]; [inversion Hx; subst; apply str_eqb_eq in E; congruence | right; assumption].
      * destruct Hacc as [Hx|Hx]; [left; assumption | right; apply IHa; assumption].
Qed.

Lemma load_name_provenance nm files kid e :
  In (kid, e) (load_name nm files) -> loaded_from nm files kid e.
Proof. intro H. apply load_fold_provenance in H as [[]|H]. exact H. Qed.

(* an envelope without signatures is never loaded, whatever its file is called *)
Lemma unsigned_never_loaded nm files kid e :
  env_sigs e = [] -> ~ In (kid, e) (load_name nm files).
Proof.
  intros Hs Hin. apply load_name_provenance in Hin as [base [_ [_ H]]]. rewrite Hs in H. discriminate.
Qed.

(* a loaded entry's key id is the key id of one of the link's signatures and
   extends the short id of its file name *)
Lemma loaded_key_is_signature_id nm files kid e :
  In (kid, e) (load_name nm files) -> exists s, In s (env_sigs e) /\ sg_keyid s = kid.
Proof. intro H. apply load_name_provenance in H as [base [_ [_ H]]]. eapply first_sig_in. eassumption. Qed.

(* ---------------- completeness ---------------- *)

(* the honest file keeps its entry: only a file of the same name could write to its key *)
Lemma load_fold_keeps nm kid e : forall files acc,
  ascii_id kid ->
  ~ In (link_name nm kid) (map fst files) ->
  alookup acc kid = Some e ->
  alookup (fold_left (load_file nm) files acc) kid = Some e.
Proof.
  induction files as [|f files IH]; intros acc Hid Hni Hl; simpl; [assumption|].
  simpl in Hni. apply IH; [assumption | tauto |].
  destruct (load_file_effect nm acc f) as [[[kid' e']|] [Heff ->]]; [|assumption].
  inversion Heff as [|e0 k0 Hm Hs Hf]; subst.
  destruct (str_eq_dec kid kid') as [<-|Hne].
  - exfalso. apply Hni. left. apply matching_name_of_id; [assumption | assumption |].
    eapply first_sig_prefix. eassumption.
  - rewrite alookup_ainsert_other by assumption. assumption.
Qed.

Lemma load_fold_honest nm kid e : forall files acc,
  NoDup (map fst files) -> ascii_id kid ->
  In (link_name nm kid, Some e) files ->
  first_sig_with_prefix (env_sigs e) (firstn 8 kid) = Some kid ->
  alookup (fold_left (load_file nm) files acc) kid = Some e.
Proof.
  induction files as [|f files IH]; intros acc Hnd Hid Hin Hf; [destruct Hin|].
  simpl. simpl in Hnd. inversion Hnd as [|? ? Hni Hnd']; subst.
  destruct Hin as [->|Hin].
  - simpl in Hni. apply load_fold_keeps; [assumption | assumption |].
    unfold load_file. simpl. rewrite link_name_matches by assumption.
    rewrite link_name_short, Hf. apply alookup_ainsert_same.
  - apply IH; assumption.
Qed.

Section Complete.
  Variable vsig : env -> key -> bool.
  Variable get_cert : signature -> option key.
  Variable cc_ok : step -> key -> bool.

  Lemma honest_loaded l st files h :
    NoDup (map fst files) -> honest_file vsig get_cert cc_ok l st files h ->
    In h (load_name (s_name st) files).
  Proof.
    intros Hnd [Hid [Hin [Hf _]]]. destruct h as [kid e]. simpl in *.
    apply alookup_In. apply load_fold_honest; assumption.
  Qed.

  Lemma incl_length_keys {V} (hs m : amap V) :
    NoDup (akeys hs) -> (forall h, In h hs -> In h m) -> (length hs <= length m)%nat.
  Proof.
    intros Hnd Hincl. unfold akeys in Hnd.
    rewrite <- (map_length fst hs), <- (map_length fst m).
    apply NoDup_incl_length; [assumption|].
    intros k Hk. apply in_map_iff in Hk as [h [<- Hh]]. apply in_map. apply Hincl. assumption.
  Qed.

  (* C02_complete, one step *)
  Lemma complete_step l st files hs :
    NoDup (map fst files) -> NoDup (akeys hs) ->
    (forall h, In h hs -> honest_file vsig get_cert cc_ok l st files h) ->
    (zlen hs >= s_threshold st)%Z -> (1 <= length hs)%nat ->
    load_links st files = Ok (load_name (s_name st) files) /\
    exists v, verify_step_thresholds vsig get_cert cc_ok l st (load_name (s_name st) files) = Ok v /\
              forall h, In h hs -> In h v.
  Proof.
    intros Hnd Hhs Hh Ht H1.
    assert (Hloaded : forall h, In h hs -> In h (load_name (s_name st) files)).
    { intros h Hin. eapply honest_loaded; [assumption | apply Hh; assumption]. }
    assert (Hver : forall h, In h hs ->
              In h (verified_links vsig get_cert cc_ok l st (load_name (s_name st) files))).
    { intros [kid e] Hin. apply counted_entry_iff; [apply load_name_wf|].
      split; [apply Hloaded; assumption|]. destruct (Hh _ Hin) as [_ [_ [_ Ha]]]. exact Ha. }
    pose proof (incl_length_keys _ _ Hhs Hloaded) as Hl1.
    pose proof (incl_length_keys _ _ Hhs Hver) as Hl2.
    split.
    - unfold load_links. replace (zlen (load_name (s_name st) files) <? s_threshold st)%Z with false; [reflexivity|].
      symmetry. apply Z.ltb_ge. unfold zlen in *. lia.
    - eexists. split; [apply verify_step_complete; unfold zlen in *; lia | assumption].
  Qed.

  (* ---- whole layout ---- *)

  Lemma load_steps_ok files : forall steps acc,
    (forall st, In st steps -> (zlen (load_name (s_name st) files) >= s_threshold st)%Z) ->
    exists sm, load_steps steps files acc = Ok sm /\
      (forall nm, In nm (map s_name steps) -> alookup sm nm = Some (load_name nm files)) /\
      (forall nm, ~ In nm (map s_name steps) -> alookup sm nm = alookup acc nm).
  Proof.
    induction steps as [|s steps IH]; intros acc Hall; simpl.
    - exists acc. split; [reflexivity | split; [intros nm [] | reflexivity]].
    - unfold load_links.
      replace (zlen (load_name (s_name s) files) <? s_threshold s)%Z with false
        by (symmetry; apply Z.ltb_ge; specialize (Hall s (or_introl eq_refl)); lia).
      destruct (IH (ainsert acc (s_name s) (load_name (s_name s) files))) as [sm [Hsm [Hin Hout]]].
      { intros st Hst. apply Hall. right; assumption. }
      exists sm. split; [assumption | split].
      + intros nm [<-|Hnm].
        * destruct (in_dec str_eq_dec (s_name s) (map s_name steps)) as [Hi|Hni]; [apply Hin; assumption|].
          rewrite Hout by assumption. apply alookup_ainsert_same.
        * apply Hin. assumption.
      + intros nm Hni. simpl in Hni. rewrite Hout by tauto. apply alookup_ainsert_other.
        intro Heq. apply Hni. left. symmetry. exact Heq.
  Qed.

  Lemma verify_steps_ok l sm : forall steps acc,
    (forall st, In st steps -> exists v, verify_step_thresholds vsig get_cert cc_ok l st (step_links sm (s_name st)) = Ok v) ->
    exists r, verify_steps vsig get_cert cc_ok l steps sm acc = Ok r.
  Proof.
    induction steps as [|s steps IH]; intros acc Hall; simpl; [eexists; reflexivity|].
    destruct (Hall s (or_introl eq_refl)) as [v ->].
    apply IH. intros st Hst. apply Hall. right; assumption.
  Qed.

  (* every entry of a successfully loaded map is the loaded map of that name *)
  Lemma load_steps_entries files : forall steps acc sm,
    load_steps steps files acc = Ok sm ->
    forall nm m, alookup sm nm = Some m -> alookup acc nm = Some m \/ m = load_name nm files.
  Proof.
    induction steps as [|s steps IH]; intros acc sm H nm m Hl; simpl in H.
    - inversion H; subst. left; assumption.
    - destruct (load_links s files) as [ms|c|p] eqn:E; try discriminate.
      destruct (IH _ _ H _ _ Hl) as [Hacc|Hm]; [|right; assumption].
      destruct (str_eq_dec nm (s_name s)) as [->|Hne].
      + rewrite alookup_ainsert_same in Hacc. inversion Hacc; subst. right.
        unfold load_links in E. destruct (_ <? _)%Z; [discriminate | inversion E; reflexivity].
      + rewrite alookup_ainsert_other in Hacc by assumption. left; assumption.
  Qed.

  Lemma load_all_wf l files sm :
    load_all l files = Ok sm -> forall nm m, alookup sm nm = Some m -> map_wf m.
  Proof.
    intros H nm m Hl. destruct (load_steps_entries _ _ _ _ H _ _ Hl) as [Hx| ->]; [discriminate|].
    apply load_name_wf.
  Qed.

  (* C02_complete, whole layout *)
  Lemma complete_layout l files :
    NoDup (map fst files) ->
    (forall st, In st (l_steps l) -> exists hs,
        NoDup (akeys hs) /\
        (forall h, In h hs -> honest_file vsig get_cert cc_ok l st files h) /\
        (zlen hs >= s_threshold st)%Z /\ (1 <= length hs)%nat) ->
    exists sm r, load_all l files = Ok sm /\ verify_thresholds vsig get_cert cc_ok l sm = Ok r.
  Proof.
    intros Hnd Hall.
    destruct (load_steps_ok files (l_steps l) []) as [sm [Hsm [Hin _]]].
    { intros st Hst. destruct (Hall st Hst) as [hs [H1 [H2 [H3 H4]]]].
      destruct (complete_step l st files hs Hnd H1 H2 H3 H4) as [Hload _].
      unfold load_links in Hload. destruct (_ <? _)%Z eqn:E; [discriminate|]. apply Z.ltb_ge in E. lia. }
    destruct (verify_steps_ok l sm (l_steps l) []) as [r Hr].
    { intros st Hst. destruct (Hall st Hst) as [hs [H1 [H2 [H3 H4]]]].
      destruct (complete_step l st files hs Hnd H1 H2 H3 H4) as [_ [v [Hv _]]].
      exists v. unfold step_links. rewrite Hin by (apply in_map; assumption). assumption. }
    exists sm, r. split; assumption.
  Qed.
End Complete.
