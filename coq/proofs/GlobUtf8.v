(* GlobUtf8.v — every pattern that is valid UTF-8 satisfies [pattern_aligned]:
   its literal bytes >= 128 come in whole characters (the parser never separates the
   bytes of a well-formed character: metacharacters are ASCII, an escape takes the first
   byte of a character and the rest follows as literals, classes consume whole characters). *)
From IT Require Import spec.GlobSpec proofs.GlobDecode proofs.GlobParse proofs.GlobProofs.
Arguments decode_rune : simpl never.
Arguments p_esc : simpl never.
Arguments parse_pattern : simpl never.

Lemma utf8_valid_f_enough : forall f1 f2 s, (length s <= f1)%nat -> (length s <= f2)%nat ->
  utf8_valid_f f1 s = utf8_valid_f f2 s.
Proof.
  induction f1 as [|f1 IH]; intros f2 s H1 H2.
  { destruct s; [destruct f2; reflexivity|simpl in H1; lia]. }
  destruct s as [|c s']; [destruct f2; reflexivity|].
  destruct f2 as [|f2]; [simpl in H2; lia|].
  cbn [utf8_valid_f].
  pose proof (decode_width (c :: s') ltac:(discriminate)) as W.
  destruct (decode_rune (c :: s')) as [r n]. cbn [snd] in W.
  destruct ((r =? rune_error) && Nat.eqb n 1); [reflexivity|].
  apply IH; rewrite skipn_length; cbn [length] in *; lia.
Qed.

Lemma utf8_valid_cons : forall c s',
  utf8_valid (c :: s') =
    let (r, n) := decode_rune (c :: s') in
    if (r =? rune_error) && Nat.eqb n 1 then false else utf8_valid (skipn n (c :: s')).
Proof.
  intros c s'. unfold utf8_valid at 1. cbn [length utf8_valid_f].
  pose proof (decode_width (c :: s') ltac:(discriminate)) as W.
  destruct (decode_rune (c :: s')) as [r n]. cbn [snd] in W.
  destruct ((r =? rune_error) && Nat.eqb n 1); [reflexivity|].
  apply utf8_valid_f_enough; rewrite skipn_length; cbn [length] in *; lia.
Qed.

Lemma utf8_valid_ascii_cons : forall c s, c <? 128 = true -> utf8_valid (c :: s) = utf8_valid s.
Proof.
  intros c s H. rewrite utf8_valid_cons, decode_ascii by assumption.
  assert (E : c =? rune_error = false).
  { apply N.eqb_neq. apply N.ltb_lt in H. unfold rune_error. lia. }
  rewrite E. reflexivity.
Qed.

(* a character that starts with a byte >= 128 *)
Lemma utf8_valid_high : forall b0 s1, b0 <? 128 = false -> utf8_valid (b0 :: s1) = true ->
  (exists b1 q, s1 = b1 :: q /\ valid2 b0 b1 = true /\ utf8_valid q = true) \/
  (exists b1 b2 q, s1 = b1 :: b2 :: q /\ valid3 b0 b1 b2 = true /\ utf8_valid q = true) \/
  (exists b1 b2 b3 q, s1 = b1 :: b2 :: b3 :: q /\ valid4 b0 b1 b2 b3 = true /\ utf8_valid q = true).
Proof.
  intros b0 s1 E0 H. rewrite utf8_valid_cons in H. unfold decode_rune in H. rewrite E0 in H.
  assert (Herr : (if (rune_error =? rune_error) && Nat.eqb 1 1 then false
                  else utf8_valid (skipn 1 (b0 :: s1))) = true -> False) by (cbn; discriminate).
  destruct (in_rng 194 223 b0) eqn:E2.
  { destruct s1 as [|b1 q]; [exfalso; exact (Herr H)|].
    destruct (is_cont b1) eqn:C1; [|exfalso; exact (Herr H)].
    left. exists b1, q. split; [reflexivity|]. split; [unfold valid2; rewrite E2, C1; reflexivity|].
    destruct ((_ =? rune_error) && Nat.eqb 2 1); [discriminate|exact H]. }
  destruct (in_rng 224 239 b0) eqn:E3.
  { destruct s1 as [|b1 [|b2 q]]; try (exfalso; exact (Herr H)).
    destruct (in_rng (if b0 =? 224 then 160 else 128) (if b0 =? 237 then 159 else 191) b1 && is_cont b2) eqn:C;
      [|exfalso; exact (Herr H)].
    right; left. exists b1, b2, q. split; [reflexivity|].
    split; [unfold valid3; rewrite E3; exact C|].
    destruct ((_ =? rune_error) && Nat.eqb 3 1); [discriminate|exact H]. }
  destruct (in_rng 240 244 b0) eqn:E4.
  { destruct s1 as [|b1 [|b2 [|b3 q]]]; try (exfalso; exact (Herr H)).
    destruct (in_rng (if b0 =? 240 then 144 else 128) (if b0 =? 244 then 143 else 191) b1 && is_cont b2 && is_cont b3) eqn:C;
      [|exfalso; exact (Herr H)].
    right; right. exists b1, b2, b3, q. split; [reflexivity|].
    split; [unfold valid4; rewrite E4; exact C|].
    destruct ((_ =? rune_error) && Nat.eqb 4 1); [discriminate|exact H]. }
  exfalso; exact (Herr H).
Qed.

Lemma parse_high : forall b q, b <? 128 = false ->
  parse_pattern (b :: q) = option_map (cons (ILit b)) (parse_pattern q).
Proof.
  intros b q H. apply N.ltb_ge in H. rewrite parse_pattern_cons.
  assert (E1 : b =? 42 = false) by (apply N.eqb_neq; lia).
  assert (E2 : b =? 63 = false) by (apply N.eqb_neq; lia).
  assert (E3 : b =? 92 = false) by (apply N.eqb_neq; lia).
  assert (E4 : b =? 91 = false) by (apply N.eqb_neq; lia).
  rewrite E1, E2, E3, E4. reflexivity.
Qed.

Lemma cont_not_ascii : forall b, is_cont b = true -> b <? 128 = false.
Proof. intros b H. apply is_cont_high in H. apply N.ltb_ge. assumption. Qed.

Lemma rng_not_ascii : forall lo hi b, 128 <= lo -> in_rng lo hi b = true -> b <? 128 = false.
Proof. exact not_ascii_of_rng. Qed.

(* the literal items produced by one character that begins with a byte >= 128 *)
Lemma high_run : forall b0 s1, b0 <? 128 = false -> utf8_valid (b0 :: s1) = true ->
  exists q, (length q < length s1)%nat /\ utf8_valid q = true /\
    forall is1, parse_pattern s1 = Some is1 ->
      exists iq, parse_pattern q = Some iq /\ lits_aligned (ILit b0 :: is1) = lits_aligned iq.
Proof.
  intros b0 s1 E0 H.
  destruct (utf8_valid_high b0 s1 E0 H) as [(b1 & q & -> & V & Hq)|[(b1 & b2 & q & -> & V & Hq)|(b1 & b2 & b3 & q & -> & V & Hq)]];
    exists q; (split; [simpl; lia|]); (split; [assumption|]); intros is1 Hp.
  - pose proof V as V'. unfold valid2 in V'. apply andb_true_iff in V' as [_ C1].
    rewrite (parse_high b1 q (cont_not_ascii _ C1)) in Hp.
    destruct (parse_pattern q) as [iq|]; cbn [option_map] in Hp; [|discriminate]. inversion Hp; subst.
    exists iq. split; [reflexivity|]. cbn [lits_aligned]. rewrite E0, V. reflexivity.
  - pose proof V as V'. unfold valid3 in V'.
    apply andb_true_iff in V' as [V' C2]. apply andb_true_iff in V' as [R0 R1].
    assert (N1 : b1 <? 128 = false).
    { apply in_rng_ge in R1. apply N.ltb_ge. destruct (b0 =? 224); lia. }
    rewrite (parse_high b1 _ N1), (parse_high b2 q (cont_not_ascii _ C2)) in Hp.
    destruct (parse_pattern q) as [iq|]; cbn [option_map] in Hp; [|discriminate]. inversion Hp; subst.
    exists iq. split; [reflexivity|]. cbn [lits_aligned]. rewrite E0.
    assert (V2 : valid2 b0 b1 = false).
    { unfold valid2. rewrite (in_rng_disj 194 223 224 239 b0 ltac:(lia) R0). reflexivity. }
    rewrite V2, V. reflexivity.
  - pose proof V as V'. unfold valid4 in V'.
    apply andb_true_iff in V' as [V' C3]. apply andb_true_iff in V' as [V' C2]. apply andb_true_iff in V' as [R0 R1].
    assert (N1 : b1 <? 128 = false).
    { apply in_rng_ge in R1. apply N.ltb_ge. destruct (b0 =? 240); lia. }
    rewrite (parse_high b1 _ N1), (parse_high b2 _ (cont_not_ascii _ C2)), (parse_high b3 q (cont_not_ascii _ C3)) in Hp.
    destruct (parse_pattern q) as [iq|]; cbn [option_map] in Hp; [|discriminate]. inversion Hp; subst.
    exists iq. split; [reflexivity|]. cbn [lits_aligned]. rewrite E0.
    assert (V2 : valid2 b0 b1 = false).
    { unfold valid2. rewrite (in_rng_disj 194 223 240 244 b0 ltac:(lia) R0). reflexivity. }
    assert (V3 : valid3 b0 b1 b2 = false).
    { unfold valid3. rewrite (in_rng_disj 224 239 240 244 b0 ltac:(lia) R0). reflexivity. }
    rewrite V2, V3, V. reflexivity.
Qed.

(* classes consume whole characters *)
Lemma p_esc_valid : forall q lo q1, utf8_valid q = true -> p_esc q = Some (lo, q1) -> utf8_valid q1 = true.
Proof.
  intros q lo q1 Hv H. unfold p_esc in H. destruct q as [|c rest]; [discriminate|].
  destruct ((c =? 45) || (c =? 93)); [discriminate|].
  assert (Hq0 : forall q0, q0 <> [] -> utf8_valid q0 = true ->
           (let (r, n) := decode_rune q0 in
            if (r =? rune_error) && Nat.eqb n 1 then None else Some (r, skipn n q0)) = Some (lo, q1) ->
           utf8_valid q1 = true).
  { intros [|d q0'] Hne Hv0 H0; [congruence|]. rewrite utf8_valid_cons in Hv0.
    destruct (decode_rune (d :: q0')) as [r n].
    destruct ((r =? rune_error) && Nat.eqb n 1); [discriminate|]. inversion H0; subst. assumption. }
  destruct (c =? 92) eqn:E92.
  - apply N.eqb_eq in E92. subst c. rewrite utf8_valid_ascii_cons in Hv by reflexivity.
    destruct rest as [|d r']; [discriminate|]. apply (Hq0 (d :: r')); [discriminate|exact Hv|exact H].
  - apply (Hq0 (c :: rest)); [discriminate|exact Hv|exact H].
Qed.

Lemma p_ranges_valid : forall f q acc rs rest, utf8_valid q = true ->
  p_ranges f q acc = Some (rs, rest) -> utf8_valid rest = true.
Proof.
  induction f as [|f IH]; intros q acc rs rest Hv H; [discriminate|].
  rewrite p_ranges_S in H. destruct q as [|c q']; [discriminate|].
  destruct ((c =? 93) && negb (is_nil acc)) eqn:Ecl.
  { apply andb_true_iff in Ecl as [E93 _]. apply N.eqb_eq in E93. subst c.
    rewrite utf8_valid_ascii_cons in Hv by reflexivity. inversion H; subst. assumption. }
  destruct (p_esc (c :: q')) as [[lo q1]|] eqn:E1; [|discriminate].
  pose proof (p_esc_valid _ _ _ Hv E1) as Hv1.
  destruct q1 as [|d q2]; [discriminate|].
  destruct (d =? 45) eqn:E45.
  - apply N.eqb_eq in E45. subst d. rewrite utf8_valid_ascii_cons in Hv1 by reflexivity.
    destruct (p_esc q2) as [[hi q3]|] eqn:E2; [|discriminate].
    pose proof (p_esc_valid _ _ _ Hv1 E2) as Hv3. eapply IH; eassumption.
  - eapply IH; eassumption.
Qed.

Lemma class_body_valid : forall p', utf8_valid p' = true -> utf8_valid (class_body p') = true.
Proof.
  intros p' H. unfold class_body, class_neg. destruct p' as [|d p'']; [assumption|].
  destruct (d =? 94) eqn:E; [|assumption]. apply N.eqb_eq in E. subst d.
  rewrite utf8_valid_ascii_cons in H by reflexivity. assumption.
Qed.

Lemma utf8_items_aligned : forall p, utf8_valid p = true ->
  forall items, parse_pattern p = Some items -> lits_aligned items = true.
Proof.
  induction p as [p IH] using list_len_ind. intros Hv items Hp.
  destruct p as [|c p'].
  { rewrite parse_pattern_nil in Hp. inversion Hp. reflexivity. }
  destruct (c <? 128) eqn:Ec.
  2:{ (* a multi-byte character as literal text *)
      rewrite (parse_high c p' Ec) in Hp.
      destruct (parse_pattern p') as [is1|] eqn:Hp1; [|discriminate]. inversion Hp; subst.
      destruct (high_run c p' Ec Hv) as (q & Hl & Hvq & Hrun).
      destruct (Hrun is1 Hp1) as (iq & Hpq & ->).
      eapply IH; [|exact Hvq|exact Hpq]. simpl; lia. }
  rewrite utf8_valid_ascii_cons in Hv by assumption.
  rewrite parse_pattern_cons in Hp.
  assert (Hstep : forall it q, (length q < length (c :: p'))%nat -> utf8_valid q = true ->
            (forall is, lits_aligned (it :: is) = lits_aligned is) ->
            option_map (cons it) (parse_pattern q) = Some items -> lits_aligned items = true).
  { intros it q Hl Hvq Hit H. destruct (parse_pattern q) as [is|] eqn:Eq; [|discriminate].
    inversion H; subst. rewrite Hit. eapply IH; eauto. }
  destruct (c =? 42).
  { apply (Hstep IStar p'); [simpl; lia|assumption|reflexivity|exact Hp]. }
  destruct (c =? 63).
  { apply (Hstep IAny p'); [simpl; lia|assumption|reflexivity|exact Hp]. }
  destruct (c =? 92).
  { destruct p' as [|d p'']; [discriminate|].
    destruct (d <? 128) eqn:Ed.
    - rewrite utf8_valid_ascii_cons in Hv by assumption.
      apply (Hstep (ILit d) p''); [simpl; lia|assumption| |exact Hp].
      intros is. cbn [lits_aligned]. rewrite Ed. reflexivity.
    - destruct (parse_pattern p'') as [is1|] eqn:Hp1; [|discriminate]. inversion Hp; subst.
      destruct (high_run d p'' Ed Hv) as (q & Hl & Hvq & Hrun).
      destruct (Hrun is1 Hp1) as (iq & Hpq & ->).
      eapply IH; [|exact Hvq|exact Hpq]. simpl; lia. }
  destruct (c =? 91).
  { destruct (pr (class_body p') []) as [[rs rest]|] eqn:Ep; [|discriminate].
    pose proof (p_ranges_shrink _ _ _ _ _ Ep) as Hsh. pose proof (class_body_length p') as Hbl.
    pose proof (p_ranges_valid _ _ _ _ _ (class_body_valid p' Hv) Ep) as Hvr.
    apply (Hstep (IClass (class_neg p') rs) rest); [simpl; lia|assumption|reflexivity|exact Hp]. }
  apply (Hstep (ILit c) p'); [simpl; lia|assumption| |exact Hp].
  intros is. cbn [lits_aligned]. rewrite Ec. reflexivity.
Qed.

Theorem utf8_pattern_aligned : forall p, utf8_valid p = true -> pattern_aligned p = true.
Proof.
  intros p Hv. unfold pattern_aligned. destruct (parse_pattern p) as [items|] eqn:Hp; [|reflexivity].
  eapply utf8_items_aligned; eassumption.
Qed.

Theorem gmatch_spec_utf8 : forall p n, utf8_valid p = true -> gmatch p n = spec_match p n.
Proof. intros. apply gmatch_spec_aligned. apply utf8_pattern_aligned. assumption. Qed.
