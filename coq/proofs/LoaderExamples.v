(* LoaderExamples.v — concrete, non-trivial instances of the hypotheses of the C12 theorems. *)
From IT Require Import spec.LoaderSpec gen.Consts proofs.LoaderRoundtrip.

Ltac wf_solve :=
  repeat match goal with
         | |- _ /\ _ => split
         | |- _ = _ => reflexivity
         | |- exists _, _ => eexists
         | |- _ \/ _ => first [left; reflexivity | right]
         | |- NoDup _ => constructor
         | |- ~ In _ _ => (simpl; intuition discriminate)
         | |- Forall _ _ => constructor
         | |- _ <> _ => discriminate
         | |- True => exact I
         | |- _ => progress cbn
         end.

Definition g_strs (l : list String.string) : gv := GSlice (map (fun s => GStr (bs s)) l) [].

Definition ex_key : gv :=
  GStruct [(bs "keyid", GStr (bs "ab12")); (bs "keyid_hash_algorithms", g_strs ["sha256"; "sha512"]%string);
           (bs "keytype", GStr (bs "ed25519"));
           (bs "keyval", GStruct [(bs "private", GStr []); (bs "public", GStr (bs "00ff")); (bs "certificate", GStr [])]);
           (bs "scheme", GStr (bs "ed25519"))].

Definition ex_step : gv :=
  GStruct [(bs "_type", GStr (bs "step")); (bs "pubkeys", g_strs ["ab12"]%string);
           (bs "cert_constraints", GSlice [] []);          (* empty, omitempty: comes back as nil *)
           (bs "expected_command", GNil); (bs "threshold", GInt 1%Z); (bs "name", GStr (bs "build"));
           (bs "expected_materials", GSlice [g_strs ["ALLOW"; "*"]%string] []);
           (bs "expected_products", GSlice [] [])].

Definition ex_layout : gpayload :=
  GLayout (GStruct [(bs "_type", GStr (bs "layout")); (bs "steps", GSlice [ex_step] []); (bs "inspect", GNil);
                    (bs "keys", GMap [(bs "ab12", ex_key)]); (bs "rootcas", GMap []); (bs "intermediatecas", GNil);
                    (bs "expires", GStr (bs "2030-01-02T03:04:05Z")); (bs "readme", GStr [])]).

Definition ex_link : gpayload :=
  GLink (GStruct [(bs "_type", GStr (bs "link")); (bs "name", GStr (bs "build"));
                  (bs "materials", GMap [(bs "b.c", GMap [(bs "sha256", GStr (bs "00"))]); (bs "a.c", GMap [(bs "sha256", GStr (bs "11"))])]);
                  (bs "products", GNil);
                  (bs "byproducts", GMap [(bs "return-value", GAny (Some (JNum 0%Z))); (bs "stderr", GAny None)]);
                  (bs "command", g_strs ["cc"; "-o"]%string); (bs "environment", GMap [])]).

Definition ex_sigs : list gv :=
  [GStruct [(bs "keyid", GStr (bs "ab12")); (bs "sig", GStr (bs "cafe")); (bs "cert", GStr [])]].
Definition ex_dsigs : list gv :=
  [GStruct [(bs "keyid", GStr (bs "ab12")); (bs "sig", GStr (bs "cafe"))]].

Lemma ex_layout_wf : wf_payload ex_layout.
Proof. split; [|reflexivity]. simpl. wf_solve. Qed.
Lemma ex_link_wf : wf_payload ex_link.
Proof. split; [|reflexivity]. simpl. wf_solve. Qed.
Lemma ex_sigs_wf : Forall (wf sh_sig) ex_sigs.
Proof. simpl. wf_solve. Qed.
Lemma ex_dsigs_wf : Forall (wf sh_dsig) ex_dsigs.
Proof. simpl. wf_solve. Qed.

(* the file with the members of every object in reverse order *)
Section JrevMembers.
  Variable f : jv -> jv.
  Fixpoint jrev_members (m : list (str * jv)) : list (str * jv) :=
    match m with [] => [] | (k, v) :: m' => (k, f v) :: jrev_members m' end.
End JrevMembers.

Fixpoint jrev (j : jv) : jv :=
  match j with
  | JArr l => JArr (map jrev l)
  | JObj m => JObj (rev ((fix go (m : list (str * jv)) : list (str * jv) :=
                            match m with [] => [] | (k, v) :: m' => (k, jrev v) :: go m' end) m))
  | _ => j
  end.

Lemma jrev_obj m : jrev (JObj m) = JObj (rev (jrev_members jrev m)).
Proof. reflexivity. Qed.

Lemma jperm_jrev : forall j, jperm j (jrev j).
Proof.
  induction j as [ |b|z|lit|s|l IH|m IH] using LoaderLemmas.jv_ind'; try constructor.
  - simpl. induction IH; simpl; constructor; assumption.
  - rewrite jrev_obj. apply jp_obj with (m' := jrev_members jrev m); [|apply Permutation_rev].
    induction IH as [|[k x] m Hx _ IHm]; simpl; constructor; [split; [reflexivity | assumption] | assumption].
Qed.

(* a codec: the payload string is a fixed name, read back as the tree with every object reversed *)
Definition ex_enc (t : jv) : str := bs "cGF5bG9hZA==".
Definition ex_b64 (p : gpayload) (s : str) : option jv :=
  if str_eqb s (bs "cGF5bG9hZA==") then Some (jrev (encode (payload_shape p) (payload_val p))) else None.

Lemma ex_codec_ok p : codec_ok_at (ex_b64 p) ex_enc (encode (payload_shape p) (payload_val p)).
Proof. eexists. split; [reflexivity | apply jperm_jrev]. Qed.
