(* CleanArtifactsProofs.v — cleanArtifactPaths (the repaired re-keying of the artifact maps,
   F8): every key of the result is a cleaned recorded name, and the result does not depend
   on the order in which the recorded map is enumerated. *)
From IT Require Import model.Rules proofs.RulesBasics.

Arguments str_eqb : simpl never.

(* ---------- byte order on strings ---------- *)

Lemma str_ltb_irrefl a : str_ltb a a = false.
Proof. induction a as [|x a IH]; simpl; [reflexivity|]. rewrite N.ltb_irrefl, N.eqb_refl. exact IH. Qed.

Lemma str_ltb_asym a b : str_ltb a b = true -> str_ltb b a = false.
Proof.
  revert b; induction a as [|x a IH]; intros [|y b]; simpl; try discriminate; try reflexivity.
  destruct (N.ltb_spec x y) as [Hxy|Hxy].
  - intros _. destruct (N.ltb_spec y x) as [Hyx|Hyx]; [lia|].
    destruct (N.eqb_spec y x) as [E|E]; [lia|reflexivity].
  - destruct (N.eqb_spec x y) as [->|E]; [|discriminate].
    rewrite N.ltb_irrefl, N.eqb_refl. apply IH.
Qed.

Lemma str_ltb_trichotomy a b : str_ltb a b = false -> str_ltb b a = false -> a = b.
Proof.
  revert b; induction a as [|x a IH]; intros [|y b]; simpl; try discriminate; try reflexivity.
  destruct (N.ltb_spec x y) as [Hxy|Hxy]; [discriminate|].
  destruct (N.eqb_spec x y) as [->|E].
  - rewrite N.ltb_irrefl, N.eqb_refl. intros H1 H2. f_equal. apply IH; assumption.
  - intros _. destruct (N.ltb_spec y x) as [Hyx|Hyx]; [discriminate|]. lia.
Qed.

Lemma str_ltb_trans a b c : str_ltb a b = true -> str_ltb b c = true -> str_ltb a c = true.
Proof.
  revert b c; induction a as [|x a IH]; intros [|y b] [|z c]; simpl; try discriminate; try reflexivity.
  destruct (N.ltb_spec x y) as [Hxy|Hxy].
  - intros _. destruct (N.ltb_spec y z) as [Hyz|Hyz].
    + intros _. destruct (N.ltb_spec x z); [reflexivity|lia].
    + destruct (N.eqb_spec y z) as [->|E]; [|discriminate]. intros _.
      destruct (N.ltb_spec x z); [reflexivity|lia].
  - destruct (N.eqb_spec x y) as [->|E]; [|discriminate]. intro H1.
    destruct (N.ltb_spec y z) as [Hyz|Hyz]; [reflexivity|].
    destruct (N.eqb_spec y z) as [->|E]; [|discriminate]. apply IH, H1.
Qed.

Lemma str_leb_total a b : str_leb a b = false -> str_leb b a = true.
Proof.
  unfold str_leb. rewrite negb_false_iff, negb_true_iff. apply str_ltb_asym.
Qed.

Lemma str_leb_antisym a b : str_leb a b = true -> str_leb b a = true -> a = b.
Proof. unfold str_leb. rewrite !negb_true_iff. intros H1 H2. apply str_ltb_trichotomy; assumption. Qed.

Lemma str_leb_trans a b c : str_leb a b = true -> str_leb b c = true -> str_leb a c = true.
Proof.
  unfold str_leb. rewrite !negb_true_iff. intros H1 H2.
  destruct (str_ltb c a) eqn:E; [|reflexivity]. exfalso.
  destruct (str_ltb b c) eqn:E2.
  - rewrite (str_ltb_trans _ _ _ E2 E) in H1. discriminate.
  - assert (b = c) by (apply str_ltb_trichotomy; assumption). subst. congruence.
Qed.

(* ---------- insertion sort does not depend on the order of its input ---------- *)

Lemma sinsert_comm x y l : sinsert x (sinsert y l) = sinsert y (sinsert x l).
Proof.
  induction l as [|z l IH]; simpl.
  - destruct (str_leb x y) eqn:Exy, (str_leb y x) eqn:Eyx; try reflexivity.
    + rewrite (str_leb_antisym _ _ Exy Eyx). reflexivity.
    + apply str_leb_total in Exy. congruence.
  - destruct (str_leb y z) eqn:Eyz, (str_leb x z) eqn:Exz; simpl.
    + destruct (str_leb x y) eqn:Exy, (str_leb y x) eqn:Eyx; rewrite ?Exz, ?Eyz; try reflexivity.
      * rewrite (str_leb_antisym _ _ Exy Eyx). reflexivity.
      * apply str_leb_total in Exy. congruence.
    + rewrite Eyz. destruct (str_leb x y) eqn:Exy.
      * rewrite (str_leb_trans _ _ _ Exy Eyz) in Exz. discriminate.
      * rewrite Exz. reflexivity.
    + rewrite Exz. destruct (str_leb y x) eqn:Eyx.
      * rewrite (str_leb_trans _ _ _ Eyx Exz) in Eyz. discriminate.
      * rewrite Eyz. reflexivity.
    + rewrite Exz, Eyz, IH. reflexivity.
Qed.

Lemma ssort_perm_eq l l' : Permutation l l' -> ssort l = ssort l'.
Proof.
  unfold ssort. induction 1 as [|x l l' _ IH|x y l|l l' l'' _ IH1 _ IH2]; simpl.
  - reflexivity.
  - rewrite IH. reflexivity.
  - apply sinsert_comm.
  - congruence.
Qed.

(* ---------- cleanArtifactPaths ---------- *)

Lemma alookup_perm_nodup {V} (m m' : amap V) k :
  NoDup (akeys m) -> Permutation m m' -> alookup m k = alookup m' k.
Proof.
  intros Hnd Hp. assert (Hnd' : NoDup (akeys m')).
  { eapply Permutation_NoDup; [|exact Hnd]. apply Permutation_map, Hp. }
  destruct (alookup m k) as [v|] eqn:E.
  - symmetry. apply In_alookup_NoDup; [exact Hnd'|]. eapply Permutation_in; [exact Hp|].
    apply alookup_Some_In, E.
  - symmetry. apply alookup_None_keys. intro Hin. apply alookup_None_keys in E. apply E.
    eapply Permutation_in; [|exact Hin]. apply Permutation_map. symmetry. exact Hp.
Qed.

Theorem clean_artifact_paths_perm (a a' : artifacts) :
  NoDup (akeys a) -> Permutation a a' -> clean_artifact_paths a = clean_artifact_paths a'.
Proof.
  intros Hnd Hp. unfold clean_artifact_paths.
  rewrite (ssort_perm_eq (akeys a) (akeys a')) by (apply Permutation_map, Hp).
  generalize (@nil (str * hashobj)) as acc. induction (ssort (akeys a')) as [|x l IH]; intro acc; [reflexivity|].
  simpl. rewrite (alookup_perm_nodup a a' x Hnd Hp). apply IH.
Qed.

(* every binding of the result comes from a recorded name that cleans to its key *)
Theorem clean_artifact_paths_sound (a : artifacts) k h :
  alookup (clean_artifact_paths a) k = Some h ->
  exists name, In name (akeys a) /\ go_clean name = k /\ alookup a name = Some h.
Proof.
  unfold clean_artifact_paths.
  assert (G : forall l acc, (forall x, In x l -> In x (akeys a)) ->
            alookup (fold_left (fun acc name => match alookup a name with
                                                | Some h => ainsert acc (go_clean name) h
                                                | None => acc end) l acc) k = Some h ->
            alookup acc k = Some h \/
            exists name, In name (akeys a) /\ go_clean name = k /\ alookup a name = Some h).
  { induction l as [|x l IH]; intros acc Hl H; [left; exact H|]. simpl in H.
    apply IH in H; [|intros y Hy; apply Hl; right; exact Hy].
    destruct H as [H|H]; [|right; exact H].
    destruct (alookup a x) as [hx|] eqn:Ex; [|left; exact H].
    rewrite alookup_ainsert in H. destruct (str_eqb_spec k (go_clean x)) as [->|Hne]; [|left; exact H].
    inversion H; subst. right. exists x. split; [apply Hl; left; reflexivity|]. auto. }
  intro H. apply G in H; [|intros x Hx; apply ssort_In, Hx].
  destruct H as [H|H]; [discriminate | exact H].
Qed.

(* and every recorded name is represented under its cleaned key *)
Theorem clean_artifact_paths_complete (a : artifacts) name :
  In name (akeys a) -> alookup (clean_artifact_paths a) (go_clean name) <> None.
Proof.
  unfold clean_artifact_paths. intro Hin.
  assert (G : forall l acc, (In name l \/ alookup acc (go_clean name) <> None) ->
            (forall x, In x l -> In x (akeys a)) ->
            alookup (fold_left (fun acc name => match alookup a name with
                                                | Some h => ainsert acc (go_clean name) h
                                                | None => acc end) l acc) (go_clean name) <> None).
  { induction l as [|x l IH]; intros acc H Hl; simpl.
    - destruct H as [[]|H]; exact H.
    - apply IH; [|intros y Hy; apply Hl; right; exact Hy].
      destruct H as [[->|H]|H]; [right | left; exact H | right].
      + destruct (alookup a name) as [hx|] eqn:Ex.
        * rewrite alookup_ainsert, str_eqb_refl. discriminate.
        * exfalso. apply alookup_None_keys in Ex. apply Ex, Hl. left. reflexivity.
      + destruct (alookup a x) as [hx|]; [|exact H]. rewrite alookup_ainsert.
        destruct (str_eqb (go_clean name) (go_clean x)); [discriminate | exact H]. }
  apply G; [left; apply ssort_In, Hin | intros x Hx; apply ssort_In, Hx].
Qed.
