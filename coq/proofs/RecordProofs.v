(* RecordProofs.v — the walk of model/Record.v against spec/RecordSpec.v. *)
From IT Require Import spec.RecordSpec proofs.RecordFS.
From IT Require Import gen.Consts.

Local Arguments N.eqb : simpl never.

(* ------------------------------------------------------------------ *)
(* association lists                                                    *)
(* ------------------------------------------------------------------ *)

Lemma ahas_In {V} (m : amap V) k : ahas m k = true <-> In k (akeys m).
Proof.
  unfold ahas, akeys. induction m as [|[k' v] m IH]; simpl; [split; [discriminate | tauto]|].
  destruct (str_eqb k k') eqn:E.
  - apply str_eqb_eq in E. subst. split; auto.
  - rewrite IH. apply str_eqb_neq in E. split; [auto | intros [E' | Hi]; [congruence | exact Hi]].
Qed.

Lemma ahas_false_not_In {V} (m : amap V) k : ahas m k = false -> ~ In k (akeys m).
Proof. intros Hf Hi. apply ahas_In in Hi. congruence. Qed.

Lemma ainsert_absent {V} (m : amap V) k v : ahas m k = false -> ainsert m k v = m ++ [(k, v)].
Proof.
  unfold ahas. induction m as [|[k' v'] m IH]; simpl; intro Ha; [reflexivity|].
  destruct (str_eqb k k'); [discriminate|]. rewrite (IH Ha). reflexivity.
Qed.

Lemma akeys_ainsert {V} (m : amap V) k v :
  akeys (ainsert m k v) = if ahas m k then akeys m else akeys m ++ [k].
Proof.
  unfold ahas, akeys. induction m as [|[k' v'] m IH]; simpl; [reflexivity|].
  destruct (str_eqb k k') eqn:E; simpl; [reflexivity|].
  rewrite IH. destruct (alookup m k); reflexivity.
Qed.

Lemma akeys_app {V} (a b : amap V) : akeys (a ++ b) = akeys a ++ akeys b.
Proof. unfold akeys. apply map_app. Qed.

Lemma NoDup_snoc {A} (l : list A) x : NoDup l -> ~ In x l -> NoDup (l ++ [x]).
Proof.
  induction l as [|y l IH]; simpl; intros Hn Hx; [constructor; [tauto | constructor]|].
  inversion Hn as [|? ? Hy Hn']; subst. constructor.
  - rewrite in_app_iff. simpl. intros [Hi | [E | []]]; [tauto | subst; tauto].
  - apply IH; tauto.
Qed.

Lemma NoDup_ainsert {V} (m : amap V) k v : NoDup (akeys m) -> NoDup (akeys (ainsert m k v)).
Proof.
  intro Hn. rewrite akeys_ainsert. destruct (ahas m k) eqn:E; [exact Hn|].
  apply NoDup_snoc; [exact Hn | apply ahas_false_not_In, E].
Qed.

Lemma In_akeys_ainsert {V} (m : amap V) k v k' : In k' (akeys (ainsert m k v)) <-> k' = k \/ In k' (akeys m).
Proof.
  rewrite akeys_ainsert. destruct (ahas m k) eqn:E.
  - apply ahas_In in E. split; [tauto | intros [-> | Hi]; assumption].
  - rewrite in_app_iff. simpl. split; [intros [Hi | [<- | []]]; auto | intros [-> | Hi]; auto].
Qed.

Lemma alookup_ainsert {V} (m : amap V) k v k' :
  alookup (ainsert m k v) k' = if str_eqb k' k then Some v else alookup m k'.
Proof.
  induction m as [|[k0 v0] m IH]; simpl.
  - destruct (str_eqb k' k); reflexivity.
  - destruct (str_eqb k k0) eqn:E; simpl.
    + apply str_eqb_eq in E. subst k0. destruct (str_eqb k' k); reflexivity.
    + destruct (str_eqb k' k0) eqn:E2.
      * apply str_eqb_eq in E2. subst k0.
        destruct (str_eqb k' k) eqn:E3; [|reflexivity].
        apply str_eqb_eq in E3. subst. rewrite str_eqb_refl in E. discriminate.
      * exact IH.
Qed.

(* rebuilding a map with distinct keys gives the same list *)
Lemma fold_ainsert_nodup {V} (l acc : amap V) :
  NoDup (akeys (acc ++ l)) ->
  fold_left (fun a kv => ainsert a (fst kv) (snd kv)) l acc = acc ++ l.
Proof.
  revert acc; induction l as [|[k v] l IH]; intros acc Hn; simpl; [rewrite app_nil_r; reflexivity|].
  assert (Ha : ahas acc k = false).
  { destruct (ahas acc k) eqn:E; [|reflexivity]. exfalso. apply ahas_In in E.
    rewrite akeys_app in Hn. simpl in Hn. apply NoDup_remove_2 in Hn. apply Hn. apply in_or_app. auto. }
  rewrite (ainsert_absent _ _ _ Ha). rewrite IH; rewrite <- app_assoc; [reflexivity | exact Hn].
Qed.

(* ------------------------------------------------------------------ *)
(* sets of visited links                                                *)
(* ------------------------------------------------------------------ *)

Lemma sremove_notin s x : ~ In x s -> sremove s x = s.
Proof.
  unfold sremove. induction s as [|y s IH]; simpl; intro Hn; [reflexivity|].
  destruct (str_eqb y x) eqn:E.
  - apply str_eqb_eq in E. subst. tauto.
  - simpl. rewrite IH; tauto.
Qed.

Lemma sremove_sadd s x : mem x s = false -> sremove (sadd s x) x = s.
Proof.
  intro Hm. unfold sadd. rewrite Hm. unfold sremove. rewrite filter_app. simpl. rewrite str_eqb_refl. simpl.
  rewrite app_nil_r. apply sremove_notin. apply mem_false_not_In, Hm.
Qed.

Lemma In_sadd s x y : In y (sadd s x) <-> y = x \/ In y s.
Proof.
  unfold sadd. destruct (mem x s) eqn:E.
  - apply mem_In in E. split; [tauto | intros [-> | Hi]; assumption].
  - rewrite in_app_iff. simpl. split; [intros [Hi | [<- | []]]; auto | intros [-> | Hi]; auto].
Qed.

(* ------------------------------------------------------------------ *)
(* line endings, strip                                                  *)
(* ------------------------------------------------------------------ *)

Lemma normalise_spec s : normalise s = norm_spec s.
Proof.
  unfold normalise.
  assert (Hgen : forall n s, (length s <= n)%nat -> replace_cr (replace_crlf s) = norm_spec s).
  { induction n as [|n IH]; intros [|c t] Hlen; try reflexivity; [inversion Hlen|].
    simpl in Hlen. apply le_S_n in Hlen.
    cbn [replace_crlf norm_spec]. destruct t as [|d t'].
    - simpl. destruct (N.eqb c 13); reflexivity.
    - destruct (N.eqb c 13) eqn:Ec; cbn [andb].
      + destruct (N.eqb d 10) eqn:Ed.
        * cbn [replace_cr map]. change (10 =? 13) with false. cbv iota.
          f_equal. apply IH. simpl in Hlen. apply Nat.lt_le_incl, Hlen.
        * cbn [replace_cr map]. rewrite Ec. f_equal. apply (IH (d :: t')), Hlen.
      + cbn [replace_cr map]. rewrite Ec. f_equal. apply (IH (d :: t')), Hlen. }
  apply (Hgen (length s)). apply le_n.
Qed.

Lemma lstrip_stripped strips l : stripped strips l (lstrip strips l).
Proof.
  induction strips as [|s strips IH]; simpl; [constructor|].
  destruct (has_prefix l s) eqn:E.
  - apply Strip_here. unfold trim_prefix. rewrite E. apply has_prefix_split, E.
  - apply Strip_next; assumption.
Qed.

Lemma stripped_fun strips l k : stripped strips l k -> k = lstrip strips l.
Proof.
  induction 1 as [l | s strips l k E | s strips l k Hp _ IH]; simpl.
  - reflexivity.
  - subst l. rewrite has_prefix_app, trim_prefix_app. reflexivity.
  - rewrite Hp. exact IH.
Qed.

(* ------------------------------------------------------------------ *)
(* the walk                                                             *)
(* ------------------------------------------------------------------ *)

Section Proofs.
  Variable ignored : list str -> str -> bool.
  Variable H : str -> str -> str.
  Variable perm : artifacts -> artifacts.
  Hypothesis perm_ok : forall a, Permutation (perm a) a.
  Variable root : node.
  Hypothesis Hroot : wf_root root = true.
  Variables (algs pats : list str) (norm follow : bool).

  Let Hwf : wf_node root = true := wf_root_node root Hroot.

  Notation walkF := (walk ignored H perm root algs pats norm follow).
  Notation recF := (record_fuel ignored H perm root algs pats norm follow).
  Notation yieldsF := (yields ignored root pats follow).
  Notation hitsF := (hits ignored root pats follow).
  Notation targetF := (link_target root).

  Definition state := (artifacts * list str)%type.

  (* ---------- hashing ---------- *)

  Definition hash_list (l : list str) (b : str) (acc : hashobj) : hashobj :=
    fold_left (fun acc a => ainsert acc a (H a b)) l acc.

  Definition supported (l : list str) : bool := forallb (fun a => mem a t_getHashMapping) l.

  Lemma hash_loop_ok l b acc h :
    hash_loop H l b acc = Ok h -> h = hash_list l b acc /\ supported l = true.
  Proof.
    revert acc; induction l as [|a l IH]; intros acc; cbn [hash_loop hash_list fold_left supported forallb].
    - intro E; inversion E; auto.
    - destruct (mem a t_getHashMapping); [|discriminate]. intro E. apply IH in E. exact E.
  Qed.

  Lemma hash_loop_err l b acc e : hash_loop H l b acc = Err e -> e = E_hash.
  Proof.
    revert acc; induction l as [|a l IH]; intros acc; cbn [hash_loop]; [discriminate|].
    destruct (mem a t_getHashMapping); [apply IH | intro E; inversion E; reflexivity].
  Qed.

  Lemma hash_loop_no_panic l b acc s : hash_loop H l b acc <> Panic s.
  Proof.
    revert acc; induction l as [|a l IH]; intros acc; cbn [hash_loop]; [discriminate|].
    destruct (mem a t_getHashMapping); [apply IH | discriminate].
  Qed.

  Lemma hash_list_inv l b : forall acc done,
    NoDup (akeys acc) -> (forall a, In a (akeys acc) <-> In a done) ->
    (forall a, In a done -> alookup acc a = Some (H a b)) ->
    let h := hash_list l b acc in
    NoDup (akeys h) /\ (forall a, In a (akeys h) <-> In a (done ++ l)) /\
    (forall a, In a (done ++ l) -> alookup h a = Some (H a b)).
  Proof.
    induction l as [|x l IH]; intros acc done Hn Hk Hv; simpl.
    - rewrite app_nil_r. auto.
    - replace (done ++ x :: l) with ((done ++ [x]) ++ l) by (rewrite <- app_assoc; reflexivity).
      apply IH.
      + apply NoDup_ainsert, Hn.
      + intro a. rewrite In_akeys_ainsert, in_app_iff, Hk. simpl.
        split; [intros [-> | Hi]; auto | intros [Hi | [<- | []]]; auto].
      + intros a Ha. rewrite alookup_ainsert. destruct (str_eqb a x) eqn:E.
        * apply str_eqb_eq in E. subst. reflexivity.
        * apply Hv. apply in_app_iff in Ha. destruct Ha as [Ha | [E' | []]]; [exact Ha|].
          subst. rewrite str_eqb_refl in E. discriminate.
  Qed.

  Definition hashes (c : str) : hashobj := hash_list algs (if norm then normalise c else c) [].

  Lemma hashes_digests_ok c : digests_ok H algs (hashes c) (hashed_bytes norm c).
  Proof.
    unfold hashes, hashed_bytes, digests_ok. rewrite <- normalise_spec.
    apply (hash_list_inv algs (if norm then normalise c else c) [] []); simpl; [constructor | tauto | tauto].
  Qed.

  Lemma record_artifact_ok c r h :
    record_artifact H algs norm c r = Ok h -> r = true /\ h = hashes c /\ supported algs = true.
  Proof.
    unfold record_artifact. destruct r; simpl; [|discriminate].
    intro E. apply hash_loop_ok in E. tauto.
  Qed.

  (* ---------- adding entries ---------- *)

  Lemma add_artifact_ok arts k v arts' :
    add_artifact arts k v = Ok arts' -> ~ In k (akeys arts) /\ arts' = arts ++ [(k, v)].
  Proof.
    unfold add_artifact. destruct (ahas arts k) eqn:E; [discriminate|].
    intro E'; inversion E'; subst. split; [apply ahas_false_not_In, E | apply ainsert_absent, E].
  Qed.

  Lemma add_artifact_nodup arts k v arts' :
    add_artifact arts k v = Ok arts' -> NoDup (akeys arts) -> NoDup (akeys arts').
  Proof.
    intros E Hn. apply add_artifact_ok in E as [Hk ->]. rewrite akeys_app. simpl. apply NoDup_snoc; assumption.
  Qed.

  Definition rekey (path evalSym : str) (isdir : bool) (strips : list str) (kv : str * hashobj) : str * hashobj :=
    (lstrip strips (if isdir then fp_join path (trim_prefix (fst kv) evalSym) else path), snd kv).

  Lemma merge_sym_ok path evalSym isdir strips evs : forall arts arts',
    merge_sym path evalSym isdir strips evs arts = Ok arts' ->
    arts' = arts ++ map (rekey path evalSym isdir strips) evs /\ (NoDup (akeys arts) -> NoDup (akeys arts')).
  Proof.
    induction evs as [|[key value] evs IH]; intros arts arts'; simpl.
    - intro E; inversion E. rewrite app_nil_r. auto.
    - destruct (add_artifact arts _ value) as [a1| |] eqn:E1; simpl; try discriminate.
      intro E. apply IH in E as [-> Hn]. pose proof (add_artifact_nodup _ _ _ _ E1) as Hn1.
      apply add_artifact_ok in E1 as [_ ->].
      split; [rewrite <- app_assoc; reflexivity | auto].
  Qed.

  Lemma merge_sym_err path evalSym isdir strips evs : forall arts e,
    merge_sym path evalSym isdir strips evs arts = Err e -> e = E_dup.
  Proof.
    induction evs as [|[key value] evs IH]; intros arts e; simpl; [discriminate|].
    unfold add_artifact at 1. destruct (ahas arts _); simpl; [intro E; inversion E; reflexivity | apply IH].
  Qed.

  (* ---------- the loop over directory entries, named ---------- *)

  Section Basic.
    Variable recurse : str -> list str -> res state.
    Variable strips : list str.

    Fixpoint walk_entries (path : str) (es : list (str * node)) (st : state) : res state :=
      match es with
      | [] => Ok st
      | (name, ch) :: es' => do st' <- walkF recurse strips (fp_join path name) ch st; walk_entries path es' st'
      end.

    Lemma walk_dir path es st : walkF recurse strips path (Dir es) st = walk_entries path es st.
    Proof. revert st; induction es as [|[name ch] es IH]; intro st; [reflexivity|]. cbn [walk walk_entries].
      destruct (walkF recurse strips (fp_join path name) ch st); simpl; [apply IH | reflexivity | reflexivity].
    Qed.

    Lemma walk_file path c r st :
      walkF recurse strips path (File c r) st =
      if ignored pats path then Ok st else visit_file H algs norm strips path c r st.
    Proof. reflexivity. Qed.

    Lemma walk_link path t st :
      walkF recurse strips path (Symlink t) st =
      if ignored pats path then Ok st else visit_symlink perm root follow recurse strips path st.
    Proof. reflexivity. Qed.

    (* what a successful visit of a link did *)
    Lemma visit_symlink_ok path st st' :
      visit_symlink perm root follow recurse strips path st = Ok st' ->
      mem path (snd st) = false /\
      exists p' n', realpath root path = Ok p' /\ lookup root p' = Some n' /\ is_symlink n' = false /\
        ((is_dir n' = true /\ follow = false /\ st' = st) \/
         ((is_dir n' = true -> follow = true) /\
          exists r arts',
            recurse (render p') (sadd (snd st) path) = Ok r /\
            merge_sym path (render p') (is_dir n') strips (perm (fst r)) (fst st) = Ok arts' /\
            st' = (arts', sremove (snd r) path))).
    Proof.
      intros Hv. unfold visit_symlink in Hv.
      destruct (mem path (snd st)) eqn:Hm; [discriminate|]. split; [reflexivity|].
      unfold eval_symlinks in Hv.
      destruct (realpath root path) as [p'| |] eqn:Hrp; simpl in Hv; try discriminate.
      destruct (realpath_sound _ _ _ Hroot Hrp) as (n' & Hn' & Hns).
      rewrite (stat_physical _ _ _ Hwf Hn' Hns) in Hv. simpl in Hv.
      exists p', n'. split; [reflexivity|]. split; [exact Hn'|]. split; [exact Hns|].
      destruct (is_dir n') eqn:Hd; simpl in Hv.
      - destruct follow eqn:Hf; simpl in Hv.
        + right. split; [reflexivity|].
          destruct (recurse (render p') (sadd (snd st) path)) as [r| |] eqn:Hr; simpl in Hv; try discriminate.
          destruct (merge_sym _ _ _ _ _ _) as [arts'| |] eqn:Hmg; simpl in Hv; try discriminate.
          inversion Hv; subst. eauto.
        + left. inversion Hv; subst. auto.
      - right. split; [discriminate|].
        destruct (recurse (render p') (sadd (snd st) path)) as [r| |] eqn:Hr; simpl in Hv; try discriminate.
        destruct (merge_sym _ _ _ _ _ _) as [arts'| |] eqn:Hmg; simpl in Hv; try discriminate.
        inversion Hv; subst. eauto.
    Qed.

    (* the visited set is restored, keys stay distinct *)
    Hypothesis recurse_vis : forall e v r, recurse e v = Ok r -> snd r = v.

    Lemma walk_basic n : forall path st st',
      walkF recurse strips path n st = Ok st' ->
      snd st' = snd st /\ (NoDup (akeys (fst st)) -> NoDup (akeys (fst st'))).
    Proof.
      induction n as [c r | t | es IHes] using node_ind'; intros path st st' Hw.
      - rewrite walk_file in Hw. destruct (ignored pats path); [inversion Hw; auto|].
        unfold visit_file in Hw.
        destruct (record_artifact H algs norm c r) as [h| |]; simpl in Hw; try discriminate.
        destruct (add_artifact (fst st) _ h) as [a| |] eqn:Ea; simpl in Hw; try discriminate.
        inversion Hw; subst. simpl. split; [reflexivity | eapply add_artifact_nodup; eassumption].
      - rewrite walk_link in Hw. destruct (ignored pats path); [inversion Hw; auto|].
        destruct (visit_symlink_ok _ _ _ Hw) as (Hm & p' & n' & _ & _ & _ & [(_ & _ & ->) | (_ & r & arts' & Hr & Hmg & ->)]); [auto|].
        simpl. rewrite (recurse_vis _ _ _ Hr). split; [apply sremove_sadd, Hm|].
        apply merge_sym_ok in Hmg. tauto.
      - rewrite walk_dir in Hw. revert st Hw.
        induction es as [|[name ch] es IHsub]; intros st Hw.
        + inversion Hw; auto.
        + cbn [walk_entries] in Hw.
          destruct (walkF recurse strips (fp_join path name) ch st) as [st1| |] eqn:E1; simpl in Hw; try discriminate.
          inversion IHes as [|? ? IHch IHrest]; subst. simpl in IHch.
          destruct (IHch _ _ _ E1) as [Hv1 Hn1].
          destruct (IHsub IHrest st1 Hw) as [Hv2 Hn2].
          split; [congruence | auto].
    Qed.

    (* every entry of a directory is walked, with the same visited set *)
    Lemma walk_entries_In path es : forall st st',
      walk_entries path es st = Ok st' ->
      forall name ch, In (name, ch) es ->
      exists st1 st2, snd st1 = snd st /\ walkF recurse strips (fp_join path name) ch st1 = Ok st2.
    Proof.
      induction es as [|[k c] es IH]; intros st st' Hw name ch Hin; [destruct Hin|].
      cbn [walk_entries] in Hw.
      destruct (walkF recurse strips (fp_join path k) c st) as [st1| |] eqn:E1; simpl in Hw; try discriminate.
      destruct Hin as [E | Hin].
      - inversion E; subst. exists st, st1. auto.
      - destruct (IH _ _ Hw _ _ Hin) as (sa & sb & Hs & Hwk). exists sa, sb. split; [|exact Hwk].
        rewrite Hs. apply (walk_basic c _ _ _ E1).
    Qed.
  End Basic.

  (* ---------- recordArtifacts, by fuel ---------- *)

  Fixpoint paths_loop (recurse : str -> list str -> res state) (strips ps : list str) (st : state) : res state :=
    match ps with
    | [] => Ok st
    | p :: rest => do n <- lstat root p; do st' <- walkF recurse strips p n st; paths_loop recurse strips rest st'
    end.

  Definition rec (f : nat) : str -> list str -> res state := fun e v => recF f [e] [] v.

  Lemma record_fuel_S f paths strips v : recF (S f) paths strips v = paths_loop (rec f) strips paths ([], v).
  Proof.
    cbn [record_fuel]. generalize (@nil (str * hashobj), v) as st.
    induction paths as [|a paths IH]; intro st; [reflexivity|]. cbn [paths_loop].
    destruct (lstat root a) as [n| |]; simpl; try reflexivity.
    destruct (walkF _ strips a n st) as [st1| |]; simpl; [apply IH | reflexivity | reflexivity].
  Qed.

  Lemma rec_S f e v : rec (S f) e v = do n <- lstat root e; walkF (rec f) [] e n ([], v).
  Proof.
    unfold rec at 1. rewrite record_fuel_S. cbn [paths_loop].
    destruct (lstat root e) as [n| |]; simpl; try reflexivity.
    destruct (walkF (rec f) [] e n ([], v)); reflexivity.
  Qed.

  Lemma rec_vis f : forall e v r, rec f e v = Ok r -> snd r = v.
  Proof.
    induction f as [|f IH]; intros e v r Hr; [discriminate|].
    rewrite rec_S in Hr. destruct (lstat root e) as [n| |]; simpl in Hr; try discriminate.
    apply (walk_basic (rec f) [] IH) in Hr. tauto.
  Qed.

  Lemma paths_loop_basic f strips ps : forall st st',
    paths_loop (rec f) strips ps st = Ok st' ->
    snd st' = snd st /\ (NoDup (akeys (fst st)) -> NoDup (akeys (fst st'))).
  Proof.
    induction ps as [|a ps IH]; intros st st' Hp; [inversion Hp; auto|].
    cbn [paths_loop] in Hp. destruct (lstat root a) as [n| |]; simpl in Hp; try discriminate.
    destruct (walkF (rec f) strips a n st) as [st1| |] eqn:E1; simpl in Hp; try discriminate.
    apply (walk_basic (rec f) strips (rec_vis f)) in E1. apply IH in Hp. destruct E1, Hp. split; [congruence | auto].
  Qed.

  (* ---------- a link met again below itself stops the walk ---------- *)

  Lemma target_of_realpath p p' n' :
    realpath root (render p) = Ok p' -> lookup root p' = Some n' -> targetF p = Some (p', n').
  Proof. intros Hr Hl. unfold link_target. rewrite Hr, Hl. reflexivity. Qed.

  Lemma no_ok_below_visited p n q :
    hitsF p n q ->
    forall f strips st st',
      lookup root p = Some n -> In (render q) (snd st) ->
      walkF (rec f) strips (render p) n st = Ok st' -> False.
  Proof.
    induction 1 as [p t Hig | p es name ch q Hin Hh IH | p t p' n' q Hig Ht Hfo Hh IH];
      intros f strips st st' Hl Hv Hw.
    - rewrite walk_link, Hig in Hw. apply visit_symlink_ok in Hw as [Hm _].
      apply mem_In in Hv. congruence.
    - rewrite walk_dir in Hw.
      destruct (walk_entries_In (rec f) strips (rec_vis f) _ _ _ _ Hw _ _ Hin) as (s1 & s2 & Hs & Hwk).
      destruct (lookup_child _ _ _ _ _ Hwf Hl Hin) as [Hlc Hg].
      destruct (lookup_wf _ _ _ Hwf Hl) as [_ Hc].
      rewrite (fp_join_child _ _ Hc Hg) in Hwk.
      apply (IH f strips s1 s2 Hlc); [rewrite Hs; exact Hv | exact Hwk].
    - rewrite walk_link, Hig in Hw.
      destruct (visit_symlink_ok _ _ _ _ _ Hw) as (Hm & p2 & n2 & Hrp & Hl2 & Hns & Hcase).
      rewrite (target_of_realpath _ _ _ Hrp Hl2) in Ht. inversion Ht; subst p2 n2.
      destruct Hcase as [(Hd & Hf & _) | (_ & r & arts' & Hr & _ & _)]; [rewrite (Hfo Hd) in Hf; discriminate|].
      destruct f as [|f]; [discriminate|]. rewrite rec_S in Hr.
      rewrite (lstat_physical _ _ _ Hwf Hl2) in Hr. simpl in Hr.
      destruct (walkF (rec f) [] (render p') n' ([], sadd (snd st) (render p))) as [r'| |] eqn:Hw'; try discriminate.
      apply (IH f [] _ _ Hl2) in Hw'; [exact Hw'|].
      simpl. apply In_sadd. right. exact Hv.
  Qed.

  (* ---------- the recorded entries ---------- *)

  Definition item := (list str * str * bool)%type.

  Definition entry (strips : list str) (base : cpath) (x : item) : str * hashobj :=
    (lstrip strips (render (base ++ fst (fst x))), hashes (snd (fst x))).

  Definition good_files (L : list item) : Prop :=
    Forall (fun x : item => snd x = true) L /\ (L <> [] -> supported algs = true).

  Definition walk_post (strips : list str) (p : cpath) (n : node) (st st' : state) : Prop :=
    snd st' = snd st /\
    exists L, (forall x, In x L <-> yieldsF p n x) /\ fst st' = fst st ++ map (entry strips p) L /\ good_files L.

  Definition cons_name (name : str) (x : item) : item := (name :: fst (fst x), snd (fst x), snd x).

  Lemma entry_cons_name strips p name x : entry strips p (cons_name name x) = entry strips (p ++ [name]) x.
  Proof. unfold entry, cons_name. simpl. rewrite <- app_assoc. reflexivity. Qed.

  Lemma good_files_nil : good_files [].
  Proof. split; [constructor | congruence]. Qed.

  Lemma good_files_app name L1 L2 : good_files L1 -> good_files L2 -> good_files (map (cons_name name) L1 ++ L2).
  Proof.
    intros [Ha1 Hs1] [Ha2 Hs2]. split.
    - apply Forall_app. split; [|exact Ha2]. apply Forall_forall. intros x Hx.
      apply in_map_iff in Hx as (y & <- & Hy). rewrite Forall_forall in Ha1. apply (Ha1 _ Hy).
    - intro Hne. destruct L1 as [|a L1]; [apply Hs2; exact Hne | apply Hs1; discriminate].
  Qed.

  Lemma good_files_perm L L' : Permutation L L' -> good_files L -> good_files L'.
  Proof.
    intros Hp [Ha Hs]. split.
    - eapply Permutation_Forall; eassumption.
    - intro Hne. apply Hs. intro E. subst. apply Permutation_nil in Hp. congruence.
  Qed.

  Lemma target_lookup p p' n' : targetF p = Some (p', n') -> lookup root p' = Some n' /\ realpath root (render p) = Ok p'.
  Proof.
    unfold link_target. destruct (realpath root (render p)) as [p2| |]; try discriminate.
    destruct (lookup root p2) as [n2|] eqn:E; [|discriminate]. intro Hx; inversion Hx; subst. auto.
  Qed.

  Lemma yields_canon p n x : yieldsF p n x -> lookup root p = Some n -> canon (fst (fst x)).
  Proof.
    induction 1 as [p c r Hig | p es name ch rel c r Hin Hy IH | p t p' n' x Hig Ht Hfo Hy IH]; intro Hl.
    - reflexivity.
    - destruct (lookup_child _ _ _ _ _ Hwf Hl Hin) as [Hlc Hg]. simpl. apply canon_cons. split; [exact Hg|].
      apply (IH Hlc).
    - apply IH. apply target_lookup in Ht. tauto.
  Qed.

  Lemma hits_of_lookup rel : forall base n t,
    lookup n rel = Some (Symlink t) -> lookup root base = Some n ->
    ignored pats (render (base ++ rel)) = false -> hitsF base n (base ++ rel).
  Proof.
    induction rel as [|c rel IH]; intros base n t Hl Hb Hig.
    - simpl in Hl. inversion Hl; subst. rewrite app_nil_r in *. apply H_here. exact Hig.
    - simpl in Hl. destruct n as [| es |]; try discriminate.
      destruct (find_entry es c) as [ch|] eqn:Hf; [|discriminate].
      apply H_dir with (name := c) (ch := ch); [apply find_entry_In, Hf|].
      replace (base ++ c :: rel) with ((base ++ [c]) ++ rel) in * by (rewrite <- app_assoc; reflexivity).
      apply (IH _ _ t Hl); [eapply lookup_snoc; eassumption | exact Hig].
  Qed.

  Section WalkOk.
    Variable recurse : str -> list str -> res state.
    Variable strips : list str.
    Hypothesis recurse_ok : forall p' n' v r,
      lookup root p' = Some n' -> is_symlink n' = false -> recurse (render p') v = Ok r -> walk_post [] p' n' ([], v) r.
    Hypothesis recurse_cov : forall p' n' v r q,
      lookup root p' = Some n' -> recurse (render p') v = Ok r -> hitsF p' n' q -> In (render q) v -> False.

    Lemma walk_ok n : forall p st st',
      lookup root p = Some n -> walkF recurse strips (render p) n st = Ok st' -> walk_post strips p n st st'.
    Proof.
      induction n as [c r | t | es IHes] using node_ind'; intros p st st' Hl Hw.
      - (* regular file *)
        rewrite walk_file in Hw. destruct (ignored pats (render p)) eqn:Hig.
        + inversion Hw; subst. split; [reflexivity|]. exists []. split; [|split].
          * intro x. split; [intros []|]. intro Hy. inversion Hy; subst. congruence.
          * simpl. rewrite app_nil_r. reflexivity.
          * apply good_files_nil.
        + unfold visit_file in Hw.
          destruct (record_artifact H algs norm c r) as [h| |] eqn:Eh; simpl in Hw; try discriminate.
          destruct (add_artifact (fst st) _ h) as [a| |] eqn:Ea; simpl in Hw; try discriminate.
          inversion Hw; subst. apply record_artifact_ok in Eh as (-> & -> & Hsup).
          apply add_artifact_ok in Ea as [_ ->].
          split; [reflexivity|]. exists [([], c, true)]. split; [|split].
          * intro x. split.
            { intros [<- | []]. apply Y_file, Hig. }
            { intro Hy. inversion Hy; subst. left; reflexivity. }
          * simpl. unfold entry. simpl. rewrite app_nil_r. reflexivity.
          * split; [repeat constructor | intros _; exact Hsup].
      - (* symbolic link *)
        rewrite walk_link in Hw. destruct (ignored pats (render p)) eqn:Hig.
        + inversion Hw; subst. split; [reflexivity|]. exists []. split; [|split].
          * intro x. split; [intros []|]. intro Hy. inversion Hy; subst. congruence.
          * simpl. rewrite app_nil_r. reflexivity.
          * apply good_files_nil.
        + destruct (visit_symlink_ok _ _ _ _ _ Hw) as (Hm & p' & n' & Hrp & Hl' & Hns & Hcase).
          pose proof (target_of_realpath _ _ _ Hrp Hl') as Ht.
          destruct Hcase as [(Hd & Hf & ->) | (Hfo & r & arts' & Hr & Hmg & ->)].
          * (* a directory that is not followed *)
            split; [reflexivity|]. exists []. split; [|split].
            { intro x. split; [intros []|]. intro Hy. inversion Hy as [| |? ? p2 n2 ? ? Ht2 Hfo2 ?]; subst.
              rewrite Ht in Ht2. inversion Ht2; subst. rewrite (Hfo2 Hd) in Hf. discriminate. }
            { simpl. rewrite app_nil_r. reflexivity. }
            { apply good_files_nil. }
          * (* followed *)
            destruct (recurse_ok _ _ _ _ Hl' Hns Hr) as (Hvr & Lin & HLin & Hfst & Hgood).
            simpl in Hvr, Hfst.
            pose proof (perm_ok (fst r)) as Hp. rewrite Hfst in Hp.
            apply Permutation_map_inv in Hp as (L' & HL' & HpermL).
            apply merge_sym_ok in Hmg as [Harts _]. rewrite Hfst, HL', map_map in Harts.
            assert (HinL : forall x, In x L' <-> yieldsF p' n' x).
            { intro x. rewrite <- HLin. split; apply Permutation_in; [apply Permutation_sym|]; exact HpermL. }
            split; [simpl; rewrite Hvr; apply sremove_sadd, Hm|].
            exists L'. split; [|split].
            { intro x. rewrite HinL. split.
              - intro Hy. eapply Y_link; eassumption.
              - intro Hy. inversion Hy as [| |? ? p2 n2 ? ? Ht2 Hfo2 Hy2]; subst.
                rewrite Ht in Ht2. inversion Ht2; subst. exact Hy2. }
            { simpl. rewrite Harts. f_equal. apply map_ext_in. intros x Hx. apply HinL in Hx.
              pose proof (yields_canon _ _ _ Hx Hl') as Hcrel.
              destruct x as [[rel c] rd]. unfold rekey, entry. simpl fst. simpl snd. simpl lstrip at 2.
              f_equal. f_equal.
              destruct (lookup_wf _ _ _ Hwf Hl) as [_ Hcp]. destruct (lookup_wf _ _ _ Hwf Hl') as [_ Hcp'].
              destruct (is_dir n') eqn:Hd.
              - destruct p' as [|a p'].
                + exfalso. apply (recurse_cov _ _ _ _ p Hl' Hr).
                  * simpl in Hl'. inversion Hl'; subst n'.
                    apply (hits_of_lookup p [] root t Hl eq_refl). exact Hig.
                  * apply In_sadd. left. reflexivity.
                + apply fp_join_rekey; [assumption | assumption | exact Hcrel | discriminate].
              - destruct n' as [fc fr | |]; try discriminate.
                inversion Hx; subst. rewrite app_nil_r. reflexivity. }
            { eapply good_files_perm; eassumption. }
      - (* directory *)
        rewrite walk_dir in Hw.
        destruct (lookup_wf _ _ _ Hwf Hl) as [_ Hcp].
        assert (Hloop : forall sub, (forall name ch, In (name, ch) sub -> In (name, ch) es) ->
                  forall st st', walk_entries recurse strips (render p) sub st = Ok st' ->
                  snd st' = snd st /\
                  exists L, (forall x, In x L <-> exists name ch y, In (name, ch) sub /\ x = cons_name name y /\ yieldsF (p ++ [name]) ch y) /\
                            fst st' = fst st ++ map (entry strips p) L /\ good_files L).
        { induction sub as [|[name ch] sub IHsub]; intros Hsub s s' Hs.
          - inversion Hs; subst. split; [reflexivity|]. exists []. split; [|split].
            + intro x. split; [intros [] | intros (? & ? & ? & [] & _)].
            + simpl. rewrite app_nil_r. reflexivity.
            + apply good_files_nil.
          - cbn [walk_entries] in Hs.
            destruct (walkF recurse strips (fp_join (render p) name) ch s) as [s1| |] eqn:E1; simpl in Hs; try discriminate.
            assert (Hin : In (name, ch) es) by (apply Hsub; left; reflexivity).
            destruct (lookup_child _ _ _ _ _ Hwf Hl Hin) as [Hlc Hg].
            rewrite (fp_join_child _ _ Hcp Hg) in E1.
            rewrite Forall_forall in IHes. specialize (IHes _ Hin _ _ _ Hlc E1). simpl in IHes.
            destruct IHes as (Hv1 & L1 & HL1 & Hf1 & Hg1).
            destruct (IHsub (fun a b Hi => Hsub a b (or_intror Hi)) _ _ Hs) as (Hv2 & L2 & HL2 & Hf2 & Hg2).
            split; [congruence|]. exists (map (cons_name name) L1 ++ L2). split; [|split].
            + intro x. rewrite in_app_iff, in_map_iff, HL2. split.
              * intros [(y & <- & Hy) | (nm & c2 & y & Hi & -> & Hy)].
                { exists name, ch, y. split; [left; reflexivity|]. split; [reflexivity|]. apply HL1, Hy. }
                { exists nm, c2, y. split; [right; exact Hi|]. auto. }
              * intros (nm & c2 & y & [E | Hi] & -> & Hy).
                { inversion E; subst. left. exists y. split; [reflexivity|]. apply HL1, Hy. }
                { right. exists nm, c2, y. auto. }
            + rewrite Hf2, Hf1, map_app, map_map, <- app_assoc. f_equal. f_equal.
              apply map_ext. intro y. symmetry. apply entry_cons_name.
            + apply good_files_app; assumption. }
        destruct (Hloop es (fun _ _ Hi => Hi) _ _ Hw) as (Hv & L & HL & Hf & Hg).
        split; [exact Hv|]. exists L. split; [|split]; [|exact Hf|exact Hg].
        intro x. rewrite HL. split.
        + intros (name & ch & [[rel c] rd] & Hin & -> & Hy). unfold cons_name. simpl. eapply Y_dir; eassumption.
        + intro Hy. inversion Hy; subst. eexists _, _, (_, _, _). split; [eassumption|]. split; [reflexivity | eassumption].
    Qed.
  End WalkOk.

  Lemma rec_cov f : forall p' n' v r q,
    lookup root p' = Some n' -> rec f (render p') v = Ok r -> hitsF p' n' q -> In (render q) v -> False.
  Proof.
    intros p' n' v r q Hl Hr Hh Hv. destruct f as [|f]; [discriminate|].
    rewrite rec_S, (lstat_physical _ _ _ Hwf Hl) in Hr. simpl in Hr.
    eapply (no_ok_below_visited _ _ _ Hh f [] ([], v)); eauto.
  Qed.

  Lemma rec_ok f : forall p' n' v r,
    lookup root p' = Some n' -> is_symlink n' = false -> rec f (render p') v = Ok r -> walk_post [] p' n' ([], v) r.
  Proof.
    induction f as [|f IH]; intros p' n' v r Hl Hns Hr; [discriminate|].
    rewrite rec_S, (lstat_physical _ _ _ Hwf Hl) in Hr. simpl in Hr.
    apply (walk_ok (rec f) [] IH (rec_cov f) _ _ _ _ Hl Hr).
  Qed.

  (* ---------- the whole call ---------- *)

  Definition litem := (str * str * bool)%type.          (* name reached by, bytes, readable *)
  Definition lentry (strips : list str) (x : litem) : str * hashobj :=
    (lstrip strips (fst (fst x)), hashes (snd (fst x))).
  Definition to_l (p0 : cpath) (x : item) : litem := (render (p0 ++ fst (fst x)), snd (fst x), snd x).
  Notation recordedF := (recorded ignored root pats follow).
  Definition phys_paths (ps : list str) : Prop := Forall (fun s => exists p n, physical root s p n) ps.

  Lemma physical_fun s p n p2 n2 : physical root s p n -> physical root s p2 n2 -> p2 = p /\ n2 = n.
  Proof.
    intros [E1 L1] [E2 L2]. destruct (lookup_wf _ _ _ Hwf L1) as [_ C1]. destruct (lookup_wf _ _ _ Hwf L2) as [_ C2].
    assert (p2 = p) by (apply render_inj; congruence). subst. split; congruence.
  Qed.

  Lemma paths_loop_ok f strips ps : phys_paths ps -> forall st st',
    paths_loop (rec f) strips ps st = Ok st' ->
    exists L : list litem,
      (forall l c r, In (l, c, r) L <-> recordedF ps l c r) /\
      fst st' = fst st ++ map (lentry strips) L /\
      Forall (fun x : litem => snd x = true) L /\ (L <> [] -> supported algs = true).
  Proof.
    induction ps as [|a ps IH]; intros Hph st st' Hp.
    - inversion Hp; subst. exists []. split; [|split; [|split]].
      + intros l c r. split; [intros [] | intros (? & ? & ? & ? & [] & _)].
      + simpl. rewrite app_nil_r. reflexivity.
      + constructor.
      + congruence.
    - inversion Hph as [|? ? (p0 & n0 & Hphys) Hrest]; subst. pose proof Hphys as [Ea Hl0].
      cbn [paths_loop] in Hp. rewrite Ea, (lstat_physical _ _ _ Hwf Hl0) in Hp. simpl in Hp.
      destruct (walkF (rec f) strips (render p0) n0 st) as [st1| |] eqn:E1; simpl in Hp; try discriminate.
      destruct (walk_ok (rec f) strips (rec_ok f) (rec_cov f) _ _ _ _ Hl0 E1) as (_ & L1 & HL1 & Hf1 & Ha1 & Hs1).
      destruct (IH Hrest _ _ Hp) as (L2 & HL2 & Hf2 & Ha2 & Hs2).
      exists (map (to_l p0) L1 ++ L2). split; [|split; [|split]].
      + intros l c r. rewrite in_app_iff, in_map_iff, HL2. split.
        * intros [([[rel c'] r'] & E & Hy) | Hrec].
          { unfold to_l in E. simpl in E. inversion E; subst l c' r'. exists a, p0, n0, rel.
            split; [left; reflexivity|]. split; [exact Hphys|]. split; [apply HL1, Hy | reflexivity]. }
          { destruct Hrec as (path & p1 & n1 & rel & Hin & Hr). exists path, p1, n1, rel. split; [right; exact Hin | exact Hr]. }
        * intros (path & p1 & n1 & rel & [E | Hin] & Hph1 & Hy & ->).
          { subst path. destruct (physical_fun _ _ _ _ _ Hphys Hph1) as [-> ->].
            left. exists (rel, c, r). split; [reflexivity | apply HL1, Hy]. }
          { right. exists path, p1, n1, rel. auto. }
      + rewrite Hf2, Hf1, map_app, map_map, <- app_assoc. reflexivity.
      + apply Forall_app. split; [|exact Ha2]. apply Forall_forall. intros x Hx.
        apply in_map_iff in Hx as (y & <- & Hy). rewrite Forall_forall in Ha1. apply (Ha1 _ Hy).
      + intro Hne. destruct L1 as [|y L1]; [apply Hs2; exact Hne | apply Hs1; discriminate].
  Qed.

  Lemma record_ok_strong paths strips m :
    phys_paths paths ->
    record_artifacts ignored H perm root algs pats norm follow paths strips = Ok m ->
    exists L : list litem,
      (forall l c r, In (l, c, r) L <-> recordedF paths l c r) /\
      Permutation m (map (lentry strips) L) /\ NoDup (akeys m) /\
      Forall (fun x : litem => snd x = true) L /\ (L <> [] -> supported algs = true).
  Proof.
    intros Hph Hrec. unfold record_artifacts in Hrec.
    destruct (recF (S (count_symlinks root)) paths strips []) as [r| |] eqn:Hr; simpl in Hrec; try discriminate.
    rewrite record_fuel_S in Hr.
    destruct (paths_loop_basic _ _ _ _ _ Hr) as [_ Hnd]. simpl in Hnd. specialize (Hnd (NoDup_nil _)).
    destruct (paths_loop_ok _ _ _ Hph _ _ Hr) as (L & HL & Hf & Ha & Hs). simpl in Hf.
    assert (Hndp : NoDup (akeys (perm (fst r)))).
    { unfold akeys. eapply Permutation_NoDup; [apply Permutation_map, Permutation_sym, perm_ok | exact Hnd]. }
    unfold to_slash in Hrec. rewrite (fold_ainsert_nodup (perm (fst r)) []) in Hrec by exact Hndp.
    simpl in Hrec. inversion Hrec; subst m.
    exists L. split; [exact HL|]. split; [rewrite <- Hf; apply perm_ok|]. auto.
  Qed.

  (* ---------- a real cycle stops the walk ---------- *)

  Notation cycleF := (real_cycle_at ignored root pats follow).

  Lemma cycle_stops p n q :
    hitsF p n q -> cycleF q ->
    forall f strips st st', lookup root p = Some n -> walkF (rec f) strips (render p) n st = Ok st' -> False.
  Proof.
    intros Hh Hcyc. destruct Hcyc as (tq & pq & nq & Hlq & Higq & Htq & Hfoq & Hhq).
    induction Hh as [p t Hig | p es name ch q Hin Hh IH | p t p' n' q Hig Ht Hfo Hh IH];
      intros f strips st st' Hl Hw.
    - rewrite walk_link, Hig in Hw.
      destruct (visit_symlink_ok _ _ _ _ _ Hw) as (Hm & p2 & n2 & Hrp & Hl2 & Hns & Hcase).
      rewrite (target_of_realpath _ _ _ Hrp Hl2) in Htq. inversion Htq; subst p2 n2.
      destruct Hcase as [(Hd & Hf & _) | (_ & r & arts' & Hr & _ & _)]; [rewrite (Hfoq Hd) in Hf; discriminate|].
      apply (rec_cov f _ _ _ _ p Hl2 Hr Hhq). apply In_sadd. left; reflexivity.
    - rewrite walk_dir in Hw.
      destruct (walk_entries_In (rec f) strips (rec_vis f) _ _ _ _ Hw _ _ Hin) as (s1 & s2 & Hs & Hwk).
      destruct (lookup_child _ _ _ _ _ Hwf Hl Hin) as [Hlc Hg].
      destruct (lookup_wf _ _ _ Hwf Hl) as [_ Hc].
      rewrite (fp_join_child _ _ Hc Hg) in Hwk.
      apply (IH Hlq Higq Htq Hhq f strips s1 s2 Hlc Hwk).
    - rewrite walk_link, Hig in Hw.
      destruct (visit_symlink_ok _ _ _ _ _ Hw) as (Hm & p2 & n2 & Hrp & Hl2 & Hns & Hcase).
      rewrite (target_of_realpath _ _ _ Hrp Hl2) in Ht. inversion Ht; subst p2 n2.
      destruct Hcase as [(Hd & Hf & _) | (_ & r & arts' & Hr & _ & _)]; [rewrite (Hfo Hd) in Hf; discriminate|].
      destruct f as [|f]; [discriminate|]. rewrite rec_S in Hr.
      rewrite (lstat_physical _ _ _ Hwf Hl2) in Hr. simpl in Hr.
      destruct (walkF (rec f) [] (render p') n' ([], sadd (snd st) (render p))) as [r'| |] eqn:Hw'; try discriminate.
      apply (IH Hlq Higq Htq Hhq f [] _ _ Hl2 Hw').
  Qed.

  Lemma paths_loop_In f strips ps : forall st st',
    paths_loop (rec f) strips ps st = Ok st' ->
    forall path, In path ps -> exists n st1 st2, lstat root path = Ok n /\ walkF (rec f) strips path n st1 = Ok st2.
  Proof.
    induction ps as [|a ps IH]; intros st st' Hp path Hin; [destruct Hin|].
    cbn [paths_loop] in Hp. destruct (lstat root a) as [n| |] eqn:El; simpl in Hp; try discriminate.
    destruct (walkF (rec f) strips a n st) as [st1| |] eqn:E1; simpl in Hp; try discriminate.
    destruct Hin as [<- | Hin]; [exists n, st, st1; auto | eapply IH; eassumption].
  Qed.

  Lemma record_cycle_err paths strips q m :
    reaches_link ignored root pats follow paths q -> cycleF q ->
    record_artifacts ignored H perm root algs pats norm follow paths strips = Ok m -> False.
  Proof.
    intros (path & p0 & n0 & Hin & [Ea Hl0] & Hh) Hcyc Hrec. unfold record_artifacts in Hrec.
    destruct (recF (S (count_symlinks root)) paths strips []) as [r| |] eqn:Hr; simpl in Hrec; try discriminate.
    rewrite record_fuel_S in Hr.
    destruct (paths_loop_In _ _ _ _ _ Hr _ Hin) as (n & s1 & s2 & Hls & Hw).
    rewrite Ea, (lstat_physical _ _ _ Hwf Hl0) in Hls. inversion Hls; subst n. rewrite Ea in Hw.
    eapply cycle_stops; eassumption.
  Qed.

  (* ---------- where the cycle error can come from ---------- *)

  Ltac codes := unfold E_symcycle, E_perm, E_hash, E_dup, E_fuel, E_noent, E_notdir, E_loop, E_unsupported in *.

  Lemma record_artifact_err c r e : record_artifact H algs norm c r = Err e -> e = E_perm \/ e = E_hash.
  Proof.
    unfold record_artifact. destruct r; simpl; [|intro E; inversion E; auto].
    intro E. apply hash_loop_err in E. auto.
  Qed.

  Lemma add_artifact_err arts k v e : add_artifact arts k v = Err e -> e = E_dup.
  Proof. unfold add_artifact. destruct (ahas arts k); [intro E; inversion E; reflexivity | discriminate]. Qed.

  Lemma lstat_err s e : lstat root s = Err e -> e <> E_symcycle.
  Proof. apply at_path_err. intros e'. apply resolve_str_err. Qed.

  Lemma stat_err s e : stat root s = Err e -> e <> E_symcycle.
  Proof. apply at_path_err. intros e'. apply resolve_str_err. Qed.

  Lemma hits_link p n q : hitsF p n q -> lookup root p = Some n -> exists t, lookup root q = Some (Symlink t).
  Proof.
    induction 1 as [p t Hig | p es name ch q Hin Hh IH | p t p' n' q Hig Ht Hfo Hh IH]; intro Hl.
    - eauto.
    - apply IH. apply (lookup_child _ _ _ _ _ Hwf Hl Hin).
    - apply IH. apply target_lookup in Ht. tauto.
  Qed.

  Section WalkErr.
    Variable recurse : str -> list str -> res state.
    Variable strips : list str.
    Hypothesis no_cycle : forall q, ~ cycleF q.
    Hypothesis recurse_vis : forall e v r, recurse e v = Ok r -> snd r = v.
    Hypothesis recurse_sc : forall p' n' v,
      lookup root p' = Some n' -> recurse (render p') v = Err E_symcycle -> exists q, hitsF p' n' q /\ In (render q) v.

    Lemma walk_entries_err path es : forall st e,
      walk_entries recurse strips path es st = Err e ->
      exists name ch st1, In (name, ch) es /\ snd st1 = snd st /\ walkF recurse strips (fp_join path name) ch st1 = Err e.
    Proof.
      induction es as [|[k c] es IH]; intros st e Hw; [discriminate|].
      cbn [walk_entries] in Hw.
      destruct (walkF recurse strips (fp_join path k) c st) as [st1|e1|] eqn:E1; simpl in Hw; try discriminate.
      - destruct (IH _ _ Hw) as (nm & ch & sa & Hin & Hs & Hwk). exists nm, ch, sa.
        split; [right; exact Hin|]. split; [|exact Hwk]. rewrite Hs. apply (walk_basic recurse strips recurse_vis c _ _ _ E1).
      - inversion Hw; subst. exists k, c, st. split; [left; reflexivity | auto].
    Qed.

    Lemma walk_sc n : forall p st,
      lookup root p = Some n -> walkF recurse strips (render p) n st = Err E_symcycle ->
      exists q, hitsF p n q /\ In (render q) (snd st).
    Proof.
      induction n as [c r | t | es IHes] using node_ind'; intros p st Hl Hw.
      - exfalso. rewrite walk_file in Hw. destruct (ignored pats (render p)); [discriminate|].
        unfold visit_file in Hw.
        destruct (record_artifact H algs norm c r) as [h|e1|] eqn:Eh; simpl in Hw; try discriminate.
        + destruct (add_artifact (fst st) _ h) as [a|e2|] eqn:Ea; simpl in Hw; try discriminate.
          apply add_artifact_err in Ea. subst. codes. discriminate.
        + apply record_artifact_err in Eh. destruct Eh; subst; codes; discriminate.
      - rewrite walk_link in Hw. destruct (ignored pats (render p)) eqn:Hig; [discriminate|].
        unfold visit_symlink in Hw.
        destruct (mem (render p) (snd st)) eqn:Hm.
        { exists p. split; [apply H_here, Hig | apply mem_In, Hm]. }
        unfold eval_symlinks in Hw.
        destruct (realpath root (render p)) as [p'|e1|] eqn:Hrp; simpl in Hw; try discriminate.
        2:{ exfalso. inversion Hw; subst. apply (resolve_str_err _ _ _ _ _ Hrp). reflexivity. }
        destruct (realpath_sound _ _ _ Hroot Hrp) as (n' & Hn' & Hns).
        rewrite (stat_physical _ _ _ Hwf Hn' Hns) in Hw. simpl in Hw.
        destruct (is_dir n' && negb follow) eqn:Hdf; [discriminate|].
        assert (Hfo : is_dir n' = true -> follow = true).
        { intro Hd. rewrite Hd in Hdf. simpl in Hdf. apply negb_false_iff in Hdf. exact Hdf. }
        pose proof (target_of_realpath _ _ _ Hrp Hn') as Ht.
        destruct (recurse (render p') (sadd (snd st) (render p))) as [r|e2|] eqn:Hr; simpl in Hw; try discriminate.
        + exfalso. destruct (merge_sym _ _ _ _ _ _) as [a|e3|] eqn:Hmg; simpl in Hw; try discriminate.
          apply merge_sym_err in Hmg. subst. codes. discriminate.
        + inversion Hw; subst e2.
          destruct (recurse_sc _ _ _ Hn' Hr) as (q & Hh & Hin).
          apply In_sadd in Hin as [Eq | Hin].
          * exfalso. destruct (hits_link _ _ _ Hh Hn') as (tq & Hlq).
            destruct (lookup_wf _ _ _ Hwf Hlq) as [_ Hcq]. destruct (lookup_wf _ _ _ Hwf Hl) as [_ Hcp].
            apply (render_inj _ _ Hcq Hcp) in Eq. subst q.
            apply (no_cycle p). exists t, p', n'. auto.
          * exists q. split; [eapply H_link; eassumption | exact Hin].
      - rewrite walk_dir in Hw.
        destruct (walk_entries_err _ _ _ _ Hw) as (name & ch & s1 & Hin & Hs & Hwk).
        destruct (lookup_child _ _ _ _ _ Hwf Hl Hin) as [Hlc Hg].
        destruct (lookup_wf _ _ _ Hwf Hl) as [_ Hc].
        rewrite (fp_join_child _ _ Hc Hg) in Hwk.
        rewrite Forall_forall in IHes. destruct (IHes _ Hin _ _ Hlc Hwk) as (q & Hh & Hi).
        exists q. split; [eapply H_dir; eassumption | rewrite <- Hs; exact Hi].
    Qed.
  End WalkErr.

  Lemma rec_sc f : (forall q, ~ cycleF q) -> forall p' n' v,
    lookup root p' = Some n' -> rec f (render p') v = Err E_symcycle -> exists q, hitsF p' n' q /\ In (render q) v.
  Proof.
    intro Hnc. induction f as [|f IH]; intros p' n' v Hl Hr; [inversion Hr|].
    rewrite rec_S, (lstat_physical _ _ _ Hwf Hl) in Hr. simpl in Hr.
    apply (walk_sc (rec f) [] Hnc (rec_vis f) IH _ _ _ Hl Hr).
  Qed.

  Lemma record_no_false_cycle paths strips :
    phys_paths paths -> (forall q, ~ cycleF q) ->
    record_artifacts ignored H perm root algs pats norm follow paths strips <> Err E_symcycle.
  Proof.
    intros Hph Hnc Hrec. unfold record_artifacts in Hrec.
    destruct (recF (S (count_symlinks root)) paths strips []) as [r|e|] eqn:Hr; simpl in Hrec; try discriminate.
    inversion Hrec; subst e. clear Hrec. rewrite record_fuel_S in Hr.
    assert (Hgen : forall ps st, phys_paths ps -> snd st = [] ->
              paths_loop (rec (count_symlinks root)) strips ps st = Err E_symcycle -> False).
    { induction ps as [|a ps IH]; intros st Hp Hs Hl; [discriminate|].
      inversion Hp as [|? ? (p0 & n0 & Ea & Hl0) Hrest]; subst.
      cbn [paths_loop] in Hl. rewrite (lstat_physical _ _ _ Hwf Hl0) in Hl. simpl in Hl.
      destruct (walkF _ strips (render p0) n0 st) as [st1|e1|] eqn:E1; simpl in Hl; try discriminate.
      - apply (IH st1 Hrest); [|exact Hl]. apply (walk_basic _ strips (rec_vis _)) in E1. destruct E1. congruence.
      - inversion Hl; subst e1.
        destruct (walk_sc _ strips Hnc (rec_vis _) (rec_sc _ Hnc) _ _ _ Hl0 E1) as (q & _ & Hi).
        rewrite Hs in Hi. destruct Hi. }
    apply (Hgen paths ([], []) Hph eq_refl Hr).
  Qed.

  (* ---------- the model never panics ---------- *)

  Lemma walk_no_panic recurse strips :
    (forall e v s, recurse e v <> Panic s) ->
    forall n path st s, walkF recurse strips path n st <> Panic s.
  Proof.
    intro Hrec. induction n as [c r | t | es IHes] using node_ind'; intros path st s.
    - rewrite walk_file. destruct (ignored pats path); [discriminate|]. unfold visit_file.
      destruct (record_artifact H algs norm c r) as [h|e|s'] eqn:Eh; simpl; try discriminate.
      + unfold add_artifact. destruct (ahas (fst st) _); simpl; discriminate.
      + exfalso. unfold record_artifact in Eh. destruct (negb r); [discriminate|].
        apply hash_loop_no_panic in Eh. exact Eh.
    - rewrite walk_link. destruct (ignored pats path); [discriminate|]. unfold visit_symlink.
      destruct (mem path (snd st)); [discriminate|]. unfold eval_symlinks.
      destruct (realpath root path) as [p'|e|s'] eqn:Hrp; simpl; try discriminate.
      2:{ exfalso. unfold realpath, resolve_str in Hrp. destruct (is_nil path); [discriminate|].
          destruct (is_abs path); [discriminate|]. apply resolve_no_panic in Hrp. exact Hrp. }
      destruct (stat root (render p')) as [tgt|e|s'] eqn:Hst; simpl; try discriminate.
      2:{ exfalso. unfold stat, at_path, resolve_str in Hst. destruct (is_nil (render p')); [discriminate|].
          destruct (is_abs (render p')); [discriminate|].
          destruct (resolve _ _ _ _ _ _ _) as [pp|ee|ss] eqn:Hres; simpl in Hst.
          - destruct (lookup root pp); discriminate.
          - discriminate.
          - apply resolve_no_panic in Hres. exact Hres. }
      destruct (is_dir tgt && negb follow); [discriminate|].
      destruct (recurse (render p') (sadd (snd st) path)) as [r|e|s'] eqn:Hr; simpl; try discriminate.
      2:{ exfalso. apply (Hrec _ _ _ Hr). }
      destruct (merge_sym _ _ _ _ _ _) as [a|e|s'] eqn:Hmg; simpl; try discriminate.
      exfalso. clear -Hmg. revert Hmg. generalize (fst st) as arts. generalize (perm (fst r)) as evs.
      induction evs as [|[k v] evs IH]; intros arts Hmg; simpl in Hmg; [discriminate|].
      unfold add_artifact in Hmg at 1. destruct (ahas arts _); simpl in Hmg; [discriminate | eapply IH; eassumption].
    - rewrite walk_dir. revert st. induction es as [|[k c] es IHsub]; intro st; [discriminate|].
      cbn [walk_entries]. inversion IHes as [|? ? IHc IHrest]; subst. simpl in IHc.
      destruct (walkF recurse strips (fp_join path k) c st) as [st1|e|s'] eqn:E1; simpl; try discriminate.
      + apply IHsub, IHrest.
      + exfalso. apply (IHc _ _ _ E1).
  Qed.

  Lemma lstat_no_panic e s : lstat root e <> Panic s.
  Proof.
    unfold lstat, at_path, resolve_str. destruct (is_nil e); [discriminate|]. destruct (is_abs e); [discriminate|].
    destruct (resolve _ _ _ _ _ _ _) as [pp|ee|ss] eqn:Hres; simpl.
    - destruct (lookup root pp); discriminate.
    - discriminate.
    - exfalso. apply resolve_no_panic in Hres. exact Hres.
  Qed.

  Lemma rec_no_panic f : forall e v s, rec f e v <> Panic s.
  Proof.
    induction f as [|f IH]; intros e v s; [discriminate|]. rewrite rec_S.
    destruct (lstat root e) as [n|ee|ss] eqn:El; simpl; try discriminate.
    - apply walk_no_panic, IH.
    - exfalso. apply (lstat_no_panic _ _ El).
  Qed.

  Lemma record_no_panic paths strips s :
    record_artifacts ignored H perm root algs pats norm follow paths strips <> Panic s.
  Proof.
    unfold record_artifacts. destruct (recF _ paths strips []) as [r|e|s'] eqn:Hr; simpl; try discriminate.
    exfalso. rewrite record_fuel_S in Hr. revert Hr. generalize (@nil (str * hashobj), @nil str) as st.
    induction paths as [|a ps IH]; intros st Hr; [discriminate|]. cbn [paths_loop] in Hr.
    destruct (lstat root a) as [n|ee|ss] eqn:El; simpl in Hr; try discriminate.
    - destruct (walkF _ strips a n st) as [st1|e1|s1] eqn:E1; simpl in Hr; try discriminate.
      + eapply IH; eassumption.
      + inversion Hr; subst. apply (walk_no_panic _ strips (rec_no_panic _) _ _ _ _ E1).
    - inversion Hr; subst. apply (lstat_no_panic _ _ El).
  Qed.
End Proofs.
