(* SignInst.v — instances of the Section variables of model/Sign.v:

   (1) [T]-indexed finite TABLES of crypto truth, used by the correspondence
       check (harness/c04): the harness computes them with Go's crypto/*
       packages directly (lib.VerifyRaw), never with the library under test;
   (2) harness-level operations [xop]: the three operations of the state
       machine plus the edits an adversary can make to a metadata file
       (content, signature text, key id, dropped / injected signatures);
   (3) a small closed-form toy scheme, used for the non-vacuity Examples of
       props/C04.v and the witnesses of regress/C04.v. *)
From IT Require Import model.Sign.

(* ---------- identity of a payload (key of the payload tables) ---------- *)

Fixpoint show_jv (v : jv) : str :=
  match v with
  | JNull => [110]
  | JBool b => show_bool b
  | JNum z => [35] ++ show_Z z
  | JFloat l => [102] ++ show_str l
  | JStr s => [34] ++ show_str s
  | JArr l => [91] ++ (fix go (l : list jv) : str :=
                         match l with [] => [] | x :: r => show_jv x ++ go r end) l ++ [93]
  | JObj m => [123] ++ (fix go (m : list (str * jv)) : str :=
                          match m with [] => [] | (k, x) :: r => show_str k ++ show_jv x ++ go r end) m ++ [125]
  end.

Definition show_anymap (m : list (str * jv)) : str :=
  show_list (fun p => show_tuple [show_str (fst p); show_jv (snd p)]) m.

Definition show_link (l : link) : str :=
  show_tuple [show_str (ln_type l); show_str (ln_name l); show_artifacts (ln_materials l);
              show_artifacts (ln_products l); show_anymap (ln_byproducts l);
              show_strs (ln_command l); show_anymap (ln_environment l)].

Definition payload_key (p : payload) : str :=
  match p with
  | PLink l => 76 :: show_link l
  | PLayout l => 89 :: show_layout l
  end.

(* ---------- tables ---------- *)

Record tables := mkTables {
  t_sign : list (str * str * str);      (* (KeyVal.Private, message, raw signature the key produced) *)
  t_vrfy : list (str * str * str);      (* (KeyVal.Public, message, raw signature): the VALID triples *)
  t_unusable : list (str * str * str);  (* (KeyType, Private, Public) of keys whose material is broken *)
  t_signable : list (str * str);        (* payload_key -> canonical JSON bytes *)
  t_pbytes : list (str * str);          (* payload_key -> bytes SetPayload stores *)
  t_fallback : list (str * str) }.      (* KeyVal.Public -> SSH fingerprint (absent: computation fails) *)

Definition tb_sign (T : tables) (k : key) (m : str) : str :=
  match find (fun x => str_eqb (fst (fst x)) (k_private k) && str_eqb (snd (fst x)) m) (t_sign T) with
  | Some x => snd x
  | None => []
  end.
Definition tb_vrfy (T : tables) (k : key) (m raw : str) : bool :=
  existsb (fun x => str_eqb (fst (fst x)) (k_public k) && str_eqb (snd (fst x)) m && str_eqb (snd x) raw) (t_vrfy T).
Definition tb_usable (T : tables) (k : key) : bool :=
  negb (existsb (fun x => str_eqb (fst (fst x)) (k_keytype k) && str_eqb (snd (fst x)) (k_private k)
                          && str_eqb (snd x) (k_public k)) (t_unusable T)).
Definition err_table : N := 499.
Definition tb_lookup (t : list (str * str)) (p : payload) : res str :=
  match alookup t (payload_key p) with Some b => Ok b | None => Err err_table end.
Definition tb_signable (T : tables) := tb_lookup (t_signable T).
Definition tb_pbytes (T : tables) := tb_lookup (t_pbytes T).
Definition tb_fallback (T : tables) (k : key) : str :=
  match alookup (t_fallback T) (k_public k) with Some f => f | None => [] end.

Definition tverify (T : tables) : env -> key -> res unit :=
  verify_sig (tb_vrfy T) (tb_usable T) (tb_signable T) (tb_fallback T).
Definition tsign (T : tables) : env -> key -> res env :=
  sign (tb_sign T) (tb_usable T) (tb_signable T).
Definition tfresh (T : tables) : wrapper -> payload -> res env := fresh (tb_pbytes T).

(* ---------- harness-level operations ---------- *)

Inductive xop : Type :=
| XSign (k : key)
| XDumpLoad                               (* Dump; LoadMetadata — the identity (C12; hypothesis of C04) *)
| XSetPayload (p : payload)               (* new object with this payload, no signatures *)
| XTamper (p : payload) (b : str)         (* content replaced in the file, signatures kept *)
| XSetSig (i : nat) (t : str)             (* text of signature i replaced *)
| XSetKeyid (i : nat) (kid : str)         (* key id of signature i replaced *)
| XDropSig (i : nat)
| XAddSig (front : bool) (s : signature). (* signature injected at the front / back *)

Fixpoint upd_nth {A} (i : nat) (f : A -> A) (l : list A) : list A :=
  match l, i with
  | [], _ => []
  | x :: r, O => f x :: r
  | x :: r, S j => x :: upd_nth j f r
  end.
Fixpoint drop_nth {A} (i : nat) (l : list A) : list A :=
  match l, i with
  | [], _ => []
  | _ :: r, O => r
  | x :: r, S j => x :: drop_nth j r
  end.

Definition with_sigs (e : env) (s : list signature) : env := mkEnv (e_wrapper e) (e_payload e) s (e_pbytes e).

Definition xapply (T : tables) (o : xop) (e : env) : res env :=
  match o with
  | XSign k => tsign T e k
  | XDumpLoad => Ok e
  | XSetPayload p => tfresh T (e_wrapper e) p
  | XTamper p b => Ok (mkEnv (e_wrapper e) p (e_sigs e) (match e_wrapper e with Legacy => [] | DSSE => b end))
  | XSetSig i t => Ok (with_sigs e (upd_nth i (fun s => mkSig (sg_keyid s) t (sg_cert s)) (e_sigs e)))
  | XSetKeyid i kid => Ok (with_sigs e (upd_nth i (fun s => mkSig kid (sg_sig s) (sg_cert s)) (e_sigs e)))
  | XDropSig i => Ok (with_sigs e (drop_nth i (e_sigs e)))
  | XAddSig front s => Ok (with_sigs e (if front then s :: e_sigs e else e_sigs e ++ [s]))
  end.

Definition res_char {A} (r : res A) : N :=
  match r with Ok _ => 84 | Err _ => 70 | Panic _ => 80 end.     (* T / F / P *)

(* observable of a history: per operation its status and the verdict of
   VerifySignature under every key of [vs], e.g. "T:TFF|F:TFF|" *)
Fixpoint xtrace (T : tables) (vs : list key) (ops : list xop) (e : env) : str :=
  match ops with
  | [] => []
  | o :: r =>
      let a := xapply T o e in
      let e' := match a with Ok e' => e' | _ => e end in
      res_char a :: 58 :: map (fun k => res_char (tverify T e' k)) vs ++ 124 :: xtrace T vs r e'
  end.

Definition xhistory (T : tables) (w : wrapper) (p : payload) (vs : list key) (ops : list xop) : str :=
  match tfresh T w p with
  | Ok e => 84 :: 58 :: map (fun k => res_char (tverify T e k)) vs ++ 124 :: xtrace T vs ops e
  | _ => [70]
  end.

(* binary strings are written as hex literals in the cases files (short to parse) *)
Definition hx (s : String.string) : str := match hex_dec (bs s) with Some x => x | None => [] end.
Arguments hx s%string.

(* record updates used by the harness to write keys compactly *)
Definition with_keyid (k : key) (kid : str) : key :=
  mkKey kid (k_hashalgs k) (k_keytype k) (k_private k) (k_public k) (k_cert k) (k_scheme k).
Definition with_public (k : key) (p : str) : key :=
  mkKey (k_keyid k) (k_hashalgs k) (k_keytype k) (k_private k) p (k_cert k) (k_scheme k).
Definition with_private (k : key) (p : str) : key :=
  mkKey (k_keyid k) (k_hashalgs k) (k_keytype k) p (k_public k) (k_cert k) (k_scheme k).
Definition with_keytype (k : key) (t : str) : key :=
  mkKey (k_keyid k) (k_hashalgs k) t (k_private k) (k_public k) (k_cert k) (k_scheme k).

(* ---------- a toy scheme in closed form ---------- *)

(* "signature" = private half ++ 0 ++ message (reduced to bytes); a key pair
   matches when both halves are the same string; every key is usable *)
Definition to_bytes (s : str) : str := map (fun b => b mod 256) s.
Definition toy_sign (k : key) (m : str) : str := to_bytes (k_private k ++ 0 :: m).
Definition toy_vrfy (k : key) (m raw : str) : bool := str_eqb raw (to_bytes (k_public k ++ 0 :: m)).
Definition toy_usable (k : key) : bool := true.
Definition toy_matching (k : key) : Prop := k_private k = k_public k.
Definition toy_signable (p : payload) : res str := Ok (payload_key p).
Definition toy_pbytes (p : payload) : res str := Ok (123 :: payload_key p).
Definition toy_fallback (k : key) : str := [].

Definition toy_key (id : str) (secret : str) : key := mkKey id [] (bs "toy") secret secret [] (bs "toy").
Definition toy_link (name : str) : payload := PLink (mkLink (bs "link") name [] [] [] [] []).

(* facts about the toy scheme: it satisfies the hypotheses of the C04 theorems *)
From IT Require Import proofs.SignEnc proofs.SignProofs.

Lemma toy_sign_ok k m : toy_usable k = true -> toy_matching k -> toy_vrfy (pub k) m (toy_sign k m) = true.
Proof.
  intros _ HM. unfold toy_vrfy, toy_sign, toy_matching in *. cbn [pub k_public]. rewrite HM. apply str_eqb_refl.
Qed.

Lemma toy_sign_bytes k m : is_bytes (toy_sign k m).
Proof.
  unfold toy_sign, to_bytes, is_bytes. apply Forall_forall. intros x HI. apply in_map_iff in HI as (y & <- & _).
  apply N.mod_lt. discriminate.
Qed.

(* Dump;Load for the toy examples: a store holding one object *)
Definition toy_dump (e : env) : res str := Ok [].
Definition toy_load (e1 : env) (f : str) : res env := Ok e1.
Definition toy_dom (e1 e : env) : Prop := e = e1.
Lemma toy_roundtrip e1 e : toy_dom e1 e -> exists f, toy_dump e = Ok f /\ toy_load e1 f = Ok e.
Proof. intros ->. exists []. split; reflexivity. Qed.

Definition toy_kA : key := toy_key (bs "A") (bs "secret-a").
Definition toy_kB : key := toy_key (bs "B") (bs "secret-b").
Definition toy_ops : list op := [OSign toy_kA; ODumpLoad; OSign toy_kB].

Lemma toy_ids_identify : keyids_identify [toy_kB; toy_kA].
Proof.
  intros k1 k2 [<-|[<-|[]]] [<-|[<-|[]]] H; try reflexivity; vm_compute in H; discriminate.
Qed.
Lemma toy_all_matching k1 : In k1 [toy_kB; toy_kA] -> toy_matching k1.
Proof. intros [<-|[<-|[]]]; reflexivity. Qed.
