(* KeyLoadMain.v — the statements used by props/C19.v, assembled from
   KeyLoadProofs (generic in the PEM body encoder), KeyLoadCanon (canonical description)
   and KeyLoadPem (the concrete base64 / line breaking encoder is injective). *)
From IT Require Import model.KeyLoad gen.Consts.
From IT Require Export proofs.KeyLoadSpec proofs.KeyLoadCanon proofs.KeyLoadProofs proofs.KeyLoadPem.

(* the four loaders in terms of decodeAndParse and loadKey *)
Lemma loaders_are_load_parsed sha body d b p :
  decode_and_parse d = Ok (b, p) ->
  (forall s a, load_key_reader sha body (RData d) s a = load_parsed sha body p b s a) /\
  load_key_reader_defaults sha body (RData d) =
    (do s <- default_scheme_of (p_type p); load_parsed sha body p b s (Some default_hash_algs)) /\
  (forall s a, load_key sha body (Some d) s a = load_key_reader sha body (RData d) s a) /\
  load_key_defaults sha body (Some d) = load_key_reader_defaults sha body (RData d).
Proof.
  intro H. repeat split.
  - intros s a. unfold load_key_reader. rewrite H. reflexivity.
  - unfold load_key_reader_defaults, get_default_key_scheme. rewrite H. cbn [rbind fst snd].
    destruct (default_scheme_of (p_type p)); reflexivity.
Qed.

(* parseKey returns the first parser that accepts, in the order PKCS8, PKCS1, PKIX, certificate, EC *)
Definition attempt (a : attempts) (f : pemform) : option kobj :=
  match f with
  | PKCS8 => a_pkcs8 a | PKCS1 => a_pkcs1 a | PKIX => a_pkix a | CERT => a_cert a | SEC1 => a_sec1 a
  end.
Definition form_order : list pemform := [PKCS8; PKCS1; PKIX; CERT; SEC1].
Fixpoint first_accepting (a : attempts) (l : list pemform) : res parsed :=
  match l with
  | [] => Err err_failed_pem_parsing
  | f :: l' => match attempt a f with Some o => Ok (mkParsed f o) | None => first_accepting a l' end
  end.
Lemma parse_key_order a : parse_key a = first_accepting a form_order.
Proof.
  unfold parse_key, form_order, first_accepting, attempt.
  destruct (a_pkcs8 a), (a_pkcs1 a), (a_pkix a), (a_cert a), (a_sec1 a); reflexivity.
Qed.

(* distinct keys, concrete encoder: no assumption on PEM left *)
Lemma distinct_keys_distinct_desc_b64 sha p p' b b' s s' a a' k k' :
  load_parsed sha b64_lines p b s a = Ok k -> load_parsed sha b64_lines p' b' s' a' = Ok k' ->
  bytes (p_pub_der p) -> bytes (p_pub_der p') ->
  (p_type p <> p_type p' \/ p_pub_der p <> p_pub_der p' \/ s <> s' \/ a <> a') ->
  key_desc_of k a <> key_desc_of k' a'.
Proof. apply distinct_keys_distinct_desc. exact b64_lines_inj. Qed.

Lemma equal_ids_collision_b64 sha p p' b b' s s' a a' k k' :
  (forall x, bytes (sha x)) ->
  load_parsed sha b64_lines p b s a = Ok k -> load_parsed sha b64_lines p' b' s' a' = Ok k' ->
  bytes (p_pub_der p) -> bytes (p_pub_der p') ->
  (p_type p <> p_type p' \/ p_pub_der p <> p_pub_der p' \/ s <> s' \/ a <> a') ->
  k_keyid k = k_keyid k' ->
  exists x y, x <> y /\ sha x = sha y.
Proof. apply equal_ids_collision. exact b64_lines_inj. Qed.

(* all refusals in one statement *)
Lemma non_keys_refused sha body scheme algs :
  (* no input at all: nil reader, failing reader, unreadable file *)
  (is_ok (load_key_reader sha body RNil scheme algs) = false /\
   is_ok (load_key_reader sha body RFail scheme algs) = false /\
   is_ok (load_key_reader_defaults sha body RNil) = false /\
   is_ok (load_key_reader_defaults sha body RFail) = false /\
   is_ok (load_key sha body None scheme algs) = false /\
   is_ok (load_key_defaults sha body None) = false) /\
  (* no PEM block, no parser accepts the block, or the parsed object is not RSA / ECDSA / Ed25519 *)
  (forall d,
     (d_block d = None \/
      (forall f, attempt (d_att d) f = None) \/
      (exists b p, decode_and_parse d = Ok (b, p) /\ p_type p = KUnknown)) ->
     is_ok (load_key_reader sha body (RData d) scheme algs) = false /\
     is_ok (load_key_reader_defaults sha body (RData d)) = false /\
     is_ok (load_key sha body (Some d) scheme algs) = false /\
     is_ok (load_key_defaults sha body (Some d)) = false).
Proof.
  split; [apply refused_no_reader|].
  intros d H.
  assert (G : is_ok (load_key_reader sha body (RData d) scheme algs) = false /\
              is_ok (load_key_reader_defaults sha body (RData d)) = false).
  { destruct H as [H|[H|[b [p [Hd Ht]]]]].
    - apply refused_no_block. exact H.
    - apply refused_no_parser; [apply (H PKCS8)|apply (H PKCS1)|apply (H PKIX)|apply (H CERT)|apply (H SEC1)].
    - eapply refused_unknown_type; eassumption. }
  destruct G as [G1 G2]. repeat split; assumption.
Qed.

(* the key a SPIFFE workload signs with is the default load of its PKCS#8 private key with the
   leaf certificate attached: every identity-relevant field (and the private half) is that load's *)
Lemma svid_key_is_default_load sha body d raw k :
  svid_in_toto_key sha body (Some d) raw = Ok k ->
  exists k0, load_key_reader_defaults sha body (RData d) = Ok k0 /\
    k_keyid k = k_keyid k0 /\ k_hashalgs k = k_hashalgs k0 /\ k_keytype k = k_keytype k0 /\
    k_scheme k = k_scheme k0 /\ k_public k = k_public k0 /\ k_private k = k_private k0 /\
    k_cert k = pem_encode body (bs "CERTIFICATE") [] raw.
Proof.
  unfold svid_in_toto_key. intro H.
  destruct (load_key_reader_defaults sha body (RData d)) as [k0|e|e]; cbn [rbind] in H; try discriminate.
  inversion H; subst. exists k0. cbn [k_keyid k_hashalgs k_keytype k_scheme k_public k_private k_cert]. auto 10.
Qed.

(* ---------- instances for the non-vacuity example of props/C19.v ---------- *)
Module C19_examples.
  (* a stand-in for SHA-256 that returns a non-empty byte string *)
  Definition sha (s : str) : str := [N.of_nat (length s) mod 256; fold_left N.add s 0 mod 256].
  Definition no_att := mkAtt None None None None None.
  Definition der : str := [48; 89; 48; 19; 6; 7; 42; 134; 72; 206; 61; 2; 1; 255; 0].
  Definition der2 : str := [48; 89; 48; 19; 6; 7; 42; 134; 72; 206; 61; 2; 1; 255; 1].
  (* one ECDSA pair: SEC1 private key, PKIX public key, certificate *)
  Definition d_priv := mkPem (Some (mkBlock (bs "EC PRIVATE KEY") [] [48; 119; 2; 1; 1]))
                             (mkAtt None None None None (Some (mkObj KEcdsa der (Some [])))).
  Definition d_pub := mkPem (Some (mkBlock (bs "PUBLIC KEY") [] der))
                            (mkAtt None None (Some (mkObj KEcdsa der None)) None None).
  Definition d_cert := mkPem (Some (mkBlock (bs "CERTIFICATE") [(bs "Comment", bs "x")] [48; 130; 1; 2]))
                             (mkAtt None None None (Some (mkObj KEcdsa der None)) None).
  Definition d_other := mkPem (Some (mkBlock (bs "PUBLIC KEY") [] der2))
                              (mkAtt None None (Some (mkObj KEcdsa der2 None)) None None).
  Definition d_ed := mkPem (Some (mkBlock (bs "PRIVATE KEY") [] [48; 46]))
                           (mkAtt (Some (mkObj KEd25519 [1; 2; 255] (Some [9; 9; 1; 2; 255]))) None None None None).
  Definition d_dsa := mkPem (Some (mkBlock (bs "PUBLIC KEY") [] [48; 3]))
                            (mkAtt None None (Some (mkObj KUnknown [] None)) None None).
  Definition L := load_key_reader_defaults sha b64_lines.
  Definition id_of (r : res key) : str := match r with Ok k => k_keyid k | _ => [] end.
  Definition priv_of (r : res key) : str := match r with Ok k => k_private k | _ => [] end.
  Definition cert_of (r : res key) : str := match r with Ok k => k_cert k | _ => [] end.
  Definition pub_of (r : res key) : str := match r with Ok k => k_public k | _ => [] end.
End C19_examples.
