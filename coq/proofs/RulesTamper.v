(* RulesTamper.v - tamper detection by a MATCH ... / DISALLOW rule pair, proved on the declarative
   specification (spec/RulesSpec.v) and carried to the model by model_eq_spec:

     an artifact f that is still queued, that no rule of a list can consume, and that a
     terminal DISALLOW pattern matches, makes the list reject;  a MATCH rule can consume f
     only if the referenced step recorded an artifact of the corresponding name with EQUAL
     hashes.  Hence: when a rule list of the form  pre ++ MATCH p WITH <ty> FROM step :: mid
     ++ [DISALLOW pd]  accepts and f is protected (pd matches f; nothing in pre/mid can
     consume f), the referenced step recorded f with exactly the hashes found. *)
From IT Require Import model.Rules spec.RulesSpec proofs.RulesBasics proofs.RulesGrammar proofs.RulesProofs.

Section Tamper.
Variable glob : str -> str -> bool.
Variable meta : amap link.
Variables mats prods src : artifacts.

Notation consumes := (consumes glob meta mats prods src).
Notation accepts := (accepts glob meta mats prods src).
Notation queue_after := (queue_after glob meta mats prods src).
Notation after := (after glob meta mats prods src).

(* rule r can never consume f, whatever the queue *)
Definition inert (r : srule) (f : str) : Prop := forall q, ~ consumes r q f.

Lemma accepts_app rs1 rs2 : forall q : pset,
  accepts (rs1 ++ rs2) q <-> accepts rs1 q /\ accepts rs2 (queue_after rs1 q).
Proof.
  induction rs1 as [|r rs1 IH]; intros q; cbn [app RulesSpec.accepts RulesSpec.queue_after].
  - tauto.
  - rewrite IH. tauto.
Qed.

Lemma queue_after_app rs1 rs2 (q : pset) : queue_after (rs1 ++ rs2) q = queue_after rs2 (queue_after rs1 q).
Proof. revert q. induction rs1 as [|r rs1 IH]; intros q; cbn [app RulesSpec.queue_after]; [reflexivity|apply IH]. Qed.

(* an artifact that no rule of the list can consume stays queued *)
Lemma inert_stays rs f : Forall (fun r => inert r f) rs -> forall q : pset, q f -> queue_after rs q f.
Proof.
  induction rs as [|r rs IH]; intros Hf q Hq; cbn [RulesSpec.queue_after]; [exact Hq|].
  inversion Hf as [|r' rs' Hr Hrs]; subst. apply IH; [exact Hrs|]. split; [exact Hq|apply Hr].
Qed.

(* ... and a terminal DISALLOW whose pattern matches it rejects *)
Theorem inert_disallow_rejects rs pd f (q : pset) :
  Forall (fun r => inert r f) rs -> q f -> glob pd f = true -> ~ accepts (rs ++ [SDisallow pd]) q.
Proof.
  intros Hf Hq Hg Ha. apply accepts_app in Ha as [_ Ha]. cbn [RulesSpec.accepts RulesSpec.violates] in Ha.
  destruct Ha as [Hv _]. apply Hv. exists f. split; [apply inert_stays; assumption|exact Hg].
Qed.

(* the generic rules consume only what their pattern matches; DISALLOW and REQUIRE consume nothing *)
Lemma generic_inert r f :
  match r with
  | SAllow p | SCreate p | SDelete p | SModify p => glob p f = false
  | SDisallow _ | SRequire _ => True
  | SMatch _ _ _ _ _ => False
  end -> inert r f.
Proof.
  intros H q [_ Hc]. destruct r; cbn in *; try tauto; try congruence; destruct Hc as [Hc _]; congruence.
Qed.

(* MATCH consumes f only against an equal recorded artifact *)
Lemma match_consumes_inv p sp ty dp step (q : pset) f :
  consumes (SMatch p sp ty dp step) q f ->
  exists b dl h hd, f = under sp b /\ glob p b = true /\ alookup meta step = Some dl /\
                    alookup src f = Some h /\ alookup (arts_of ty dl) (under dp b) = Some hd /\ hash_equal h hd.
Proof. intros [_ H]. exact H. Qed.

(* MATCH without prefixes is inert on f when the referenced step recorded f with other hashes, or did not record it,
   or does not exist *)
Lemma match_differs_inert p ty step f h :
  alookup src f = Some h ->
  (forall dl hd, alookup meta step = Some dl -> alookup (arts_of ty dl) f = Some hd -> ~ hash_equal h hd) ->
  inert (SMatch p [] ty [] step) f.
Proof.
  intros Hs Hd q Hc. apply match_consumes_inv in Hc as [b [dl [h' [hd [Hf [_ [Hm [Hs' [Hl He]]]]]]]]].
  cbn [under] in Hf, Hl. subst b. rewrite Hs in Hs'. inversion Hs'; subst h'. exact (Hd dl hd Hm Hl He).
Qed.

(* MATCH without prefixes is inert on f when its pattern does not match f *)
Lemma match_pattern_inert p ty step f : glob p f = false -> inert (SMatch p [] ty [] step) f.
Proof.
  intros Hg q Hc. apply match_consumes_inv in Hc as [b [dl [h' [hd [Hf [Hgl _]]]]]].
  cbn [under] in Hf. subst b. congruence.
Qed.

(* the rule pair protecting a file, rejection form: a protected file whose hashes differ from what the referenced
   step recorded (or that the step did not record) makes the rule list reject *)
Theorem tampered_file_rejected pre p ty step mid pd f h (q : pset) :
  q f -> alookup src f = Some h -> glob pd f = true ->
  Forall (fun r => inert r f) pre -> Forall (fun r => inert r f) mid ->
  (forall dl hd, alookup meta step = Some dl -> alookup (arts_of ty dl) f = Some hd -> ~ hash_equal h hd) ->
  ~ accepts (pre ++ SMatch p [] ty [] step :: mid ++ [SDisallow pd]) q.
Proof.
  intros Hq Hs Hg Hpre Hmid Hd.
  replace (pre ++ SMatch p [] ty [] step :: mid ++ [SDisallow pd])
     with ((pre ++ SMatch p [] ty [] step :: mid) ++ [SDisallow pd]) by (rewrite <- app_assoc; reflexivity).
  apply inert_disallow_rejects with (f := f); [|exact Hq|exact Hg].
  apply Forall_app. split; [exact Hpre|]. constructor; [|exact Hmid].
  eapply match_differs_inert; eassumption.
Qed.

(* acceptance form (hash objects without duplicate algorithm names, so that equality is decidable): if the list
   accepts, the protected file was recorded by the referenced step with exactly the hashes found, and the MATCH
   pattern matches it *)
Theorem protected_file_matches pre p ty step mid pd f h (q : pset) :
  accepts (pre ++ SMatch p [] ty [] step :: mid ++ [SDisallow pd]) q ->
  q f -> alookup src f = Some h -> glob pd f = true ->
  Forall (fun r => inert r f) pre -> Forall (fun r => inert r f) mid ->
  wf_hashobj h -> (forall dl hd, alookup meta step = Some dl -> alookup (arts_of ty dl) f = Some hd -> wf_hashobj hd) ->
  exists dl hd, alookup meta step = Some dl /\ alookup (arts_of ty dl) f = Some hd /\ hash_equal h hd /\ glob p f = true.
Proof.
  intros Ha Hq Hs Hg Hpre Hmid Hwh Hwd.
  assert (Hrej : forall P : Prop, (inert (SMatch p [] ty [] step) f) -> P).
  { intros P Hin. exfalso.
    replace (pre ++ SMatch p [] ty [] step :: mid ++ [SDisallow pd])
       with ((pre ++ SMatch p [] ty [] step :: mid) ++ [SDisallow pd]) in Ha by (rewrite <- app_assoc; reflexivity).
    revert Ha. apply inert_disallow_rejects with (f := f); [|exact Hq|exact Hg].
    apply Forall_app. split; [exact Hpre|]. constructor; [exact Hin|exact Hmid]. }
  destruct (glob p f) eqn:Hgp; [|apply Hrej; apply match_pattern_inert; exact Hgp].
  destruct (alookup meta step) as [dl|] eqn:Hm;
    [|apply Hrej; eapply match_differs_inert; [exact Hs|]; intros dl hd Hm'; rewrite Hm in Hm'; discriminate].
  destruct (alookup (arts_of ty dl) f) as [hd|] eqn:Hl;
    [|apply Hrej; eapply match_differs_inert; [exact Hs|]; intros dl' hd Hm' Hl'; rewrite Hm in Hm'; inversion Hm'; subst dl';
      rewrite Hl in Hl'; discriminate].
  destruct (hashobj_eqb h hd) eqn:He.
  - exists dl, hd. repeat split; try reflexivity; try assumption.
    apply hashobj_eqb_equal; [exact Hwh|exact (Hwd dl hd eq_refl Hl)|exact He].
  - apply Hrej. eapply match_differs_inert; [exact Hs|]. intros dl' hd' Hm' Hl'. rewrite Hm in Hm'. inversion Hm'; subst dl'.
    rewrite Hl in Hl'. inversion Hl'; subst hd'. intros Heq.
    apply hashobj_eqb_equal in Heq; [congruence|exact Hwh|exact (Hwd dl hd eq_refl Hl)].
Qed.
End Tamper.

(* ---------- carried to the model (model/Rules.v) by model_eq_spec ---------- *)

Lemma Forall2_shape_functional rules : forall srs1 srs2,
  Forall2 rule_shape rules srs1 -> Forall2 rule_shape rules srs2 -> srs1 = srs2.
Proof.
  induction rules as [|r rules IH]; intros srs1 srs2 H1 H2; inversion H1; inversion H2; subst; [reflexivity|].
  f_equal; [eapply rule_shape_functional; eassumption|apply IH; assumption].
Qed.

Lemma wf_meta_link meta name l : wf_meta meta -> alookup meta name = Some l -> wf_link l.
Proof.
  intros Hw Hl. unfold wf_meta in Hw. rewrite Forall_forall in Hw. apply Hw. eapply alookup_Some_snd. exact Hl.
Qed.

Lemma wf_arts_of ty l : wf_link l -> wf_artifacts (arts_of ty l).
Proof. intros [Hm Hp]. destruct ty; assumption. Qed.

(* product rules of an item: when VerifyArtifacts accepts, a file of the item's products that is protected by
   MATCH ... WITH <ty> FROM step / DISALLOW was recorded by that step with exactly the same hashes *)
Theorem model_protected_product_matches gm items meta name em ep li pre p ty step mid pd f h :
  wf_meta meta -> wf_items items ->
  verify_artifacts gm items meta = Ok tt ->
  In (name, em, ep) items -> alookup meta name = Some li ->
  Forall2 rule_shape ep (pre ++ SMatch p [] ty [] step :: mid ++ [SDisallow pd]) ->
  alookup (ln_products li) f = Some h -> gm pd f = true ->
  Forall (fun r => inert gm meta (ln_materials li) (ln_products li) (ln_products li) r f) pre ->
  Forall (fun r => inert gm meta (ln_materials li) (ln_products li) (ln_products li) r f) mid ->
  exists dl hd, alookup meta step = Some dl /\ alookup (arts_of ty dl) f = Some hd /\ hash_equal h hd /\ gm p f = true.
Proof.
  intros Hwm Hwi Hv Hin Hli Hsh Hf Hg Hpre Hmid.
  destruct (model_eq_spec gm items meta Hwm Hwi) as [Heq _]. apply Heq in Hv.
  unfold spec_verify in Hv. rewrite Forall_forall in Hv. specialize (Hv _ Hin). cbn in Hv.
  destruct Hv as [l [Hl [_ [srs [Hsh' Hacc]]]]]. rewrite Hli in Hl. inversion Hl; subst l.
  rewrite (Forall2_shape_functional _ _ _ Hsh' Hsh) in Hacc.
  pose proof (wf_meta_link _ _ _ Hwm Hli) as [_ Hwp].
  eapply protected_file_matches; try eassumption.
  - unfold dom. rewrite Hf. discriminate.
  - eapply wf_lookup_hashobj; eassumption.
  - intros dl hd Hm Hd. eapply wf_lookup_hashobj; [|exact Hd]. apply wf_arts_of. eapply wf_meta_link; eassumption.
Qed.

(* the same for the material rules *)
Theorem model_protected_material_matches gm items meta name em ep li pre p ty step mid pd f h :
  wf_meta meta -> wf_items items ->
  verify_artifacts gm items meta = Ok tt ->
  In (name, em, ep) items -> alookup meta name = Some li ->
  Forall2 rule_shape em (pre ++ SMatch p [] ty [] step :: mid ++ [SDisallow pd]) ->
  alookup (ln_materials li) f = Some h -> gm pd f = true ->
  Forall (fun r => inert gm meta (ln_materials li) (ln_products li) (ln_materials li) r f) pre ->
  Forall (fun r => inert gm meta (ln_materials li) (ln_products li) (ln_materials li) r f) mid ->
  exists dl hd, alookup meta step = Some dl /\ alookup (arts_of ty dl) f = Some hd /\ hash_equal h hd /\ gm p f = true.
Proof.
  intros Hwm Hwi Hv Hin Hli Hsh Hf Hg Hpre Hmid.
  destruct (model_eq_spec gm items meta Hwm Hwi) as [Heq _]. apply Heq in Hv.
  unfold spec_verify in Hv. rewrite Forall_forall in Hv. specialize (Hv _ Hin). cbn in Hv.
  destruct Hv as [l [Hl [[srs [Hsh' Hacc]] _]]]. rewrite Hli in Hl. inversion Hl; subst l.
  rewrite (Forall2_shape_functional _ _ _ Hsh' Hsh) in Hacc.
  pose proof (wf_meta_link _ _ _ Hwm Hli) as [Hwp _].
  eapply protected_file_matches; try eassumption.
  - unfold dom. rewrite Hf. discriminate.
  - eapply wf_lookup_hashobj; eassumption.
  - intros dl hd Hm Hd. eapply wf_lookup_hashobj; [|exact Hd]. apply wf_arts_of. eapply wf_meta_link; eassumption.
Qed.

(* rejection form: a protected product whose hashes differ from the step's record makes VerifyArtifacts fail *)
Corollary model_tampered_product_rejected gm items meta name em ep li pre p ty step mid pd f h :
  wf_meta meta -> wf_items items ->
  In (name, em, ep) items -> alookup meta name = Some li ->
  Forall2 rule_shape ep (pre ++ SMatch p [] ty [] step :: mid ++ [SDisallow pd]) ->
  alookup (ln_products li) f = Some h -> gm pd f = true ->
  Forall (fun r => inert gm meta (ln_materials li) (ln_products li) (ln_products li) r f) pre ->
  Forall (fun r => inert gm meta (ln_materials li) (ln_products li) (ln_products li) r f) mid ->
  (forall dl hd, alookup meta step = Some dl -> alookup (arts_of ty dl) f = Some hd -> ~ hash_equal h hd) ->
  exists c, verify_artifacts gm items meta = Err c.
Proof.
  intros Hwm Hwi Hin Hli Hsh Hf Hg Hpre Hmid Hd.
  destruct (verify_artifacts gm items meta) as [[]|c|s] eqn:Hv.
  - exfalso. destruct (model_protected_product_matches gm items meta name em ep li pre p ty step mid pd f h
                         Hwm Hwi Hv Hin Hli Hsh Hf Hg Hpre Hmid) as [dl [hd [Hm [Hl [He _]]]]].
    exact (Hd dl hd Hm Hl He).
  - exists c. reflexivity.
  - exfalso. destruct (model_eq_spec gm items meta Hwm Hwi) as [_ [_ Hnp]]. exact (Hnp s Hv).
Qed.
