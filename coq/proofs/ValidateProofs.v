(* ValidateProofs.v — the validator model accepts exactly the format rules of
   spec/LoaderSpec.v. *)
From IT Require Import spec.LoaderSpec gen.Consts.

Lemma is_nil_nil {A} (l : list A) : is_nil l = true <-> l = [].
Proof. destruct l; simpl; split; intro H; congruence. Qed.

Lemma is_nil_false {A} (l : list A) : is_nil l = false <-> l <> [].
Proof. destruct l; simpl; split; intro H; congruence. Qed.

Lemma Forall_iff_pointwise {A} (P Q : A -> Prop) l :
  (forall x, P x <-> Q x) -> (Forall P l <-> Forall Q l).
Proof.
  intro H. split; intro HF; induction HF; constructor; try assumption; apply H; assumption.
Qed.

Lemma each_ok {A} (f : A -> res unit) l :
  each f l = Ok tt <-> Forall (fun x => f x = Ok tt) l.
Proof.
  induction l as [|x l IH]; simpl.
  - split; intro; [constructor | reflexivity].
  - destruct (f x) as [[]| |] eqn:E; simpl.
    + rewrite IH. split; intro H; [constructor; assumption | inversion H; assumption].
    + split; intro H; [discriminate | inversion H; congruence].
    + split; intro H; [discriminate | inversion H; congruence].
Qed.

Lemma is_hex_hex s : is_hex s = true <-> hex s.
Proof.
  unfold is_hex, hex. rewrite andb_true_iff, negb_true_iff, is_nil_false, forallb_forall, Forall_forall.
  reflexivity.
Qed.

Lemma validate_hex_ok s : validate_hex s = Ok tt <-> hex s.
Proof.
  unfold validate_hex. rewrite <- is_hex_hex. destruct (is_hex s); split; intro; congruence.
Qed.

(* ---------- sets of hash algorithms ---------- *)

Lemma sadd_in x s y : In y (sadd s x) <-> In y s \/ y = x.
Proof.
  unfold sadd. destruct (mem x s) eqn:E.
  - apply mem_In in E. split; [auto | intros [H| ->]; assumption].
  - rewrite in_app_iff. simpl. intuition.
Qed.

Lemma sadd_nodup x s : NoDup s -> NoDup (sadd s x).
Proof.
  intro H. unfold sadd. destruct (mem x s) eqn:E; [assumption|].
  assert (Hn : ~ In x s) by (intro Hi; apply mem_In in Hi; congruence).
  clear E. induction H as [|a s Ha Hs IH]; simpl.
  - constructor; [intros [] | constructor].
  - constructor.
    + rewrite in_app_iff. simpl. intros [Hi|[->|[]]]; [contradiction | apply Hn; left; reflexivity].
    + apply IH. intro Hi. apply Hn. right. assumption.
Qed.

Lemma fold_sadd_in l acc y : In y (fold_left sadd l acc) <-> In y acc \/ In y l.
Proof.
  revert acc. induction l as [|x l IH]; intro acc; simpl.
  - intuition.
  - rewrite IH, sadd_in. intuition.
Qed.

Lemma fold_sadd_nodup l acc : NoDup acc -> NoDup (fold_left sadd l acc).
Proof.
  revert acc. induction l as [|x l IH]; intros acc H; simpl; [assumption|].
  apply IH. apply sadd_nodup. assumption.
Qed.

Lemma dedup_in l y : In y (dedup l) <-> In y l.
Proof. unfold dedup. rewrite fold_sadd_in. simpl. intuition. Qed.

Lemma dedup_nodup l : NoDup (dedup l).
Proof. apply fold_sadd_nodup. constructor. Qed.

Lemma hashalgs_supported_ok algs :
  hashalgs_supported algs = true <-> Forall (fun a => In a t_getSupportedKeyIDHashAlgorithms) algs.
Proof.
  unfold hashalgs_supported. rewrite Forall_forall.
  destruct (Nat.ltb (length (dedup t_getSupportedKeyIDHashAlgorithms)) (length (dedup algs))) eqn:E.
  - split; [discriminate|]. intro H. exfalso.
    apply Nat.ltb_lt in E.
    assert (Hle : (length (dedup algs) <= length (dedup t_getSupportedKeyIDHashAlgorithms))%nat).
    { apply NoDup_incl_length; [apply dedup_nodup|].
      intros a Ha. apply dedup_in. apply H. apply dedup_in. assumption. }
    lia.
  - rewrite forallb_forall. split; intros H a Ha.
    + apply mem_In. apply H. apply dedup_in. assumption.
    + apply mem_In. apply H. apply dedup_in. assumption.
Qed.

(* ---------- keys ---------- *)

Lemma keytypes_distinct :
  str_eqb c_rsaKeyType c_ed25519KeyType = false /\ str_eqb c_rsaKeyType c_ecdsaKeyType = false /\
  str_eqb c_ed25519KeyType c_ecdsaKeyType = false.
Proof. vm_compute. auto. Qed.

Lemma match_keytype_scheme_ok k :
  match_keytype_scheme k = Ok tt <-> scheme_matches (k_keytype k) (k_scheme k).
Proof.
  destruct keytypes_distinct as (D1 & D2 & D3).
  unfold match_keytype_scheme, scheme_matches.
  destruct (str_eqb (k_keytype k) c_rsaKeyType) eqn:E1.
  { apply str_eqb_eq in E1. rewrite E1.
    destruct (mem (k_scheme k) t_getSupportedRSASchemes) eqn:M.
    - apply mem_In in M. split; auto.
    - split; [discriminate|]. intros [[_ H]|[[H _]|[H _]]].
      + apply mem_In in H. congruence.
      + apply str_eqb_eq in H. congruence.
      + apply str_eqb_eq in H. congruence. }
  destruct (str_eqb (k_keytype k) c_ed25519KeyType) eqn:E2.
  { apply str_eqb_eq in E2. rewrite E2.
    destruct (mem (k_scheme k) t_getSupportedEd25519Schemes) eqn:M.
    - apply mem_In in M. split; auto.
    - split; [discriminate|]. intros [[H _]|[[_ H]|[H _]]].
      + symmetry in H. apply str_eqb_eq in H. congruence.
      + apply mem_In in H. congruence.
      + apply str_eqb_eq in H. congruence. }
  destruct (str_eqb (k_keytype k) c_ecdsaKeyType) eqn:E3.
  { apply str_eqb_eq in E3. rewrite E3.
    destruct (mem (k_scheme k) t_getSupportedEcdsaSchemes) eqn:M.
    - apply mem_In in M. split; auto.
    - split; [discriminate|]. intros [[H _]|[[H _]|[_ H]]].
      + symmetry in H. apply str_eqb_eq in H. congruence.
      + symmetry in H. apply str_eqb_eq in H. congruence.
      + apply mem_In in H. congruence. }
  split; [discriminate|].
  intros [[H _]|[[H _]|[H _]]]; apply str_eqb_eq in H; congruence.
Qed.

Lemma validate_key_ok k :
  validate_key k = Ok tt <->
  hex (k_keyid k) /\ k_keytype k <> [] /\ (k_public k <> [] \/ k_cert k <> []) /\ k_scheme k <> [] /\
  scheme_matches (k_keytype k) (k_scheme k) /\
  Forall (fun a => In a t_getSupportedKeyIDHashAlgorithms) (k_hashalgs k).
Proof.
  unfold validate_key.
  destruct (validate_hex (k_keyid k)) as [[]| |] eqn:EH; simpl.
  2,3: split; [discriminate | intros (H & _); apply validate_hex_ok in H; congruence].
  apply validate_hex_ok in EH.
  destruct (is_nil (k_keytype k)) eqn:E1.
  { apply is_nil_nil in E1. split; [discriminate | intros (_ & H & _); contradiction]. }
  apply is_nil_false in E1.
  destruct (is_nil (k_public k) && is_nil (k_cert k)) eqn:E2.
  { apply andb_true_iff in E2 as [A B]. apply is_nil_nil in A, B.
    split; [discriminate | intros (_ & _ & [H|H] & _); contradiction]. }
  assert (E2' : k_public k <> [] \/ k_cert k <> []).
  { apply andb_false_iff in E2 as [A|A]; apply is_nil_false in A; auto. }
  destruct (is_nil (k_scheme k)) eqn:E3.
  { apply is_nil_nil in E3. split; [discriminate | intros (_ & _ & _ & H & _); contradiction]. }
  apply is_nil_false in E3.
  destruct (match_keytype_scheme k) as [[]| |] eqn:EM; simpl.
  2,3: split; [discriminate | intros (_ & _ & _ & _ & H & _); apply match_keytype_scheme_ok in H; congruence].
  apply match_keytype_scheme_ok in EM.
  destruct (hashalgs_supported (k_hashalgs k)) eqn:EA.
  - apply hashalgs_supported_ok in EA. split; [intros _; exact (conj EH (conj E1 (conj E2' (conj E3 (conj EM EA))))) | reflexivity].
  - split; [discriminate|]. intros (_ & _ & _ & _ & _ & H). apply hashalgs_supported_ok in H. congruence.
Qed.

Lemma validate_layout_keys_ok keys :
  validate_layout_keys keys = Ok tt <-> Forall key_rules keys.
Proof.
  unfold validate_layout_keys. rewrite each_ok. apply Forall_iff_pointwise.
  intros [id k]. unfold key_rules, validate_public_key. simpl.
  destruct (str_eqb (k_keyid k) id) eqn:E1; simpl.
  2: { apply str_eqb_neq in E1. split; [discriminate | intros (H & _); contradiction]. }
  apply str_eqb_eq in E1.
  destruct (is_nil (k_private k)) eqn:E2; simpl.
  2: { apply is_nil_false in E2. split; [discriminate | intros (_ & H & _); contradiction]. }
  apply is_nil_nil in E2. rewrite validate_key_ok. tauto.
Qed.

(* ---------- supply chain items ---------- *)

Section WithOracles.
  Variable rule_ok : rule -> bool.
  Variable expiry_ok : str -> bool.

  Lemma validate_rules_ok rules :
    validate_rules rule_ok rules = Ok tt <-> Forall (fun r => rule_ok r = true) rules.
  Proof.
    unfold validate_rules. rewrite each_ok. apply Forall_iff_pointwise.
    intro r. destruct (rule_ok r); split; intro; congruence.
  Qed.

  Lemma validate_sci_ok name mats prods :
    validate_sci rule_ok name mats prods = Ok tt <-> item_rules rule_ok name mats prods.
  Proof.
    unfold validate_sci, item_rules.
    destruct (is_nil name) eqn:E.
    { apply is_nil_nil in E. split; [discriminate | intros (H & _); contradiction]. }
    apply is_nil_false in E.
    destruct (validate_rules rule_ok mats) as [[]| |] eqn:EM; simpl.
    - apply validate_rules_ok in EM. rewrite validate_rules_ok. tauto.
    - split; [discriminate | intros (_ & H & _); apply validate_rules_ok in H; congruence].
    - split; [discriminate | intros (_ & H & _); apply validate_rules_ok in H; congruence].
  Qed.

  Lemma validate_step_ok s : validate_step rule_ok s = Ok tt <-> step_rules rule_ok s.
  Proof.
    unfold validate_step, step_rules.
    destruct (validate_sci rule_ok (s_name s) (s_mats s) (s_prods s)) as [[]| |] eqn:ES; simpl.
    2,3: split; [discriminate | intros (H & _); apply validate_sci_ok in H; congruence].
    apply validate_sci_ok in ES.
    destruct (str_eqb (s_type s) (bs "step")) eqn:ET; simpl.
    - apply str_eqb_eq in ET. rewrite each_ok.
      assert (Forall (fun x => validate_hex x = Ok tt) (s_pubkeys s) <-> Forall hex (s_pubkeys s)) as ->
        by (apply Forall_iff_pointwise; intro; apply validate_hex_ok).
      tauto.
    - apply str_eqb_neq in ET. split; [discriminate | intros (_ & H & _); contradiction].
  Qed.

  Lemma validate_inspection_ok i : validate_inspection rule_ok i = Ok tt <-> inspection_rules rule_ok i.
  Proof.
    unfold validate_inspection, inspection_rules.
    destruct (validate_sci rule_ok (i_name i) (i_mats i) (i_prods i)) as [[]| |] eqn:ES; simpl.
    2,3: split; [discriminate | intros (H & _); apply validate_sci_ok in H; congruence].
    apply validate_sci_ok in ES.
    destruct (str_eqb (i_type i) (bs "inspection")) eqn:ET; simpl.
    - apply str_eqb_eq in ET. tauto.
    - apply str_eqb_neq in ET. split; [discriminate | intros (_ & H); contradiction].
  Qed.

  (* the loops over the shared namesSeen map *)
  Lemma validate_steps_ok l : forall seen seen',
    validate_steps rule_ok seen l = Ok seen' <->
    NoDup (map s_name l) /\ (forall n, In n (map s_name l) -> ~ In n seen) /\
    Forall (step_rules rule_ok) l /\ seen' = rev (map s_name l) ++ seen.
  Proof.
    induction l as [|s l IH]; intros seen seen'; simpl.
    - split.
      + intro H. inversion H. repeat split; try constructor. intros n [].
      + intros (_ & _ & _ & ->). reflexivity.
    - destruct (mem (s_name s) seen) eqn:EM.
      { apply mem_In in EM. split; [discriminate|].
        intros (_ & H & _). exfalso. apply (H (s_name s)); [left; reflexivity | assumption]. }
      assert (EM' : ~ In (s_name s) seen) by (intro Hi; apply mem_In in Hi; congruence).
      destruct (validate_step rule_ok s) as [[]| |] eqn:ES; simpl.
      2,3: split; [discriminate | intros (_ & _ & H & _); inversion H as [|? ? H1 H2]; apply validate_step_ok in H1; congruence].
      apply validate_step_ok in ES.
      rewrite IH. split.
      + intros (ND & Hn & HF & ->). repeat split.
        * constructor; [|assumption]. intro Hi. apply (Hn _ Hi). left. reflexivity.
        * intros n [<-|Hi]; [assumption|]. intro Hs. apply (Hn _ Hi). right. assumption.
        * constructor; assumption.
        * rewrite <- app_assoc. reflexivity.
      + intros (ND & Hn & HF & ->). inversion ND as [|? ? Hni ND']. inversion HF as [|? ? _ HF']. subst.
        repeat split.
        * assumption.
        * intros n Hi [<-|Hs]; [contradiction|]. apply (Hn n); [right; assumption | assumption].
        * assumption.
        * rewrite <- app_assoc. reflexivity.
  Qed.

  Lemma validate_inspections_ok l : forall seen seen',
    validate_inspections rule_ok seen l = Ok seen' <->
    NoDup (map i_name l) /\ (forall n, In n (map i_name l) -> ~ In n seen) /\
    Forall (inspection_rules rule_ok) l /\ seen' = rev (map i_name l) ++ seen.
  Proof.
    induction l as [|s l IH]; intros seen seen'; simpl.
    - split.
      + intro H. inversion H. repeat split; try constructor. intros n [].
      + intros (_ & _ & _ & ->). reflexivity.
    - destruct (mem (i_name s) seen) eqn:EM.
      { apply mem_In in EM. split; [discriminate|].
        intros (_ & H & _). exfalso. apply (H (i_name s)); [left; reflexivity | assumption]. }
      assert (EM' : ~ In (i_name s) seen) by (intro Hi; apply mem_In in Hi; congruence).
      destruct (validate_inspection rule_ok s) as [[]| |] eqn:ES; simpl.
      2,3: split; [discriminate | intros (_ & _ & H & _); inversion H as [|? ? H1 H2]; apply validate_inspection_ok in H1; congruence].
      apply validate_inspection_ok in ES.
      rewrite IH. split.
      + intros (ND & Hn & HF & ->). repeat split.
        * constructor; [|assumption]. intro Hi. apply (Hn _ Hi). left. reflexivity.
        * intros n [<-|Hi]; [assumption|]. intro Hs. apply (Hn _ Hi). right. assumption.
        * constructor; assumption.
        * rewrite <- app_assoc. reflexivity.
      + intros (ND & Hn & HF & ->). inversion ND as [|? ? Hni ND']. inversion HF as [|? ? _ HF']. subst.
        repeat split.
        * assumption.
        * intros n Hi [<-|Hs]; [contradiction|]. apply (Hn n); [right; assumption | assumption].
        * assumption.
        * rewrite <- app_assoc. reflexivity.
  Qed.

  Lemma nodup_app_iff (a b : list str) :
    NoDup (a ++ b) <-> NoDup a /\ NoDup b /\ (forall n, In n b -> ~ In n a).
  Proof.
    induction a as [|x a IH]; simpl.
    - split; [intro H; repeat split; [constructor | assumption | intros n _ []] | intros (_ & H & _); assumption].
    - split.
      + intro H. inversion H as [|? ? Hx Hr]. subst. apply IH in Hr as (Ha & Hb & Hd).
        repeat split.
        * constructor; [|assumption]. intro Hi. apply Hx. apply in_or_app. left. assumption.
        * assumption.
        * intros n Hn [<-|Hi]; [apply Hx; apply in_or_app; right; assumption | apply (Hd n Hn Hi)].
      + intros (Ha & Hb & Hd). inversion Ha as [|? ? Hx Ha']. subst. constructor.
        * intro Hi. apply in_app_or in Hi as [Hi|Hi]; [contradiction | apply (Hd x Hi); left; reflexivity].
        * apply IH. repeat split; [assumption | assumption |]. intros n Hn Hi. apply (Hd n Hn). right. assumption.
  Qed.

  Lemma validate_layout_ok l : validate_layout rule_ok expiry_ok l = Ok tt <-> layout_rules rule_ok expiry_ok l.
  Proof.
    unfold validate_layout, layout_rules.
    destruct (str_eqb (l_type l) (bs "layout")) eqn:ET; simpl.
    2: { apply str_eqb_neq in ET. split; [discriminate | intros (H & _); contradiction]. }
    apply str_eqb_eq in ET.
    destruct (expiry_ok (l_expires l)) eqn:EE; simpl.
    2: { split; [discriminate | intros (_ & H & _); discriminate]. }
    destruct (validate_layout_keys (l_keys l)) as [[]| |] eqn:K1; simpl.
    2,3: split; [discriminate | intros (_ & _ & H & _); apply validate_layout_keys_ok in H; congruence].
    apply validate_layout_keys_ok in K1.
    destruct (validate_layout_keys (l_rootcas l)) as [[]| |] eqn:K2; simpl.
    2,3: split; [discriminate | intros (_ & _ & _ & H & _); apply validate_layout_keys_ok in H; congruence].
    apply validate_layout_keys_ok in K2.
    destruct (validate_layout_keys (l_intermediatecas l)) as [[]| |] eqn:K3; simpl.
    2,3: split; [discriminate | intros (_ & _ & _ & _ & H & _); apply validate_layout_keys_ok in H; congruence].
    apply validate_layout_keys_ok in K3.
    rewrite nodup_app_iff.
    destruct (validate_steps rule_ok [] (l_steps l)) as [seen| |] eqn:VS; simpl.
    - apply validate_steps_ok in VS as (ND & _ & HF & ->). rewrite app_nil_r.
      destruct (validate_inspections rule_ok (rev (map s_name (l_steps l))) (l_inspect l)) as [seen'| |] eqn:VI; simpl.
      + apply validate_inspections_ok in VI as (NDi & Hd & HFi & _).
        split; [intros _ | reflexivity]. repeat split; try assumption.
        intros n Hn Hi. apply (Hd n Hn). apply in_rev in Hi. assumption.
      + split; [discriminate|]. intros (_ & _ & _ & _ & _ & (_ & NDi & Hd) & _ & HFi). exfalso.
        assert (H : validate_inspections rule_ok (rev (map s_name (l_steps l))) (l_inspect l)
                    = Ok (rev (map i_name (l_inspect l)) ++ rev (map s_name (l_steps l)))).
        { apply validate_inspections_ok. repeat split; try assumption.
          intros n Hn Hi. apply (Hd n Hn). apply in_rev. assumption. }
        congruence.
      + split; [discriminate|]. intros (_ & _ & _ & _ & _ & (_ & NDi & Hd) & _ & HFi). exfalso.
        assert (H : validate_inspections rule_ok (rev (map s_name (l_steps l))) (l_inspect l)
                    = Ok (rev (map i_name (l_inspect l)) ++ rev (map s_name (l_steps l)))).
        { apply validate_inspections_ok. repeat split; try assumption.
          intros n Hn Hi. apply (Hd n Hn). apply in_rev. assumption. }
        congruence.
    - split; [discriminate|]. intros (_ & _ & _ & _ & _ & (ND & _ & _) & HF & _). exfalso.
      assert (H : validate_steps rule_ok [] (l_steps l) = Ok (rev (map s_name (l_steps l)) ++ [])).
      { apply validate_steps_ok. repeat split; try assumption. intros n _ []. }
      congruence.
    - split; [discriminate|]. intros (_ & _ & _ & _ & _ & (ND & _ & _) & HF & _). exfalso.
      assert (H : validate_steps rule_ok [] (l_steps l) = Ok (rev (map s_name (l_steps l)) ++ [])).
      { apply validate_steps_ok. repeat split; try assumption. intros n _ []. }
      congruence.
  Qed.

  Lemma validate_artifacts_ok a :
    validate_artifacts a = Ok tt <->
    Forall (fun p : str * hashobj => Forall (fun h : str * str => hex (snd h)) (snd p)) a.
  Proof.
    unfold validate_artifacts. rewrite each_ok. apply Forall_iff_pointwise. intro p.
    rewrite each_ok. apply Forall_iff_pointwise. intro h. apply validate_hex_ok.
  Qed.

  Lemma validate_link_ok l : validate_link l = Ok tt <-> link_rules l.
  Proof.
    unfold validate_link, link_rules.
    destruct (str_eqb (ln_type l) (bs "link")) eqn:ET; simpl.
    2: { apply str_eqb_neq in ET. split; [discriminate | intros (H & _); contradiction]. }
    apply str_eqb_eq in ET.
    destruct (validate_artifacts (ln_materials l)) as [[]| |] eqn:EM; simpl.
    - apply validate_artifacts_ok in EM. rewrite validate_artifacts_ok. tauto.
    - split; [discriminate | intros (_ & H & _); apply validate_artifacts_ok in H; congruence].
    - split; [discriminate | intros (_ & H & _); apply validate_artifacts_ok in H; congruence].
  Qed.

  Lemma validate_signature_ok s : validate_signature s = Ok tt <-> signature_rules s.
  Proof.
    unfold validate_signature, signature_rules.
    destruct (validate_hex (sg_keyid s)) as [[]| |] eqn:E; simpl.
    - apply validate_hex_ok in E. rewrite validate_hex_ok. tauto.
    - split; [discriminate | intros (H & _); apply validate_hex_ok in H; congruence].
    - split; [discriminate | intros (H & _); apply validate_hex_ok in H; congruence].
  Qed.

  Theorem validate_metablock_iff sg sigs :
    validate_metablock rule_ok expiry_ok sg sigs = Ok tt <-> format_rules rule_ok expiry_ok sg sigs.
  Proof.
    unfold validate_metablock, format_rules.
    assert (HS : each validate_signature sigs = Ok tt <-> Forall signature_rules sigs).
    { rewrite each_ok. apply Forall_iff_pointwise. intro. apply validate_signature_ok. }
    destruct sg as [l|l|].
    - destruct (validate_layout rule_ok expiry_ok l) as [[]| |] eqn:E; simpl.
      + apply validate_layout_ok in E. rewrite HS. tauto.
      + split; [discriminate | intros (H & _); apply validate_layout_ok in H; congruence].
      + split; [discriminate | intros (H & _); apply validate_layout_ok in H; congruence].
    - destruct (validate_link l) as [[]| |] eqn:E; simpl.
      + apply validate_link_ok in E. rewrite HS. tauto.
      + split; [discriminate | intros (H & _); apply validate_link_ok in H; congruence].
      + split; [discriminate | intros (H & _); apply validate_link_ok in H; congruence].
    - simpl. split; [discriminate | intros ([] & _)].
  Qed.

  (* the validator never panics and fails only with an error *)
  Lemma each_no_panic {A} (f : A -> res unit) l : (forall x, is_panic (f x) = false) -> is_panic (each f l) = false.
  Proof.
    intro H. induction l as [|x l IH]; simpl; [reflexivity|].
    specialize (H x). destruct (f x) as [[]| |]; simpl in *; [assumption | reflexivity | discriminate].
  Qed.
End WithOracles.


(* key material (validateKeyVal) *)
Lemma validate_keyval_ok pem_kind k :
  validate_keyval pem_kind k = Ok tt <-> keyval_rules pem_kind k.
Proof.
  destruct keytypes_distinct as (D1 & D2 & D3).
  assert (N1 : c_rsaKeyType <> c_ed25519KeyType) by (intro H; apply str_eqb_eq in H; congruence).
  assert (N2 : c_rsaKeyType <> c_ecdsaKeyType) by (intro H; apply str_eqb_eq in H; congruence).
  assert (N3 : c_ed25519KeyType <> c_ecdsaKeyType) by (intro H; apply str_eqb_eq in H; congruence).
  unfold validate_keyval, keyval_rules.
  destruct (str_eq_dec (k_keytype k) c_ed25519KeyType) as [K|K].
  { rewrite K, str_eqb_refl.
    destruct (validate_hex (k_public k)) as [[]| |] eqn:EP; simpl.
    - apply validate_hex_ok in EP.
      destruct (is_nil (k_private k)) eqn:EN; simpl.
      + apply is_nil_nil in EN. intuition congruence.
      + apply is_nil_false in EN. rewrite validate_hex_ok. intuition congruence.
    - assert (~ hex (k_public k)) by (intro H; apply validate_hex_ok in H; congruence). intuition congruence.
    - assert (~ hex (k_public k)) by (intro H; apply validate_hex_ok in H; congruence). intuition congruence. }
  apply str_eqb_neq in K. rewrite K. apply str_eqb_neq in K.
  destruct (str_eq_dec (k_keytype k) c_rsaKeyType) as [K2|K2].
  { rewrite K2, str_eqb_refl. simpl.
    destruct (pem_kind (k_public k)) as [pk|] eqn:EPK.
    2: intuition congruence.
    destruct pk; simpl; try (intuition congruence).
    try rewrite str_eqb_refl. simpl.
    destruct (is_nil (k_private k)) eqn:EN; simpl.
    + apply is_nil_nil in EN. intuition congruence.
    + apply is_nil_false in EN.
      destruct (pem_kind (k_private k)) as [sk|] eqn:ESK; [|intuition congruence].
      destruct sk; simpl; try rewrite str_eqb_refl; simpl; intuition congruence. }
  apply str_eqb_neq in K2. rewrite K2. apply str_eqb_neq in K2.
  destruct (str_eq_dec (k_keytype k) c_ecdsaKeyType) as [K3|K3].
  { rewrite K3, str_eqb_refl. simpl.
    destruct (pem_kind (k_public k)) as [pk|] eqn:EPK.
    2: intuition congruence.
    assert (D2' : str_eqb c_ecdsaKeyType c_rsaKeyType = false) by (apply str_eqb_neq; congruence).
    destruct pk; simpl; try rewrite D2'; simpl; try (intuition congruence).
    try rewrite str_eqb_refl. simpl.
    destruct (is_nil (k_private k)) eqn:EN; simpl.
    + apply is_nil_nil in EN. intuition congruence.
    + apply is_nil_false in EN.
      destruct (pem_kind (k_private k)) as [sk|] eqn:ESK; [|intuition congruence].
      destruct sk; simpl; try rewrite D2'; try rewrite str_eqb_refl; simpl; intuition congruence. }
  pose proof K3 as K3b. apply str_eqb_neq in K3b. rewrite K3b. simpl. intuition congruence.
Qed.
