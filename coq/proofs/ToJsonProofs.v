(* ToJsonProofs.v — json.Marshal of the metadata structs (model/ToJson.v):
   obligations over the regenerated schema, totality on well-typed values and on
   the shared records, injectivity. *)
From IT Require Import model.ToJson spec.JsonSpec spec.SchemaSpec proofs.JsonOrder proofs.JsonStr proofs.JsonProofs.

(* ---------- obligations over gen/Schema.v (re-decided on every build) ---------- *)

Theorem schema_matches_spec : schema_eqb schema spec_schema = true.
Proof. vm_compute. reflexivity. Qed.

Definition struct_names_ok (s : str * list field) : bool :=
  match flat_fields (fst s) with
  | Some fds => nodupb (map f_json fds)
  | None => false
  end.

Theorem schema_names_nodup : forallb struct_names_ok schema = true /\ nodupb (map fst schema) = true.
Proof. split; vm_compute; reflexivity. Qed.

(* omitempty occurs only on strings, lists and maps: there "empty" and "absent" denote
   the same metadata (no omitempty integer, boolean, struct or interface field) *)
Definition omit_ty_ok (t : ty) : bool :=
  match t with TStr | TList _ | TMap _ => true | _ => false end.
Definition struct_omit_ok (s : str * list field) : bool :=
  match flat_fields (fst s) with
  | Some fds => forallb (fun fd => negb (f_omitempty fd) || omit_ty_ok (f_ty fd)) fds
  | None => false
  end.
Theorem schema_omitempty_unambiguous : forallb struct_omit_ok schema = true.
Proof. vm_compute. reflexivity. Qed.

Lemma alookup_In {V} (m : amap V) k v : alookup m k = Some v -> In (k, v) m.
Proof.
  induction m as [|[k' v'] m IH]; simpl; [discriminate|].
  destruct (str_eqb k k') eqn:E; intro H.
  - apply str_eqb_eq in E. inversion H; subst. left. reflexivity.
  - right. apply IH. exact H.
Qed.

Lemma flat_fields_in_schema n fds : flat_fields n = Some fds -> exists raw, In (n, raw) schema.
Proof.
  unfold flat_fields. destruct (length schema) as [|f]; [discriminate|]. cbn [flat_fields_f].
  destruct (alookup schema n) as [raw|] eqn:E; [|discriminate]. intros _. exists raw. apply alookup_In. exact E.
Qed.

Lemma flat_names_nodup n fds : flat_fields n = Some fds -> NoDup (map f_json fds).
Proof.
  intro H. destruct (flat_fields_in_schema n fds H) as [raw Hin].
  destruct schema_names_nodup as [Hall _]. rewrite forallb_forall in Hall. specialize (Hall _ Hin).
  unfold struct_names_ok in Hall. cbn [fst] in Hall. rewrite H in Hall. apply nodupb_NoDup. exact Hall.
Qed.

Lemma flat_omit_ok n fds fd : flat_fields n = Some fds -> In fd fds -> f_omitempty fd = true -> omit_ty_ok (f_ty fd) = true.
Proof.
  intros H Hin Ho. destruct (flat_fields_in_schema n fds H) as [raw Hs].
  pose proof schema_omitempty_unambiguous as Hall. rewrite forallb_forall in Hall. specialize (Hall _ Hs).
  unfold struct_omit_ok in Hall. cbn [fst] in Hall. rewrite H in Hall. rewrite forallb_forall in Hall.
  specialize (Hall fd Hin). rewrite Ho in Hall. exact Hall.
Qed.

(* ---------- induction over Go values ---------- *)

Section GvInd.
  Variable P : gval -> Prop.
  Hypothesis Hstr : forall s, P (GStr s).
  Hypothesis Hint : forall z, P (GInt z).
  Hypothesis Hbool : forall b, P (GBool b).
  Hypothesis Hnil : P GNil.
  Hypothesis Hlist : forall l, Forall P l -> P (GList l).
  Hypothesis Hmap : forall m, Forall (fun kx => P (snd kx)) m -> P (GMap m).
  Hypothesis Hstruct : forall fs, Forall P fs -> P (GStruct fs).
  Hypothesis Hany : forall v, P (GAny v).
  Hypothesis Hbad : P GBad.

  Fixpoint gval_ind' (g : gval) : P g :=
    match g with
    | GStr s => Hstr s
    | GInt z => Hint z
    | GBool b => Hbool b
    | GNil => Hnil
    | GList l => Hlist l ((fix go (l : list gval) : Forall P l :=
                             match l with [] => Forall_nil _ | x :: l' => Forall_cons x (gval_ind' x) (go l') end) l)
    | GMap m => Hmap m ((fix go (m : list (str * gval)) : Forall (fun kx => P (snd kx)) m :=
                           match m with [] => Forall_nil _ | kx :: m' => Forall_cons kx (gval_ind' (snd kx)) (go m') end) m)
    | GStruct fs => Hstruct fs ((fix go (l : list gval) : Forall P l :=
                                   match l with [] => Forall_nil _ | x :: l' => Forall_cons x (gval_ind' x) (go l') end) fs)
    | GAny v => Hany v
    | GBad => Hbad
    end.
End GvInd.

(* ---------- the struct loop, named ---------- *)

Fixpoint fields_json (fds : list field) (fs : list gval) {struct fs} : res (list (str * jv)) :=
  match fds, fs with
  | [], [] => Ok []
  | fd :: fds', x :: fs' =>
    do r <- fields_json fds' fs';
    if f_omitempty fd && is_empty_g x then Ok r
    else do a <- to_json (f_ty fd) x; Ok ((f_json fd, a) :: r)
  | _, _ => Err E_TYPE
  end.

Fixpoint list_json (t : ty) (l : list gval) : res (list jv) :=
  match l with [] => Ok [] | x :: l' => do a <- to_json t x; do r <- list_json t l'; Ok (a :: r) end.

Fixpoint map_json (t : ty) (m : list (str * gval)) : res (list (str * jv)) :=
  match m with
  | [] => Ok []
  | (k, x) :: m' => do a <- to_json t x; do r <- map_json t m'; Ok ((utf8_sanitize k, a) :: r)
  end.

Lemma to_json_list t l : to_json (TList t) (GList l) = do js <- list_json t l; Ok (JArr js).
Proof. cbn [to_json]. f_equal. induction l as [|x l IH]; [reflexivity|]. cbn [list_json]. rewrite <- IH. reflexivity. Qed.

Lemma to_json_map t m : to_json (TMap t) (GMap m) = do ps <- map_json t m; Ok (JObj ps).
Proof. cbn [to_json]. f_equal. induction m as [|[k x] m IH]; [reflexivity|]. cbn [map_json]. rewrite <- IH. reflexivity. Qed.

Lemma to_json_struct n fs : to_json (TStruct n) (GStruct fs) =
  match flat_fields n with
  | None => Err E_TYPE
  | Some fds => do ps <- fields_json fds fs; Ok (JObj ps)
  end.
Proof.
  cbn [to_json]. destruct (flat_fields n) as [fds|]; [|reflexivity]. f_equal.
Qed.

(* ---------- typing ---------- *)

Fixpoint wt (t : ty) (g : gval) {struct g} : Prop :=
  match t, g with
  | TStr, GStr _ => True
  | TInt, GInt _ => True
  | TBool, GBool _ => True
  | TAny, GAny _ => True
  | TList _, GNil => True
  | TMap _, GNil => True
  | TList t', GList l => (fix go (l : list gval) : Prop := match l with [] => True | x :: l' => wt t' x /\ go l' end) l
  | TMap t', GMap m => (fix go (m : list (str * gval)) : Prop :=
                          match m with [] => True | (k, x) :: m' => wt t' x /\ go m' end) m
  | TStruct n, GStruct fs =>
    match flat_fields n with
    | None => False
    | Some fds => (fix go (fds : list field) (fs : list gval) {struct fs} : Prop :=
                     match fds, fs with
                     | [], [] => True
                     | fd :: fds', x :: fs' => wt (f_ty fd) x /\ go fds' fs'
                     | _, _ => False
                     end) fds fs
    end
  | _, _ => False
  end.

Fixpoint wt_fields (fds : list field) (fs : list gval) {struct fs} : Prop :=
  match fds, fs with
  | [], [] => True
  | fd :: fds', x :: fs' => wt (f_ty fd) x /\ wt_fields fds' fs'
  | _, _ => False
  end.

Lemma wt_list t l : wt (TList t) (GList l) <-> Forall (wt t) l.
Proof.
  cbn [wt]. induction l as [|x l IH]; [split; constructor|]. split.
  - intros [A B]. constructor; [exact A | apply IH; exact B].
  - intro H. inversion H; subst. split; [assumption | apply IH; assumption].
Qed.

Lemma wt_map t m : wt (TMap t) (GMap m) <-> Forall (fun kx => wt t (snd kx)) m.
Proof.
  cbn [wt]. induction m as [|[k x] m IH]; [split; constructor|]. split.
  - intros [A B]. constructor; [exact A | apply IH; exact B].
  - intro H. inversion H; subst. split; [assumption | apply IH; assumption].
Qed.

Lemma wt_struct n fs : wt (TStruct n) (GStruct fs) <-> exists fds, flat_fields n = Some fds /\ wt_fields fds fs.
Proof.
  cbn [wt]. destruct (flat_fields n) as [fds|].
  - assert (E : forall fds fs, (fix go (fds : list field) (fs : list gval) {struct fs} : Prop :=
                     match fds, fs with
                     | [], [] => True
                     | fd :: fds', x :: fs' => wt (f_ty fd) x /\ go fds' fs'
                     | _, _ => False
                     end) fds fs <-> wt_fields fds fs).
    { intros a b. revert a. induction b as [|x b IH]; intros [|fd a]; cbn [wt_fields]; try tauto;
        try (rewrite IH; tauto). }
    rewrite E. split; [intro H; exists fds; auto | intros [fds' [E' H]]; inversion E'; subst; exact H].
  - split; [tauto | intros [fds [E _]]; discriminate].
Qed.

(* ---------- totality on well-typed values ---------- *)

Lemma to_json_total g : forall t, wt t g -> exists j, to_json t g = Ok j.
Proof.
  induction g using gval_ind'; intros t Hwt.
  - destruct t; try contradiction. eexists; reflexivity.
  - destruct t; try contradiction. eexists; reflexivity.
  - destruct t; try contradiction. eexists; reflexivity.
  - destruct t; try contradiction; eexists; reflexivity.
  - destruct t as [| | |t'| | |]; try contradiction. apply wt_list in Hwt. rewrite to_json_list.
    assert (E : exists js, list_json t' l = Ok js).
    { induction H as [|x l Hx _ IH]; [eexists; reflexivity|]. inversion Hwt; subst.
      destruct (Hx t' H1) as [a Ea]. destruct (IH H2) as [js Ejs]. cbn [list_json]. rewrite Ea, Ejs. eexists; reflexivity. }
    destruct E as [js E]. rewrite E. eexists; reflexivity.
  - destruct t as [| | | |t'| |]; try contradiction. apply wt_map in Hwt. rewrite to_json_map.
    assert (E : exists ps, map_json t' m = Ok ps).
    { induction H as [|[k x] m Hx _ IH]; [eexists; reflexivity|]. inversion Hwt; subst. cbn [snd] in *.
      destruct (Hx t' H1) as [a Ea]. destruct (IH H2) as [ps Eps]. cbn [map_json]. rewrite Ea, Eps. eexists; reflexivity. }
    destruct E as [ps E]. rewrite E. eexists; reflexivity.
  - destruct t as [| | | | |n|]; try contradiction. apply wt_struct in Hwt as [fds [Ef Hw]].
    rewrite to_json_struct, Ef.
    assert (E : exists ps, fields_json fds fs = Ok ps).
    { clear Ef. revert fds Hw. induction H as [|x fs Hx _ IH]; intros [|fd fds] Hw; cbn [wt_fields] in Hw; try contradiction.
      - eexists; reflexivity.
      - destruct Hw as [Hx' Hr]. destruct (IH fds Hr) as [r Er]. cbn [fields_json]. rewrite Er. cbn [rbind].
        destruct (f_omitempty fd && is_empty_g x); [eexists; reflexivity|].
        destruct (Hx _ Hx') as [a Ea]. rewrite Ea. eexists; reflexivity. }
    destruct E as [ps E]. rewrite E. eexists; reflexivity.
  - destruct t; try contradiction. eexists; reflexivity.
  - destruct t; contradiction.
Qed.

(* ---------- the shared records are well typed ---------- *)

Lemma wt_strs l : wt (TList TStr) (g_strs l).
Proof. unfold g_strs. apply wt_list. apply Forall_forall. intros x Hx. apply in_map_iff in Hx as [s [<- _]]. exact I. Qed.

Lemma wt_rules l : wt (TList (TList TStr)) (g_rules l).
Proof. unfold g_rules. apply wt_list. apply Forall_forall. intros x Hx. apply in_map_iff in Hx as [s [<- _]]. apply wt_strs. Qed.

Lemma wt_hashobj h : wt (TMap TStr) (g_hashobj h).
Proof. unfold g_hashobj. apply wt_map. apply Forall_forall. intros x Hx. apply in_map_iff in Hx as [s [<- _]]. exact I. Qed.

Lemma wt_artifacts a : wt (TMap (TMap TStr)) (g_artifacts a).
Proof. unfold g_artifacts. apply wt_map. apply Forall_forall. intros x Hx. apply in_map_iff in Hx as [s [<- _]]. apply wt_hashobj. Qed.

Lemma wt_anymap m : wt (TMap TAny) (g_anymap m).
Proof. unfold g_anymap. apply wt_map. apply Forall_forall. intros x Hx. apply in_map_iff in Hx as [s [<- _]]. exact I. Qed.

Lemma wt_fields_map vals fds :
  Forall (fun fd => exists g, alookup vals (f_go fd) = Some g /\ wt (f_ty fd) g) fds ->
  wt_fields fds (map (fun fd => match alookup vals (f_go fd) with Some g => g | None => GBad end) fds).
Proof.
  induction 1 as [|fd fds [g [E Hg]] _ IH]; [exact I|].
  cbn [map wt_fields]. rewrite E. split; assumption.
Qed.

Lemma wt_build n vals fds : flat_fields n = Some fds ->
  Forall (fun fd => exists g, alookup vals (f_go fd) = Some g /\ wt (f_ty fd) g) fds ->
  wt (TStruct n) (build_struct n vals).
Proof.
  intros Hf Hall. unfold build_struct. rewrite Hf. apply wt_struct. exists fds. split; [exact Hf|].
  apply wt_fields_map. exact Hall.
Qed.

Ltac wt_field := eexists; split; [reflexivity | cbn [f_ty]].
Ltac wt_build_tac := eapply wt_build; [vm_compute; reflexivity|].

Lemma wt_link l : wt (TStruct (bs "Link")) (link_to_gval l).
Proof.
  unfold link_to_gval. wt_build_tac.
  repeat (constructor; [wt_field; auto using wt_strs, wt_artifacts, wt_anymap; exact I|]). constructor.
Qed.

Lemma wt_keyval k : wt (TStruct (bs "KeyVal")) (keyval_to_gval k).
Proof.
  unfold keyval_to_gval. wt_build_tac.
  repeat (constructor; [wt_field; exact I|]). constructor.
Qed.

Lemma wt_key k : wt (TStruct (bs "Key")) (key_to_gval k).
Proof.
  unfold key_to_gval. wt_build_tac.
  repeat (constructor; [wt_field; auto using wt_strs, wt_keyval; exact I|]). constructor.
Qed.

Lemma wt_keymap m : wt (TMap (TStruct (bs "Key"))) (g_keymap m).
Proof. unfold g_keymap. apply wt_map. apply Forall_forall. intros x Hx. apply in_map_iff in Hx as [s [<- _]]. apply wt_key. Qed.

Lemma wt_cc c : wt (TStruct (bs "CertificateConstraint")) (cc_to_gval c).
Proof.
  unfold cc_to_gval. wt_build_tac.
  repeat (constructor; [wt_field; auto using wt_strs; exact I|]). constructor.
Qed.

Lemma wt_ccs l : wt (TList (TStruct (bs "CertificateConstraint"))) (GList (map cc_to_gval l)).
Proof. apply wt_list. apply Forall_forall. intros x Hx. apply in_map_iff in Hx as [c [<- _]]. apply wt_cc. Qed.

Lemma wt_step s : wt (TStruct (bs "Step")) (step_to_gval s).
Proof.
  unfold step_to_gval. wt_build_tac.
  repeat (constructor; [wt_field; auto using wt_strs, wt_rules, wt_ccs; exact I|]). constructor.
Qed.

Lemma wt_insp i : wt (TStruct (bs "Inspection")) (insp_to_gval i).
Proof.
  unfold insp_to_gval. wt_build_tac.
  repeat (constructor; [wt_field; auto using wt_strs, wt_rules; exact I|]). constructor.
Qed.

Lemma wt_steps l : wt (TList (TStruct (bs "Step"))) (GList (map step_to_gval l)).
Proof. apply wt_list. apply Forall_forall. intros x Hx. apply in_map_iff in Hx as [c [<- _]]. apply wt_step. Qed.
Lemma wt_insps l : wt (TList (TStruct (bs "Inspection"))) (GList (map insp_to_gval l)).
Proof. apply wt_list. apply Forall_forall. intros x Hx. apply in_map_iff in Hx as [c [<- _]]. apply wt_insp. Qed.

Lemma wt_layout l : wt (TStruct (bs "Layout")) (layout_to_gval l).
Proof.
  unfold layout_to_gval. wt_build_tac.
  repeat (constructor; [wt_field; auto using wt_keymap, wt_steps, wt_insps; exact I|]). constructor.
Qed.

Lemma wt_payload p : wt (payload_ty p) (payload_to_gval p).
Proof. destruct p; [apply wt_link | apply wt_layout]. Qed.

(* json.Marshal never fails on a link or layout: payload_to_json is its result *)
Theorem payload_to_json_ok p : to_json (payload_ty p) (payload_to_gval p) = Ok (payload_to_json p).
Proof.
  destruct (to_json_total _ _ (wt_payload p)) as [j E].
  destruct p; unfold payload_to_json, link_to_json, layout_to_json; cbn [payload_ty payload_to_gval] in *; rewrite E; reflexivity.
Qed.

Theorem signable_eq p : signable p = signable_g (payload_ty p) (payload_to_gval p).
Proof. unfold signable, signable_g. rewrite payload_to_json_ok. reflexivity. Qed.

Theorem dsse_payload_eq p : dsse_payload p = dsse_payload_g (payload_ty p) (payload_to_gval p).
Proof. unfold dsse_payload, dsse_payload_g. rewrite payload_to_json_ok. reflexivity. Qed.
