(* GlobDecode.v — facts about decode_rune / skip_char, character tails, and the
   equivalence of the executable denotation [den] with the inductive [denote]. *)
From IT Require Import spec.GlobSpec.

Ltac break_decode :=
  repeat match goal with
         | |- context [if ?c then _ else _] => destruct c eqn:?
         | |- context [match ?l with [] => _ | _ :: _ => _ end] => destruct l
         end.

Lemma decode_rune_nil : decode_rune [] = (rune_error, 0%nat).
Proof. reflexivity. Qed.

Lemma decode_width : forall s, s <> [] ->
  (1 <= snd (decode_rune s) <= length s)%nat.
Proof.
  intros [|b0 s1] H; [congruence|]. unfold decode_rune.
  break_decode; simpl; lia.
Qed.

Lemma skip_char_nil : skip_char [] = [].
Proof. reflexivity. Qed.

Lemma skip_char_length : forall s, s <> [] -> (length (skip_char s) < length s)%nat.
Proof.
  intros s H. unfold skip_char. rewrite skipn_length.
  pose proof (decode_width s H). destruct s; [congruence|]. simpl length in *. lia.
Qed.

Lemma skip_char_suffix : forall s, exists pre, s = pre ++ skip_char s /\ length pre = snd (decode_rune s).
Proof.
  intros s. unfold skip_char. exists (firstn (snd (decode_rune s)) s). split.
  - symmetry; apply firstn_skipn.
  - apply firstn_length_le. destruct s as [|b s']; [simpl; lia|].
    pose proof (decode_width (b :: s') ltac:(discriminate)). lia.
Qed.

(* a byte below 128 is a character of its own *)
Lemma decode_ascii : forall b s, b <? 128 = true -> decode_rune (b :: s) = (b, 1%nat).
Proof. intros b s H. unfold decode_rune. rewrite H. reflexivity. Qed.

Lemma skip_char_ascii : forall b s, b <? 128 = true -> skip_char (b :: s) = s.
Proof. intros b s H. unfold skip_char. rewrite decode_ascii by assumption. reflexivity. Qed.

Lemma in_rng_ge : forall lo hi b, in_rng lo hi b = true -> lo <= b /\ b <= hi.
Proof. unfold in_rng. intros lo hi b H. apply andb_true_iff in H as [H1 H2].
  apply N.leb_le in H1. apply N.leb_le in H2. split; assumption. Qed.

Lemma not_ascii_of_rng : forall lo hi b, 128 <= lo -> in_rng lo hi b = true -> b <? 128 = false.
Proof. intros lo hi b Hlo H. apply in_rng_ge in H. apply N.ltb_ge. lia. Qed.

Lemma in_rng_disj : forall lo1 hi1 lo2 hi2 b, hi1 < lo2 ->
  in_rng lo2 hi2 b = true -> in_rng lo1 hi1 b = false.
Proof.
  intros. apply in_rng_ge in H0. unfold in_rng.
  destruct (lo1 <=? b) eqn:E1; [|reflexivity]. simpl. apply N.leb_gt. lia.
Qed.

Lemma skip_char_valid2 : forall b0 b1 s, valid2 b0 b1 = true -> skip_char (b0 :: b1 :: s) = s.
Proof.
  intros b0 b1 s H. unfold valid2 in H. apply andb_true_iff in H as [H0 H1].
  unfold skip_char, decode_rune. rewrite (not_ascii_of_rng 194 223 b0 ltac:(lia) H0), H0, H1. reflexivity.
Qed.

Lemma skip_char_valid3 : forall b0 b1 b2 s, valid3 b0 b1 b2 = true -> skip_char (b0 :: b1 :: b2 :: s) = s.
Proof.
  intros b0 b1 b2 s H. unfold valid3 in H.
  apply andb_true_iff in H as [H H2]. apply andb_true_iff in H as [H0 H1].
  unfold skip_char, decode_rune.
  rewrite (not_ascii_of_rng 224 239 b0 ltac:(lia) H0), (in_rng_disj 194 223 224 239 b0 ltac:(lia) H0), H0, H1, H2.
  reflexivity.
Qed.

Lemma skip_char_valid4 : forall b0 b1 b2 b3 s, valid4 b0 b1 b2 b3 = true ->
  skip_char (b0 :: b1 :: b2 :: b3 :: s) = s.
Proof.
  intros b0 b1 b2 b3 s H. unfold valid4 in H.
  apply andb_true_iff in H as [H H3]. apply andb_true_iff in H as [H H2]. apply andb_true_iff in H as [H0 H1].
  unfold skip_char, decode_rune.
  rewrite (not_ascii_of_rng 240 244 b0 ltac:(lia) H0), (in_rng_disj 194 223 240 244 b0 ltac:(lia) H0),
    (in_rng_disj 224 239 240 244 b0 ltac:(lia) H0), H0, H1, H2, H3.
  reflexivity.
Qed.

(* ------------------------------------------------------------------ *)
(* character tails *)
Inductive ctail : str -> str -> Prop :=
| ct_refl n : ctail n n
| ct_step n t : n <> [] -> ctail (skip_char n) t -> ctail n t.

Lemma ctail_trans : forall a b c, ctail a b -> ctail b c -> ctail a c.
Proof. intros a b c H. induction H; intros Hc; [assumption|]. apply ct_step; auto. Qed.

Lemma ctail_nil : forall t, ctail [] t -> t = [].
Proof. intros t H. inversion H; subst; [reflexivity|congruence]. Qed.

Lemma ctail_length : forall a b, ctail a b -> (length b <= length a)%nat.
Proof. intros a b H. induction H; [lia|]. pose proof (skip_char_length n H). lia. Qed.

(* both run in step: one character later on both sides *)
Lemma ctail_skip : forall a b, ctail a b -> b <> [] -> ctail (skip_char a) (skip_char b).
Proof.
  intros a b H Hb. inversion H; subst.
  - apply ct_refl.
  - eapply ctail_trans; [eassumption|]. apply ct_step; [assumption|apply ct_refl].
Qed.

Lemma char_tails_f_enough : forall f1 f2 n, (length n <= f1)%nat -> (length n <= f2)%nat ->
  char_tails_f f1 n = char_tails_f f2 n.
Proof.
  induction f1 as [|f1 IH]; intros f2 n H1 H2.
  - destruct n; [|simpl in H1; lia]. destruct f2; reflexivity.
  - destruct n as [|b n']; [destruct f2; reflexivity|].
    destruct f2 as [|f2]; [simpl in H2; lia|].
    cbn [char_tails_f]. f_equal. apply IH.
    + pose proof (skip_char_length (b :: n') ltac:(discriminate)). lia.
    + pose proof (skip_char_length (b :: n') ltac:(discriminate)). lia.
Qed.

Lemma char_tails_unfold : forall n,
  char_tails n = n :: match n with [] => [] | _ => char_tails (skip_char n) end.
Proof.
  intros [|b n']; [reflexivity|]. unfold char_tails at 1. cbn [length char_tails_f]. f_equal.
  apply char_tails_f_enough; [|lia].
  pose proof (skip_char_length (b :: n') ltac:(discriminate)). simpl length in H. lia.
Qed.

Lemma in_char_tails : forall t n, In t (char_tails n) <-> ctail n t.
Proof.
  intros t n. remember (length n) as k eqn:Hk. revert n Hk.
  induction k as [k IH] using lt_wf_ind. intros n Hk.
  rewrite char_tails_unfold. split.
  - intros [->|H]; [apply ct_refl|].
    destruct n as [|b n']; [destruct H|].
    apply ct_step; [discriminate|].
    eapply IH; [|reflexivity|exact H]. subst k. apply skip_char_length. discriminate.
  - intros H. inversion H; subst; [left; reflexivity|]. right.
    destruct n as [|b n']; [congruence|].
    eapply IH; [|reflexivity|assumption]. apply skip_char_length. discriminate.
Qed.

(* ------------------------------------------------------------------ *)
(* den decides denote *)
Lemma denote_star_ctail : forall is n t, ctail n t -> denote is t -> denote (IStar :: is) n.
Proof.
  intros is n t H. induction H; intros Hd.
  - apply DStarNone; assumption.
  - apply DStarMore; auto.
Qed.

Lemma denote_star_inv : forall is n, denote (IStar :: is) n -> exists t, ctail n t /\ denote is t.
Proof.
  intros is n H. remember (IStar :: is) as l eqn:Hl. induction H; try discriminate.
  - inversion Hl; subst. exists n. split; [apply ct_refl|assumption].
  - destruct (IHdenote Hl) as [t [Ht Hd]]. exists t. split; [apply ct_step; assumption|assumption].
Qed.

Lemma is_nil_false : forall (A : Type) (l : list A), is_nil l = false <-> l <> [].
Proof. intros A [|x l]; simpl; split; congruence. Qed.

Lemma den_denote : forall is n, den is n = true <-> denote is n.
Proof.
  induction is as [|it is IH]; intros n.
  - simpl. destruct n; simpl; split; intros H.
    + apply DNil.
    + reflexivity.
    + discriminate.
    + inversion H.
  - destruct it as [| |b|neg rs]; cbn [den].
    + rewrite existsb_exists. split.
      * intros [t [Hin Hd]]. apply in_char_tails in Hin. apply IH in Hd.
        eapply denote_star_ctail; eassumption.
      * intros H. apply denote_star_inv in H as [t [Ht Hd]]. exists t.
        split; [apply in_char_tails; assumption|apply IH; assumption].
    + rewrite andb_true_iff, negb_true_iff, is_nil_false, IH. split.
      * intros [H1 H2]. constructor; assumption.
      * intros H. inversion H; subst. split; assumption.
    + destruct n as [|x n'].
      * split; [discriminate|intros H; inversion H].
      * rewrite andb_true_iff, N.eqb_eq, IH. split.
        -- intros [-> H]. constructor; assumption.
        -- intros H. inversion H; subst. split; [reflexivity|assumption].
    + rewrite !andb_true_iff, negb_true_iff, is_nil_false, IH. split.
      * intros [[H1 H2] H3]. constructor; assumption.
      * intros H. inversion H; subst. repeat split; assumption.
Qed.

Lemma den_star_iff : forall is n, den (IStar :: is) n = true <-> exists t, ctail n t /\ den is t = true.
Proof.
  intros is n. cbn [den]. rewrite existsb_exists. split; intros [t [H1 H2]]; exists t; split; auto;
    apply in_char_tails; assumption.
Qed.
