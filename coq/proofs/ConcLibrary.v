(* ConcLibrary.v — the generic serializability theorem instantiated with the inventory of
   package-level state regenerated from the Go source (gen/Globals.v).

   Modelling assumption (stated in the hypothesis [writes_within library_written_vars ts]):
   the only state two library calls on independent data have in common is the set of
   package-level variables of in_toto, and a call can modify such a variable only at one of
   the sites the translator lists in [pkg_var_writes].  When that list is empty (obligation
   [globals_written_empty] in props/C16.v, re-checked against the source on every run) the
   calls are write-free threads and the theorem applies.

   State of the whole process that the Go runtime or the kernel keeps for all goroutines -- working
   directory, environment, umask, signal dispositions, default logger, global random source, default
   HTTP mux, global flag set, runtime knobs -- is shared state in the same sense: it is represented by
   one pseudo-variable per kind of state (the third component of [pkg_process_state_calls], e.g.
   "cwd"), a call that changes it is a [Write] to that variable, and every path-relative or
   environment-dependent operation is a [Read] of it.  The second obligation
   [globals_no_process_state_calls] says that no function of in_toto makes such a call. *)
From IT Require Import model.Base model.Conc proofs.ConcProofs gen.Globals.
Local Open Scope nat_scope.

Definition library_written_vars : list var :=
  map (fun t => fst (fst t)) pkg_var_writes ++ map (fun t => snd t) pkg_process_state_calls.

Theorem library_calls_serializable (Hinv : pkg_var_writes = []) (Hproc : pkg_process_state_calls = []) :
  forall (V L : Type) (ts : list (prog V L)) (s0 : store V) (sched order : list nat),
  writes_within library_written_vars ts ->
  finished (run sched (s0, ts)) = true ->
  Permutation order (seq 0 (length ts)) ->
  results (run sched (s0, ts)) = results (seq_run order (s0, ts))
  /\ forall g, fst (run sched (s0, ts)) g = s0 g /\ fst (seq_run order (s0, ts)) g = s0 g.
Proof.
  intros V L ts s0 sched order Hw Hfin P.
  apply (inventory_serializable library_written_vars).
  - unfold library_written_vars. rewrite Hinv, Hproc. reflexivity.
  - exact Hw.
  - exact Hfin.
  - apply perm_covers; exact P.
Qed.

(* a call that has returned, at any point of any interleaving with any other calls *)
Theorem library_call_result_fixed (Hinv : pkg_var_writes = []) (Hproc : pkg_process_state_calls = []) :
  forall (V L : Type) (ts : list (prog V L)) (s0 : store V) (sched : list nat) i p r,
  writes_within library_written_vars ts ->
  nth_error ts i = Some p ->
  nth_error (snd (run sched (s0, ts))) i = Some (Done r) ->
  r = snd (exec s0 p).
Proof.
  intros V L ts s0 sched i p r Hw. apply no_shared_state_prefix.
  intros q g Hq W. specialize (Hw q g Hq W).
  unfold library_written_vars in Hw. rewrite Hinv, Hproc in Hw. exact Hw.
Qed.
