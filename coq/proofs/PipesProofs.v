(* PipesProofs.v — lemmas for property C14 (model/Pipes.v, proofs/PipesSpec.v).
   Everything is proved for an arbitrary data instance satisfying [datalaws],
   an arbitrary program, an arbitrary capacity and arbitrary chunk sizes, by
   induction over [step] / reachability - never by enumeration of schedules. *)
From IT Require Import proofs.PipesSpec.

Local Arguments N.mul : simpl never.
Local Arguments N.add : simpl never.
Local Arguments N.sub : simpl never.
Local Arguments N.min : simpl never.
Local Arguments N.max : simpl never.

Section Proofs.
Variable O : dataops.
Hypothesis L : datalaws O.
Notation D := (dty O).

(* ---------- data ---------- *)
Lemma take_all (d : D) : dtake O (dlen O d) d = d.
Proof.
  pose proof (take_skip O L (dlen O d) d) as H.
  assert (Hs : dskip O (dlen O d) d = dnil O).
  { apply (len0_nil O L). rewrite (len_skip O L). lia. }
  rewrite Hs, (dapp_nil_r O L) in H. exact H.
Qed.

(* what the child will still get into stream x from the remaining actions, given
   whether its write end is open now *)
Fixpoint pending (x : stream) (a : list (action O)) (open : bool) : D :=
  match a with
  | [] => dnil O
  | Write y d :: r => if open && stream_eqb x y then dapp O d (pending x r open) else pending x r open
  | Close y :: r => pending x r (open && negb (stream_eqb x y))
  end.

Lemma pending_closed x a : pending x a false = dnil O.
Proof. induction a as [|[y d|y] r IH]; simpl; auto. Qed.

Lemma pending_spec x a : pending x a true = writes_of x (until_close x a).
Proof.
  induction a as [|[y d|y] r IH]; simpl; auto.
  - destruct (stream_eqb x y); simpl; rewrite ?IH; reflexivity.
  - destruct (stream_eqb x y); simpl; [apply pending_closed | exact IH].
Qed.

Lemma stream_eqb_refl x : stream_eqb x x = true.
Proof. destruct x; reflexivity. Qed.

(* ---------- invariant ---------- *)
Section Sys.
Variable cap : N.
Variable strat : strategy.
Variable p : program O.
Notation tm := (p_term p).
Notation step := (step O cap strat tm).

Record inv (st : state O) : Prop := mkInv {
  inv_dead : s_alive st = false ->
             s_acts st = [] /\ wopen (s_out st) = false /\ wopen (s_err st) = false;
  inv_eof : forall x, eof (ch x st) = true -> wopen (ch x st) = false /\ dlen O (buf (ch x st)) = 0;
  inv_fin : forall z, s_status st = Some z ->
            s_alive st = false /\ eof (s_out st) = true /\ eof (s_err st) = true /\ z = final_code tm;
  inv_cap : forall x, dlen O (buf (ch x st)) <= cap;
  inv_data : forall x, dapp O (got (ch x st)) (dapp O (buf (ch x st)) (pending x (s_acts st) (wopen (ch x st))))
                       = pending x (p_acts p) true }.

Lemma inv_init : inv (init O p).
Proof.
  constructor; simpl.
  - discriminate.
  - intros [|]; simpl; discriminate.
  - discriminate.
  - intros [|]; simpl; rewrite (len_nil O L); lia.
  - intros [|]; simpl; rewrite !(dapp_nil_l O L); reflexivity.
Qed.

Ltac split_inv H :=
  let Hd := fresh "Hd" in let He := fresh "He" in let Hf := fresh "Hf" in
  let Hc := fresh "Hc" in let Hda := fresh "Hda" in
  destruct H as [Hd He Hf Hc Hda];
  pose proof (He SOut) as HeO; pose proof (He SErr) as HeE;
  pose proof (Hc SOut) as HcO; pose proof (Hc SErr) as HcE;
  pose proof (Hda SOut) as HdaO; pose proof (Hda SErr) as HdaE; clear He Hc Hda.


Lemma pending_after_write_other x y k d rest w :
  stream_eqb x y = false -> pending x (after_write O y k d rest) w = pending x rest w.
Proof.
  intro E. unfold after_write. destruct (k =? dlen O d); [reflexivity|].
  simpl. rewrite E, andb_false_r. reflexivity.
Qed.

Lemma data_write x k d rest b :
  dapp O (dapp O b (dtake O k d)) (pending x (after_write O x k d rest) true)
  = dapp O b (dapp O d (pending x rest true)).
Proof.
  unfold after_write. destruct (k =? dlen O d) eqn:E.
  - apply N.eqb_eq in E. subst k. rewrite take_all. apply (dapp_assoc O L).
  - simpl. rewrite stream_eqb_refl. simpl.
    rewrite (dapp_assoc O L). rewrite <- (dapp_assoc O L (dtake O k d)).
    rewrite (take_skip O L). reflexivity.
Qed.

Lemma data_read k g b P :
  dapp O (dapp O g (dtake O k b)) (dapp O (dskip O k b) P) = dapp O g (dapp O b P).
Proof.
  rewrite (dapp_assoc O L). rewrite <- (dapp_assoc O L (dtake O k b)).
  rewrite (take_skip O L). reflexivity.
Qed.

Lemma len_push k d b : k <= dlen O d -> dlen O (dapp O b (dtake O k d)) = dlen O b + k.
Proof. intro H. rewrite (len_app O L), (len_take O L). lia. Qed.

Lemma inv_step st st' : step st st' -> inv st -> inv st'.
Proof.
  intros Hst Hinv. split_inv Hinv.
  destruct Hst as [st x d rest Hal Hac Hwo
                  |st x d rest Hal Hac Hwo Hlen
                  |st x d rest k Hal Hac Hwo Hk Hkd Hkc
                  |st x rest Hal Hac
                  |st Hal Hac
                  |st x k Hst Hre Heo Hk Hkb
                  |st x Hst Hre Heo Hb Hwo
                  |st Hst Hwe Hal];
    destruct st as [a al [wo bo go eo] [we be ge ee] stt]; simpl in *; subst.
  - (* write on a closed descriptor *)
    destruct x; simpl in *; subst; rewrite ?andb_false_r, ?andb_true_r in *; simpl in *;
      (constructor; simpl; [intros; discriminate | intros [|]; simpl; assumption | assumption
                           | intros [|]; simpl; assumption | intros [|]; simpl; assumption]).
  - (* empty write *)
    apply (len0_nil O L) in Hlen. subst d.
    destruct x; simpl in *; subst; rewrite ?andb_false_r, ?andb_true_r, ?(dapp_nil_l O L) in *; simpl in *;
      (constructor; simpl; [intros; discriminate | intros [|]; simpl; assumption | assumption
                           | intros [|]; simpl; assumption | intros [|]; simpl; assumption]).
  - (* write of k bytes *)
    destruct x; simpl in *; subst; rewrite ?andb_false_r, ?andb_true_r in *; simpl in *.
    + constructor; simpl.
      * intros; discriminate.
      * intros [|]; simpl; [|assumption]. intro E. destruct (HeO E); discriminate.
      * assumption.
      * intros [|]; simpl; [|assumption]. rewrite len_push by assumption. assumption.
      * intros [|]; simpl.
        -- rewrite data_write. assumption.
        -- rewrite pending_after_write_other by reflexivity. assumption.
    + constructor; simpl.
      * intros; discriminate.
      * intros [|]; simpl; [assumption|]. intro E. destruct (HeE E); discriminate.
      * assumption.
      * intros [|]; simpl; [assumption|]. rewrite len_push by assumption. assumption.
      * intros [|]; simpl.
        -- rewrite pending_after_write_other by reflexivity. assumption.
        -- rewrite data_write. assumption.
  - (* close *)
    destruct x; simpl in *; subst; rewrite ?andb_false_r, ?andb_true_r in *; simpl in *.
    + rewrite pending_closed in *.
      constructor; simpl; [intros; discriminate | intros [|]; simpl; [|assumption] | assumption
                           | intros [|]; simpl; assumption | intros [|]; simpl; [|assumption]].
      * intro E. destruct (HeO E). auto.
      * rewrite pending_closed. assumption.
    + rewrite pending_closed in *.
      constructor; simpl; [intros; discriminate | intros [|]; simpl; [assumption|] | assumption
                           | intros [|]; simpl; assumption | intros [|]; simpl; [assumption|]].
      * intro E. destruct (HeE E). auto.
      * rewrite pending_closed. assumption.
  - (* exit *)
    constructor; simpl.
    + auto.
    + intros [|]; simpl; intro E; [destruct (HeO E) | destruct (HeE E)]; auto.
    + intros z E. destruct (Hf z E) as [F _]. discriminate.
    + intros [|]; simpl; assumption.
    + simpl in HdaO, HdaE. rewrite (dapp_nil_r O L) in HdaO, HdaE.
      intros [|]; simpl; rewrite (dapp_nil_r O L); assumption.
  - (* read *)
    destruct x; simpl in *; subst.
    + constructor; simpl.
      * assumption.
      * intros [|]; simpl; [|assumption]. intro E; discriminate E.
      * intros z E. discriminate.
      * intros [|]; simpl; [|assumption]. rewrite (len_skip O L). lia.
      * intros [|]; simpl; [|assumption]. rewrite data_read. assumption.
    + constructor; simpl.
      * assumption.
      * intros [|]; simpl; [assumption|]. intro E; discriminate E.
      * intros z E. discriminate.
      * intros [|]; simpl; [assumption|]. rewrite (len_skip O L). lia.
      * intros [|]; simpl; [assumption|]. rewrite data_read. assumption.
  - (* EOF *)
    destruct x; simpl in *; subst;
      (constructor; simpl; [assumption | intros [|]; simpl; auto | intros z E; discriminate
                           | intros [|]; simpl; assumption | intros [|]; simpl; assumption]).
  - (* Wait returns *)
    unfold wait_enabled in Hwe.
    assert (Hb : eo = true /\ ee = true).
    { destruct strat; try discriminate; apply andb_true_iff in Hwe; exact Hwe. }
    destruct Hb as [-> ->].
    constructor; simpl.
    + assumption.
    + intros [|]; simpl; assumption.
    + intros z E. injection E as <-. auto.
    + intros [|]; simpl; assumption.
    + intros [|]; simpl; assumption.
Qed.

(* ---------- reachability ---------- *)
Notation steps := (@PipesSpec.steps O cap strat tm).
Notation reachable := (@PipesSpec.reachable O cap strat tm).

Lemma steps_inv n a b : steps n a b -> inv a -> inv b.
Proof. induction 1 as [a|n a b c Hs _ IH]; intro Ha; [exact Ha | apply IH, (inv_step a b Hs Ha)]. Qed.

Lemma reachable_inv st : reachable (init O p) st -> inv st.
Proof. intros [n Hn]. exact (steps_inv n _ _ Hn inv_init). Qed.

Lemma steps_trans n m a b c : steps n a b -> steps m b c -> steps (n + m) a c.
Proof.
  induction 1 as [a|n a b' b Hs _ IH]; intro Hm; simpl; [exact Hm|].
  econstructor; [exact Hs | apply IH, Hm].
Qed.

Lemma reachable_refl a : reachable a a.
Proof. exists 0%nat. constructor. Qed.
Lemma reachable_step a b c : step a b -> reachable b c -> reachable a c.
Proof. intros Hs [n Hn]. exists (S n). econstructor; eassumption. Qed.
Lemma reachable_trans a b c : reachable a b -> reachable b c -> reachable a c.
Proof. intros [n Hn] [m Hm]. exists (n + m)%nat. eapply steps_trans; eassumption. Qed.

(* ---------- termination measure ---------- *)
Lemma step_decreases st st' : step st st' -> measure st' < measure st.
Proof.
  intro Hst.
  destruct Hst as [st x d rest Hal Hac Hwo
                  |st x d rest Hal Hac Hwo Hlen
                  |st x d rest k Hal Hac Hwo Hk Hkd Hkc
                  |st x rest Hal Hac
                  |st Hal Hac
                  |st x k Hst Hre Heo Hk Hkb
                  |st x Hst Hre Heo Hb Hwo
                  |st Hst Hwe Hal];
    destruct st as [a al [wo bo go eo] [we be ge ee] stt]; unfold measure; simpl in *; subst.
  - destruct x; simpl in *; subst; simpl; lia.
  - destruct x; simpl in *; subst; simpl; lia.
  - unfold after_write.
    destruct x; simpl in *; rewrite len_push by assumption;
      (destruct (k =? dlen O d) eqn:E; [apply N.eqb_eq in E; subst k; simpl; lia
                                       | simpl; rewrite (len_skip O L); lia]).
  - destruct x; simpl in *; subst; simpl; lia.
  - simpl. lia.
  - destruct x; simpl in *; rewrite (len_skip O L); lia.
  - destruct x; simpl in *; subst; simpl; lia.
  - simpl. lia.
Qed.

Lemma steps_bound n a b : steps n a b -> N.of_nat n + measure b <= measure a.
Proof.
  induction 1 as [a|n a b c Hs _ IH]; [simpl; lia|].
  apply step_decreases in Hs. lia.
Qed.

(* no schedule is infinite *)
Lemma no_infinite_run (f : nat -> state O) : (forall i, step (f i) (f (S i))) -> False.
Proof.
  intro Hf.
  assert (H : forall n, steps n (f 0%nat) (f n)).
  { intro n. replace (f n) with (f (n + 0)%nat) by (f_equal; lia).
    generalize 0%nat as k. induction n as [|n IH]; intro k; simpl; [constructor|].
    econstructor; [apply Hf|]. replace (S (n + k)) with (n + S k)%nat by lia. apply IH. }
  pose proof (steps_bound _ _ _ (H (S (N.to_nat (measure (f 0%nat)))))) as B.
  lia.
Qed.

(* ---------- enabledness: relation vs executable successors ---------- *)
Variable rchunk : N.
Notation successors := (successors O cap strat tm rchunk).

Lemma child_succ_sound st st' : In st' (child_succ O cap st) -> step st st'.
Proof.
  unfold child_succ. destruct (s_alive st) eqn:Hal; [|intros []].
  destruct (s_acts st) as [|[x d|x] rest] eqn:Hac.
  - intros [<-|[]]. apply St_exit; assumption.
  - destruct (wopen (ch x st)) eqn:Hwo; simpl.
    + destruct (dlen O d =? 0) eqn:Hd.
      * intros [<-|[]]. apply N.eqb_eq in Hd. eapply St_write_empty; eassumption.
      * apply N.eqb_neq in Hd.
        destruct (N.min (dlen O d) (cap - dlen O (buf (ch x st))) =? 0) eqn:Hk; [intros []|].
        apply N.eqb_neq in Hk. intros [<-|[]].
        eapply St_write; try eassumption; lia.
    + intros [<-|[]]. eapply St_write_closed; eassumption.
  - intros [<-|[]]. apply St_close; assumption.
Qed.

Lemma read_succ_sound x st st' : In st' (read_succ O strat rchunk x st) -> step st st'.
Proof.
  unfold read_succ. destruct (s_status st) eqn:Hst; [intros []|].
  destruct (reader_enabled O strat x st) eqn:Hre; [|intros []].
  destruct (eof (ch x st)) eqn:Heo; [intros []|]. simpl.
  destruct (dlen O (buf (ch x st)) =? 0) eqn:Hb.
  - apply N.eqb_eq in Hb. destruct (wopen (ch x st)) eqn:Hwo; [intros []|].
    intros [<-|[]]. apply St_eof; assumption.
  - apply N.eqb_neq in Hb. intros [<-|[]]. apply St_read; try assumption; lia.
Qed.

Lemma wait_succ_sound st st' : In st' (wait_succ O strat tm st) -> step st st'.
Proof.
  unfold wait_succ. destruct (s_status st) eqn:Hst; [intros []|].
  destruct (wait_enabled O strat st) eqn:Hwe; [|intros []].
  destruct (s_alive st) eqn:Hal; [intros []|]. simpl.
  intros [<-|[]]. apply St_wait; assumption.
Qed.

(* every executable successor is a transition of the relation *)
Lemma successors_sound st st' : In st' (successors st) -> step st st'.
Proof.
  unfold Pipes.successors. rewrite !in_app_iff.
  intros [H|[H|[H|H]]];
    eauto using child_succ_sound, read_succ_sound, wait_succ_sound.
Qed.

(* whenever the relation can move, the executable side offers a transition:
   an empty successor list is a genuine deadlock *)
Lemma successors_complete st st' : step st st' -> successors st <> [].
Proof.
  intro Hst.
  assert (E : exists s, In s (successors st)); [|destruct E as [s Hs]; intro E0; rewrite E0 in Hs; exact Hs].
  unfold Pipes.successors.
  destruct Hst as [st x d rest Hal Hac Hwo
                  |st x d rest Hal Hac Hwo Hlen
                  |st x d rest k Hal Hac Hwo Hk Hkd Hkc
                  |st x rest Hal Hac
                  |st Hal Hac
                  |st x k Hst Hre Heo Hk Hkb
                  |st x Hst Hre Heo Hb Hwo
                  |st Hst Hwe Hal].
  - exists (set_acts O rest st). apply in_or_app. left.
    unfold child_succ. rewrite Hal, Hac, Hwo. simpl. auto.
  - exists (set_acts O rest st). apply in_or_app. left.
    unfold child_succ. rewrite Hal, Hac, Hwo, Hlen. simpl. auto.
  - eexists. apply in_or_app. left.
    unfold child_succ. rewrite Hal, Hac, Hwo. simpl.
    destruct (dlen O d =? 0) eqn:Hd; [apply N.eqb_eq in Hd; lia|].
    destruct (N.min (dlen O d) (cap - dlen O (buf (ch x st))) =? 0) eqn:Hm;
      [apply N.eqb_eq in Hm; lia|].
    left. reflexivity.
  - eexists. apply in_or_app. left.
    unfold child_succ. rewrite Hal, Hac. left. reflexivity.
  - eexists. apply in_or_app. left.
    unfold child_succ. rewrite Hal, Hac. left. reflexivity.
  - eexists. apply in_or_app. right.
    assert (R : In (pull O x (N.min (dlen O (buf (ch x st))) (N.max 1 rchunk)) st)
                   (read_succ O strat rchunk x st)).
    { unfold read_succ. rewrite Hst, Hre, Heo. simpl.
      destruct (dlen O (buf (ch x st)) =? 0) eqn:Hb; [apply N.eqb_eq in Hb; lia|]. left. reflexivity. }
    destruct x; [apply in_or_app; left; exact R | apply in_or_app; right; apply in_or_app; left; exact R].
  - eexists. apply in_or_app. right.
    assert (R : In (mark_eof O x st) (read_succ O strat rchunk x st)).
    { unfold read_succ. rewrite Hst, Hre, Heo, Hb, Hwo. simpl. left. reflexivity. }
    destruct x; [apply in_or_app; left; exact R | apply in_or_app; right; apply in_or_app; left; exact R].
  - eexists. apply in_or_app. right. apply in_or_app. right. apply in_or_app. right.
    unfold wait_succ. rewrite Hst, Hwe, Hal. simpl. left. reflexivity.
Qed.

Lemma successors_nil_stuck st : successors st = [] -> stuck cap strat tm st.
Proof. intros E st' Hs. exact (successors_complete st st' Hs E). Qed.

(* ---------- progress ---------- *)
Lemma child_move st :
  s_alive st = true ->
  (forall x d rest, s_acts st = Write x d :: rest -> wopen (ch x st) = true -> dlen O d <> 0 ->
                    dlen O (buf (ch x st)) < cap) ->
  exists st', step st st'.
Proof.
  intros Hal Hfree. destruct (s_acts st) as [|[x d|x] rest] eqn:Hac.
  - eexists. apply St_exit; assumption.
  - destruct (wopen (ch x st)) eqn:Hwo.
    + destruct (N.eq_dec (dlen O d) 0) as [Hd|Hd].
      * eexists. eapply St_write_empty; eassumption.
      * pose proof (Hfree x d rest eq_refl Hwo Hd) as Hlt.
        exists (set_acts O (after_write O x (N.min (dlen O d) (cap - dlen O (buf (ch x st)))) d rest)
                         (push O x (N.min (dlen O d) (cap - dlen O (buf (ch x st)))) d st)).
        eapply St_write; try eassumption; lia.
    + eexists. eapply St_write_closed; eassumption.
  - eexists. apply St_close; eassumption.
Qed.

Lemma reader_move x st :
  s_status st = None -> reader_enabled O strat x st = true -> eof (ch x st) = false ->
  dlen O (buf (ch x st)) <> 0 \/ wopen (ch x st) = false ->
  exists st', step st st'.
Proof.
  intros Hst Hre Heo H.
  destruct (N.eq_dec (dlen O (buf (ch x st))) 0) as [Hb|Hb].
  - destruct H as [H|H]; [contradiction|]. eexists. apply St_eof; eassumption.
  - exists (pull O x (dlen O (buf (ch x st))) st). apply St_read; try assumption; lia.
Qed.

(* the concurrent parent never deadlocks: a non-final state satisfying the
   invariant always has a transition *)
Lemma concurrent_progress st :
  strat = Concurrent -> 0 < cap -> inv st -> s_status st = None -> exists st', step st st'.
Proof.
  intros Hc Hcap Hinv Hst.
  assert (R : forall x, eof (ch x st) = false ->
                        dlen O (buf (ch x st)) <> 0 \/ wopen (ch x st) = false -> exists st', step st st').
  { intros x Heo H. apply (reader_move x st Hst); try assumption.
    unfold reader_enabled. rewrite Hc. reflexivity. }
  destruct (s_alive st) eqn:Hal.
  - (* the child is alive: it moves unless its pending write finds the pipe full,
       and then the reader of that very pipe moves *)
    destruct (s_acts st) as [|[x d|x] rest] eqn:Hac.
    + apply child_move; [assumption|]. intros x d rest E. rewrite Hac in E. discriminate.
    + destruct (wopen (ch x st)) eqn:Hwo.
      * destruct (dlen O (buf (ch x st)) <? cap) eqn:Hlt.
        -- apply N.ltb_lt in Hlt. apply child_move; [assumption|].
           intros x' d' rest' E Hwo' _. rewrite Hac in E. injection E as <- <- <-. exact Hlt.
        -- apply N.ltb_ge in Hlt.
           destruct (eof (ch x st)) eqn:Heo.
           ++ destruct (inv_eof st Hinv x Heo) as [F _]. congruence.
           ++ apply (R x Heo). left. lia.
      * apply child_move; [assumption|].
        intros x' d' rest' E Hwo' _. rewrite Hac in E. injection E as <- <- <-. congruence.
    + apply child_move; [assumption|]. intros x' d rest' E. rewrite Hac in E. discriminate.
  - (* the child has ended: its write ends are closed, so each reader drains and
       reaches EOF, then Wait returns *)
    destruct (inv_dead st Hinv Hal) as [_ [Wo We]].
    destruct (eof (s_out st)) eqn:Eo; [|apply (R SOut Eo); right; exact Wo].
    destruct (eof (s_err st)) eqn:Ee; [|apply (R SErr Ee); right; exact We].
    eexists. apply St_wait; try assumption.
    unfold wait_enabled. rewrite Hc, Eo, Ee. reflexivity.
Qed.

(* ---------- final states ---------- *)
Lemma final_code_spec t : final_code t = expected_status t.
Proof.
  unfold final_code, wait_of. destruct t as [c|s]; simpl.
  - destruct (c =? 0) eqn:E; simpl.
    + apply N.eqb_eq in E. subst c. reflexivity.
    + reflexivity.
  - reflexivity.
Qed.

Lemma chan_eq (c : chan O) w b g e :
  wopen c = w -> buf c = b -> got c = g -> eof c = e -> c = mkChan w b g e.
Proof. destruct c; simpl; intros; subst; reflexivity. Qed.

(* a final state satisfying the invariant is THE expected final state *)
Lemma inv_final st : inv st -> final st -> st = expected_final p.
Proof.
  intros Hinv Hfin. unfold final in Hfin.
  destruct (s_status st) as [z|] eqn:Hst; [clear Hfin | contradiction Hfin; reflexivity].
  destruct (inv_fin st Hinv z Hst) as [Hal [Eo [Ee Hz]]].
  destruct (inv_dead st Hinv Hal) as [Hac [Wo We]].
  destruct (inv_eof st Hinv SOut Eo) as [_ Bo]. destruct (inv_eof st Hinv SErr Ee) as [_ Be].
  pose proof (inv_data st Hinv SOut) as Do. pose proof (inv_data st Hinv SErr) as De.
  simpl in Bo, Be, Do, De.
  apply (len0_nil O L) in Bo. apply (len0_nil O L) in Be.
  rewrite Hac, Bo in Do. rewrite Hac, Be in De. simpl in Do, De.
  rewrite (dapp_nil_r O L), (dapp_nil_r O L), pending_spec in Do.
  rewrite (dapp_nil_r O L), (dapp_nil_r O L), pending_spec in De.
  destruct st as [a al co ce stt]; simpl in *. subst.
  unfold expected_final, expected_stream. rewrite final_code_spec.
  f_equal; apply chan_eq; assumption.
Qed.

Lemma reachable_final st : reachable (init O p) st -> final st -> st = expected_final p.
Proof. intros Hr Hf. apply inv_final; [apply reachable_inv; exact Hr | exact Hf]. Qed.

(* a final state has no transition (so "final" and "still running" exclude each other) *)
Lemma final_no_step st : inv st -> final st -> stuck cap strat tm st.
Proof.
  intros Hinv Hfin st' Hs.
  rewrite (inv_final st Hinv Hfin) in Hs.
  inversion Hs; subst; simpl in *; try discriminate.
Qed.

(* ---------- the executable runner ---------- *)
Notation run := (run O cap strat tm rchunk).

Lemma nth_choice (A : Type) (h : N) (a : A) (l : list A) :
  In (nth (N.to_nat (h mod N.of_nat (length (a :: l)))) (a :: l) a) (a :: l).
Proof.
  apply nth_In.
  set (n := length (a :: l)).
  assert (Hn : n <> 0%nat) by (unfold n; simpl; discriminate).
  clearbody n.
  assert (Hm : h mod N.of_nat n < N.of_nat n) by (apply N.mod_lt; lia).
  lia.
Qed.

Lemma run_finished sched fuel st st' :
  run sched fuel st = Finished st' -> reachable st st' /\ final st'.
Proof.
  revert sched st. induction fuel as [|f IH]; intros sched st; simpl.
  - destruct (s_status st) eqn:Hst; [|discriminate].
    intro E. injection E as <-. split; [apply reachable_refl | unfold final; congruence].
  - destruct (s_status st) eqn:Hst.
    + intro E. injection E as <-. split; [apply reachable_refl | unfold final; congruence].
    + destruct (successors st) as [|s1 more] eqn:Hsu; [discriminate|].
      intro E. apply IH in E. destruct E as [Hr Hf]. split; [|exact Hf].
      eapply reachable_step; [|exact Hr]. apply successors_sound. rewrite Hsu. apply nth_choice.
Qed.

Lemma run_stuck sched fuel st st' :
  run sched fuel st = Stuck st' -> reachable st st' /\ s_status st' = None /\ stuck cap strat tm st'.
Proof.
  revert sched st. induction fuel as [|f IH]; intros sched st; simpl.
  - destruct (s_status st); discriminate.
  - destruct (s_status st) eqn:Hst; [discriminate|].
    destruct (successors st) as [|s1 more] eqn:Hsu.
    + intro E. injection E as <-. split; [apply reachable_refl|]. split; [exact Hst|].
      apply successors_nil_stuck. exact Hsu.
    + intro E. apply IH in E. destruct E as [Hr Hf]. split; [|exact Hf].
      eapply reachable_step; [|exact Hr]. apply successors_sound. rewrite Hsu. apply nth_choice.
Qed.

(* fuel >= measure always suffices *)
Lemma run_fuel sched fuel st : measure st <= N.of_nat fuel -> run sched fuel st <> OutOfFuel.
Proof.
  revert sched st. induction fuel as [|f IH]; intros sched st Hm; simpl.
  - destruct (s_status st) eqn:Hst; [discriminate|].
    exfalso. unfold measure in Hm. rewrite Hst in Hm. simpl in Hm. lia.
  - destruct (s_status st) eqn:Hst; [discriminate|].
    destruct (successors st) as [|s1 more] eqn:Hsu; [discriminate|].
    apply IH.
    match goal with |- measure ?s <= _ => assert (Hs : step st s) end.
    { apply successors_sound. rewrite Hsu. apply nth_choice. }
    apply step_decreases in Hs. lia.
Qed.

(* total correctness of the concurrent system, on the executable runner:
   whatever the scheduler does, the run ends in the expected final state *)
Lemma run_concurrent_total sched fuel :
  strat = Concurrent -> 0 < cap -> measure (init O p) <= N.of_nat fuel ->
  run sched fuel (init O p) = Finished (expected_final p).
Proof.
  intros Hc Hcap Hfuel.
  destruct (run sched fuel (init O p)) as [st'|st'|] eqn:E.
  - apply run_finished in E. destruct E as [Hr Hf]. rewrite (reachable_final st' Hr Hf). reflexivity.
  - apply run_stuck in E. destruct E as [Hr [Hst Hstuck]].
    destruct (concurrent_progress st' Hc Hcap (reachable_inv st' Hr) Hst) as [st'' Hs].
    exfalso. exact (Hstuck st'' Hs).
  - exfalso. exact (run_fuel sched fuel (init O p) Hfuel E).
Qed.

(* without any assumption on the fuel: never a deadlock, and a finished run is right *)
Lemma run_concurrent_partial sched fuel :
  strat = Concurrent -> 0 < cap ->
  run sched fuel (init O p) = Finished (expected_final p) \/ run sched fuel (init O p) = OutOfFuel.
Proof.
  intros Hc Hcap.
  destruct (run sched fuel (init O p)) as [st'|st'|] eqn:E.
  - apply run_finished in E. destruct E as [Hr Hf]. rewrite (reachable_final st' Hr Hf). left. reflexivity.
  - apply run_stuck in E. destruct E as [Hr [Hst Hstuck]].
    destruct (concurrent_progress st' Hc Hcap (reachable_inv st' Hr) Hst) as [st'' Hs].
    exfalso. exact (Hstuck st'' Hs).
  - right. reflexivity.
Qed.

End Sys.

Lemma byproducts_final (p : program O) : byproducts_of O (expected_final p) = expected_byproducts p.
Proof. reflexivity. Qed.

End Proofs.
