(* KeyLoadCanon.v — the canonical description of a key is injective, on the real bytes.
   (cjson string escaping is prefix-free; the fixed-shape object can be parsed back.) *)
From IT Require Import model.KeyLoad.

(* ---------- escaping, byte by byte ---------- *)
Definition esc_byte (c : N) : str :=
  if c =? 92 then [92; 92] else if c =? 34 then [92; 34] else [c].
Definition esc (s : str) : str := replace_byte 34 [92; 34] (replace_byte 92 [92; 92] s).

Lemma replace_byte_app c rep a b : replace_byte c rep (a ++ b) = replace_byte c rep a ++ replace_byte c rep b.
Proof. induction a as [|x a IH]; cbn [replace_byte app]; [reflexivity|]. rewrite IH, app_assoc. reflexivity. Qed.

(* the two ReplaceAll passes equal one pass with [esc_byte] *)
Lemma esc_cons c s : esc (c :: s) = esc_byte c ++ esc s.
Proof.
  unfold esc, esc_byte. cbn [replace_byte].
  destruct (c =? 92) eqn:E92.
  - rewrite replace_byte_app. reflexivity.
  - rewrite replace_byte_app. cbn [replace_byte app].
    destruct (c =? 34) eqn:E34; reflexivity.
Qed.
Lemma esc_nil : esc [] = [].
Proof. reflexivity. Qed.

Lemma canon_string_esc s : canon_string s = 34 :: esc s ++ [34].
Proof. reflexivity. Qed.

(* shape of one escaped byte *)
Lemma esc_byte_cases c :
  (c = 92 /\ esc_byte c = [92; 92]) \/ (c = 34 /\ esc_byte c = [92; 34]) \/
  (c <> 92 /\ c <> 34 /\ esc_byte c = [c]).
Proof.
  unfold esc_byte. destruct (c =? 92) eqn:E1.
  - apply N.eqb_eq in E1. left; auto.
  - apply N.eqb_neq in E1. destruct (c =? 34) eqn:E2.
    + apply N.eqb_eq in E2. right; left; auto.
    + apply N.eqb_neq in E2. right; right; auto.
Qed.

(* an escaped string followed by a quote can be read back: prefix-freeness *)
Lemma esc_prefix_free : forall s s' r r',
  esc s ++ 34 :: r = esc s' ++ 34 :: r' -> s = s' /\ r = r'.
Proof.
  induction s as [|c s IH]; intros [|c' s'] r r' H.
  - rewrite esc_nil in H. cbn [app] in H. inversion H. auto.
  - exfalso. rewrite esc_nil, esc_cons in H. cbn [app] in H.
    destruct (esc_byte_cases c') as [[_ E]|[[_ E]|[_ [N34 E]]]]; rewrite E in H; cbn [app] in H;
      inversion H; congruence.
  - exfalso. rewrite esc_nil, esc_cons in H. cbn [app] in H.
    destruct (esc_byte_cases c) as [[_ E]|[[_ E]|[_ [N34 E]]]]; rewrite E in H; cbn [app] in H;
      inversion H; congruence.
  - rewrite !esc_cons, <- !app_assoc in H.
    destruct (esc_byte_cases c) as [[C E]|[[C E]|[C1 [C2 E]]]];
    destruct (esc_byte_cases c') as [[C' E']|[[C' E']|[C1' [C2' E']]]];
    rewrite E, E' in H; cbn [app] in H; inversion H; subst;
    try congruence;
    match goal with
    | Hr : esc s ++ 34 :: r = esc s' ++ 34 :: r' |- _ => destruct (IH _ _ _ Hr); subst; auto
    end.
Qed.

Lemma canon_string_inj_app s s' r r' :
  canon_string s ++ r = canon_string s' ++ r' -> s = s' /\ r = r'.
Proof.
  rewrite !canon_string_esc. cbn [app]. rewrite <- !app_assoc. cbn [app].
  intro H. inversion H as [H']. apply esc_prefix_free in H'. exact H'.
Qed.

Lemma canon_string_inj s s' : canon_string s = canon_string s' -> s = s'.
Proof.
  intro H. assert (H' : canon_string s ++ [] = canon_string s' ++ []) by (rewrite !app_nil_r; exact H).
  apply canon_string_inj_app in H'. tauto.
Qed.

(* ---------- the list of hash algorithm names ---------- *)
Definition items_tail (l : list str) : str := concat_str (map (fun y => 44 :: canon_string y) l).

Lemma canon_string_head s : exists t, canon_string s = 34 :: t.
Proof. rewrite canon_string_esc. eauto. Qed.

Local Opaque canon_string.

Lemma cons_inj {A} (a a' : A) x y : a :: x = a' :: y -> a = a' /\ x = y.
Proof. intro H. inversion H. auto. Qed.

Lemma items_tail_inj : forall l l' r r',
  items_tail l ++ 93 :: r = items_tail l' ++ 93 :: r' -> l = l' /\ r = r'.
Proof.
  induction l as [|x l IH]; intros [|x' l'] r r' H; unfold items_tail in *; cbn [map concat_str app] in H.
  - inversion H; auto.
  - inversion H.
  - inversion H.
  - apply cons_inj in H. destruct H as [_ H1]. rewrite <- !app_assoc in H1.
    apply canon_string_inj_app in H1. destruct H1 as [-> H1].
    apply IH in H1. destruct H1 as [-> ->]. auto.
Qed.

Lemma canon_strings_inj_app l l' r r' :
  canon_strings l ++ r = canon_strings l' ++ r' -> l = l' /\ r = r'.
Proof.
  destruct l as [|x l], l' as [|x' l']; unfold canon_strings; intro H.
  - cbn [app] in H. inversion H. auto.
  - exfalso. destruct (canon_string_head x') as [t E]. rewrite E in H. cbn [app] in H. inversion H.
  - exfalso. destruct (canon_string_head x) as [t E]. rewrite E in H. cbn [app] in H. inversion H.
  - cbn [app] in H. apply cons_inj in H. destruct H as [_ H1]. rewrite <- !app_assoc in H1.
    apply canon_string_inj_app in H1. destruct H1 as [-> H1].
    fold (items_tail l) in H1. fold (items_tail l') in H1.
    rewrite <- ?app_assoc in H1. cbn [app] in H1.
    apply items_tail_inj in H1. destruct H1 as [-> ->]. auto.
Qed.

Lemma canon_algs_inj_app a a' r r' :
  canon_algs a ++ r = canon_algs a' ++ r' -> a = a' /\ r = r'.
Proof.
  destruct a as [l|], a' as [l'|]; unfold canon_algs; intro H.
  - apply canon_strings_inj_app in H. destruct H as [-> ->]. auto.
  - exfalso. destruct l as [|x l]; unfold canon_strings in H; cbn in H; inversion H.
  - exfalso. destruct l' as [|x l]; unfold canon_strings in H; cbn in H; inversion H.
  - apply app_inv_head in H. auto.
Qed.

(* ---------- the whole description ---------- *)
Theorem key_desc_canon_inj : forall kt sch algs pub kt' sch' algs' pub',
  key_desc_canon kt sch algs pub = key_desc_canon kt' sch' algs' pub' ->
  kt = kt' /\ sch = sch' /\ algs = algs' /\ pub = pub'.
Proof.
  intros kt sch algs pub kt' sch' algs' pub' H. unfold key_desc_canon in H.
  apply app_inv_head in H.
  apply canon_algs_inj_app in H. destruct H as [-> H].
  apply app_inv_head in H.
  apply canon_string_inj_app in H. destruct H as [-> H].
  apply app_inv_head in H.
  apply canon_string_inj_app in H. destruct H as [-> H].
  apply app_inv_head in H.
  apply canon_string_inj_app in H. destruct H as [-> _].
  auto.
Qed.

(* the fixed key order of [key_desc_canon] is the sorted one *)
Lemma desc_keys_sorted : ssort desc_keys = desc_keys.
Proof. vm_compute. reflexivity. Qed.
