(* PipesSrc.v — the lemmas of property C14 that speak about what the Go source
   says NOW: they are stated for [runcmd_strategy] and the other facts of
   gen/RunCmd.v (regenerated from in_toto/runlib.go on every run), so a change
   of RunCommand / waitErrToExitCode re-proves or breaks them. *)
From IT Require Import proofs.PipesSpec proofs.PipesProofs.

(* the source drains both streams concurrently *)
Lemma strategy_concurrent : runcmd_strategy = Concurrent.
Proof. reflexivity. Qed.

(* order of the checks, argv, working directory, Start error, the three returned keys
   with the sources of their values, and the three assignments of waitErrToExitCode *)
Lemma wiring_ok : source_wiring_ok = true.
Proof. vm_compute. reflexivity. Qed.

Section Src.
Variable O : dataops.
Hypothesis L : datalaws O.

(* no reachable non-final state is stuck *)
Lemma src_no_deadlock (cap : N) (p : program O) (st : state O) :
  0 < cap ->
  reachable cap runcmd_strategy (p_term p) (init O p) st -> ~ final st ->
  exists st', step O cap runcmd_strategy (p_term p) st st'.
Proof.
  intros Hcap Hr Hnf.
  apply (concurrent_progress O cap runcmd_strategy p st strategy_concurrent Hcap).
  - exact (reachable_inv O L cap runcmd_strategy p st Hr).
  - unfold final in Hnf. destruct (s_status st); [exfalso; apply Hnf; discriminate | reflexivity].
Qed.

(* every final state that can be reached carries the complete capture and the exact status *)
Lemma src_capture_complete (cap : N) (p : program O) (st : state O) :
  reachable cap runcmd_strategy (p_term p) (init O p) st -> final st ->
  got (s_out st) = expected_stream SOut p /\
  got (s_err st) = expected_stream SErr p /\
  s_status st = Some (expected_status (p_term p)) /\
  byproducts_of O st = expected_byproducts p.
Proof.
  intros Hr Hf. rewrite (reachable_final O L cap runcmd_strategy p st Hr Hf).
  repeat split; reflexivity.
Qed.

Lemma src_every_schedule_completes (cap rchunk : N) (p : program O) (sched : list N) (fuel : nat) :
  0 < cap -> measure (init O p) <= N.of_nat fuel ->
  run O cap runcmd_strategy (p_term p) rchunk sched fuel (init O p) = Finished (expected_final p).
Proof. intros. apply run_concurrent_total; auto using strategy_concurrent. Qed.

(* ---- RunCommand as a whole ---- *)
Variable os : os_fn O.
Variables cap rchunk : N.
Variable sched : list N.
Variable fuel : nat.
Notation RC := (run_command_src O os cap rchunk sched fuel).

Lemma rc_empty dir : RC [] dir = Err E_EMPTY.
Proof. reflexivity. Qed.

Lemma rc_start_error args dir : args <> [] -> os args dir = StartErr -> RC args dir = Err E_START.
Proof.
  destruct args as [|a r]; [contradiction|]. intros _ E.
  unfold run_command_src, run_command. simpl. rewrite E. reflexivity.
Qed.

(* all the ways the call can end *)
Lemma rc_cases args dir :
  0 < cap ->
  match args with
  | [] => RC args dir = Err E_EMPTY
  | _ :: _ =>
    match os args dir with
    | StartErr => RC args dir = Err E_START
    | Started p => RC args dir = Ok (expected_byproducts p) \/ RC args dir = Err E_FUEL
    end
  end.
Proof.
  intro Hcap. destruct args as [|a r]; [reflexivity|].
  unfold run_command_src, run_command. simpl.
  destruct (os (a :: r) dir) as [|p] eqn:E; [reflexivity|].
  destruct (run_concurrent_partial O L cap runcmd_strategy p rchunk sched fuel strategy_concurrent Hcap)
    as [R|R]; rewrite R; [left | right]; reflexivity.
Qed.

Lemma rc_complete args dir p :
  args <> [] -> os args dir = Started p -> 0 < cap -> measure (init O p) <= N.of_nat fuel ->
  RC args dir = Ok (expected_byproducts p).
Proof.
  destruct args as [|a r]; [contradiction|]. intros _ E Hcap Hfuel.
  unfold run_command_src, run_command. simpl. rewrite E.
  rewrite (src_every_schedule_completes cap rchunk p sched fuel Hcap Hfuel). reflexivity.
Qed.

Lemma rc_never_hangs args dir : 0 < cap -> RC args dir <> Err E_HANG.
Proof.
  intro Hcap. pose proof (rc_cases args dir Hcap) as H.
  destruct args as [|a r]; [rewrite H; discriminate|].
  destruct (os (a :: r) dir); [rewrite H; discriminate|].
  destruct H as [H|H]; rewrite H; discriminate.
Qed.

Lemma rc_ok_only args dir m :
  0 < cap -> RC args dir = Ok m ->
  args <> [] /\ exists p, os args dir = Started p /\ m = expected_byproducts p.
Proof.
  intros Hcap E. pose proof (rc_cases args dir Hcap) as H.
  destruct args as [|a r]; [rewrite H in E; discriminate|].
  split; [discriminate|].
  destruct (os (a :: r) dir) as [|p]; [rewrite H in E; discriminate|].
  exists p. split; [reflexivity|].
  destruct H as [H|H]; rewrite H in E; [injection E as <-; reflexivity | discriminate].
Qed.

Lemma rc_reported args dir :
  RC [] dir = Err E_EMPTY /\
  (args <> [] -> os args dir = StartErr -> RC args dir = Err E_START) /\
  (0 < cap -> is_ok (RC args dir) = true -> args <> [] /\ exists p, os args dir = Started p).
Proof.
  split; [apply rc_empty|]. split; [apply rc_start_error|].
  intros Hcap Hok. destruct (RC args dir) as [m| |] eqn:E; try discriminate.
  destruct (rc_ok_only args dir m Hcap E) as [Ha [p [Hp _]]]. split; [exact Ha | exists p; exact Hp].
Qed.

(* InTotoRun hands the map of RunCommand on as the by-products of the link *)
Lemma in_toto_run_stores args dir :
  in_toto_run_byproducts_src O os cap rchunk sched fuel [] dir = Ok [] /\
  (args <> [] -> in_toto_run_byproducts_src O os cap rchunk sched fuel args dir = RC args dir).
Proof.
  split; [reflexivity|]. destruct args; [contradiction | reflexivity].
Qed.

End Src.

(* readability of the specification: a program that never closes a stream itself gets
   everything it writes captured; bytes written after an own close are not expected *)
Lemma until_close_no_close (O : dataops) x (a : list (action O)) :
  (forall y, ~ In (Close y) a) -> until_close x a = a.
Proof.
  induction a as [|[y d|y] r IH]; intro H; simpl; [reflexivity| |].
  - f_equal. apply IH. intros z Hz. apply (H z). right. exact Hz.
  - exfalso. apply (H y). left. reflexivity.
Qed.

Lemma expected_no_close (O : dataops) x (p : program O) :
  (forall y, ~ In (Close y) (p_acts p)) -> expected_stream x p = writes_of x (p_acts p).
Proof. intro H. unfold expected_stream. rewrite until_close_no_close by exact H. reflexivity. Qed.

(* on byte strings: concatenation in program order *)
Lemma writes_of_app (O : dataops) (L : datalaws O) x (a b : list (action O)) :
  writes_of x (a ++ b) = dapp O (writes_of x a) (writes_of x b).
Proof.
  induction a as [|[y d|y] r IH]; simpl.
  - symmetry. apply (dapp_nil_l O L).
  - destruct (stream_eqb x y); [rewrite IH; symmetry; apply (dapp_assoc O L) | exact IH].
  - exact IH.
Qed.
