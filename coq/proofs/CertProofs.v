(* CertProofs.v — the model of certconstraint.go / Step.CheckCertConstraints
   (model/CertConstraint.v) against the declarative reading (spec/CertSpec.v). *)
From IT Require Import spec.CertSpec.
From IT Require Import gen.Consts gen.CertChecks.

(* ------------------------------------------------------------------ *)
(* small facts                                                        *)

Lemma is_ok_unit (r : res unit) : is_ok r = true <-> r = Ok tt.
Proof.
  destruct r as [[]| |]; simpl; split; intro H; try reflexivity; discriminate.
Qed.

Lemma is_single_iff l x : is_single l x = true <-> l = [x].
Proof.
  destruct l as [|y [|z l]]; simpl; split; intro H; try discriminate.
  - apply str_eqb_eq in H. congruence.
  - inversion H; subst. apply str_eqb_refl.
Qed.

Lemma is_nil_iff {A} (l : list A) : is_nil l = true <-> l = [].
Proof. destruct l; simpl; split; intro H; try reflexivity; discriminate. Qed.

(* the generated constant is the "*" of the specification *)
Lemma allow_all_is_star : c_AllowAllConstraint = bs "*".
Proof. reflexivity. Qed.

Lemma is_single_wildcard cs : is_single cs c_AllowAllConstraint = true <-> wildcard cs.
Proof. unfold wildcard. rewrite is_single_iff, allow_all_is_star. reflexivity. Qed.

Lemma norm_model l : (if is_single l [] then [] else l) = norm l.
Proof.
  destruct l as [|[|c y] [|z l]]; reflexivity.
Qed.

(* ------------------------------------------------------------------ *)
(* Set operations                                                     *)

Lemma sadd_In s y x : In x (sadd s y) <-> In x s \/ x = y.
Proof.
  unfold sadd. destruct (mem y s) eqn:E.
  - apply mem_In in E. split; [auto|]. intros [H|H]; [assumption | subst; assumption].
  - rewrite in_app_iff. simpl. intuition.
Qed.

Lemma fold_sadd_In l acc x : In x (fold_left sadd l acc) <-> In x acc \/ In x l.
Proof.
  revert acc; induction l as [|y l IH]; intro acc; simpl.
  - tauto.
  - rewrite IH, sadd_In. intuition.
Qed.

Lemma new_set_In cs x : In x (new_set cs) <-> In x cs.
Proof. unfold new_set. rewrite fold_sadd_In. simpl. tauto. Qed.

Lemma set_remove_In s v x : In x (set_remove s v) <-> In x s /\ x <> v.
Proof.
  unfold set_remove. rewrite filter_In. split; intros [H1 H2]; split; try assumption.
  - intro E. subst. rewrite str_eqb_refl in H2. discriminate.
  - destruct (str_eqb v x) eqn:E; [|reflexivity].
    apply str_eqb_eq in E. congruence.
Qed.

(* ------------------------------------------------------------------ *)
(* the value loop                                                     *)

Lemma consume_sound vs : forall U U', consume U vs = Ok U' ->
  NoDup vs /\ (forall x, In x vs -> In x U) /\ (forall x, In x U' <-> In x U /\ ~ In x vs).
Proof.
  induction vs as [|v vs IH]; intros U U' H; simpl in H.
  - inversion H; subst. split; [constructor|]. split; [intros x []|]. intro x; simpl; tauto.
  - unfold set_has in H. destruct (mem v U) eqn:Hv; simpl in H; [|discriminate].
    apply mem_In in Hv.
    apply IH in H as (Hnd & Hincl & Hleft).
    split; [|split].
    + constructor; [|assumption]. intro Hin. apply Hincl in Hin.
      apply set_remove_In in Hin as [_ Hne]. apply Hne; reflexivity.
    + intros x [<-|Hx]; [assumption|]. apply Hincl in Hx. apply set_remove_In in Hx. tauto.
    + intro x. rewrite Hleft, set_remove_In. simpl. intuition.
Qed.

Lemma consume_complete vs : forall U, NoDup vs -> (forall x, In x vs -> In x U) ->
  exists U', consume U vs = Ok U'.
Proof.
  induction vs as [|v vs IH]; intros U Hnd Hincl; simpl.
  - eexists; reflexivity.
  - unfold set_has. assert (Hv : mem v U = true) by (apply mem_In, Hincl; left; reflexivity).
    rewrite Hv; simpl. inversion Hnd as [|? ? Hnv Hnd']; subst.
    apply IH; [assumption|]. intros x Hx. apply set_remove_In. split.
    + apply Hincl; right; assumption.
    + intro E; subst. contradiction.
Qed.

Lemma consume_cases U vs : (exists U', consume U vs = Ok U') \/ consume U vs = Err 2.
Proof.
  revert U; induction vs as [|v vs IH]; intro U; simpl.
  - left; eexists; reflexivity.
  - destruct (negb (set_has U v)); [right; reflexivity | apply IH].
Qed.

(* ------------------------------------------------------------------ *)
(* checkCertConstraint = the declarative attribute condition          *)

Lemma check_attr_unfold cs vs :
  check_attr cs vs =
  if is_single cs c_AllowAllConstraint then Ok tt else
  if is_nil (norm cs) && negb (is_nil (norm vs)) then Err 1 else
  match consume (new_set (norm cs)) (norm vs) with
  | Ok unmet' => if negb (is_nil unmet') then Err 3 else Ok tt
  | Err c => Err c
  | Panic s => Panic s
  end.
Proof. unfold check_attr. rewrite !norm_model. reflexivity. Qed.

Lemma check_attr_spec cs vs : check_attr cs vs = Ok tt <-> attr_sat cs vs.
Proof.
  rewrite check_attr_unfold. unfold attr_sat, exactly, same_set.
  destruct (is_single cs c_AllowAllConstraint) eqn:Hw.
  - apply is_single_wildcard in Hw. split; auto.
  - assert (Hnw : ~ wildcard cs).
    { intro W. apply is_single_wildcard in W. congruence. }
    set (cs' := norm cs). set (vs' := norm vs).
    split.
    + intro H. right.
      destruct (is_nil cs' && negb (is_nil vs')) eqn:E1; [discriminate|].
      destruct (consume (new_set cs') vs') as [U'| |] eqn:Ec; try discriminate.
      destruct (is_nil U') eqn:En; simpl in H; [|discriminate].
      apply is_nil_iff in En; subst U'.
      apply consume_sound in Ec as (Hnd & Hincl & Hleft).
      split; [assumption|]. intro x. split.
      * intro Hx. apply new_set_In, Hincl, Hx.
      * intro Hx. destruct (in_dec str_eq_dec x vs') as [Hin|Hnin]; [assumption|].
        exfalso. apply (proj2 (Hleft x)). split; [apply new_set_In; assumption | assumption].
    + intros [W | [Hnd Hss]]; [contradiction|].
      destruct (is_nil cs' && negb (is_nil vs')) eqn:E1.
      { apply andb_true_iff in E1 as [Ec Ev]. apply is_nil_iff in Ec.
        destruct vs' as [|v vs'']; [discriminate|].
        exfalso. assert (Hin : In v cs') by (apply Hss; left; reflexivity).
        rewrite Ec in Hin. destruct Hin. }
      destruct (consume_complete vs' (new_set cs') Hnd) as [U' Ec].
      { intros x Hx. apply new_set_In, Hss, Hx. }
      rewrite Ec. apply consume_sound in Ec as (_ & _ & Hleft).
      destruct U' as [|u U']; [reflexivity|]. exfalso.
      assert (Hu : In u (new_set cs') /\ ~ In u vs') by (apply Hleft; left; reflexivity).
      destruct Hu as [Hu1 Hu2]. apply Hu2, Hss, new_set_In, Hu1.
Qed.

Lemma check_attr_no_panic cs vs : is_panic (check_attr cs vs) = false.
Proof.
  rewrite check_attr_unfold.
  destruct (is_single cs c_AllowAllConstraint); [reflexivity|].
  destruct (is_nil (norm cs) && negb (is_nil (norm vs))); [reflexivity|].
  destruct (consume_cases (new_set (norm cs)) (norm vs)) as [[U' E]|E]; rewrite E; [|reflexivity].
  destruct (negb (is_nil U')); reflexivity.
Qed.

Lemma check_attr_wildcard vs : check_attr [bs "*"] vs = Ok tt.
Proof. apply check_attr_spec. left. reflexivity. Qed.

(* an empty constraint demands that the attribute is absent *)
Lemma attr_sat_empty cs vs : norm cs = [] -> (attr_sat cs vs <-> norm vs = []).
Proof.
  intro Hc. unfold attr_sat, exactly, same_set, wildcard. rewrite Hc. split.
  - intros [W | [_ Hss]]; [subst; discriminate|].
    destruct (norm vs) as [|v l]; [reflexivity|]. exfalso. apply (Hss v). left; reflexivity.
  - intro Hv. right. rewrite Hv. split; [constructor | tauto].
Qed.

(* a repeated certificate value is never accepted by a non-wildcard constraint *)
Lemma attr_dup_rejected cs vs : ~ wildcard cs -> ~ NoDup (norm vs) -> check_attr cs vs <> Ok tt.
Proof.
  intros Hw Hd H. apply check_attr_spec in H as [W | [Hnd _]]; contradiction.
Qed.

(* the verdict depends on the constraint only through its set of values and
   on the certificate's values only up to order *)
Lemma norm_long y z l : norm (y :: z :: l) = y :: z :: l.
Proof. destruct y; reflexivity. Qed.

Lemma norm_perm l l' : Permutation l l' -> Permutation (norm l) (norm l').
Proof.
  intro P. destruct l as [|y [|z l]].
  - apply Permutation_nil in P; subst. constructor.
  - apply Permutation_length_1_inv in P; subst. apply Permutation_refl.
  - assert (Hl : length l' = S (S (length l))) by (rewrite <- (Permutation_length P); reflexivity).
    destruct l' as [|y' [|z' l']]; try discriminate. rewrite !norm_long. exact P.
Qed.

Lemma attr_sat_perm cs vs vs' : Permutation vs vs' -> attr_sat cs vs -> attr_sat cs vs'.
Proof.
  intros P [W | [Hnd Hss]]; [left; assumption|]. right.
  apply norm_perm in P. split.
  - eapply Permutation_NoDup; eassumption.
  - intro x. rewrite <- (Hss x). split; apply Permutation_in; [apply Permutation_sym|]; assumption.
Qed.

(* ------------------------------------------------------------------ *)
(* CertificateConstraint.Check                                        *)

Lemma is_nil_evaluate e r : is_nil (evaluate e r) = is_nil e && is_ok r.
Proof.
  destruct r as [[]| |]; simpl.
  - rewrite andb_true_r; reflexivity.
  - destruct e; simpl; reflexivity.
  - destruct e; simpl; reflexivity.
Qed.

Lemma constraint_check_ok_b cc cv ch ids :
  is_ok (constraint_check cc cv ch ids) =
  is_ok (check_attr [cc_cn cc] [cv_cn cv]) && is_ok (check_attr (cc_dns cc) (cv_dns cv)) &&
  is_ok (check_attr (cc_emails cc) (cv_emails cv)) && is_ok (check_attr (cc_orgs cc) (cv_orgs cv)) &&
  is_ok (check_roots cc ch ids) && is_ok (check_attr (cc_uris cc) (cv_uris cv)).
Proof.
  unfold constraint_check, result_error.
  match goal with |- is_ok (if is_nil ?e then _ else _) = _ =>
    transitivity (is_nil e); [destruct (is_nil e); reflexivity|] end.
  rewrite !is_nil_evaluate. reflexivity.
Qed.

Lemma constraint_check_cases cc cv ch ids :
  constraint_check cc cv ch ids = Ok tt \/ constraint_check cc cv ch ids = Err 5.
Proof.
  unfold constraint_check, result_error.
  match goal with |- (if is_nil ?e then _ else _) = _ \/ _ => destruct (is_nil e) end; auto.
Qed.

Lemma check_roots_spec cc ch ids :
  check_roots cc ch ids = Ok tt <-> ch = true /\ roots_sat cc ids.
Proof.
  unfold check_roots, roots_sat. destruct ch; simpl.
  - rewrite check_attr_spec. tauto.
  - split; [discriminate | intros [H _]; discriminate].
Qed.

Lemma constraint_check_spec cc cv ch ids :
  constraint_check cc cv ch ids = Ok tt <-> ch = true /\ attrs_sat cc cv /\ roots_sat cc ids.
Proof.
  rewrite <- is_ok_unit, constraint_check_ok_b, !andb_true_iff, !is_ok_unit.
  rewrite check_roots_spec, !check_attr_spec. unfold attrs_sat. tauto.
Qed.

(* ------------------------------------------------------------------ *)
(* Step.CheckCertConstraints                                          *)

Lemma cc_loop_ok ccs cv ch ids : forall err,
  cc_loop ccs cv ch ids err = Ok tt <-> exists c, In c ccs /\ constraint_check c cv ch ids = Ok tt.
Proof.
  induction ccs as [|c rest IH]; intro err; simpl.
  - split.
    + destruct err as [[]| |]; discriminate.
    + intros (c & [] & _).
  - destruct (constraint_check_cases c cv ch ids) as [E|E]; rewrite E.
    + split; [|reflexivity]. intros _. exists c. auto.
    + rewrite IH. split.
      * intros (c' & Hin & Hc'). exists c'. auto.
      * intros (c' & [<-|Hin] & Hc'); [congruence|]. exists c'. auto.
Qed.

(* the loop ends with nil, or with the error of the last constraint tried;
   with at least one constraint the "unknown error" tail is never reached *)
Lemma cc_loop_cases ccs cv ch ids : forall err,
  (err = Ok tt -> ccs <> []) -> err = Ok tt \/ err = Err 5 ->
  cc_loop ccs cv ch ids err = Ok tt \/ cc_loop ccs cv ch ids err = Err 5.
Proof.
  induction ccs as [|c rest IH]; intros err Hne Herr; simpl.
  - destruct Herr as [->| ->]; [exfalso; apply Hne; reflexivity | right; reflexivity].
  - destruct (constraint_check_cases c cv ch ids) as [E|E]; rewrite E; [left; reflexivity|].
    apply IH; [discriminate | right; reflexivity].
Qed.

Lemma step_check_spec ccs p cv ch ids :
  step_check_constraints ccs p cv ch ids = Ok tt <->
  accepted_spec ccs (p = true) (ch = true) cv ids.
Proof.
  unfold step_check_constraints, accepted_spec.
  destruct ccs as [|c0 rest] eqn:Eccs.
  - simpl. split; [discriminate | intros [H _]; exfalso; apply H; reflexivity].
  - rewrite <- Eccs. replace (is_nil ccs) with false by (subst; reflexivity).
    destruct p; simpl.
    + rewrite cc_loop_ok. split.
      * intros (c & Hin & Hc). apply constraint_check_spec in Hc as (Hch & Ha & Hr).
        split; [subst; discriminate|]. split; [reflexivity|]. split; [assumption|]. exists c. auto.
      * intros (_ & _ & Hch & c & Hin & Ha & Hr). exists c. split; [assumption|].
        apply constraint_check_spec. auto.
    + split; [discriminate | intros (_ & H & _); discriminate].
Qed.

Lemma step_check_no_unknown ccs p cv ch ids :
  step_check_constraints ccs p cv ch ids <> Err 8 /\
  is_panic (step_check_constraints ccs p cv ch ids) = false.
Proof.
  unfold step_check_constraints.
  destruct ccs as [|c0 rest] eqn:Eccs; simpl is_nil; cbv iota; [split; [discriminate | reflexivity]|].
  destruct p; simpl negb; cbv iota; [|split; [discriminate | reflexivity]].
  destruct (cc_loop_cases (c0 :: rest) cv ch ids (Ok tt)) as [E|E];
    [intros _; discriminate | left; reflexivity | |]; rewrite E; split; (discriminate || reflexivity).
Qed.

(* ------------------------------------------------------------------ *)
(* the consequences named by the property                             *)

Lemma accept_implies ccs p cv ch ids :
  step_check_constraints ccs p cv ch ids = Ok tt ->
  ccs <> [] /\ p = true /\
  exists c, In c ccs /\ ch = true /\ attrs_sat c cv /\ roots_sat c ids.
Proof.
  intro H. apply step_check_spec in H as (Hne & Hp & Hch & c & Hin & Ha & Hr).
  split; [assumption|]. split; [assumption|]. exists c. auto.
Qed.

Lemma wildcard_root_complete ccs cv ids c :
  In c ccs -> cc_roots c = [bs "*"] -> attrs_sat c cv ->
  step_check_constraints ccs true cv true ids = Ok tt.
Proof.
  intros Hin Hr Ha. apply step_check_spec. split; [|split; [reflexivity|split; [reflexivity|]]].
  - intro E; subst; destruct Hin.
  - exists c. split; [assumption|]. split; [assumption|]. left. exact Hr.
Qed.

Lemma no_constraints_reject p cv ch ids : step_check_constraints [] p cv ch ids = Err 6.
Proof. reflexivity. Qed.

Lemma chain_required ccs p cv ids : is_ok (step_check_constraints ccs p cv false ids) = false.
Proof.
  destruct (is_ok (step_check_constraints ccs p cv false ids)) eqn:E; [|reflexivity].
  apply is_ok_unit, step_check_spec in E as (_ & _ & H & _). discriminate.
Qed.

Lemma parse_required ccs cv ch ids : is_ok (step_check_constraints ccs false cv ch ids) = false.
Proof.
  destruct (is_ok (step_check_constraints ccs false cv ch ids)) eqn:E; [|reflexivity].
  apply is_ok_unit, step_check_spec in E as (_ & H & _). discriminate.
Qed.

(* Layout.RootCAIDs ranges over a Go map: the verdict (indeed the whole result)
   does not depend on the order in which the root ids are listed *)
Lemma constraint_check_perm cc cv ch ids ids' : Permutation ids ids' ->
  constraint_check cc cv ch ids = constraint_check cc cv ch ids'.
Proof.
  intro P.
  assert (H : constraint_check cc cv ch ids = Ok tt <-> constraint_check cc cv ch ids' = Ok tt).
  { rewrite !constraint_check_spec. unfold roots_sat.
    split; intros (H1 & H2 & H3); (split; [assumption|split; [assumption|]]);
      eapply attr_sat_perm; try eassumption. apply Permutation_sym; assumption. }
  destruct (constraint_check_cases cc cv ch ids) as [E|E],
           (constraint_check_cases cc cv ch ids') as [E'|E']; try congruence.
  - apply H in E. congruence.
  - apply H in E'. congruence.
Qed.

Lemma step_check_perm ccs p cv ch ids ids' : Permutation ids ids' ->
  step_check_constraints ccs p cv ch ids = step_check_constraints ccs p cv ch ids'.
Proof.
  intro P. unfold step_check_constraints.
  destruct (is_nil ccs); [reflexivity|]. destruct (negb p); [reflexivity|].
  generalize (Ok tt : res unit) as err.
  induction ccs as [|c rest IH]; intro err; simpl; [reflexivity|].
  rewrite (constraint_check_perm c cv ch ids ids' P).
  destruct (constraint_check c cv ch ids'); [reflexivity | apply IH | apply IH].
Qed.

(* the exported boolean *)
Lemma step_cc_ok_spec s cv p ch ids :
  step_cc_ok s cv p ch ids = true <-> accepted_spec (s_cc s) (p = true) (ch = true) cv ids.
Proof. unfold step_cc_ok. rewrite is_ok_unit. apply step_check_spec. Qed.

(* ------------------------------------------------------------------ *)
(* the source skeleton of CertificateConstraint.Check regenerated from
   in_toto/certconstraint.go (gen/CertChecks.v) is the one transcribed in
   [constraint_check]: same six checks in the same order, each comparing the
   same constraint field with the same certificate field, the trust
   verification preceding the root comparison *)
Definition pinned_check_calls : list str :=
  [bs "checkCommonName"; bs "checkDNSNames"; bs "checkEmails"; bs "checkOrganizations";
   bs "checkRoots"; bs "checkURIs"].
Definition pinned_check_args : list (str * list str * list str) :=
  [(bs "checkCommonName", [bs "common name"; bs "[]string{cc.CommonName}"; bs "[]string{cert.Subject.CommonName}"],
      [bs "checkCertConstraint"]);
   (bs "checkDNSNames", [bs "dns name"; bs "cc.DNSNames"; bs "cert.DNSNames"], [bs "checkCertConstraint"]);
   (bs "checkEmails", [bs "email"; bs "cc.Emails"; bs "cert.EmailAddresses"], [bs "checkCertConstraint"]);
   (bs "checkOrganizations", [bs "organization"; bs "cc.Organizations"; bs "cert.Subject.Organization"],
      [bs "checkCertConstraint"]);
   (bs "checkRoots", [bs "root"; bs "cc.Roots"; bs "rootCAIDs"], [bs "VerifyCertificateTrust"; bs "checkCertConstraint"]);
   (bs "checkURIs", [bs "uri"; bs "cc.URIs"; bs "urisToStrings(cert.URIs)"], [bs "checkCertConstraint"; bs "urisToStrings"])].

Lemma check_skeleton_pinned :
  cert_check_calls = pinned_check_calls /\ cert_check_args = pinned_check_args.
Proof. split; vm_compute; reflexivity. Qed.
