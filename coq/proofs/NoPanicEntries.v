(* NoPanicEntries.v — no-panic lemmas for the component models behind the entry points of
   property C15 that were not yet theorems of the component builders:

     canon / signable / dsse_payload       (cjson.EncodeCanonical, Envelope.SetPayload bytes)
     sign, set_payload, fresh              (Metablock.Sign, Envelope.Sign / SetPayload)
     verify_sig with the concrete canonicaliser
     load_metadata, metablock_load, load_payload, check_required   (model/Loader.v)
     validate_metablock, validate_keyval, validate_key ...          (model/Validate.v)
     load_all, verify_thresholds                                     (model/Threshold.v)
     substitute                                                      (model/Subst.v)

   Every function here is a total Gallina function (structural recursion; fuel only inside
   [replace] of model/Subst.v and the glob, see props/C15.v [C15_no_hang]); the lemmas say that
   the outcome is [Ok _] or [Err _], never [Panic _]. *)
From IT Require Import model.Json model.ToJson model.Sign model.Loader model.Validate model.ValidateInst
     model.Threshold model.Subst model.Rules.
From IT Require Import proofs.JsonOrder proofs.JsonProofs proofs.SignProofs proofs.LoaderStrict
     proofs.RulesGrammar proofs.ValidateProofs.

(* ---------- generic ---------- *)
Lemma rbind_np {A B} (x : res A) (f : A -> res B) :
  is_panic x = false -> (forall a, is_panic (f a) = false) -> is_panic (rbind x f) = false.
Proof. destruct x; simpl; intros H1 H2; [apply H2 | reflexivity | discriminate]. Qed.

Lemma is_panic_neq {A} (x : res A) : is_panic x = false <-> forall p, x <> Panic p.
Proof.
  destruct x; simpl; split; intro H; try reflexivity; try (intros p E; discriminate).
  exfalso. eapply H. reflexivity.
Qed.

(* ---------- the canonicaliser ---------- *)
Lemma seq_list_np {A} (l : list (res A)) : Forall (fun r => is_panic r = false) l -> is_panic (seq_list l) = false.
Proof.
  induction 1 as [|r l Hr Hl IH]; [reflexivity|]. cbn [seq_list].
  apply rbind_np; [exact Hr|]. intro a. apply rbind_np; [exact IH | reflexivity].
Qed.

Lemma seq_res_np {A} (l : list (str * res A)) :
  Forall (fun kr => is_panic (snd kr) = false) l -> is_panic (seq_res l) = false.
Proof.
  induction 1 as [|[k r] l Hr Hl IH]; [reflexivity|]. cbn [seq_res].
  apply rbind_np; [exact Hr|]. intro a. apply rbind_np; [exact IH | reflexivity].
Qed.

Theorem canon_no_panic v : is_panic (canon v) = false.
Proof.
  induction v as [| b | z | lit | s | l IH | m IH] using jv_ind'; try reflexivity.
  - cbn [canon]. destruct (int64_range z); reflexivity.
  - cbn [canon]. destruct (int64_literal lit); reflexivity.
  - rewrite canon_arr. apply rbind_np; [|reflexivity]. apply seq_list_np.
    apply Forall_forall. intros r Hin. apply in_map_iff in Hin as [x [<- Hx]].
    rewrite Forall_forall in IH. apply IH. exact Hx.
  - rewrite canon_obj. apply rbind_np; [|reflexivity]. apply seq_res_np.
    apply Forall_forall. intros [k r] Hin. apply norm_pairs_incl in Hin.
    unfold map_snd in Hin. apply in_map_iff in Hin as [kx [E Hx]]. inversion E; subst. cbn [snd].
    rewrite Forall_forall in IH. apply (IH kx). exact Hx.
Qed.

Theorem signable_no_panic p site : signable p <> Panic site.
Proof. apply is_panic_neq. unfold signable. apply canon_no_panic. Qed.

Theorem dsse_payload_no_panic p : is_panic (dsse_payload p) = false.
Proof.
  unfold dsse_payload, dsse_payload_bytes. apply rbind_np; [apply canon_no_panic|].
  intro c. destruct (json_valid c); reflexivity.
Qed.

(* ---------- signing and verifying (model/Sign.v) ---------- *)
Section SignNP.
  Variable sign_prim : key -> str -> str.
  Variable vrfy_prim : key -> str -> str -> bool.
  Variable key_usable : key -> bool.
  Variable fallback_keyid : key -> str.

  (* Metablock.Sign / Envelope.Sign with any signable representation that does not panic *)
  Lemma sign_no_panic_gen signable e k : (forall p site, signable p <> Panic site) ->
    is_panic (sign sign_prim key_usable signable e k) = false.
  Proof.
    intro HS. unfold sign, sign_legacy, sign_dsse, signer_sign. destruct (e_wrapper e).
    - destruct (key_usable k); [|reflexivity]. cbn [negb].
      destruct (signable (e_payload e)) as [m|c|site] eqn:ES; cbn [rbind]; [| reflexivity | exfalso; exact (HS _ _ ES)].
      destruct (is_nil (k_private k)); reflexivity.
    - destruct (key_usable k); [|reflexivity]. cbn [negb]. destruct (is_nil (k_private k)); reflexivity.
  Qed.

  Theorem sign_no_panic e k : is_panic (sign sign_prim key_usable ToJson.signable e k) = false.
  Proof. apply sign_no_panic_gen. exact signable_no_panic. Qed.

  Theorem verify_sig_no_panic e k :
    is_panic (verify_sig vrfy_prim key_usable ToJson.signable fallback_keyid e k) = false.
  Proof. apply verify_no_panic. exact signable_no_panic. Qed.

  (* Envelope.SetPayload *)
  Theorem set_payload_no_panic p : is_panic (Sign.set_payload dsse_payload p) = false.
  Proof. unfold Sign.set_payload. apply rbind_np; [apply dsse_payload_no_panic | reflexivity]. Qed.
End SignNP.

(* ---------- the loaders (model/Loader.v) ---------- *)
Lemma check_required_no_panic m fs : is_panic (check_required m fs) = false.
Proof.
  induction fs as [|f fs IH]; [reflexivity|]. cbn [check_required].
  destruct (negb (has_key m (f_name f)) && negb (f_omit f)); [reflexivity | exact IH].
Qed.

Theorem load_payload_no_panic j : is_panic (load_payload j) = false.
Proof.
  unfold load_payload. destruct j as [| | | | |l|m]; try reflexivity.
  destruct (obj_last m k_type) as [[| | | |t| |]|]; try reflexivity.
  destruct (str_eqb t v_link).
  - apply rbind_np; [apply check_required_no_panic|]. intros _.
    apply rbind_np; [apply decode_no_panic | reflexivity].
  - destruct (str_eqb t v_layout); [|reflexivity].
    apply rbind_np; [apply check_required_no_panic|]. intros _.
    apply rbind_np; [apply decode_no_panic | reflexivity].
Qed.

Section LoaderNP.
  Variable b64json : str -> option jv.

  Lemma load_envelope_no_panic env : is_panic (Loader.load_envelope b64json env) = false.
  Proof.
    unfold Loader.load_envelope. destruct (b64json _); [|reflexivity].
    apply rbind_np; [apply load_payload_no_panic | reflexivity].
  Qed.

  Lemma load_legacy_no_panic old m : is_panic (load_legacy old m) = false.
  Proof.
    unfold load_legacy. destruct (raw_nil m k_signed || raw_nil m k_signatures); [reflexivity|].
    apply rbind_np; [apply decode_no_panic|]. intro sigs.
    apply rbind_np; [apply load_payload_no_panic | reflexivity].
  Qed.

  (* LoadMetadata on every file content: not JSON at all ([None]) or any JSON tree *)
  Theorem load_metadata_no_panic file : is_panic (load_metadata b64json file) = false.
  Proof.
    unfold load_metadata. destruct file as [[| | | | |l|m]|]; try reflexivity; try apply load_legacy_no_panic.
    destruct (has_key m k_payloadType); [|apply load_legacy_no_panic].
    destruct (raw_nil m k_payload || raw_nil m k_signatures); [reflexivity|].
    apply rbind_np; [apply decode_no_panic|]. intro env.
    destruct (negb (str_eqb (struct_str env k_payloadType) gen.Consts.c_PayloadType)); [reflexivity|].
    apply load_envelope_no_panic.
  Qed.

  (* the deprecated Metablock.Load (pointer receiver), whatever the receiver already holds *)
  Theorem metablock_load_no_panic old file : is_panic (metablock_load old file) = false.
  Proof.
    unfold metablock_load. destruct file as [[| | | | |l|m]|]; try reflexivity; try apply load_legacy_no_panic.
  Qed.
End LoaderNP.

(* ---------- the validators (model/Validate.v) ---------- *)
Section ValidateNP.
  Variable rule_ok : rule -> bool.
  Variable expiry_ok : str -> bool.
  Variable pem_kind : str -> option pemkind.

  Lemma validate_hex_np s : is_panic (validate_hex s) = false.
  Proof. unfold validate_hex. destruct (is_hex s); reflexivity. Qed.

  Lemma each_np {A} (f : A -> res unit) l : (forall x, is_panic (f x) = false) -> is_panic (each f l) = false.
  Proof.
    intro H. induction l as [|x l IH]; [reflexivity|]. cbn [each].
    apply rbind_np; [apply H | intros _; exact IH].
  Qed.

  Lemma match_keytype_scheme_np k : is_panic (match_keytype_scheme k) = false.
  Proof. unfold match_keytype_scheme. repeat (match goal with |- context [if ?c then _ else _] => destruct c end); reflexivity. Qed.

  Lemma validate_key_np k : is_panic (validate_key k) = false.
  Proof.
    unfold validate_key. apply rbind_np; [apply validate_hex_np|]. intros _.
    destruct (is_nil (k_keytype k)); [reflexivity|].
    destruct (is_nil (k_public k) && is_nil (k_cert k)); [reflexivity|].
    destruct (is_nil (k_scheme k)); [reflexivity|].
    apply rbind_np; [apply match_keytype_scheme_np|]. intros _.
    destruct (hashalgs_supported (k_hashalgs k)); reflexivity.
  Qed.

  Lemma validate_layout_keys_np keys : is_panic (validate_layout_keys keys) = false.
  Proof.
    unfold validate_layout_keys. apply each_np. intros [id k]. cbn [fst snd].
    destruct (negb (str_eqb (k_keyid k) id)); [reflexivity|].
    unfold validate_public_key. destruct (negb (is_nil (k_private k))); [reflexivity | apply validate_key_np].
  Qed.

  Lemma validate_rules_np rules : is_panic (validate_rules rule_ok rules) = false.
  Proof. unfold validate_rules. apply each_np. intro r. destruct (rule_ok r); reflexivity. Qed.

  Lemma validate_sci_np n m p : is_panic (validate_sci rule_ok n m p) = false.
  Proof.
    unfold validate_sci. destruct (is_nil n); [reflexivity|].
    apply rbind_np; [apply validate_rules_np | intros _; apply validate_rules_np].
  Qed.

  Lemma validate_step_np s : is_panic (validate_step rule_ok s) = false.
  Proof.
    unfold validate_step. apply rbind_np; [apply validate_sci_np|]. intros _.
    destruct (negb (str_eqb (s_type s) (bs "step"))); [reflexivity|]. apply each_np. apply validate_hex_np.
  Qed.

  Lemma validate_inspection_np i : is_panic (validate_inspection rule_ok i) = false.
  Proof.
    unfold validate_inspection. apply rbind_np; [apply validate_sci_np|]. intros _.
    destruct (negb (str_eqb (i_type i) (bs "inspection"))); reflexivity.
  Qed.

  Lemma validate_steps_np l : forall seen, is_panic (validate_steps rule_ok seen l) = false.
  Proof.
    induction l as [|s l IH]; intro seen; [reflexivity|]. cbn [validate_steps].
    destruct (mem (s_name s) seen); [reflexivity|].
    apply rbind_np; [apply validate_step_np | intros _; apply IH].
  Qed.

  Lemma validate_inspections_np l : forall seen, is_panic (validate_inspections rule_ok seen l) = false.
  Proof.
    induction l as [|i l IH]; intro seen; [reflexivity|]. cbn [validate_inspections].
    destruct (mem (i_name i) seen); [reflexivity|].
    apply rbind_np; [apply validate_inspection_np | intros _; apply IH].
  Qed.

  Lemma validate_layout_np l : is_panic (validate_layout rule_ok expiry_ok l) = false.
  Proof.
    unfold validate_layout. destruct (negb (str_eqb (l_type l) (bs "layout"))); [reflexivity|].
    destruct (negb (expiry_ok (l_expires l))); [reflexivity|].
    apply rbind_np; [apply validate_layout_keys_np|]. intros _.
    apply rbind_np; [apply validate_layout_keys_np|]. intros _.
    apply rbind_np; [apply validate_layout_keys_np|]. intros _.
    apply rbind_np; [apply validate_steps_np|]. intro seen.
    apply rbind_np; [apply validate_inspections_np | reflexivity].
  Qed.

  Lemma validate_link_np l : is_panic (validate_link l) = false.
  Proof.
    unfold validate_link. destruct (negb (str_eqb (ln_type l) (bs "link"))); [reflexivity|].
    assert (H : forall a, is_panic (validate_artifacts a) = false).
    { intro a. unfold validate_artifacts. apply each_np. intro p. apply each_np. intro h. apply validate_hex_np. }
    apply rbind_np; [apply H | intros _; apply H].
  Qed.

  (* ValidateMetablock on every Signed value and signature list *)
  Theorem validate_metablock_no_panic sg sigs : is_panic (validate_metablock rule_ok expiry_ok sg sigs) = false.
  Proof.
    unfold validate_metablock. apply rbind_np.
    - destruct sg; [apply validate_layout_np | apply validate_link_np | reflexivity].
    - intros _. apply each_np. intro s. unfold validate_signature.
      apply rbind_np; [apply validate_hex_np | intros _; apply validate_hex_np].
  Qed.

  (* validateKeyVal (the check the repair of F15 puts in front of the sslib constructors) *)
  Theorem validate_keyval_no_panic k : is_panic (validate_keyval pem_kind k) = false.
  Proof.
    unfold validate_keyval. destruct (str_eqb (k_keytype k) gen.Consts.c_ed25519KeyType).
    - apply rbind_np; [apply validate_hex_np|]. intros _.
      destruct (negb (is_nil (k_private k))); [apply validate_hex_np | reflexivity].
    - destruct (_ || _); [|reflexivity].
      destruct (pem_kind (k_public k)) as [pk|]; [|reflexivity].
      apply rbind_np.
      + unfold match_public. destruct pk; try reflexivity;
          match goal with |- context [if ?c then _ else _] => destruct c end; reflexivity.
      + intros _. destruct (negb (is_nil (k_private k))); [|reflexivity].
        destruct (pem_kind (k_private k)) as [sk|]; [|reflexivity].
        unfold match_private. destruct sk; try reflexivity;
          match goal with |- context [if ?c then _ else _] => destruct c end; reflexivity.
  Qed.
End ValidateNP.

(* ---------- UnpackRule ---------- *)
Theorem unpack_rule_no_panic r p : unpack_rule r <> Panic p.
Proof. destruct (unpack_rule_total r) as [[d H]|H]; rewrite H; discriminate. Qed.

(* the instance used by ValidateMetablock: validateArtifactRule = UnpackRule succeeds *)
Theorem validate_metablock_go_no_panic sg sigs : is_panic (validate_metablock_go sg sigs) = false.
Proof. apply validate_metablock_no_panic. Qed.

(* ---------- LoadLinksForLayout / VerifyLinkSignatureThesholds (model/Threshold.v) ---------- *)
Lemma load_steps_np steps files : forall acc p, load_steps steps files acc <> Panic p.
Proof.
  induction steps as [|st r IH]; intros acc p; cbn [load_steps]; [discriminate|].
  unfold load_links. destruct (_ <? _)%Z; [discriminate | apply IH].
Qed.

Theorem load_all_no_panic l files p : load_all l files <> Panic p.
Proof. apply load_steps_np. Qed.

Section ThresholdNP.
  Variable vsig : env -> key -> bool.
  Variable get_cert : signature -> option key.
  Variable cc_ok : step -> key -> bool.

  Lemma verify_steps_np l steps sm : forall acc p, verify_steps vsig get_cert cc_ok l steps sm acc <> Panic p.
  Proof.
    induction steps as [|st r IH]; intros acc p; cbn [verify_steps]; [discriminate|].
    unfold verify_step_thresholds. destruct (_ || _); [discriminate | apply IH].
  Qed.

  Theorem verify_thresholds_no_panic l sm p : verify_thresholds vsig get_cert cc_ok l sm <> Panic p.
  Proof. apply verify_steps_np. Qed.
End ThresholdNP.

(* ---------- SubstituteParameters ---------- *)
Theorem substitute_no_panic l d p : substitute l d <> Panic p.
Proof. unfold substitute. destruct d; [discriminate|]. destruct (forallb _ _); discriminate. Qed.
