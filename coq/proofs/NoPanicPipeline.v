(* NoPanicPipeline.v — the verification pipeline never reaches a panic (property C15).

   model/Pipeline.v represents the panic sites of in_toto/verifylib.go as explicit outcomes:
     p_reduce_nolinks     panic("Could not reduce metadata ...")              ReduceStepsMetadata
                          (also: the nil-interface method calls of GetSummaryLink and of the
                           reference link of ReduceStepsMetadata)
     p_cmdalign_nolinks   panic("Could not verify command alignment ...")     VerifyStepCommandAlignment
   and passes on whatever its stage components return.

   Theorem [verify_no_panic], for EVERY choice of the components: if no component returns Panic
   and a successful threshold stage leaves a NON-EMPTY entry for every step of the layout (what
   the repair of F14 guarantees; proofs/ThresholdProofs.v proves it of model/Threshold.v), then
   [verify fuel ...] is never [Panic _], for every fuel, world, link directory, layout, key set
   and parameter dictionary.  Sublayout resolution replaces links by summaries key for key, so
   the per-step maps keep their key sets and hence their non-emptiness.

   Fuel: [verify 0] is the distinct error [Err e_fuel], which is not a panic; the theorem holds
   for every fuel.  That a fuel above the depth of the link directory tree is never exhausted is
   a statement of the pipeline properties (props/C08.v), not needed here. *)
From IT Require Import model.Pipeline proofs.PipelineProofs.
From IT Require Import proofs.SubstProofs.

Section NoPanic.
  Variable World : Type.
  Variable vsig : env -> key -> bool.
  Variable expiry_ok : str -> bool.
  Variable subst : layout -> amap str -> res layout.
  Variable certs_ok : layout -> list str -> bool.
  Variable load_all : layout -> list (str * option env) -> res (amap (amap env)).
  Variable verify_thresholds : layout -> list str -> amap (amap env) -> res (amap (amap env)).
  Variable verify_rules : list item -> amap link -> res unit.
  Variable run_insp : bool -> World -> inspection -> res (link * World).
  Variable retval_zero : link -> bool.
  Variable pbytes : link -> str.
  Variable zero_key : key.
  Variable rundir_ok : World -> bool.

  Notation verify_body := (verify_body World vsig expiry_ok subst certs_ok load_all verify_thresholds verify_rules run_insp retval_zero pbytes zero_key).
  Notation verify := (verify World vsig expiry_ok subst certs_ok load_all verify_thresholds verify_rules run_insp retval_zero pbytes zero_key).
  Notation verify_with_directory := (verify_with_directory World vsig expiry_ok subst certs_ok load_all verify_thresholds verify_rules run_insp retval_zero pbytes zero_key rundir_ok).
  Notation after_thresholds := (after_thresholds World verify_rules run_insp retval_zero pbytes zero_key).
  Notation sub_steps := (sub_steps World zero_key).
  Notation sub_links := (sub_links World zero_key).
  Notation run_inspections := (run_inspections World run_insp retval_zero).
  Notation rt := (rt World).
  Notation verifier := (verifier World).

  (* ---- what is assumed of the components ---- *)
  Hypothesis subst_np : forall l d p, subst l d <> Panic p.
  Hypothesis load_np : forall l f p, load_all l f <> Panic p.
  Hypothesis thresholds_np : forall l i m p, verify_thresholds l i m <> Panic p.
  Hypothesis rules_np : forall it m p, verify_rules it m <> Panic p.
  Hypothesis insp_np : forall b w i p, run_insp b w i <> Panic p.
  (* F14: an accepted threshold stage has at least one link for every step *)
  Hypothesis thresholds_nonempty : forall l i m v, verify_thresholds l i m = Ok v ->
    forall s, In s (l_steps l) -> exists links, alookup v (s_name s) = Some links /\ links <> [].

  Definition np {A} (x : rt A) : Prop := forall p, fst (fst x) <> Panic p.
  Definition rec_np (rec : verifier) : Prop := forall w pa d e ks sn ps it, np (rec w pa d e ks sn ps it).

  Lemma rt_fail_np {A B} (x : res A) w tr : (forall p, x <> Panic p) -> np (@rt_fail World A B x w tr).
  Proof. intros H p. destruct x; simpl; [discriminate | discriminate | intro E; inversion E; subst; eapply H; reflexivity]. Qed.

  (* ---- small stages ---- *)
  Lemma env_link_np e p : env_link e <> Panic p.
  Proof. unfold env_link. destruct (e_payload e); discriminate. Qed.

  Lemma env_links_np m p : env_links m <> Panic p.
  Proof.
    induction m as [|[k e] r IH]; simpl; [discriminate|].
    unfold env_link. destruct (e_payload e); simpl; [|discriminate].
    destruct (env_links r); simpl; [discriminate | discriminate | exact IH].
  Qed.

  Lemma layout_sigs_np e keys p : verify_layout_signatures vsig e keys <> Panic p.
  Proof.
    destruct (verify_layout_signatures_res vsig e keys) as [H|[c H]]; rewrite H; discriminate.
  Qed.

  Lemma get_layout_np e p : get_layout e <> Panic p.
  Proof. unfold get_layout. destruct (e_payload e); discriminate. Qed.

  (* ---- VerifyStepCommandAlignment: the explicit panic needs a step without links ---- *)
  Definition every_step_has_links (steps : list step) (m : amap (amap env)) : Prop :=
    forall s, In s steps -> exists links, alookup m (s_name s) = Some links /\ links <> [].

  Lemma cmd_alignment_ok steps m : every_step_has_links steps m -> cmd_alignment steps m = Ok tt.
  Proof.
    induction steps as [|s r IH]; intro H; simpl; [reflexivity|].
    destruct (H s (or_introl eq_refl)) as [links [Hl Hne]]. rewrite Hl.
    destruct links as [|x links]; [congruence|]. apply IH. intros s' Hin. apply H. right. exact Hin.
  Qed.

  (* and conversely: the panic is reached exactly when some step has no link *)
  Lemma cmd_alignment_panics_iff steps m :
    cmd_alignment steps m = Panic p_cmdalign_nolinks <-> ~ every_step_has_links steps m.
  Proof.
    induction steps as [|s r IH]; simpl.
    - split; [discriminate | intro H; exfalso; apply H; intros s []].
    - destruct (alookup m (s_name s)) as [[|x links]|] eqn:Hl.
      + split; [intros _ H | reflexivity]. destruct (H s (or_introl eq_refl)) as [l [E Hne]]. congruence.
      + rewrite IH. split; intros H H'; apply H.
        * intros s' Hin. apply H'. right. exact Hin.
        * intros s' [<-|Hin]; [exists (x :: links); split; [exact Hl | discriminate] | apply H'; exact Hin].
      + split; [intros _ H | reflexivity]. destruct (H s (or_introl eq_refl)) as [l [E Hne]]. congruence.
  Qed.

  (* ---- ReduceStepsMetadata ---- *)
  Lemma reduce_step_np links p : links <> [] -> reduce_step links <> Panic p.
  Proof.
    intro Hne. unfold reduce_step. destruct links as [|[k0 e0] r]; [congruence|].
    destruct r as [|q r]; [discriminate|]. cbv zeta.
    destruct (env_link (snd (min_entry (k0, e0) (q :: r)))) as [ref|c|pp] eqn:El; cbn [rbind];
      [| discriminate | exfalso; eapply env_link_np; exact El].
    destruct (all_agree_res ref ((k0, e0) :: q :: r)) as [H|[c H]]; rewrite H; cbn [rbind]; discriminate.
  Qed.

  Lemma reduce_steps_np steps m acc p : every_step_has_links steps m -> reduce_steps steps m acc <> Panic p.
  Proof.
    revert acc. induction steps as [|s r IH]; intros acc H; simpl; [discriminate|].
    destruct (H s (or_introl eq_refl)) as [links [Hl Hne]]. rewrite Hl.
    destruct (reduce_step links) as [e|c|pp] eqn:Hr; cbn [rbind];
      [| discriminate | exfalso; eapply reduce_step_np; eassumption].
    apply IH. intros s' Hin. apply H. right. exact Hin.
  Qed.

  (* ---- GetSummaryLink: the nil-interface calls need a step that ReduceStepsMetadata did not define ---- *)
  Lemma last_in {A} (l : list A) (d : A) : l <> [] -> In (last l d) l.
  Proof.
    induction l as [|x l IH]; [congruence|]. intros _. destruct l as [|y l]; [left; reflexivity|].
    right. apply IH. discriminate.
  Qed.

  Lemma get_summary_np l m reduced name dsse p :
    reduce_steps (l_steps l) m [] = Ok reduced -> get_summary pbytes l reduced name dsse <> Panic p.
  Proof.
    intro Hred. unfold get_summary. destruct (l_steps l) as [|s0 r] eqn:Hs; [discriminate|].
    assert (H0 : ahas reduced (s_name s0) = true).
    { eapply reduce_steps_defines; [exact Hred|]. left. left. reflexivity. }
    assert (Hl : ahas reduced (s_name (last (s0 :: r) s0)) = true).
    { eapply reduce_steps_defines; [exact Hred|]. left. apply in_map. apply last_in. discriminate. }
    unfold ahas in H0, Hl.
    destruct (alookup reduced (s_name s0)) as [e0|]; [|discriminate].
    destruct (alookup reduced (s_name (last (s0 :: r) s0))) as [el|]; [|discriminate].
    unfold env_link. destruct (e_payload e0); cbn [rbind]; [|discriminate].
    destruct (e_payload el); cbn [rbind]; discriminate.
  Qed.

  (* ---- RunInspections ---- *)
  Lemma run_inspections_np path dsse w insps acc tr p : fst (run_inspections path dsse w insps acc tr) <> Panic p.
  Proof.
    revert w acc tr. induction insps as [|i r IH]; intros w acc tr; simpl; [discriminate|].
    destruct (run_insp dsse w i) as [[l w1]|c|pp] eqn:Hr; simpl; [| discriminate | exfalso; eapply insp_np; exact Hr].
    destruct (retval_zero l); [apply IH | simpl; discriminate].
  Qed.

  (* ---- VerifySublayouts ---- *)
  Section Sub.
    Variable rec : verifier.
    Hypothesis rec_ok : rec_np rec.
    Variable L : layout.
    Variable path : list str.
    Variable d : linkdir.
    Variable inter : list str.

    Lemma sub_links_np sname links w tr : np (sub_links rec L path d inter sname links w tr).
    Proof.
      revert w tr. induction links as [|[kid e] r IH]; intros w tr; simpl; [intro p; simpl; discriminate|].
      destruct (env_is_layout e).
      - match goal with |- np (match ?c with _ => _ end) => assert (Hc : np c) by apply rec_ok; revert Hc; destruct c as [[x w1] tr1]; intro Hc end.
        destruct x as [summary|c|pp]; [| intro p; simpl; discriminate | exfalso; eapply Hc; reflexivity].
        match goal with |- np (match ?c with _ => _ end) => assert (Hn : np c) by apply IH; revert Hn; destruct c as [[y w2] tr2]; intro Hn end.
        destruct y as [r'|c|pp]; [intro p; simpl; discriminate | intro p; simpl; discriminate |].
        apply rt_fail_np. intros p E. eapply Hn. simpl. exact E.
      - match goal with |- np (match ?c with _ => _ end) => assert (Hn : np c) by apply IH; revert Hn; destruct c as [[y w2] tr2]; intro Hn end.
        destruct y as [r'|c|pp]; [intro p; simpl; discriminate | intro p; simpl; discriminate |].
        apply rt_fail_np. intros p E. eapply Hn. simpl. exact E.
    Qed.

    Lemma sub_steps_np m w tr : np (sub_steps rec L path d inter m w tr).
    Proof.
      revert w tr. induction m as [|[sname links] r IH]; intros w tr; simpl; [intro p; simpl; discriminate|].
      pose proof (sub_links_np sname links w tr) as Hl.
      destruct (sub_links rec L path d inter sname links w tr) as [[x w1] tr1].
      destruct x as [links'|c|pp].
      - pose proof (IH w1 tr1) as Hn. destruct (sub_steps rec L path d inter r w1 tr1) as [[y w2] tr2].
        destruct y as [r'|c|pp]; [intro p; simpl; discriminate | intro p; simpl; discriminate |].
        apply rt_fail_np. intros p E. eapply Hn. simpl. exact E.
      - intro p. simpl. discriminate.
      - apply rt_fail_np. intros p E. eapply Hl. simpl. exact E.
    Qed.

    (* resolution keeps, step by step, the key ids: an entry is empty after it iff it was before *)
    Lemma sub_rel_nonempty sname w links w' r :
      sub_rel World zero_key rec L path d inter sname w links w' r -> links <> [] -> r <> [].
    Proof. intros H Hne. apply sub_rel_keys in H. destruct links; [congruence|]. destruct r; [discriminate | discriminate]. Qed.

    Lemma subs_rel_lookup w m w' r :
      subs_rel World zero_key rec L path d inter w m w' r ->
      forall n links, alookup m n = Some links -> links <> [] ->
        exists links', alookup r n = Some links' /\ links' <> [].
    Proof.
      induction 1 as [w|w sname links0 w1 links0' r0 w' r' Hs Hr IH]; intros n links Hl Hne; simpl in *; [discriminate|].
      destruct (str_eqb n sname).
      - inversion Hl; subst. exists links0'. split; [reflexivity|]. eapply sub_rel_nonempty; eassumption.
      - eapply IH; eassumption.
    Qed.

    Lemma sub_steps_keeps_links steps verified w tr resolved w2 tr2 :
      sub_steps rec L path d inter verified w tr = (Ok resolved, w2, tr2) ->
      every_step_has_links steps verified -> every_step_has_links steps resolved.
    Proof.
      intros Hss H s Hin. apply sub_steps_ok in Hss. destruct (H s Hin) as [links [Hl Hne]].
      eapply subs_rel_lookup; eassumption.
    Qed.
  End Sub.

  (* ---- the stages after the thresholds ---- *)
  Lemma after_thresholds_np rec w path d layout dsse step_name inter verified :
    rec_np rec -> every_step_has_links (l_steps layout) verified ->
    np (after_thresholds rec w path d layout dsse step_name inter verified).
  Proof.
    intros Hrec Hall. unfold Pipeline.after_thresholds.
    pose proof (sub_steps_np rec Hrec layout path d inter verified w [EvLoadLinks path]) as Hss.
    destruct (sub_steps rec layout path d inter verified w [EvLoadLinks path]) as [[x w2] tr2] eqn:Ess.
    destruct x as [resolved|c|pp];
      [| intro p; simpl; discriminate | apply rt_fail_np; intros p E; eapply Hss; simpl; exact E].
    assert (Hres : every_step_has_links (l_steps layout) resolved)
      by (eapply sub_steps_keeps_links; eassumption).
    rewrite (cmd_alignment_ok _ _ Hres).
    destruct (reduce_steps (l_steps layout) resolved []) as [reduced|c|pp] eqn:Hred;
      [| intro p; simpl; discriminate | exfalso; eapply reduce_steps_np; eassumption].
    destruct (env_links reduced) as [rl|c|pp] eqn:Hel;
      [| intro p; simpl; discriminate | exfalso; eapply env_links_np; exact Hel].
    destruct (verify_rules (map step_item (l_steps layout)) rl) as [[]|c|pp] eqn:Hr1;
      [| intro p; simpl; discriminate | exfalso; eapply rules_np; exact Hr1].
    pose proof (run_inspections_np path dsse w2 (l_inspect layout) [] tr2) as Hin.
    destruct (run_inspections path dsse w2 (l_inspect layout) [] tr2) as [z tr3].
    destruct z as [[imeta w3]|c|pp];
      [| intro p; simpl; discriminate | exfalso; eapply Hin; reflexivity].
    destruct (verify_rules (map insp_item (l_inspect layout)) (merge_steps rl imeta)) as [[]|c|pp] eqn:Hr2;
      [| intro p; simpl; discriminate | exfalso; eapply rules_np; exact Hr2].
    destruct (get_summary pbytes layout reduced step_name dsse) as [s|c|pp] eqn:Hsum;
      [intro p; simpl; discriminate | intro p; simpl; discriminate |].
    exfalso. eapply get_summary_np; eassumption.
  Qed.

  (* ---- one level ---- *)
  Lemma verify_body_np rec : rec_np rec -> rec_np (verify_body rec).
  Proof.
    intros Hrec w path d layout_env keys step_name params inter. unfold Pipeline.verify_body.
    destruct (verify_layout_signatures vsig layout_env keys) as [[]|c|pp] eqn:Hsig;
      [| intro p; simpl; discriminate | exfalso; eapply layout_sigs_np; exact Hsig].
    destruct (get_layout layout_env) as [l0|c|pp] eqn:Hpl;
      [| intro p; simpl; discriminate | exfalso; eapply get_layout_np; exact Hpl].
    destruct (expiry_ok (l_expires l0)); [|intro p; simpl; discriminate].
    destruct (subst l0 params) as [l|c|pp] eqn:Hsub;
      [| intro p; simpl; discriminate | exfalso; eapply subst_np; exact Hsub].
    destruct (certs_ok l inter); [|intro p; simpl; discriminate].
    destruct (load_all l (ld_files d)) as [loaded|c|pp] eqn:Hload;
      [| intro p; simpl; discriminate | exfalso; eapply load_np; exact Hload].
    destruct (verify_thresholds l inter loaded) as [verified|c|pp] eqn:Hth;
      [| intro p; simpl; discriminate | exfalso; eapply thresholds_np; exact Hth].
    apply after_thresholds_np; [exact Hrec|].
    intros s Hin. eapply thresholds_nonempty; eassumption.
  Qed.

  (* ---- InTotoVerify, every fuel ---- *)
  Theorem verify_rec_np fuel : rec_np (verify fuel).
  Proof.
    induction fuel as [|f IH].
    - intros w pa d e ks sn ps it p. simpl. discriminate.
    - rewrite (verify_unfold World vsig expiry_ok subst certs_ok load_all verify_thresholds verify_rules run_insp retval_zero pbytes zero_key).
      apply verify_body_np. exact IH.
  Qed.

  Theorem verify_no_panic fuel w path d layout_env keys step_name params inter :
    is_panic (fst (fst (verify fuel w path d layout_env keys step_name params inter))) = false.
  Proof.
    pose proof (verify_rec_np fuel w path d layout_env keys step_name params inter) as H.
    destruct (fst (fst (verify fuel w path d layout_env keys step_name params inter))) as [s|c|p] eqn:E;
      [reflexivity | reflexivity | exfalso; eapply H; exact E].
  Qed.

  (* InTotoVerifyWithDirectory *)
  Theorem verify_with_directory_no_panic fuel w d layout_env keys step_name params inter :
    is_panic (fst (fst (verify_with_directory fuel w d layout_env keys step_name params inter))) = false.
  Proof.
    unfold Pipeline.verify_with_directory. destruct (rundir_ok w); [apply verify_no_panic | reflexivity].
  Qed.
End NoPanic.

(* ---- the hypothesis on the threshold stage cannot be dropped: with a threshold stage that
        accepts a step without links the explicit panic IS reached (regress/C15.v gives the
        concrete pre-F14 instance) ---- *)
