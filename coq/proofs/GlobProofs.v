(* GlobProofs.v — match() of match.go (model/Glob.v) against the documented grammar
   (spec/GlobSpec.v).

   Layers: GlobDecode (rune decoder, character tails, den <-> denote),
   GlobParse (getEsc/class loop/matchChunk/scanChunk through the specification's parser),
   here: the syntax check of the remaining chunks, the star loop, the outer loop by
   induction on the fuel, and the theorems cited by props/C17.v. *)
From IT Require Import spec.GlobSpec proofs.GlobDecode proofs.GlobParse.
Arguments decode_rune : simpl never.
Arguments p_esc : simpl never.
Arguments parse_pattern : simpl never.
Arguments match_chunk : simpl never.
Arguments scan_chunk : simpl never.

(* ------------------------------------------------------------------ *)
(* scanChunk *)
Lemma strip_stars_spec : forall p s0 star p1, strip_stars p s0 = (star, p1) ->
  exists k, p = repeat 42 k ++ p1 /\ star = (s0 || Nat.ltb 0 k) /\
            (forall c t, p1 = c :: t -> c <> 42).
Proof.
  induction p as [|c p IH]; intros s0 star p1 H.
  - inversion H; subst. exists 0%nat. rewrite orb_false_r. repeat split. discriminate.
  - cbn [strip_stars] in H. destruct (c =? 42) eqn:E.
    + apply N.eqb_eq in E. subst c. apply IH in H as [k [Hp [Hs Hh]]].
      exists (S k). subst p. split; [reflexivity|]. split; [|assumption].
      rewrite Hs. destruct s0; reflexivity.
    + inversion H; subst. exists 0%nat. rewrite orb_false_r. repeat split.
      intros c0 t Hc. inversion Hc; subst. apply N.eqb_neq. assumption.
Qed.

Lemma parse_pattern_stars : forall k p,
  parse_pattern (repeat 42 k ++ p) = option_map (app (repeat IStar k)) (parse_pattern p).
Proof.
  induction k as [|k IH]; intros p.
  - simpl. destruct (parse_pattern p); reflexivity.
  - cbn [repeat app]. rewrite parse_pattern_cons. cbn [N.eqb Pos.eqb]. rewrite IH.
    destruct (parse_pattern p); reflexivity.
Qed.

Lemma scan_split_chunk_nonempty : forall c t chunk rest, c <> 42 ->
  scan_split (c :: t) false = (chunk, rest) -> chunk <> [].
Proof.
  intros c t chunk rest Hc H. rewrite scan_split_cons in H.
  apply N.eqb_neq in Hc. rewrite Hc in H.
  destruct (c =? 92).
  { destruct t; [inversion H; discriminate|]. destruct (scan_split t false). inversion H. discriminate. }
  destruct (c =? 91); [destruct (scan_split t true); inversion H; discriminate|].
  destruct (c =? 93); destruct (scan_split t false); inversion H; discriminate.
Qed.

Lemma scan_chunk_facts : forall p star chunk rest, scan_chunk p = (star, chunk, rest) ->
  exists k, star = Nat.ltb 0 k /\
    parse_pattern p = option_map (app (repeat IStar k))
                        (seq_items (parse_pattern chunk) (parse_pattern rest)) /\
    (forall ci, parse_pattern chunk = Some ci -> nostar ci = true) /\
    (rest = [] \/ exists r', rest = 42 :: r') /\
    (p <> [] -> (length rest < length p)%nat) /\
    (chunk = [] -> rest = []).
Proof.
  intros p star chunk rest H. unfold scan_chunk in H.
  destruct (strip_stars p false) as [st p1] eqn:Es.
  destruct (scan_split p1 false) as [ch rs] eqn:Ep. inversion H; subst st ch rs. clear H.
  apply strip_stars_spec in Es as [k [Hp [Hst Hhead]]]. cbn [orb] in Hst.
  exists k. split; [assumption|].
  destruct (scan_split_parse (length p1) p1 (le_n _) chunk rest Ep) as [Hparse Hnostar].
  pose proof (scan_split_rest _ _ _ _ Ep) as Hrest.
  pose proof (scan_split_app _ _ _ _ Ep) as Happ.
  split; [|split; [|split; [|split]]].
  - subst p. rewrite parse_pattern_stars, Hparse. reflexivity.
  - assumption.
  - assumption.
  - intros Hne. subst p. rewrite app_length, repeat_length. subst p1. rewrite app_length.
    destruct k as [|k]; [|lia].
    destruct chunk as [|x chunk']; [|simpl; lia].
    simpl in *. destruct rest as [|c t]; [congruence|].
    exfalso. eapply scan_split_chunk_nonempty; [|exact Ep|reflexivity].
    eapply Hhead. reflexivity.
  - intros ->. simpl in Happ. subst p1.
    destruct Hrest as [->|[r' ->]]; [reflexivity|].
    exfalso. eapply Hhead; reflexivity.
Qed.

(* ------------------------------------------------------------------ *)
(* the syntax check of the remaining pattern *)
Lemma check_rest_spec : forall fuel p, (length p <= fuel)%nat ->
  check_rest fuel p = match parse_pattern p with None => XBad | Some _ => XNoMatch end.
Proof.
  induction fuel as [|f IH]; intros p Hlen.
  { destruct p; [reflexivity|simpl in Hlen; lia]. }
  destruct p as [|c p']; [reflexivity|].
  cbn [check_rest].
  destruct (scan_chunk (c :: p')) as [[star chunk] rest] eqn:Esc.
  destruct (scan_chunk_facts _ _ _ _ Esc) as (k & _ & Hparse & _ & _ & Hlt & _).
  specialize (Hlt ltac:(discriminate)).
  rewrite Hparse, match_chunk_spec.
  destruct (parse_pattern chunk) as [ci|]; cbn [chunk_result seq_items option_map]; [|reflexivity].
  assert (Hr : check_rest f rest = match parse_pattern rest with None => XBad | Some _ => XNoMatch end)
    by (apply IH; simpl in *; lia).
  destruct (eat ci []); rewrite Hr; destruct (parse_pattern rest); reflexivity.
Qed.

(* ------------------------------------------------------------------ *)
(* semantic side: consuming a star-free chunk *)
Lemma den_chunk : forall ci ri n, nostar ci = true ->
  (den (ci ++ ri) n = true <-> exists t, eat ci n = Some t /\ den ri t = true).
Proof.
  induction ci as [|it ci IH]; intros ri n Hns.
  { cbn [app eat]. split.
    - intros H. exists n. split; [reflexivity|assumption].
    - intros [t [H1 H2]]. injection H1 as <-. assumption. }
  cbn [nostar forallb] in Hns. apply andb_true_iff in Hns as [Hit Hns].
  specialize (IH ri). cbn [app].
  destruct it as [| |b|neg rs]; [discriminate| | |]; cbn [den eat].
  - destruct n as [|x n']; cbn [is_nil negb andb].
    + split; [discriminate|intros [t [H _]]; discriminate].
    + apply IH; assumption.
  - destruct n as [|x n'].
    + split; [discriminate|intros [t [H _]]; discriminate].
    + rewrite (N.eqb_sym x b). destruct (b =? x); cbn [andb].
      * apply IH; assumption.
      * split; [discriminate|intros [t [H _]]; discriminate].
  - destruct n as [|x n']; cbn [is_nil negb andb].
    + split; [discriminate|intros [t [H _]]; discriminate].
    + destruct (xorb (in_ranges rs (first_char (x :: n'))) neg); cbn [andb].
      * apply IH; assumption.
      * split; [discriminate|intros [t [H _]]; discriminate].
Qed.

Lemma den_star_chunk : forall ci ri n, nostar ci = true ->
  (den (IStar :: ci ++ ri) n = true <->
   exists nm t, ctail n nm /\ eat ci nm = Some t /\ den ri t = true).
Proof.
  intros ci ri n Hns. rewrite den_star_iff. split.
  - intros [nm [Hc Hd]]. apply den_chunk in Hd as [t [He Hd]]; [|assumption]. exists nm, t. auto.
  - intros [nm [t [Hc [He Hd]]]]. exists nm. split; [assumption|].
    apply den_chunk; [assumption|]. exists t. auto.
Qed.

Lemma den_stars : forall k is n,
  den (repeat IStar (S k) ++ is) n = true <-> den (IStar :: is) n = true.
Proof.
  induction k as [|k IH]; intros is n; [reflexivity|].
  change (repeat IStar (S (S k)) ++ is) with (IStar :: (repeat IStar (S k) ++ is)).
  rewrite den_star_iff. split.
  - intros [t [Hc Hd]]. apply (proj1 (IH _ _)) in Hd. apply den_star_iff in Hd as [t2 [Hc2 Hd2]].
    apply den_star_iff. exists t2. split; [eapply ctail_trans; eassumption|assumption].
  - intros H. exists n. split; [apply ct_refl|]. apply (proj2 (IH _ _)). assumption.
Qed.

Lemma ctail_to_nil : forall n, ctail n [].
Proof.
  induction n as [n IH] using list_len_ind. destruct n as [|x n']; [apply ct_refl|].
  apply ct_step; [discriminate|]. apply IH. apply skip_char_length. discriminate.
Qed.

(* what follows a chunk is the end of the pattern or another star: matching the rest
   at an earlier character boundary is at least as good as matching it later *)
Lemma leftmost : forall ri t t1,
  (ri = [] /\ t = []) \/ (exists ri', ri = IStar :: ri') ->
  ctail t t1 -> den ri t1 = true -> den ri t = true.
Proof.
  intros ri t t1 [[-> ->]|[ri' ->]] Hc Hd.
  - apply ctail_nil in Hc. subst. assumption.
  - apply den_star_iff in Hd as [t2 [Hc2 Hd2]]. apply den_star_iff. exists t2.
    split; [eapply ctail_trans; eassumption|assumption].
Qed.

Lemma eat_lit : forall b is s t, eat (ILit b :: is) s = Some t -> exists s', s = b :: s' /\ eat is s' = Some t.
Proof.
  intros b is s t H. cbn [eat] in H. destruct s as [|x s']; [discriminate|].
  destruct (b =? x) eqn:E; [|discriminate]. apply N.eqb_eq in E. subst. eauto.
Qed.

Lemma eat_single : forall it is s t, match it with IAny | IClass _ _ => True | _ => False end ->
  eat (it :: is) s = Some t -> s <> [] /\ eat is (skip_char s) = Some t.
Proof.
  intros it is s t Hit H. destruct it as [| |b|neg rs]; try contradiction; cbn [eat] in H.
  - destruct s; [discriminate|]. split; [discriminate|exact H].
  - destruct s; [discriminate|]. cbn [is_nil] in H.
    destruct (xorb _ _); [|discriminate]. split; [discriminate|exact H].
Qed.

(* two runs of the same aligned chunk stay in step: the later start ends at a
   character boundary of what the earlier start leaves *)
Lemma eat_sim : forall k ci, (length ci <= k)%nat -> nostar ci = true -> lits_aligned ci = true ->
  forall s0 s1 t0 t1, ctail s0 s1 -> eat ci s0 = Some t0 -> eat ci s1 = Some t1 -> ctail t0 t1.
Proof.
  induction k as [|k IH]; intros ci Hlen Hns Hal s0 s1 t0 t1 Hc H0 H1.
  { destruct ci; [|simpl in Hlen; lia]. inversion H0; inversion H1; subst. assumption. }
  destruct ci as [|it ci1].
  { inversion H0; inversion H1; subst. assumption. }
  cbn [nostar forallb] in Hns. apply andb_true_iff in Hns as [Hit Hns1]. simpl in Hlen.
  destruct it as [| |b0|neg rs]; [discriminate| | |].
  - apply eat_single in H0 as [N0 H0]; [|exact I]. apply eat_single in H1 as [N1 H1]; [|exact I].
    apply (IH ci1 ltac:(lia) Hns1 Hal (skip_char s0) (skip_char s1) t0 t1); try assumption.
    apply ctail_skip; assumption.
  - cbn [lits_aligned] in Hal.
    apply eat_lit in H0 as [s0a [-> H0]]. apply eat_lit in H1 as [s1a [-> H1]].
    destruct (b0 <? 128) eqn:E0.
    { apply (IH ci1 ltac:(lia) Hns1 Hal s0a s1a t0 t1); try assumption.
      rewrite <- (skip_char_ascii b0 s0a E0), <- (skip_char_ascii b0 s1a E0).
      apply ctail_skip; [assumption|discriminate]. }
    destruct ci1 as [|[| |b1|] ci2]; try discriminate.
    cbn [nostar forallb] in Hns1. simpl in Hlen.
    apply eat_lit in H0 as [s0b [-> H0]]. apply eat_lit in H1 as [s1b [-> H1]].
    destruct (valid2 b0 b1) eqn:V2.
    { apply (IH ci2 ltac:(lia) Hns1 Hal s0b s1b t0 t1); try assumption.
      rewrite <- (skip_char_valid2 b0 b1 s0b V2), <- (skip_char_valid2 b0 b1 s1b V2).
      apply ctail_skip; [assumption|discriminate]. }
    destruct ci2 as [|[| |b2|] ci3]; try discriminate.
    cbn [nostar forallb] in Hns1. simpl in Hlen.
    apply eat_lit in H0 as [s0c [-> H0]]. apply eat_lit in H1 as [s1c [-> H1]].
    destruct (valid3 b0 b1 b2) eqn:V3.
    { apply (IH ci3 ltac:(lia) Hns1 Hal s0c s1c t0 t1); try assumption.
      rewrite <- (skip_char_valid3 b0 b1 b2 s0c V3), <- (skip_char_valid3 b0 b1 b2 s1c V3).
      apply ctail_skip; [assumption|discriminate]. }
    destruct ci3 as [|[| |b3|] ci4]; try discriminate.
    cbn [nostar forallb] in Hns1. simpl in Hlen.
    apply eat_lit in H0 as [s0d [-> H0]]. apply eat_lit in H1 as [s1d [-> H1]].
    apply andb_true_iff in Hal as [V4 Hal4].
    apply (IH ci4 ltac:(lia) Hns1 Hal4 s0d s1d t0 t1); try assumption.
    rewrite <- (skip_char_valid4 b0 b1 b2 b3 s0d V4), <- (skip_char_valid4 b0 b1 b2 b3 s1d V4).
    apply ctail_skip; [assumption|discriminate].
  - apply eat_single in H0 as [N0 H0]; [|exact I]. apply eat_single in H1 as [N1 H1]; [|exact I].
    apply (IH ci1 ltac:(lia) Hns1 Hal (skip_char s0) (skip_char s1) t0 t1); try assumption.
    apply ctail_skip; assumption.
Qed.

Lemma lits_aligned_stars : forall k is, lits_aligned (repeat IStar k ++ is) = lits_aligned is.
Proof. induction k; intros; simpl; auto. Qed.

Lemma lits_aligned_app : forall k ci ri, (length ci <= k)%nat ->
  (ri = [] \/ exists ri', ri = IStar :: ri') ->
  lits_aligned (ci ++ ri) = lits_aligned ci && lits_aligned ri.
Proof.
  induction k as [|k IH]; intros ci ri Hlen Hri.
  { destruct ci; [reflexivity|simpl in Hlen; lia]. }
  assert (Hnil : forall b, lits_aligned (ILit b :: ri) = (b <? 128) && lits_aligned ri).
  { intros b. cbn [lits_aligned]. destruct (b <? 128); [reflexivity|].
    destruct Hri as [->|[ri' ->]]; reflexivity. }
  assert (Hri2 : forall b0 b1, lits_aligned (ILit b0 :: ILit b1 :: ri) =
                   lits_aligned (ILit b0 :: [ILit b1]) && lits_aligned ri).
  { intros b0 b1. cbn [lits_aligned]. destruct (b0 <? 128).
    - destruct (b1 <? 128); [reflexivity|]. destruct Hri as [->|[ri' ->]]; reflexivity.
    - destruct (valid2 b0 b1); [reflexivity|]. destruct Hri as [->|[ri' ->]]; reflexivity. }
  destruct ci as [|it ci1]; [reflexivity|]. simpl in Hlen.
  destruct it as [| |b0|neg rs]; try (cbn [app lits_aligned]; apply IH; [lia|assumption]).
  cbn [app]. cbn [lits_aligned].
  destruct (b0 <? 128); [apply IH; [lia|assumption]|].
  destruct ci1 as [|it1 ci2].
  { cbn [app]. destruct Hri as [->|[ri' ->]]; reflexivity. }
  simpl in Hlen. cbn [app].
  destruct it1 as [| |b1|neg1 rs1]; try reflexivity.
  destruct (valid2 b0 b1); [apply IH; [lia|assumption]|].
  destruct ci2 as [|it2 ci3].
  { cbn [app]. destruct Hri as [->|[ri' ->]]; reflexivity. }
  simpl in Hlen. cbn [app].
  destruct it2 as [| |b2|neg2 rs2]; try reflexivity.
  destruct (valid3 b0 b1 b2); [apply IH; [lia|assumption]|].
  destruct ci3 as [|it3 ci4].
  { cbn [app]. destruct Hri as [->|[ri' ->]]; reflexivity. }
  simpl in Hlen. cbn [app].
  destruct it3 as [| |b3|neg3 rs3]; try reflexivity.
  rewrite (IH ci4 ri) by (try lia; assumption). rewrite andb_assoc. reflexivity.
Qed.

(* ------------------------------------------------------------------ *)
(* the star loop of match(), with the recursive call abstracted as [cont] *)
Definition star_loop (cont : str -> xres) (chunk rest : str) : nat -> str -> xres :=
  fix star_loop (k : nat) (nm : str) {struct k} : xres :=
    match nm with
    | [] => check_rest (length rest) rest
    | _ =>
      match k with
      | O => XFuel
      | S k' =>
        let nm' := skip_char nm in
        match match_chunk chunk nm' with
        | COk t' =>
          if is_nil rest && negb (is_nil t') then star_loop k' nm'
          else cont t'
        | CFail => star_loop k' nm'
        | CBad => XBad
        | CPanic => XPanic
        | CFuel => XFuel
        end
      end
    end.

Lemma star_loop_unfold : forall cont chunk rest k nm,
  star_loop cont chunk rest k nm =
    match nm with
    | [] => check_rest (length rest) rest
    | _ =>
      match k with
      | O => XFuel
      | S k' =>
        let nm' := skip_char nm in
        match match_chunk chunk nm' with
        | COk t' =>
          if is_nil rest && negb (is_nil t') then star_loop cont chunk rest k' nm'
          else cont t'
        | CFail => star_loop cont chunk rest k' nm'
        | CBad => XBad
        | CPanic => XPanic
        | CFuel => XFuel
        end
      end
    end.
Proof. intros. destruct k; reflexivity. Qed.

Lemma gmatch_f_S : forall f c p' name,
  gmatch_f (S f) (c :: p') name =
    let '(star, chunk, rest) := scan_chunk (c :: p') in
    if star && is_nil chunk then XMatch
    else
      let r := match_chunk chunk name in
      match r with
      | CPanic => XPanic
      | CFuel => XFuel
      | _ =>
        match accept_here r rest with
        | Some t => gmatch_f f rest t
        | None =>
          match r with
          | CBad => XBad
          | _ => if star then star_loop (gmatch_f f rest) chunk rest (length name) name
                 else check_rest (length rest) rest
          end
        end
      end.
Proof. reflexivity. Qed.

Lemma gmatch_f_nil : forall f name, gmatch_f f [] name = if is_nil name then XMatch else XNoMatch.
Proof. intros. destruct f; reflexivity. Qed.

(* outcome of one call, relative to the items of the remaining pattern.
   A "no match" is only claimed to be right when the literal text is aligned or the
   pattern has no star at all (no backtracking then). *)
Definition okp (items : list item) : bool := lits_aligned items || nostar items.

Definition good (r : xres) (items : list item) (n : str) : Prop :=
  (r = XMatch /\ den items n = true) \/
  (r = XNoMatch /\ (okp items = true -> den items n = false)).

Lemma okp_aligned : forall items, lits_aligned items = true -> okp items = true.
Proof. intros items H. unfold okp. rewrite H. reflexivity. Qed.

Lemma okp_star : forall items, okp (IStar :: items) = true -> lits_aligned items = true.
Proof. intros items H. unfold okp in H. cbn [nostar forallb lits_aligned andb] in H. rewrite orb_false_r in H. exact H. Qed.

Lemma nostar_app : forall a b, nostar (a ++ b) = nostar a && nostar b.
Proof. intros. unfold nostar. apply forallb_app. Qed.

Lemma rest_items : forall rest ri, parse_pattern rest = Some ri ->
  (rest = [] \/ exists r', rest = 42 :: r') ->
  (rest = [] /\ ri = []) \/ (rest <> [] /\ exists ri', ri = IStar :: ri').
Proof.
  intros rest ri Hp [->|[r' ->]].
  - left. rewrite parse_pattern_nil in Hp. inversion Hp. auto.
  - right. split; [discriminate|]. rewrite parse_pattern_cons in Hp. cbn [N.eqb Pos.eqb] in Hp.
    destruct (parse_pattern r') as [x|]; [|discriminate]. inversion Hp. eauto.
Qed.

Lemma match_chunk_ok : forall chunk ci s, parse_pattern chunk = Some ci ->
  match_chunk chunk s = match eat ci s with Some t => COk t | None => CFail end.
Proof. intros chunk ci s H. rewrite match_chunk_spec, H. reflexivity. Qed.

Lemma star_loop_bad : forall cont chunk rest ci, parse_pattern chunk = Some ci ->
  parse_pattern rest = None -> (forall t, cont t = XBad) ->
  forall k nm, (length nm <= k)%nat -> star_loop cont chunk rest k nm = XBad.
Proof.
  intros cont chunk rest ci Hc Hr Hcont. induction k as [|k IH]; intros nm Hlen.
  - destruct nm; [|simpl in Hlen; lia]. rewrite star_loop_unfold, check_rest_spec, Hr by lia. reflexivity.
  - rewrite star_loop_unfold. destruct nm as [|x nm'].
    { rewrite check_rest_spec, Hr by lia. reflexivity. }
    cbv zeta. rewrite (match_chunk_ok _ _ _ Hc).
    assert (Hl : (length (skip_char (x :: nm')) <= k)%nat).
    { pose proof (skip_char_length (x :: nm') ltac:(discriminate)). simpl in *. lia. }
    destruct (eat ci (skip_char (x :: nm'))) as [t'|]; [|apply IH; assumption].
    destruct (is_nil rest && negb (is_nil t')); [apply IH; assumption|apply Hcont].
Qed.

Lemma star_loop_good : forall cont chunk rest ci ri,
  parse_pattern chunk = Some ci -> nostar ci = true ->
  parse_pattern rest = Some ri -> (rest = [] \/ exists r', rest = 42 :: r') ->
  (forall t, good (cont t) ri t) ->
  forall k nm, (length nm <= k)%nat ->
  let r := star_loop cont chunk rest k nm in
  (r = XMatch /\ exists nm' t, nm <> [] /\ ctail (skip_char nm) nm' /\ eat ci nm' = Some t /\ den ri t = true) \/
  (r = XNoMatch /\ (lits_aligned ci = true -> lits_aligned ri = true ->
      forall nm' t, nm <> [] -> ctail (skip_char nm) nm' -> eat ci nm' = Some t -> den ri t = false)).
Proof.
  intros cont chunk rest ci ri Hc Hns Hr Hrest Hcont.
  pose proof (rest_items _ _ Hr Hrest) as Hri.
  induction k as [|k IH]; intros nm Hlen; cbv zeta.
  - destruct nm; [|simpl in Hlen; lia]. rewrite star_loop_unfold, check_rest_spec, Hr by lia.
    right. split; [reflexivity|]. intros _ _ nm' t Hne. congruence.
  - rewrite star_loop_unfold. destruct nm as [|x nm0].
    { rewrite check_rest_spec, Hr by lia. right. split; [reflexivity|]. intros _ _ nm' t Hne. congruence. }
    cbv zeta. rewrite (match_chunk_ok _ _ _ Hc).
    set (nm1 := skip_char (x :: nm0)).
    assert (Hl : (length nm1 <= k)%nat).
    { subst nm1. pose proof (skip_char_length (x :: nm0) ltac:(discriminate)). simpl in *. lia. }
    specialize (IH nm1 Hl). cbv zeta in IH.
    (* what the recursive call says, transported to this position *)
    assert (Hrec : forall (Hskip : forall t, eat ci nm1 = Some t -> den ri t = false),
      (star_loop cont chunk rest k nm1 = XMatch /\
       exists nm' t, x :: nm0 <> [] /\ ctail nm1 nm' /\ eat ci nm' = Some t /\ den ri t = true) \/
      (star_loop cont chunk rest k nm1 = XNoMatch /\
       (lits_aligned ci = true -> lits_aligned ri = true ->
        forall nm' t, x :: nm0 <> [] -> ctail nm1 nm' -> eat ci nm' = Some t -> den ri t = false))).
    { intros Hskip. destruct IH as [[E [nm' [t [Hne [Hct [He Hd]]]]]]|[E Hno]].
      - left. split; [assumption|]. exists nm', t. repeat split; try assumption; [discriminate|].
        apply ct_step; assumption.
      - right. split; [assumption|]. intros A1 A2 nm' t _ Hct He.
        inversion Hct; subst.
        + apply Hskip. assumption.
        + eapply Hno; eassumption. }
    destruct (eat ci nm1) as [t'|] eqn:Ee.
    2:{ apply Hrec. intros t Ht. discriminate. }
    destruct (is_nil rest && negb (is_nil t')) eqn:Ecommit.
    { (* last chunk, name not exhausted: keep looking *)
      apply andb_true_iff in Ecommit as [Er Et].
      destruct Hri as [[-> ->]|[Hne _]]; [|destruct rest; [congruence|discriminate]].
      apply Hrec. intros t Ht. inversion Ht; subst. cbn [den]. destruct t; [discriminate|reflexivity]. }
    destruct (Hcont t') as [[E Hd]|[E Hd]]; rewrite E.
    + left. split; [reflexivity|]. exists nm1, t'. repeat split; try assumption; [discriminate|apply ct_refl].
    + right. split; [reflexivity|]. intros A1 A2 nm' t _ Hct He.
      destruct (den ri t) eqn:Edt; [|reflexivity]. exfalso.
      assert (Hsim : ctail t' t) by (eapply (eat_sim (length ci) ci); eauto).
      assert (Hd' : den ri t' = true).
      { eapply leftmost; [|exact Hsim|exact Edt].
        destruct Hri as [[-> ->]|[_ Hstar]]; [|right; assumption].
        left. split; [reflexivity|]. cbn [is_nil andb] in Ecommit.
        destruct t'; [reflexivity|discriminate]. }
      rewrite (Hd (okp_aligned _ A2)) in Hd'. discriminate.
Qed.

(* ------------------------------------------------------------------ *)
(* the outer loop *)
Lemma seq_items_some : forall k a b items,
  option_map (app (repeat IStar k)) (seq_items a b) = Some items ->
  exists ci ri, a = Some ci /\ b = Some ri /\ items = repeat IStar k ++ ci ++ ri.
Proof.
  intros k [ci|] [ri|] items H; try discriminate. inversion H. eauto.
Qed.

Lemma seq_items_none : forall k a b,
  option_map (app (repeat IStar k)) (seq_items a b) = None ->
  a = None \/ (exists ci, a = Some ci /\ b = None).
Proof.
  intros k [ci|] [ri|] H; try discriminate; eauto.
Qed.

Lemma gmatch_f_bad : forall f p name, (length p <= f)%nat -> parse_pattern p = None ->
  gmatch_f f p name = XBad.
Proof.
  induction f as [|f IH]; intros p name Hlen Hp.
  { destruct p; [discriminate|simpl in Hlen; lia]. }
  destruct p as [|c p']; [discriminate|].
  rewrite gmatch_f_S.
  destruct (scan_chunk (c :: p')) as [[star chunk] rest] eqn:Esc.
  destruct (scan_chunk_facts _ _ _ _ Esc) as (k & Hstar & Hparse & Hns & Hrest & Hlt & Hempty).
  specialize (Hlt ltac:(discriminate)). rewrite Hp in Hparse. symmetry in Hparse.
  assert (Hlr : (length rest <= f)%nat) by (simpl in *; lia).
  destruct (star && is_nil chunk) eqn:Etr.
  { exfalso. apply andb_true_iff in Etr as [_ Hch]. destruct chunk; [|discriminate].
    rewrite (Hempty eq_refl) in Hparse. rewrite parse_pattern_nil in Hparse.
    destruct k; discriminate. }
  cbv zeta. apply seq_items_none in Hparse as [Hc|[ci [Hc Hr]]].
  - rewrite match_chunk_spec, Hc. reflexivity.
  - rewrite (match_chunk_ok _ _ _ Hc).
    destruct (eat ci name) as [t|]; cbn [accept_here].
    + destruct (is_nil t || negb (is_nil rest)); [apply IH; assumption|].
      destruct star.
      * eapply star_loop_bad; eauto.
      * rewrite check_rest_spec, Hr by lia. reflexivity.
    + destruct star.
      * eapply star_loop_bad; eauto.
      * rewrite check_rest_spec, Hr by lia. reflexivity.
Qed.

Lemma good_stars : forall r k is n,
  good r (IStar :: is) n -> good r (repeat IStar (S k) ++ is) n.
Proof.
  intros r k is n [[E H]|[E H]].
  - left. split; [assumption|]. apply den_stars. assumption.
  - right. split; [assumption|]. intros A.
    change (repeat IStar (S k) ++ is) with (IStar :: (repeat IStar k ++ is)) in A.
    apply okp_star in A. rewrite lits_aligned_stars in A.
    destruct (den (repeat IStar (S k) ++ is) n) eqn:Ed; [|reflexivity].
    apply den_stars in Ed. rewrite (H (okp_aligned (IStar :: is) A)) in Ed. discriminate.
Qed.

Lemma okp_app_r : forall ci ri, (ri = [] \/ exists ri', ri = IStar :: ri') ->
  okp (ci ++ ri) = true -> okp ri = true.
Proof.
  intros ci ri Hri H. unfold okp in *. apply orb_true_iff in H as [H|H]; apply orb_true_iff.
  - left. rewrite (lits_aligned_app (length ci) ci ri (le_n _) Hri) in H.
    apply andb_true_iff in H as [_ H]. exact H.
  - right. rewrite nostar_app in H. apply andb_true_iff in H as [_ H]. exact H.
Qed.

Lemma gmatch_f_good : forall f p name items, (length p <= f)%nat -> parse_pattern p = Some items ->
  good (gmatch_f f p name) items name.
Proof.
  induction f as [|f IH]; intros p name items Hlen Hp.
  { destruct p; [|simpl in Hlen; lia]. rewrite parse_pattern_nil in Hp. inversion Hp; subst.
    rewrite gmatch_f_nil. unfold good. cbn [den]. destruct (is_nil name); auto. }
  destruct p as [|c p'].
  { rewrite parse_pattern_nil in Hp. inversion Hp; subst.
    rewrite gmatch_f_nil. unfold good. cbn [den]. destruct (is_nil name); auto. }
  rewrite gmatch_f_S.
  destruct (scan_chunk (c :: p')) as [[star chunk] rest] eqn:Esc.
  destruct (scan_chunk_facts _ _ _ _ Esc) as (k & Hstar & Hparse & Hns & Hrest & Hlt & Hempty).
  specialize (Hlt ltac:(discriminate)). rewrite Hp in Hparse. symmetry in Hparse.
  assert (Hlr : (length rest <= f)%nat) by (simpl in *; lia).
  apply seq_items_some in Hparse as (ci & ri & Hc & Hr & ->).
  specialize (Hns ci Hc).
  pose proof (rest_items _ _ Hr Hrest) as Hri.
  assert (Hrist : ri = [] \/ exists ri', ri = IStar :: ri').
  { destruct Hri as [[_ ->]|[_ H]]; auto. }
  destruct (star && is_nil chunk) eqn:Etr.
  { (* trailing star *)
    apply andb_true_iff in Etr as [Hst Hch]. destruct chunk; [|discriminate].
    rewrite (Hempty eq_refl) in Hr. rewrite parse_pattern_nil in Hc, Hr.
    inversion Hc; inversion Hr; subst ci ri. subst star.
    destruct k as [|k]; [discriminate|].
    left. split; [reflexivity|]. apply den_stars. apply den_star_iff.
    exists []. split; [apply ctail_to_nil|reflexivity]. }
  cbv zeta. rewrite (match_chunk_ok _ _ _ Hc).
  (* the items seen through one star or none *)
  assert (Hgoal : forall r, (if star then good r (IStar :: ci ++ ri) name else good r (ci ++ ri) name) ->
                            good r (repeat IStar k ++ ci ++ ri) name).
  { intros r H. subst star. destruct k as [|k]; cbn [Nat.ltb Nat.leb] in H; [exact H|].
    apply good_stars. exact H. }
  assert (Hal : lits_aligned (ci ++ ri) = true -> lits_aligned ci = true /\ lits_aligned ri = true).
  { intros A. rewrite (lits_aligned_app (length ci) ci ri (le_n _) Hrist) in A.
    apply andb_true_iff in A. exact A. }
  (* no match at the current position, or a match that leaves text after the last chunk *)
  assert (Hhere_no : forall t0, eat ci name = Some t0 -> den ri t0 = true ->
                       accept_here (match eat ci name with Some t => COk t | None => CFail end) rest = None -> False).
  { intros t0 He Hd Hacc. rewrite He in Hacc. cbn [accept_here] in Hacc.
    destruct (is_nil t0 || negb (is_nil rest)) eqn:E; [discriminate|].
    apply orb_false_iff in E as [E1 E2]. apply negb_false_iff in E2.
    destruct Hri as [[_ ->]|[Hne _]]; [|destruct rest; [congruence|discriminate]].
    cbn [den] in Hd. congruence. }
  destruct (accept_here (match eat ci name with Some t => COk t | None => CFail end) rest) as [t|] eqn:Eacc.
  - (* accepted at the current position *)
    assert (He : eat ci name = Some t /\ (is_nil t || negb (is_nil rest)) = true).
    { destruct (eat ci name) as [t0|]; cbn [accept_here] in Eacc; [|discriminate].
      destruct (is_nil t0 || negb (is_nil rest)) eqn:Ecm; [|discriminate].
      injection Eacc as <-. split; [reflexivity|assumption]. }
    destruct He as [He Hcommit].
    assert (Hnotbad : match eat ci name with Some t => COk t | None => CFail end = COk t) by (rewrite He; reflexivity).
    rewrite Hnotbad. apply Hgoal.
    specialize (IH rest t ri Hlr Hr).
    destruct star.
    + destruct IH as [[E Hd]|[E Hd]]; rewrite E.
      * left. split; [reflexivity|]. apply den_star_chunk; [assumption|].
        exists name, t. repeat split; [apply ct_refl|assumption|assumption].
      * right. split; [reflexivity|]. intros A. apply okp_star in A.
        destruct (Hal A) as [A1 A2].
        destruct (den (IStar :: ci ++ ri) name) eqn:Ed; [|reflexivity]. exfalso.
        apply den_star_chunk in Ed as [nm [t1 [Hct [He1 Hd1]]]]; [|assumption].
        assert (Hsim : ctail t t1) by (eapply (eat_sim (length ci) ci); eauto).
        assert (Hd' : den ri t = true).
        { eapply leftmost; [|exact Hsim|exact Hd1].
          destruct Hri as [[-> ->]|[_ Hs]]; [|right; assumption].
          left. split; [reflexivity|]. cbn [is_nil negb orb] in Hcommit. rewrite orb_false_r in Hcommit.
          destruct t; [reflexivity|discriminate]. }
        rewrite (Hd (okp_aligned _ A2)) in Hd'. discriminate.
    + destruct IH as [[E Hd]|[E Hd]]; rewrite E.
      * left. split; [reflexivity|]. apply den_chunk; [assumption|]. exists t. auto.
      * right. split; [reflexivity|]. intros A. pose proof (okp_app_r ci ri Hrist A) as A2.
        destruct (den (ci ++ ri) name) eqn:Ed; [|reflexivity]. exfalso.
        apply den_chunk in Ed as [t1 [He1 Hd1]]; [|assumption].
        rewrite He in He1. inversion He1; subst t1. rewrite (Hd A2) in Hd1. discriminate.
  - (* not accepted here *)
    assert (Hr' : check_rest (length rest) rest = XNoMatch) by (rewrite check_rest_spec, Hr by lia; reflexivity).
    assert (Hbody : good (if star then star_loop (gmatch_f f rest) chunk rest (length name) name
                          else check_rest (length rest) rest) (repeat IStar k ++ ci ++ ri) name).
    { apply Hgoal. destruct star.
      - pose proof (star_loop_good (gmatch_f f rest) chunk rest ci ri Hc Hns Hr Hrest
                      (fun t => IH rest t ri Hlr Hr) (length name) name (le_n _)) as Hsl.
        cbv zeta in Hsl. destruct Hsl as [[E [nm' [t [Hne [Hct [He Hd]]]]]]|[E Hno]]; rewrite E.
        + left. split; [reflexivity|]. apply den_star_chunk; [assumption|].
          exists nm', t. repeat split; try assumption. apply ct_step; assumption.
        + right. split; [reflexivity|]. intros A. apply okp_star in A.
          destruct (Hal A) as [A1 A2].
          destruct (den (IStar :: ci ++ ri) name) eqn:Ed; [|reflexivity]. exfalso.
          apply den_star_chunk in Ed as [nm [t1 [Hct [He1 Hd1]]]]; [|assumption].
          inversion Hct; subst.
          * eapply Hhere_no; eauto.
          * rewrite (Hno A1 A2 nm t1 H H0 He1) in Hd1. discriminate.
      - rewrite Hr'. right. split; [reflexivity|]. intros A.
        destruct (den (ci ++ ri) name) eqn:Ed; [|reflexivity]. exfalso.
        apply den_chunk in Ed as [t1 [He1 Hd1]]; [|assumption].
        eapply Hhere_no; eauto. }
    destruct (eat ci name); exact Hbody.
Qed.

(* ------------------------------------------------------------------ *)
(* theorems about gmatch *)
Lemma gmatch_x_good : forall p n items, parse_pattern p = Some items -> good (gmatch_x p n) items n.
Proof. intros. unfold gmatch_x. apply gmatch_f_good; [lia|assumption]. Qed.

Lemma gmatch_x_bad : forall p n, parse_pattern p = None -> gmatch_x p n = XBad.
Proof. intros. unfold gmatch_x. apply gmatch_f_bad; [lia|assumption]. Qed.

(* the index expressions chunk[0] / s[0] never go out of range, the fuel never runs out *)
Theorem gmatch_no_panic : forall p n, gmatch_x p n <> XPanic /\ gmatch_x p n <> XFuel.
Proof.
  intros p n. destruct (parse_pattern p) as [items|] eqn:Hp.
  - destruct (gmatch_x_good p n items Hp) as [[E _]|[E _]]; rewrite E; split; discriminate.
  - rewrite (gmatch_x_bad p n Hp). split; discriminate.
Qed.

Theorem gmatch_spec_aligned : forall p n, pattern_aligned p = true -> gmatch p n = spec_match p n.
Proof.
  intros p n Ha. unfold gmatch, spec_match. unfold pattern_aligned in Ha.
  destruct (parse_pattern p) as [items|] eqn:Hp.
  - destruct (gmatch_x_good p n items Hp) as [[E Hd]|[E Hd]]; rewrite E.
    + rewrite Hd. reflexivity.
    + rewrite (Hd (okp_aligned _ Ha)). reflexivity.
  - rewrite (gmatch_x_bad p n Hp). reflexivity.
Qed.

(* star-free patterns: no hypothesis on the literal text is needed *)
Theorem gmatch_spec_nostar : forall p n items, parse_pattern p = Some items -> nostar items = true ->
  gmatch p n = spec_match p n.
Proof.
  intros p n items Hp Hns. unfold gmatch, spec_match. rewrite Hp.
  destruct (gmatch_x_good p n items Hp) as [[E Hd]|[E Hd]]; rewrite E.
  - rewrite Hd. reflexivity.
  - rewrite Hd; [reflexivity|]. unfold okp. rewrite Hns. apply orb_true_r.
Qed.

(* Bad exactly for malformed patterns, whatever the name: all patterns *)
Theorem gmatch_bad_iff : forall p n, gmatch p n = Bad <-> parse_pattern p = None.
Proof.
  intros p n. unfold gmatch. split.
  - intros H. destruct (parse_pattern p) as [items|] eqn:Hp; [|reflexivity].
    destruct (gmatch_x_good p n items Hp) as [[E _]|[E _]]; rewrite E in H; discriminate.
  - intros Hp. rewrite (gmatch_x_bad p n Hp). reflexivity.
Qed.

Theorem gmatch_bad_spec : forall p n, gmatch p n = Bad <-> spec_match p n = Bad.
Proof.
  intros p n. rewrite gmatch_bad_iff. unfold spec_match.
  destruct (parse_pattern p) as [items|]; [|tauto].
  split; [discriminate|]. destruct (den items n); discriminate.
Qed.

Theorem malformed_matches_nothing : forall p, parse_pattern p = None ->
  forall n, gmatch p n = Bad /\ gmatch_bool p n = false.
Proof.
  intros p Hp n. assert (H : gmatch p n = Bad) by (apply gmatch_bad_iff; assumption).
  split; [assumption|]. unfold gmatch_bool. rewrite H. reflexivity.
Qed.

Lemma spec_match_denote : forall p n,
  spec_match p n = Match <-> exists items, parse_pattern p = Some items /\ denote items n.
Proof.
  intros p n. unfold spec_match. destruct (parse_pattern p) as [items|].
  - split.
    + intros H. exists items. split; [reflexivity|]. apply den_denote.
      destruct (den items n); [reflexivity|discriminate].
    + intros [is [E Hd]]. inversion E; subst. apply den_denote in Hd. rewrite Hd. reflexivity.
  - split; [discriminate|]. intros [is [E _]]. discriminate.
Qed.

(* a match reported by the code is always justified by the grammar: all patterns *)
Theorem gmatch_sound : forall p n, gmatch p n = Match ->
  exists items, parse_pattern p = Some items /\ denote items n.
Proof.
  intros p n H. unfold gmatch in H. destruct (parse_pattern p) as [items|] eqn:Hp.
  - exists items. split; [reflexivity|]. apply den_denote.
    destruct (gmatch_x_good p n items Hp) as [[E Hd]|[E _]]; [assumption|].
    rewrite E in H. discriminate.
  - rewrite (gmatch_x_bad p n Hp) in H. discriminate.
Qed.

Theorem gmatch_denote_aligned : forall p n, pattern_aligned p = true ->
  (gmatch p n = Match <-> exists items, parse_pattern p = Some items /\ denote items n).
Proof. intros p n Ha. rewrite gmatch_spec_aligned by assumption. apply spec_match_denote. Qed.

(* ------------------------------------------------------------------ *)
(* ASCII patterns are aligned *)
Lemma p_esc_suffix : forall q lo q1, p_esc q = Some (lo, q1) -> exists pre, q = pre ++ q1.
Proof.
  intros q lo q1 H. destruct (p_esc_some_struct _ _ _ H) as (c & pre' & Hq & _). eauto.
Qed.

Lemma p_ranges_suffix : forall f q acc rs rest, p_ranges f q acc = Some (rs, rest) ->
  exists pre, q = pre ++ rest.
Proof.
  induction f as [|f IH]; intros q acc rs rest H; [discriminate|].
  rewrite p_ranges_S in H. destruct q as [|c q']; [discriminate|].
  destruct ((c =? 93) && negb (is_nil acc)).
  { inversion H; subst. exists [c]. reflexivity. }
  destruct (p_esc (c :: q')) as [[lo q1]|] eqn:E1; [|discriminate].
  apply p_esc_suffix in E1 as [pre1 E1]. destruct q1 as [|d q2]; [discriminate|].
  destruct (d =? 45).
  - destruct (p_esc q2) as [[hi q3]|] eqn:E2; [|discriminate].
    apply p_esc_suffix in E2 as [pre2 E2]. apply IH in H as [pre3 H].
    exists (pre1 ++ d :: pre2 ++ pre3). rewrite E1, E2, H. rewrite <- !app_assoc. simpl.
    rewrite <- app_assoc. reflexivity.
  - apply IH in H as [pre3 H]. exists (pre1 ++ pre3). rewrite E1, H. rewrite app_assoc. reflexivity.
Qed.

Lemma parse_lits_from_pattern : forall p items, parse_pattern p = Some items ->
  forall b, In (ILit b) items -> In b p.
Proof.
  induction p as [p IH] using list_len_ind. intros items Hp b Hin.
  destruct p as [|c p'].
  { rewrite parse_pattern_nil in Hp. inversion Hp; subst. destruct Hin. }
  rewrite parse_pattern_cons in Hp.
  assert (Hstep : forall it q, (length q < length (c :: p'))%nat ->
            (forall x, In x q -> In x (c :: p')) ->
            (forall b', it = ILit b' -> In b' (c :: p')) ->
            option_map (cons it) (parse_pattern q) = Some items -> In b (c :: p')).
  { intros it q Hl Hsub Hit H. destruct (parse_pattern q) as [is|] eqn:Eq; [|discriminate].
    inversion H; subst. destruct Hin as [E|Hin]; [apply (Hit b E)|].
    apply Hsub. eapply IH; eauto. }
  destruct (c =? 42).
  { apply (Hstep IStar p'); [simpl; lia|intros; right; assumption|discriminate|exact Hp]. }
  destruct (c =? 63).
  { apply (Hstep IAny p'); [simpl; lia|intros; right; assumption|discriminate|exact Hp]. }
  destruct (c =? 92).
  { destruct p' as [|d p'']; [discriminate|].
    apply (Hstep (ILit d) p''); [simpl; lia|intros; right; right; assumption| |exact Hp].
    intros b' E. inversion E; subst. right; left; reflexivity. }
  destruct (c =? 91).
  { destruct (pr (class_body p') []) as [[rs rest]|] eqn:Ep; [|discriminate].
    pose proof (p_ranges_shrink _ _ _ _ _ Ep) as Hsh. pose proof (class_body_length p') as Hbl.
    apply p_ranges_suffix in Ep as [pre Epre].
    apply (Hstep (IClass (class_neg p') rs) rest); [simpl; lia| |discriminate|exact Hp].
    intros x Hx. right. unfold class_body in Epre.
    destruct (class_neg p') eqn:En.
    - destruct p'; [discriminate En|]. simpl in Epre. right. rewrite Epre.
      apply in_or_app. right. assumption.
    - rewrite Epre. apply in_or_app. right. assumption. }
  apply (Hstep (ILit c) p'); [simpl; lia|intros; right; assumption| |exact Hp].
  intros b' E. inversion E; subst. left; reflexivity.
Qed.

Lemma lits_aligned_ascii : forall items,
  (forall b, In (ILit b) items -> b <? 128 = true) -> lits_aligned items = true.
Proof.
  induction items as [|it items IH]; intros H; [reflexivity|].
  assert (IH' : lits_aligned items = true) by (apply IH; intros; apply H; right; assumption).
  destruct it; cbn [lits_aligned]; try assumption.
  rewrite (H b) by (left; reflexivity). assumption.
Qed.

Theorem ascii_pattern_aligned : forall p, ascii_str p = true -> pattern_aligned p = true.
Proof.
  intros p Ha. unfold pattern_aligned. destruct (parse_pattern p) as [items|] eqn:Hp; [|reflexivity].
  apply lits_aligned_ascii. intros b Hin.
  unfold ascii_str in Ha. rewrite forallb_forall in Ha. apply Ha.
  eapply parse_lits_from_pattern; eassumption.
Qed.

Theorem gmatch_spec_ascii : forall p n, ascii_str p = true -> gmatch p n = spec_match p n.
Proof. intros. apply gmatch_spec_aligned. apply ascii_pattern_aligned. assumption. Qed.

(* ------------------------------------------------------------------ *)
(* Set.Filter *)
Lemma gmatch_bool_spec : forall p n, pattern_aligned p = true -> gmatch_bool p n = spec_match_bool p n.
Proof. intros. unfold gmatch_bool, spec_match_bool. rewrite gmatch_spec_aligned by assumption. reflexivity. Qed.

Theorem filter_spec : forall s p, pattern_aligned p = true -> set_filter s p = spec_filter s p.
Proof.
  intros s p Ha. unfold set_filter, spec_filter. apply filter_ext. intros x. apply gmatch_bool_spec. assumption.
Qed.

Lemma filter_perm : forall (f : str -> bool) s s', Permutation s s' -> Permutation (filter f s) (filter f s').
Proof.
  intros f s s' H. induction H; simpl.
  - constructor.
  - destruct (f x); [constructor|]; assumption.
  - destruct (f x), (f y); try apply Permutation_refl; apply perm_swap.
  - eapply Permutation_trans; eassumption.
Qed.

(* order-free: whatever order the Go map is ranged over, the result is the set of the
   names that match according to the grammar *)
Theorem filter_spec_perm : forall s s' p, pattern_aligned p = true -> Permutation s s' ->
  Permutation (set_filter s p) (spec_filter s' p) /\
  (forall x, In x (set_filter s p) <-> In x s' /\ spec_match p x = Match).
Proof.
  intros s s' p Ha Hperm. rewrite (filter_spec s p Ha). split.
  - apply filter_perm. assumption.
  - intros x. unfold spec_filter. rewrite filter_In. unfold spec_match_bool.
    split; intros [H1 H2]; (split; [eauto using Permutation_in, Permutation_sym|]).
    + destruct (spec_match p x); congruence.
    + rewrite H2. reflexivity.
Qed.

(* for any pattern: what Filter keeps is in the set and matches according to the grammar;
   a malformed pattern keeps nothing *)
Theorem filter_sound : forall s p x, In x (set_filter s p) ->
  In x s /\ exists items, parse_pattern p = Some items /\ denote items x.
Proof.
  intros s p x H. unfold set_filter in H. apply filter_In in H as [H1 H2]. split; [assumption|].
  apply gmatch_sound. unfold gmatch_bool in H2. destruct (gmatch p x); [reflexivity|discriminate|discriminate].
Qed.

Theorem filter_malformed : forall s p, parse_pattern p = None -> set_filter s p = [].
Proof.
  intros s p Hp. unfold set_filter. induction s as [|x s IH]; [reflexivity|].
  simpl. rewrite (proj2 (malformed_matches_nothing p Hp x)). assumption.
Qed.

(* ------------------------------------------------------------------ *)
(* '*' crosses '/' *)
Definition plain_byte (b : N) : bool :=
  (b <? 128) && negb ((b =? 42) || (b =? 63) || (b =? 91) || (b =? 92)).
Definition plain (s : str) : bool := forallb plain_byte s.

Lemma parse_plain : forall a q, plain a = true ->
  parse_pattern (a ++ q) = option_map (app (map ILit a)) (parse_pattern q).
Proof.
  induction a as [|x a IH]; intros q H.
  { simpl. destruct (parse_pattern q); reflexivity. }
  cbn [plain forallb] in H. apply andb_true_iff in H as [Hx Ha].
  unfold plain_byte in Hx. apply andb_true_iff in Hx as [_ Hx]. apply negb_true_iff in Hx.
  apply orb_false_iff in Hx as [Hx E92]. apply orb_false_iff in Hx as [Hx E91].
  apply orb_false_iff in Hx as [E42 E63].
  cbn [app]. rewrite parse_pattern_cons, E42, E63, E92, E91, (IH q Ha).
  destruct (parse_pattern q); reflexivity.
Qed.

Lemma den_lits : forall a is n, den (map ILit a ++ is) (a ++ n) = den is n.
Proof.
  induction a as [|x a IH]; intros is n; [reflexivity|].
  cbn [map app den]. rewrite N.eqb_refl. apply IH.
Qed.

Lemma ctail_ascii_prefix : forall mid n, ascii_str mid = true -> ctail (mid ++ n) n.
Proof.
  induction mid as [|x mid IH]; intros n H; [apply ct_refl|].
  cbn [ascii_str forallb] in H. apply andb_true_iff in H as [Hx Hm].
  cbn [app]. apply ct_step; [discriminate|]. rewrite skip_char_ascii by assumption. apply IH. assumption.
Qed.

Lemma plain_ascii : forall a, plain a = true -> ascii_str a = true.
Proof.
  induction a as [|x a IH]; intros H; [reflexivity|].
  cbn [plain forallb] in H. apply andb_true_iff in H as [Hx Ha].
  unfold plain_byte in Hx. apply andb_true_iff in Hx as [Hx _].
  cbn [ascii_str forallb]. rewrite Hx. apply IH. assumption.
Qed.

Theorem star_crosses_slash : forall a b mid, plain a = true -> plain b = true -> ascii_str mid = true ->
  gmatch (a ++ 42 :: b) (a ++ mid ++ b) = Match.
Proof.
  intros a b mid Ha Hb Hm.
  rewrite gmatch_spec_ascii.
  2:{ unfold ascii_str. rewrite forallb_app. cbn [forallb].
      apply plain_ascii in Ha. apply plain_ascii in Hb. unfold ascii_str in Ha, Hb. rewrite Ha, Hb. reflexivity. }
  unfold spec_match. rewrite parse_plain by assumption.
  rewrite parse_pattern_cons. cbn [N.eqb Pos.eqb].
  replace b with (b ++ []) at 1 by apply app_nil_r.
  rewrite parse_plain by assumption. rewrite parse_pattern_nil. cbn [option_map].
  rewrite den_lits.
  assert (Hd : den (IStar :: map ILit b ++ []) (mid ++ b) = true).
  { apply den_star_iff. exists b. split; [apply ctail_ascii_prefix; assumption|].
    replace b with (b ++ []) at 2 by apply app_nil_r. rewrite den_lits. reflexivity. }
  rewrite Hd. reflexivity.
Qed.
