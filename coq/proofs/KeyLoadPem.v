(* KeyLoadPem.v — the concrete PEM body encoder of the model (base64 in 64-column lines,
   model/KeyLoad.v: b64_encode, b64_lines) is injective on byte strings.  This discharges,
   for the encoder the correspondence check runs against encoding/pem, the hypothesis
   "DER -> PEM is injective" of the generic lemmas in proofs/KeyLoadProofs.v. *)
From IT Require Import model.KeyLoad proofs.KeyLoadSpec.

(* x / k and x mod k  ->  fresh q, r with x = k*q + r, r < k  (then plain lia) *)
Ltac dm x k := let q := fresh "q" in let r := fresh "r" in
  pose proof (N.div_mod x k ltac:(discriminate)); pose proof (N.mod_lt x k ltac:(discriminate));
  set (q := x / k) in *; set (r := x mod k) in *; clearbody q r.

Lemma list_ind3 (P : str -> Prop) :
  P [] -> (forall a, P [a]) -> (forall a b, P [a; b]) ->
  (forall a b c s, P s -> P (a :: b :: c :: s)) -> forall s, P s.
Proof.
  intros H0 H1 H2 H3.
  refine (fix F (s : str) : P s :=
            match s with
            | [] => H0
            | [a] => H1 a
            | [a; b] => H2 a b
            | a :: b :: c :: s' => H3 a b c s' (F s')
            end).
Qed.

Lemma b64_char_range x : 43 <= b64_char x <= 122.
Proof.
  unfold b64_char.
  destruct (x <? 26) eqn:E1; [apply N.ltb_lt in E1; lia|apply N.ltb_ge in E1].
  destruct (x <? 52) eqn:E2; [apply N.ltb_lt in E2; lia|apply N.ltb_ge in E2].
  destruct (x <? 62) eqn:E3; [apply N.ltb_lt in E3; lia|apply N.ltb_ge in E3].
  destruct (x =? 62); lia.
Qed.

Lemma b64_char_not_pad x : b64_char x <> 61.
Proof.
  unfold b64_char.
  destruct (x <? 26) eqn:E1; [apply N.ltb_lt in E1; lia|apply N.ltb_ge in E1].
  destruct (x <? 52) eqn:E2; [apply N.ltb_lt in E2; lia|apply N.ltb_ge in E2].
  destruct (x <? 62) eqn:E3; [apply N.ltb_lt in E3; lia|apply N.ltb_ge in E3].
  destruct (x =? 62); lia.
Qed.

Lemma b64_char_inj x y : x < 64 -> y < 64 -> b64_char x = b64_char y -> x = y.
Proof.
  unfold b64_char. intros Hx Hy.
  destruct (x <? 26) eqn:X1; [apply N.ltb_lt in X1|apply N.ltb_ge in X1];
  destruct (y <? 26) eqn:Y1; [apply N.ltb_lt in Y1|apply N.ltb_ge in Y1| apply N.ltb_lt in Y1|apply N.ltb_ge in Y1];
  try lia;
  (destruct (x <? 52) eqn:X2; [apply N.ltb_lt in X2|apply N.ltb_ge in X2]);
  (destruct (y <? 52) eqn:Y2; [apply N.ltb_lt in Y2|apply N.ltb_ge in Y2]);
  try lia;
  (destruct (x <? 62) eqn:X3; [apply N.ltb_lt in X3|apply N.ltb_ge in X3]);
  (destruct (y <? 62) eqn:Y3; [apply N.ltb_lt in Y3|apply N.ltb_ge in Y3]);
  try lia;
  (destruct (x =? 62) eqn:X4; [apply N.eqb_eq in X4|apply N.eqb_neq in X4]);
  (destruct (y =? 62) eqn:Y4; [apply N.eqb_eq in Y4|apply N.eqb_neq in Y4]);
  lia.
Qed.

(* no newline inside the base64 text *)
Lemma b64_encode_no_nl : forall s c, In c (b64_encode s) -> c <> 10.
Proof.
  induction s as [|a|a b|a b c s IH] using list_ind3; intros x Hx; cbn [b64_encode In] in Hx.
  - destruct Hx.
  - destruct Hx as [<-|[<-|[<-|[<-|[]]]]]; try lia; match goal with |- b64_char ?v <> _ => pose proof (b64_char_range v); lia end.
  - destruct Hx as [<-|[<-|[<-|[<-|[]]]]]; try lia; match goal with |- b64_char ?v <> _ => pose proof (b64_char_range v); lia end.
  - destruct Hx as [<-|[<-|[<-|[<-|Hx]]]]; try (match goal with |- b64_char ?v <> _ => pose proof (b64_char_range v); lia end).
    apply IH. exact Hx.
Qed.

Lemma bytes_cons c s : bytes (c :: s) -> c < 256 /\ bytes s.
Proof. intro H. inversion H; subst. auto. Qed.

(* arithmetic of regrouping 3 bytes into 4 sextets *)
Lemma sextets_inj a b c a' b' c' :
  a < 256 -> b < 256 -> c < 256 -> a' < 256 -> b' < 256 -> c' < 256 ->
  a / 4 = a' / 4 -> (a mod 4) * 16 + b / 16 = (a' mod 4) * 16 + b' / 16 ->
  (b mod 16) * 4 + c / 64 = (b' mod 16) * 4 + c' / 64 -> c mod 64 = c' mod 64 ->
  a = a' /\ b = b' /\ c = c'.
Proof. intros. dm a 4. dm a' 4. dm b 16. dm b' 16. dm c 64. dm c' 64. lia. Qed.

Lemma sextet_bounds a b c : a < 256 -> b < 256 -> c < 256 ->
  a / 4 < 64 /\ (a mod 4) * 16 + b / 16 < 64 /\ (b mod 16) * 4 + c / 64 < 64 /\ c mod 64 < 64 /\
  (a mod 4) * 16 < 64 /\ (b mod 16) * 4 < 64.
Proof. intros. dm a 4. dm b 16. dm c 64. lia. Qed.

Lemma group3_inj a b c a' b' c' :
  a < 256 -> b < 256 -> c < 256 -> a' < 256 -> b' < 256 -> c' < 256 ->
  b64_char (a / 4) = b64_char (a' / 4) ->
  b64_char ((a mod 4) * 16 + b / 16) = b64_char ((a' mod 4) * 16 + b' / 16) ->
  b64_char ((b mod 16) * 4 + c / 64) = b64_char ((b' mod 16) * 4 + c' / 64) ->
  b64_char (c mod 64) = b64_char (c' mod 64) ->
  a = a' /\ b = b' /\ c = c'.
Proof.
  intros Ha Hb Hc Ha' Hb' Hc' H1 H2 H3 H4.
  destruct (sextet_bounds a b c Ha Hb Hc) as [B1 [B2 [B3 [B4 _]]]].
  destruct (sextet_bounds a' b' c' Ha' Hb' Hc') as [B1' [B2' [B3' [B4' _]]]].
  apply b64_char_inj in H1; [|assumption ..]. apply b64_char_inj in H2; [|assumption ..].
  apply b64_char_inj in H3; [|assumption ..]. apply b64_char_inj in H4; [|assumption ..].
  apply sextets_inj; assumption.
Qed.

Lemma group2_inj a b a' b' :
  a < 256 -> b < 256 -> a' < 256 -> b' < 256 ->
  b64_char (a / 4) = b64_char (a' / 4) ->
  b64_char ((a mod 4) * 16 + b / 16) = b64_char ((a' mod 4) * 16 + b' / 16) ->
  b64_char ((b mod 16) * 4) = b64_char ((b' mod 16) * 4) ->
  a = a' /\ b = b'.
Proof.
  intros Ha Hb Ha' Hb' H1 H2 H3.
  assert (Z0 : 0 < 256) by reflexivity.
  destruct (group3_inj a b 0 a' b' 0 Ha Hb Z0 Ha' Hb' Z0 H1 H2) as [E1 [E2 _]].
  - change (0 / 64) with 0. rewrite !N.add_0_r. exact H3.
  - reflexivity.
  - auto.
Qed.

Lemma group1_inj a a' :
  a < 256 -> a' < 256 ->
  b64_char (a / 4) = b64_char (a' / 4) ->
  b64_char ((a mod 4) * 16) = b64_char ((a' mod 4) * 16) ->
  a = a'.
Proof.
  intros Ha Ha' H1 H2.
  assert (Z0 : 0 < 256) by reflexivity.
  destruct (group2_inj a 0 a' 0 Ha Z0 Ha' Z0 H1) as [E1 _].
  - change (0 / 16) with 0. rewrite !N.add_0_r. exact H2.
  - reflexivity.
  - exact E1.
Qed.

Theorem b64_encode_inj : forall s s', bytes s -> bytes s' -> b64_encode s = b64_encode s' -> s = s'.
Proof.
  induction s as [|a|a b|a b c s IH] using list_ind3; intros s' Hs Hs' H.
  - destruct s' as [|a' [|b' [|c' s']]]; [reflexivity|discriminate H ..].
  - destruct s' as [|a' [|b' [|c' s']]]; cbn [b64_encode] in H; try discriminate H.
    + apply bytes_cons in Hs as [Ha _]. apply bytes_cons in Hs' as [Ha' _].
      inversion H as [[H1 H2]]. f_equal. apply group1_inj; assumption.
    + exfalso. inversion H as [[H1 H2 H3]]. symmetry in H3. apply b64_char_not_pad in H3. exact H3.
    + exfalso. inversion H as [[H1 H2 H3 H4]]. symmetry in H3. apply b64_char_not_pad in H3. exact H3.
  - destruct s' as [|a' [|b' [|c' s']]]; cbn [b64_encode] in H; try discriminate H.
    + exfalso. inversion H as [[H1 H2 H3]]. apply b64_char_not_pad in H3. exact H3.
    + apply bytes_cons in Hs as [Ha Hs]. apply bytes_cons in Hs as [Hb _].
      apply bytes_cons in Hs' as [Ha' Hs']. apply bytes_cons in Hs' as [Hb' _].
      inversion H as [[H1 H2 H3]].
      destruct (group2_inj a b a' b') as [-> ->]; try assumption. reflexivity.
    + exfalso. inversion H as [[H1 H2 H3 H4]]. symmetry in H4. apply b64_char_not_pad in H4. exact H4.
  - destruct s' as [|a' [|b' [|c' s']]]; cbn [b64_encode] in H; try discriminate H.
    + exfalso. inversion H as [[H1 H2 H3 H4]]. apply b64_char_not_pad in H3. exact H3.
    + exfalso. inversion H as [[H1 H2 H3 H4]]. apply b64_char_not_pad in H4. exact H4.
    + apply bytes_cons in Hs as [Ha Hs]. apply bytes_cons in Hs as [Hb Hs]. apply bytes_cons in Hs as [Hc Hs].
      apply bytes_cons in Hs' as [Ha' Hs']. apply bytes_cons in Hs' as [Hb' Hs']. apply bytes_cons in Hs' as [Hc' Hs'].
      inversion H as [[H1 H2 H3 H4 H5]].
      destruct (group3_inj a b c a' b' c') as [-> [-> ->]]; try assumption.
      rewrite (IH s' Hs Hs' H5). reflexivity.
Qed.

Lemma b64_encode_nonempty s : s <> [] -> b64_encode s <> [].
Proof. destruct s as [|a [|b [|c s]]]; [congruence|discriminate ..]. Qed.

(* splitting at the first newline is unique *)
Lemma split_at_nl : forall a a' r r',
  (forall c, In c a -> c <> 10) -> (forall c, In c a' -> c <> 10) ->
  a ++ 10 :: r = a' ++ 10 :: r' -> a = a' /\ r = r'.
Proof.
  induction a as [|x a IH]; intros [|x' a'] r r' Ha Ha' H; cbn [app] in H.
  - inversion H. auto.
  - exfalso. inversion H as [[H1 H2]]. apply (Ha' x' (in_eq _ _)). congruence.
  - exfalso. inversion H as [[H1 H2]]. apply (Ha x (in_eq _ _)). congruence.
  - inversion H as [[H1 H2]]. subst x'.
    destruct (IH a' r r') as [-> ->]; [intros; apply Ha; right; assumption|intros; apply Ha'; right; assumption|exact H2|auto].
Qed.

Lemma bytes_firstn n s : bytes s -> bytes (firstn n s).
Proof. intro H. unfold bytes in *. rewrite <- (firstn_skipn n s) in H. apply Forall_app in H. tauto. Qed.

Lemma bytes_skipn n s : bytes s -> bytes (skipn n s).
Proof. intro H. unfold bytes in *. rewrite <- (firstn_skipn n s) in H. apply Forall_app in H. tauto. Qed.

Lemma skipn48_shorter (c : N) s : (length (skipn 48 (c :: s)) < length (c :: s))%nat.
Proof. rewrite skipn_length. cbn [length]. lia. Qed.

(* any sufficient fuel gives the same text *)
Lemma b64_lines_fuel_enough : forall f1 f2 s, (length s < f1)%nat -> (length s < f2)%nat ->
  b64_lines_fuel f1 s = b64_lines_fuel f2 s.
Proof.
  induction f1 as [|f1 IH]; intros f2 s H1 H2; [lia|].
  destruct f2 as [|f2]; [lia|]. cbn [b64_lines_fuel].
  destruct s as [|c s]; [reflexivity|].
  f_equal. f_equal. apply IH.
  - pose proof (skipn48_shorter c s). lia.
  - pose proof (skipn48_shorter c s). lia.
Qed.

Lemma b64_lines_fuel_inj : forall f s s', (length s < f)%nat -> (length s' < f)%nat ->
  bytes s -> bytes s' -> b64_lines_fuel f s = b64_lines_fuel f s' -> s = s'.
Proof.
  induction f as [|f IH]; intros s s' Hl Hl' Hb Hb' H; [lia|].
  cbn [b64_lines_fuel] in H.
  destruct s as [|c s]; destruct s' as [|c' s'].
  - reflexivity.
  - exfalso. destruct (b64_encode (firstn 48 (c' :: s'))) eqn:E;
      [apply b64_encode_nonempty in E; [exact E|discriminate]|discriminate H].
  - exfalso. destruct (b64_encode (firstn 48 (c :: s))) eqn:E;
      [apply b64_encode_nonempty in E; [exact E|discriminate]|discriminate H].
  - apply split_at_nl in H; [|intros x Hx; eapply b64_encode_no_nl; exact Hx ..].
    destruct H as [Hh Ht].
    apply b64_encode_inj in Hh; [|apply bytes_firstn; assumption ..].
    apply IH in Ht; [| pose proof (skipn48_shorter c s); lia | pose proof (skipn48_shorter c' s'); lia
                     | apply bytes_skipn; assumption ..].
    rewrite <- (firstn_skipn 48 (c :: s)), <- (firstn_skipn 48 (c' :: s')), Hh, Ht. reflexivity.
Qed.

Theorem b64_lines_inj : forall s s', bytes s -> bytes s' -> b64_lines s = b64_lines s' -> s = s'.
Proof.
  intros s s' Hb Hb' H. unfold b64_lines in H.
  set (f := S (Nat.max (length s) (length s'))).
  rewrite (b64_lines_fuel_enough _ f s) in H by (subst f; lia).
  rewrite (b64_lines_fuel_enough _ f s') in H by (subst f; lia).
  apply (b64_lines_fuel_inj f); try assumption; subst f; lia.
Qed.
