(* RecordFS.v — lemmas about the environment part of model/Record.v: path
   strings of physical locations, filepath.Join on them, tree lookup, path
   resolution. *)
From IT Require Import spec.RecordSpec.

Local Arguments N.eqb : simpl never.

(* ---------- strings ---------- *)

Lemma has_prefix_app p r : has_prefix (p ++ r) p = true.
Proof. induction p as [|x p IH]; simpl; [reflexivity|]. rewrite N.eqb_refl, IH. reflexivity. Qed.

Lemma has_prefix_split s p : has_prefix s p = true -> s = p ++ skipn (length p) s.
Proof.
  revert s; induction p as [|y p IH]; intros s Hp; simpl in *; [reflexivity|].
  destruct s as [|x s]; [discriminate|].
  apply andb_true_iff in Hp as [H1 H2]. apply N.eqb_eq in H1. subst. simpl. f_equal. apply IH, H2.
Qed.

Lemma skipn_app_exact {A} (p r : list A) : skipn (length p) (p ++ r) = r.
Proof. induction p as [|x p IH]; simpl; auto. Qed.

Lemma trim_prefix_app p r : trim_prefix (p ++ r) p = r.
Proof. unfold trim_prefix. rewrite has_prefix_app. apply skipn_app_exact. Qed.

Lemma is_nil_false_app {A} (a b : list A) : is_nil a = false -> is_nil (a ++ b) = false.
Proof. destruct a; simpl; [discriminate | reflexivity]. Qed.

(* ---------- names ---------- *)

Definition canon (p : cpath) : Prop := forallb good_name p = true.

Lemma good_name_inv c :
  good_name c = true ->
  is_nil c = false /\ str_eqb c dot = false /\ str_eqb c dotdot = false /\ existsb (N.eqb slash) c = false.
Proof.
  unfold good_name. intro Hg.
  apply andb_true_iff in Hg as [Hg H4]. apply andb_true_iff in Hg as [Hg H3]. apply andb_true_iff in Hg as [H1 H2].
  apply negb_true_iff in H1, H2, H3, H4. auto.
Qed.

Lemma canon_app p q : canon (p ++ q) <-> canon p /\ canon q.
Proof. unfold canon. rewrite forallb_app, andb_true_iff. tauto. Qed.

Lemma canon_cons c p : canon (c :: p) <-> good_name c = true /\ canon p.
Proof. unfold canon. simpl. rewrite andb_true_iff. tauto. Qed.

Lemma filter_good_canon p : canon p -> filter good_name p = p.
Proof.
  induction p as [|c p IH]; intro Hc; simpl; [reflexivity|].
  apply canon_cons in Hc as [Hg Hc]. rewrite Hg, (IH Hc). reflexivity.
Qed.

(* ---------- fp_split ---------- *)

Lemma fp_split_noslash c : existsb (N.eqb slash) c = false -> fp_split c = [c].
Proof.
  induction c as [|x c IH]; simpl; intro Hs; [reflexivity|].
  apply orb_false_iff in Hs as [Hx Hc]. rewrite N.eqb_sym in Hx. rewrite Hx, (IH Hc). reflexivity.
Qed.

Lemma fp_split_app c s : existsb (N.eqb slash) c = false -> fp_split (c ++ slash :: s) = c :: fp_split s.
Proof.
  induction c as [|x c IH]; simpl; intro Hs.
  - reflexivity.
  - apply orb_false_iff in Hs as [Hx Hc]. rewrite N.eqb_sym in Hx. rewrite Hx, (IH Hc). reflexivity.
Qed.

Lemma join_cons2 sep (x y : str) l : join sep (x :: y :: l) = x ++ sep ++ join sep (y :: l).
Proof. reflexivity. Qed.

Lemma fp_split_join p : p <> [] -> canon p -> fp_split (join [slash] p) = p.
Proof.
  induction p as [|x p IH]; intros Hne Hc; [congruence|].
  apply canon_cons in Hc as [Hg Hc]. destruct (good_name_inv _ Hg) as (_ & _ & _ & Hs).
  destruct p as [|y p].
  - simpl. apply fp_split_noslash, Hs.
  - rewrite join_cons2. simpl app. rewrite (fp_split_app _ _ Hs). f_equal. apply IH; [discriminate | exact Hc].
Qed.

Lemma fp_split_join_app p s : p <> [] -> canon p -> fp_split (join [slash] p ++ slash :: s) = p ++ fp_split s.
Proof.
  induction p as [|x p IH]; intros Hne Hc; [congruence|].
  apply canon_cons in Hc as [Hg Hc]. destruct (good_name_inv _ Hg) as (_ & _ & _ & Hs).
  destruct p as [|y p].
  - simpl join. simpl app. apply fp_split_app, Hs.
  - rewrite join_cons2, <- !app_assoc. simpl app. rewrite (fp_split_app _ _ Hs).
    f_equal. apply IH; [discriminate | exact Hc].
Qed.

Lemma join_app (a b : list str) : a <> [] -> b <> [] -> join [slash] (a ++ b) = join [slash] a ++ slash :: join [slash] b.
Proof.
  induction a as [|x a IH]; intros Ha Hb; [congruence|].
  destruct a as [|y a].
  - destruct b as [|z b]; [congruence|]. reflexivity.
  - change ((x :: y :: a) ++ b) with (x :: y :: (a ++ b)). rewrite !join_cons2.
    change (y :: a ++ b) with ((y :: a) ++ b). rewrite IH by (discriminate || assumption).
    simpl. rewrite <- !app_assoc. reflexivity.
Qed.

Lemma join_nonnil (p : list str) : p <> [] -> canon p -> is_nil (join [slash] p) = false.
Proof.
  destruct p as [|x p]; intros Hne Hc; [congruence|].
  apply canon_cons in Hc as [Hg _]. destruct (good_name_inv _ Hg) as (Hn & _).
  destruct p; simpl; [exact Hn|]. apply is_nil_false_app, Hn.
Qed.

Lemma join_not_abs (p : list str) : canon p -> is_abs (join [slash] p) = false.
Proof.
  destruct p as [|x p]; intro Hc; [reflexivity|].
  apply canon_cons in Hc as [Hg _]. destruct (good_name_inv _ Hg) as (Hn & _ & _ & Hs).
  destruct x as [|c x]; [discriminate|]. simpl in Hs. apply orb_false_iff in Hs as [Hx _].
  rewrite N.eqb_sym in Hx.
  destruct p; simpl; exact Hx.
Qed.

(* ---------- render ---------- *)

Lemma render_nil : render [] = dot.
Proof. reflexivity. Qed.

Lemma render_cons c p : render (c :: p) = join [slash] (c :: p).
Proof. reflexivity. Qed.

Lemma render_nonnil p : canon p -> is_nil (render p) = false.
Proof. destruct p; intro Hc; [reflexivity|]. rewrite render_cons. apply join_nonnil; [discriminate | exact Hc]. Qed.

Lemma render_not_abs p : canon p -> is_abs (render p) = false.
Proof. destruct p; intro Hc; [reflexivity|]. rewrite render_cons. apply join_not_abs, Hc. Qed.

Lemma fp_split_render p : p <> [] -> canon p -> fp_split (render p) = p.
Proof. destruct p; intros Hne Hc; [congruence|]. rewrite render_cons. apply fp_split_join; assumption. Qed.

Lemma good_name_dot : good_name dot = false.
Proof. reflexivity. Qed.

Lemma render_inj p q : canon p -> canon q -> render p = render q -> p = q.
Proof.
  intros Hp Hq E.
  destruct p as [|x p], q as [|y q]; [reflexivity| | |].
  - exfalso. assert (E' : fp_split (render (y :: q)) = [dot]) by (rewrite <- E; reflexivity).
    rewrite fp_split_render in E' by (discriminate || assumption). inversion E'; subst.
    apply canon_cons in Hq as [Hg _]. rewrite good_name_dot in Hg. discriminate.
  - exfalso. assert (E' : fp_split (render (x :: p)) = [dot]) by (rewrite E; reflexivity).
    rewrite fp_split_render in E' by (discriminate || assumption). inversion E'; subst.
    apply canon_cons in Hp as [Hg _]. rewrite good_name_dot in Hg. discriminate.
  - rewrite <- (fp_split_render (x :: p)), <- (fp_split_render (y :: q)) by (discriminate || assumption).
    rewrite E. reflexivity.
Qed.

Lemma render_app p rel : p <> [] -> rel <> [] -> render (p ++ rel) = render p ++ slash :: render rel.
Proof.
  intros Hp Hr. destruct p as [|x p]; [congruence|]. destruct rel as [|y rel]; [congruence|].
  change ((x :: p) ++ y :: rel) with (x :: (p ++ y :: rel)). rewrite !render_cons.
  change (x :: p ++ y :: rel) with ((x :: p) ++ y :: rel). apply join_app; discriminate.
Qed.

(* ---------- filepath.Clean / Join on such strings ---------- *)

Definition seg_ok (c : str) : Prop := good_name c = true \/ c = [] \/ c = dot.

Lemma clean_fold cs stack :
  Forall seg_ok cs -> fold_left (clean_step false) cs stack = rev (filter good_name cs) ++ stack.
Proof.
  revert stack; induction cs as [|c cs IH]; intros stack Hall; [reflexivity|].
  inversion Hall as [|? ? Hc Hcs]; subst. simpl fold_left. rewrite (IH _ Hcs). simpl filter.
  destruct Hc as [Hg | [-> | ->]].
  - rewrite Hg. destruct (good_name_inv _ Hg) as (Hn & Hd & Hdd & _).
    unfold clean_step. rewrite Hn, Hd, Hdd. simpl. rewrite <- app_assoc. reflexivity.
  - reflexivity.
  - reflexivity.
Qed.

Lemma fp_clean_segs s cs :
  is_abs s = false -> fp_split s = cs -> Forall seg_ok cs -> fp_clean s = render (filter good_name cs).
Proof.
  intros Ha Hs Hall. unfold fp_clean. rewrite Ha, Hs, (clean_fold _ _ Hall), app_nil_r, rev_involutive.
  assert (Hc : canon (filter good_name cs)).
  { unfold canon. apply forallb_forall. intros x Hx. apply filter_In in Hx. tauto. }
  destruct (filter good_name cs) as [|x l] eqn:E; [reflexivity|].
  rewrite render_cons. rewrite (join_nonnil (x :: l)) by (discriminate || assumption). reflexivity.
Qed.

Lemma Forall_seg_ok_canon p : canon p -> Forall seg_ok p.
Proof.
  intro Hc. apply Forall_forall. intros x Hx. left.
  unfold canon in Hc. rewrite forallb_forall in Hc. auto.
Qed.

Lemma is_abs_app a b : is_nil a = false -> is_abs (a ++ b) = is_abs a.
Proof. destruct a; [discriminate | reflexivity]. Qed.

(* fp_split (render p ++ "/" ++ s), for the root as well *)
Lemma fp_split_render_app p s :
  canon p -> exists pre, fp_split (render p ++ slash :: s) = pre ++ fp_split s /\ Forall seg_ok pre /\ filter good_name pre = p.
Proof.
  intro Hc. destruct p as [|x p].
  - exists [dot]. rewrite render_nil. split; [|split].
    + apply (fp_split_app dot). reflexivity.
    + constructor; [right; right; reflexivity | constructor].
    + reflexivity.
  - exists (x :: p). rewrite render_cons. split; [|split].
    + apply fp_split_join_app; [discriminate | exact Hc].
    + apply Forall_seg_ok_canon, Hc.
    + apply filter_good_canon, Hc.
Qed.

(* Join(path, name) for the entries of a directory *)
Lemma fp_join_child p name : canon p -> good_name name = true -> fp_join (render p) name = render (p ++ [name]).
Proof.
  intros Hc Hg. unfold fp_join. rewrite (render_nonnil _ Hc). simpl negb. cbv iota.
  destruct (fp_split_render_app p name Hc) as (pre & Hsp & Hok & Hf).
  destruct (good_name_inv _ Hg) as (_ & _ & _ & Hs).
  rewrite (fp_split_noslash _ Hs) in Hsp.
  rewrite (fp_clean_segs _ _ (eq_trans (is_abs_app _ _ (render_nonnil _ Hc)) (render_not_abs _ Hc)) Hsp).
  - rewrite filter_app, Hf. simpl. rewrite Hg. reflexivity.
  - apply Forall_app. split; [exact Hok|]. constructor; [left; exact Hg | constructor].
Qed.

(* Join(path, TrimPrefix(key, evalSym)) for a key below the target of a directory link *)
Lemma fp_join_rekey p p' rel :
  canon p -> canon p' -> canon rel -> p' <> [] ->
  fp_join (render p) (trim_prefix (render (p' ++ rel)) (render p')) = render (p ++ rel).
Proof.
  intros Hc Hc' Hr Hne. unfold fp_join. rewrite (render_nonnil _ Hc). simpl negb. cbv iota.
  assert (Hab : forall b, is_abs (render p ++ b) = false)
    by (intro b; rewrite (is_abs_app _ _ (render_nonnil _ Hc)); apply render_not_abs, Hc).
  destruct rel as [|y rel].
  - rewrite app_nil_r. rewrite <- (app_nil_r (render p')) at 1. rewrite trim_prefix_app.
    destruct (fp_split_render_app p [] Hc) as (pre & Hsp & Hok & Hf).
    rewrite (fp_clean_segs _ _ (Hab _) Hsp).
    + rewrite filter_app, Hf. simpl. rewrite app_nil_r. reflexivity.
    + apply Forall_app. split; [exact Hok|]. constructor; [right; left; reflexivity | constructor].
  - rewrite (render_app p' (y :: rel)) by (assumption || discriminate). rewrite trim_prefix_app.
    destruct (fp_split_render_app p (slash :: render (y :: rel)) Hc) as (pre & Hsp & Hok & Hf).
    assert (Hs2 : fp_split (slash :: render (y :: rel)) = [] :: (y :: rel)).
    { change (slash :: render (y :: rel)) with ([] ++ slash :: render (y :: rel)).
      rewrite fp_split_app by reflexivity. rewrite fp_split_render by (discriminate || assumption). reflexivity. }
    rewrite Hs2 in Hsp.
    rewrite (fp_clean_segs _ _ (Hab _) Hsp).
    + rewrite filter_app, Hf.
      change (filter good_name ([] :: y :: rel)) with (filter good_name (y :: rel)).
      rewrite (filter_good_canon _ Hr). reflexivity.
    + apply Forall_app. split; [exact Hok|]. constructor; [right; left; reflexivity|].
      apply Forall_seg_ok_canon, Hr.
Qed.

(* ---------- tree ---------- *)

Lemma node_ind' (P : node -> Prop) :
  (forall c r, P (File c r)) -> (forall t, P (Symlink t)) ->
  (forall es, Forall (fun e => P (snd e)) es -> P (Dir es)) -> forall n, P n.
Proof.
  intros Hf Hs Hd. fix IH 1. intros [c r | es | t]; [apply Hf | | apply Hs].
  apply Hd. induction es as [|[name ch] es IHes]; constructor; [apply IH | exact IHes].
Qed.

Lemma mem_false_not_In x l : mem x l = false -> ~ In x l.
Proof. intros Hm Hi. apply mem_In in Hi. congruence. Qed.

Lemma nodup_names_NoDup l : nodup_names l = true -> NoDup l.
Proof.
  induction l as [|x l IH]; simpl; intro Hn; [constructor|].
  apply andb_true_iff in Hn as [H1 H2]. apply negb_true_iff in H1.
  constructor; [apply mem_false_not_In, H1 | apply IH, H2].
Qed.

Lemma wf_dir_inv es :
  wf_node (Dir es) = true ->
  NoDup (map fst es) /\ forall name ch, In (name, ch) es -> good_name name = true /\ wf_node ch = true.
Proof.
  simpl. intro Hw. apply andb_true_iff in Hw as [Hn Hall]. split; [apply nodup_names_NoDup, Hn|].
  clear Hn. induction es as [|[k c] es IH]; intros name ch Hin; [destruct Hin|].
  apply andb_true_iff in Hall as [Hkc Hall]. apply andb_true_iff in Hkc as [Hk Hc].
  destruct Hin as [E | Hin]; [inversion E; subst; auto | apply IH; assumption].
Qed.

Lemma find_entry_In es name ch : find_entry es name = Some ch -> In (name, ch) es.
Proof.
  induction es as [|[k c] es IH]; simpl; [discriminate|].
  destruct (str_eqb name k) eqn:E.
  - intro Hs; inversion Hs; subst. apply str_eqb_eq in E. subst. left; reflexivity.
  - intro Hs. right. apply IH, Hs.
Qed.

Lemma In_find_entry es name ch : NoDup (map fst es) -> In (name, ch) es -> find_entry es name = Some ch.
Proof.
  induction es as [|[k c] es IH]; simpl; intros Hnd Hin; [destruct Hin|].
  inversion Hnd as [|? ? Hnk Hnd']; subst.
  destruct Hin as [E | Hin].
  - inversion E; subst. rewrite str_eqb_refl. reflexivity.
  - destruct (str_eqb name k) eqn:E.
    + apply str_eqb_eq in E. subst. exfalso. apply Hnk. apply (in_map fst) in Hin. exact Hin.
    + apply IH; assumption.
Qed.

Lemma lookup_app n a b :
  lookup n (a ++ b) = match lookup n a with Some m => lookup m b | None => None end.
Proof.
  revert n; induction a as [|c a IH]; intro n; simpl; [reflexivity|].
  destruct n as [| es |]; try reflexivity.
  destruct (find_entry es c); [apply IH | reflexivity].
Qed.

Lemma lookup_snoc root p name es ch :
  lookup root p = Some (Dir es) -> find_entry es name = Some ch -> lookup root (p ++ [name]) = Some ch.
Proof. intros Hl Hf. rewrite lookup_app, Hl. simpl. rewrite Hf. reflexivity. Qed.

Lemma lookup_wf n p m : wf_node n = true -> lookup n p = Some m -> wf_node m = true /\ canon p.
Proof.
  revert n; induction p as [|c p IH]; intros n Hw Hl; simpl in Hl.
  - inversion Hl; subst. split; [exact Hw | reflexivity].
  - destruct n as [| es |]; try discriminate.
    destruct (find_entry es c) as [ch|] eqn:Hf; [|discriminate].
    apply find_entry_In in Hf. destruct (wf_dir_inv _ Hw) as [_ Hall].
    destruct (Hall _ _ Hf) as [Hg Hwc]. destruct (IH _ Hwc Hl) as [Hwm Hcp].
    split; [exact Hwm | apply canon_cons; auto].
Qed.

Lemma lookup_child root p es name ch :
  wf_node root = true -> lookup root p = Some (Dir es) -> In (name, ch) es ->
  lookup root (p ++ [name]) = Some ch /\ good_name name = true.
Proof.
  intros Hw Hl Hin. destruct (lookup_wf _ _ _ Hw Hl) as [Hwd _].
  destruct (wf_dir_inv _ Hwd) as [Hnd Hall]. destruct (Hall _ _ Hin) as [Hg _].
  split; [|exact Hg]. eapply lookup_snoc; [exact Hl|]. apply In_find_entry; assumption.
Qed.

Lemma lookup_through_nondir n c p : is_dir n = false -> lookup n (c :: p) = None.
Proof. destruct n; simpl; intro; [reflexivity | discriminate | reflexivity]. Qed.

(* ---------- resolution of the path string of a physical location ---------- *)

Lemma resolve_physical root todo :
  forall dest fuel fl ml links n,
    canon todo -> lookup root (rev dest ++ todo) = Some n ->
    (length todo < fuel)%nat -> (fl = false \/ is_symlink n = false) ->
    resolve root fuel fl ml links dest todo = Ok (rev dest ++ todo).
Proof.
  induction todo as [|c rest IH]; intros dest fuel fl ml links n Hc Hl Hfuel Hfl.
  - destruct fuel; [inversion Hfuel|]. simpl. rewrite app_nil_r. reflexivity.
  - destruct fuel as [|f]; [inversion Hfuel|]. simpl in Hfuel.
    apply canon_cons in Hc as [Hg Hc]. destruct (good_name_inv _ Hg) as (Hn & Hd & Hdd & _).
    cbn [resolve]. rewrite Hn, Hd, Hdd. cbn [orb].
    assert (Hl' : lookup root ((rev dest ++ [c]) ++ rest) = Some n) by (rewrite <- app_assoc; exact Hl).
    rewrite lookup_app in Hl'. change (rev (c :: dest)) with (rev dest ++ [c]).
    destruct (lookup root (rev dest ++ [c])) as [mid|] eqn:Hmid; [|discriminate].
    destruct mid as [fc fr | es | t].
    + destruct rest as [|c2 rest]; [|rewrite lookup_through_nondir in Hl' by reflexivity; discriminate].
      reflexivity.
    + replace (rev dest ++ c :: rest) with (rev (c :: dest) ++ rest) by (simpl; rewrite <- app_assoc; reflexivity).
      apply (IH (c :: dest) f fl ml links n Hc).
      * simpl. rewrite <- app_assoc. exact Hl.
      * apply Nat.succ_lt_mono. exact Hfuel.
      * exact Hfl.
    + destruct rest as [|c2 rest]; [|rewrite lookup_through_nondir in Hl' by reflexivity; discriminate].
      simpl in Hl'. inversion Hl'; subst n.
      destruct Hfl as [-> | Hns]; [|discriminate]. reflexivity.
Qed.

Lemma resolve_str_physical root fl ml p n :
  wf_node root = true -> lookup root p = Some n -> (fl = false \/ is_symlink n = false) ->
  resolve_str root fl ml (render p) = Ok p.
Proof.
  intros Hw Hl Hfl. destruct (lookup_wf _ _ _ Hw Hl) as [_ Hc].
  unfold resolve_str. rewrite (render_nonnil _ Hc), (render_not_abs _ Hc).
  destruct p as [|x p].
  - unfold resolve_fuel. rewrite render_nil. reflexivity.
  - rewrite (fp_split_render (x :: p)) by (discriminate || assumption).
    apply (resolve_physical root (x :: p) [] _ fl ml 0%nat n Hc Hl); [|exact Hfl].
    unfold resolve_fuel. rewrite (fp_split_render (x :: p)) by (discriminate || assumption).
    apply Nat.lt_lt_add_r. apply Nat.lt_succ_diag_r.
Qed.

Lemma lstat_physical root p n : wf_node root = true -> lookup root p = Some n -> lstat root (render p) = Ok n.
Proof.
  intros Hw Hl. unfold lstat, at_path. rewrite (resolve_str_physical root false 40%nat p n Hw Hl) by (left; reflexivity).
  simpl. rewrite Hl. reflexivity.
Qed.

Lemma stat_physical root p n :
  wf_node root = true -> lookup root p = Some n -> is_symlink n = false -> stat root (render p) = Ok n.
Proof.
  intros Hw Hl Hs. unfold stat, at_path. rewrite (resolve_str_physical root true 40%nat p n Hw Hl) by (right; exact Hs).
  simpl. rewrite Hl. reflexivity.
Qed.

(* what a successful full resolution returns *)
Lemma lookup_prefix root a b n : lookup root (a ++ b) = Some n -> exists m, lookup root a = Some m.
Proof. rewrite lookup_app. destruct (lookup root a) as [m|]; [eauto | discriminate]. Qed.

Lemma resolve_sound root :
  forall fuel fl ml links dest todo p',
    (exists d, lookup root (rev dest) = Some d /\ is_symlink d = false) ->
    resolve root fuel fl ml links dest todo = Ok p' ->
    exists n', lookup root p' = Some n' /\ (fl = true -> is_symlink n' = false).
Proof.
  induction fuel as [|f IH]; intros fl ml links dest todo p' Hinv Hr; [discriminate|].
  cbn [resolve] in Hr. destruct todo as [|c rest].
  - inversion Hr; subst. destruct Hinv as (d & Hd & Hs). exists d. auto.
  - destruct (is_nil c || str_eqb c dot) eqn:E1; [eapply IH; eassumption|].
    destruct (str_eqb c dotdot) eqn:E2.
    + destruct dest as [|x d']; [discriminate|].
      eapply IH; [|exact Hr].
      destruct Hinv as (d & Hd & _). simpl in Hd.
      destruct (lookup_prefix _ _ _ _ Hd) as (m & Hm). exists m. split; [exact Hm|].
      rewrite lookup_app, Hm in Hd. destruct m; simpl in Hd; try discriminate. reflexivity.
    + destruct (lookup root (rev (c :: dest))) as [mid|] eqn:Hmid; [|discriminate].
      destruct mid as [fc fr | es | t].
      * destruct (is_nil rest); [|discriminate]. inversion Hr; subst. eexists; split; [exact Hmid | reflexivity].
      * eapply IH; [|exact Hr]. eexists; split; [exact Hmid | reflexivity].
      * destruct (negb fl && is_nil rest) eqn:E3.
        { inversion Hr; subst. eexists; split; [exact Hmid|].
          intro Hfl. subst fl. discriminate. }
        destruct (Nat.leb ml links); [discriminate|].
        destruct (is_abs t); [discriminate|].
        eapply IH; eassumption.
Qed.

Lemma realpath_sound root s p' :
  wf_root root = true -> realpath root s = Ok p' ->
  exists n', lookup root p' = Some n' /\ is_symlink n' = false.
Proof.
  intros Hw Hr. unfold realpath, resolve_str in Hr.
  destruct (is_nil s); [discriminate|]. destruct (is_abs s); [discriminate|].
  apply resolve_sound in Hr.
  - destruct Hr as (n' & Hn & Hs). exists n'. auto.
  - exists root. split; [reflexivity|]. unfold wf_root in Hw. apply andb_true_iff in Hw as [Hd _].
    destruct root; simpl in *; congruence.
Qed.

Lemma wf_root_node root : wf_root root = true -> wf_node root = true.
Proof. unfold wf_root. intro Hw. apply andb_true_iff in Hw. tauto. Qed.

(* resolution never reports the cycle error of the walk *)
Lemma resolve_err root :
  forall fuel fl ml links dest todo e,
    resolve root fuel fl ml links dest todo = Err e -> e <> E_symcycle.
Proof.
  induction fuel as [|f IH]; intros fl ml links dest todo e Hr; [inversion Hr; discriminate|].
  cbn [resolve] in Hr. destruct todo as [|c rest]; [discriminate|].
  destruct (is_nil c || str_eqb c dot); [eapply IH; eassumption|].
  destruct (str_eqb c dotdot).
  - destruct dest; [inversion Hr; discriminate | eapply IH; eassumption].
  - destruct (lookup root (rev (c :: dest))) as [[fc fr | es | t]|]; [| | |inversion Hr; discriminate].
    + destruct (is_nil rest); [discriminate | inversion Hr; discriminate].
    + eapply IH; eassumption.
    + destruct (negb fl && is_nil rest); [discriminate|].
      destruct (Nat.leb ml links); [inversion Hr; discriminate|].
      destruct (is_abs t); [inversion Hr; discriminate|].
      eapply IH; eassumption.
Qed.

Lemma resolve_str_err root fl ml s e : resolve_str root fl ml s = Err e -> e <> E_symcycle.
Proof.
  unfold resolve_str. destruct (is_nil s); [intro Hr; inversion Hr; discriminate|].
  destruct (is_abs s); [intro Hr; inversion Hr; discriminate|]. apply resolve_err.
Qed.

Lemma at_path_err root r e :
  (forall e', r = Err e' -> e' <> E_symcycle) -> at_path root r = Err e -> e <> E_symcycle.
Proof.
  intros Hr. unfold at_path. destruct r as [p | e' | s]; simpl.
  - destruct (lookup root p); [discriminate | intro Hx; inversion Hx; discriminate].
  - intro Hx; inversion Hx; subst. apply Hr. reflexivity.
  - discriminate.
Qed.

Lemma resolve_no_panic root :
  forall fuel fl ml links dest todo s, resolve root fuel fl ml links dest todo <> Panic s.
Proof.
  induction fuel as [|f IH]; intros fl ml links dest todo s; [discriminate|].
  cbn [resolve]. destruct todo as [|c rest]; [discriminate|].
  destruct (is_nil c || str_eqb c dot); [apply IH|].
  destruct (str_eqb c dotdot).
  - destruct dest; [discriminate | apply IH].
  - destruct (lookup root (rev (c :: dest))) as [[fc fr | es | t]|]; [| | |discriminate].
    + destruct (is_nil rest); discriminate.
    + apply IH.
    + destruct (negb fl && is_nil rest); [discriminate|].
      destruct (Nat.leb ml links); [discriminate|].
      destruct (is_abs t); [discriminate|]. apply IH.
Qed.
