(* KeyLoadSpec.v — short declarative description of what a loaded key is.
   (The model in model/KeyLoad.v follows the Go control flow; proofs/KeyLoadProofs.v
   shows that it computes exactly this.) *)
From IT Require Import model.KeyLoad gen.Consts.

(* byte strings: every element is a byte *)
Definition bytes (s : str) : Prop := Forall (fun c => c < 256) s.

(* schemes a key of this type may carry (tables regenerated from the Go source) *)
Definition schemes_of (t : ktype) : list str :=
  match t with
  | KRsa => t_getSupportedRSASchemes
  | KEcdsa => t_getSupportedEcdsaSchemes
  | KEd25519 => t_getSupportedEd25519Schemes
  | KUnknown => []
  end.

Section Spec.
Variable sha256 : str -> str.
Variable pem_body : str -> str.

(* PEM text of one block without headers and without the final newline *)
Definition pem_text (ty d : str) : str :=
  bs "-----BEGIN " ++ ty ++ bs "-----" ++ [10] ++ pem_body d ++ bs "-----END " ++ ty ++ bs "-----".

(* the public half as stored: PKIX PEM for RSA and ECDSA, lower-case hex of the raw key for Ed25519 *)
Definition pub_string (t : ktype) (pub : str) : str :=
  match t with
  | KEd25519 => hex_encode pub
  | _ => pem_text c_pemPublicKey pub
  end.

(* the private material the loader keeps: the bytes of the PEM block for RSA and ECDSA (whatever
   their encoding: PKCS#8, PKCS#1, SEC1), the raw 64 bytes for Ed25519; nothing for public objects *)
Definition priv_material (p : parsed) (b : block) : str :=
  match p_priv_der p with
  | None => []
  | Some raw => match p_type p with KEd25519 => raw | _ => b_bytes b end
  end.

Definition priv_string (t : ktype) (m : str) : str :=
  if is_nil m then [] else
  match t with
  | KRsa => pem_text c_pemRSAPrivateKey m
  | KEcdsa => pem_text c_pemPrivateKey m
  | KEd25519 => hex_encode m
  | KUnknown => []
  end.

(* the certificate string: the input block re-encoded, for the certificate form only *)
Definition cert_string (p : parsed) (b : block) : str :=
  match p_form p with
  | CERT => pem_encode pem_body (b_type b) (b_hdrs b) (b_bytes b)
  | _ => []
  end.

Definition key_desc (t : ktype) (scheme : str) (algs : option (list str)) (pub : str) : str :=
  key_desc_canon (keytype_name t) scheme algs (pub_string t pub).

Definition key_id (t : ktype) (scheme : str) (algs : option (list str)) (pub : str) : str :=
  hex_encode (sha256 (key_desc t scheme algs pub)).

Definition spec_key (t : ktype) (pub privm cert scheme : str) (algs : option (list str)) : key :=
  mkKey (key_id t scheme algs pub) (algs_list algs) (keytype_name t)
        (priv_string t privm) (pub_string t pub) cert scheme.

(* the loaders accept a parsed key exactly when validateKey accepts the assembled key *)
Definition spec_load (p : parsed) (b : block) (scheme : str) (algs : option (list str)) : res key :=
  match p_type p with
  | KUnknown => Err err_unexpected_load
  | t =>
    do _ <- validate_key (spec_key t (p_pub_der p) (priv_material p b) [] scheme algs) algs;
    Ok (spec_key t (p_pub_der p) (priv_material p b) (cert_string p b) scheme algs)
  end.

End Spec.
