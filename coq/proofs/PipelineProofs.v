(* PipelineProofs.v — structural theorems about the verification pipeline,
   valid for every choice of the stage components. *)
From IT Require Import model.Pipeline.
From IT Require Import proofs.SubstProofs.   (* alookup lemmas *)
From IT Require Import proofs.CleanArtifactsProofs.   (* order lemmas on strings *)


(* ---------- reflect.DeepEqual on artifact maps is an equivalence on well-formed maps ---------- *)
Lemma hashobj_sub_spec a b :
  hashobj_sub a b = true <-> (forall k v, In (k, v) a -> alookup b k = Some v).
Proof.
  unfold hashobj_sub. rewrite forallb_forall. split.
  - intros H k v Hin. specialize (H (k, v) Hin). simpl in H. destruct (alookup b k) as [v'|]; [|discriminate].
    apply str_eqb_eq in H. congruence.
  - intros H [k v] Hin. simpl. rewrite (H k v Hin). apply str_eqb_refl.
Qed.

Lemma hashobj_sub_trans a b c : hashobj_sub a b = true -> hashobj_sub b c = true -> hashobj_sub a c = true.
Proof.
  rewrite !hashobj_sub_spec. intros H1 H2 k v Hin. apply H2. apply alookup_some_in. apply H1. exact Hin.
Qed.

Lemma hashobj_sub_refl a : NoDup (map fst a) -> hashobj_sub a a = true.
Proof. intro Hnd. apply hashobj_sub_spec. intros k v Hin. apply alookup_in; assumption. Qed.

Lemma hashobj_eqb_sym a b : hashobj_eqb a b = hashobj_eqb b a.
Proof. unfold hashobj_eqb. rewrite Nat.eqb_sym. destruct (length b =? length a)%nat; simpl; [apply andb_comm | reflexivity]. Qed.

Lemma hashobj_eqb_trans a b c : hashobj_eqb a b = true -> hashobj_eqb b c = true -> hashobj_eqb a c = true.
Proof.
  unfold hashobj_eqb. intros H1 H2.
  apply andb_true_iff in H1 as [H1 H1c]. apply andb_true_iff in H1 as [H1a H1b].
  apply andb_true_iff in H2 as [H2 H2c]. apply andb_true_iff in H2 as [H2a H2b].
  apply Nat.eqb_eq in H1a, H2a. rewrite (hashobj_sub_trans _ _ _ H1b H2b), (hashobj_sub_trans _ _ _ H2c H1c).
  replace (length a =? length c)%nat with true by (symmetry; apply Nat.eqb_eq; congruence). reflexivity.
Qed.

Lemma hashobj_eqb_refl a : NoDup (map fst a) -> hashobj_eqb a a = true.
Proof. intro H. unfold hashobj_eqb. rewrite Nat.eqb_refl, (hashobj_sub_refl a H). reflexivity. Qed.

Lemma artifacts_sub_spec a b :
  artifacts_sub a b = true <-> (forall k h, In (k, h) a -> exists h', alookup b k = Some h' /\ hashobj_eqb h' h = true).
Proof.
  unfold artifacts_sub. rewrite forallb_forall. split.
  - intros H k h Hin. specialize (H (k, h) Hin). simpl in H. destruct (alookup b k) as [h'|]; [|discriminate]. eauto.
  - intros H [k h] Hin. simpl. destruct (H k h Hin) as [h' [-> E]]. exact E.
Qed.

Lemma artifacts_sub_trans a b c : artifacts_sub a b = true -> artifacts_sub b c = true -> artifacts_sub a c = true.
Proof.
  rewrite !artifacts_sub_spec. intros H1 H2 k h Hin. destruct (H1 k h Hin) as [h' [Hl E]].
  apply alookup_some_in in Hl. destruct (H2 k h' Hl) as [h'' [Hl2 E2]]. exists h''. split; [exact Hl2|].
  eapply hashobj_eqb_trans; eassumption.
Qed.

Definition wf_artifacts (a : artifacts) : Prop :=
  NoDup (map fst a) /\ forall k h, In (k, h) a -> NoDup (map fst h).

Lemma artifacts_sub_refl a : wf_artifacts a -> artifacts_sub a a = true.
Proof.
  intros [Hnd Hh]. apply artifacts_sub_spec. intros k h Hin. exists h. split; [apply alookup_in; assumption|].
  apply hashobj_eqb_refl. eapply Hh. exact Hin.
Qed.

Lemma artifacts_eqb_sym a b : artifacts_eqb a b = artifacts_eqb b a.
Proof. unfold artifacts_eqb. rewrite Nat.eqb_sym. destruct (length b =? length a)%nat; simpl; [apply andb_comm | reflexivity]. Qed.

Lemma artifacts_eqb_trans a b c : artifacts_eqb a b = true -> artifacts_eqb b c = true -> artifacts_eqb a c = true.
Proof.
  unfold artifacts_eqb. intros H1 H2.
  apply andb_true_iff in H1 as [H1 H1c]. apply andb_true_iff in H1 as [H1a H1b].
  apply andb_true_iff in H2 as [H2 H2c]. apply andb_true_iff in H2 as [H2a H2b].
  apply Nat.eqb_eq in H1a, H2a. rewrite (artifacts_sub_trans _ _ _ H1b H2b), (artifacts_sub_trans _ _ _ H2c H1c).
  replace (length a =? length c)%nat with true by (symmetry; apply Nat.eqb_eq; congruence). reflexivity.
Qed.

Lemma artifacts_eqb_refl a : wf_artifacts a -> artifacts_eqb a a = true.
Proof. intro H. unfold artifacts_eqb. rewrite Nat.eqb_refl, (artifacts_sub_refl a H). reflexivity. Qed.

Definition wf_link (l : link) : Prop := wf_artifacts (ln_materials l) /\ wf_artifacts (ln_products l).

Lemma env_links_lookup m ml n lk :
  env_links m = Ok ml -> alookup ml n = Some lk -> exists e, alookup m n = Some e /\ env_link e = Ok lk.
Proof.
  revert ml. induction m as [|[k e] r IH]; intros ml; simpl.
  - intro H; inversion H; subst. discriminate.
  - destruct (env_link e) as [l|c|p] eqn:El; simpl; try discriminate.
    destruct (env_links r) as [r'|c|p] eqn:Er; simpl; try discriminate.
    intro H; inversion H; subst. simpl. destruct (str_eqb n k).
    + intro H2; inversion H2; subst. exists e. auto.
    + apply IH. reflexivity.
Qed.

Section P.
  Variable World : Type.
  Variable vsig : env -> key -> bool.
  Variable expiry_ok : str -> bool.
  Variable subst : layout -> amap str -> res layout.
  Variable certs_ok : layout -> list str -> bool.
  Variable load_all : layout -> list (str * option env) -> res (amap (amap env)).
  Variable verify_thresholds : layout -> list str -> amap (amap env) -> res (amap (amap env)).
  Variable verify_rules : list item -> amap link -> res unit.
  Variable run_insp : bool -> World -> inspection -> res (link * World).
  Variable retval_zero : link -> bool.
  Variable pbytes : link -> str.
  Variable zero_key : key.

  Notation verify_body := (verify_body World vsig expiry_ok subst certs_ok load_all verify_thresholds verify_rules run_insp retval_zero pbytes zero_key).
  Notation verify := (verify World vsig expiry_ok subst certs_ok load_all verify_thresholds verify_rules run_insp retval_zero pbytes zero_key).
  Notation after_thresholds := (after_thresholds World verify_rules run_insp retval_zero pbytes zero_key).
  Notation sub_steps := (sub_steps World zero_key).
  Notation sub_links := (sub_links World zero_key).
  Notation run_inspections := (run_inspections World run_insp retval_zero).
  Notation rt := (rt World).
  Notation verifier := (verifier World).

  Lemma rt_fail_not_ok {A B} (x : res A) w tr (b : B) w' tr' : rt_fail World x w tr = (Ok b, w', tr') -> False.
  Proof. destruct x; simpl; intro H; inversion H. Qed.

  (* ---------- VerifyLayoutSignatures ---------- *)
  Lemma all_keys_verify_ok e keys :
    all_keys_verify vsig e keys = Ok tt <-> (forall id k, In (id, k) keys -> vsig e k = true).
  Proof.
    induction keys as [|[id k] r IH]; simpl.
    - split; [intros _ ? ? [] | reflexivity].
    - destruct (vsig e k) eqn:E.
      + rewrite IH. split; intros H id' k' Hin.
        * destruct Hin as [Heq|Hin]; [inversion Heq; subst; exact E | eapply H; exact Hin].
        * eapply H. right. exact Hin.
      + split; [discriminate|]. intro H. rewrite (H id k (or_introl eq_refl)) in E. discriminate.
  Qed.

  Lemma all_keys_verify_cases e keys : all_keys_verify vsig e keys = Ok tt \/ all_keys_verify vsig e keys = Err e_badsig.
  Proof. induction keys as [|[id k] r IH]; simpl; [left; reflexivity|]. destruct (vsig e k); [exact IH | right; reflexivity]. Qed.

  Lemma verify_layout_signatures_ok e keys :
    verify_layout_signatures vsig e keys = Ok tt <-> keys <> [] /\ (forall id k, In (id, k) keys -> vsig e k = true).
  Proof.
    unfold verify_layout_signatures. destruct keys as [|p r].
    - split; [discriminate | intros [H _]; congruence].
    - rewrite all_keys_verify_ok. split; [intro H; split; [discriminate | exact H] | intros [_ H]; exact H].
  Qed.

  Lemma verify_layout_signatures_res e keys :
    verify_layout_signatures vsig e keys = Ok tt \/ exists c, verify_layout_signatures vsig e keys = Err c.
  Proof.
    unfold verify_layout_signatures. destruct keys as [|p r]; [right; eexists; reflexivity|].
    destruct (all_keys_verify_cases e (p :: r)) as [H|H]; [left | right; eexists]; exact H.
  Qed.

  (* ---------- inversion of a successful run of one level ---------- *)
  Inductive stages (rec : verifier) w path d layout_env keys step_name params inter (s : env) (w' : World) (tr : list event) : Prop :=
  | Stages (layout0 layout : layout) (loaded verified resolved : amap (amap env)) (reduced : amap env)
           (reduced_links imeta : amap link) (w2 : World) (tr2 : list event)
      (st_sigs : verify_layout_signatures vsig layout_env keys = Ok tt)
      (st_payload : get_layout layout_env = Ok layout0)
      (st_expiry : expiry_ok (l_expires layout0) = true)
      (st_subst : subst layout0 params = Ok layout)
      (st_certs : certs_ok layout inter = true)
      (st_load : load_all layout (ld_files d) = Ok loaded)
      (st_thresh : verify_thresholds layout inter loaded = Ok verified)
      (st_sub : sub_steps rec layout path d inter verified w [EvLoadLinks path] = (Ok resolved, w2, tr2))
      (st_align : cmd_alignment (l_steps layout) resolved = Ok tt)
      (st_reduce : reduce_steps (l_steps layout) resolved [] = Ok reduced)
      (st_links : env_links reduced = Ok reduced_links)
      (st_rules_steps : verify_rules (map step_item (l_steps layout)) reduced_links = Ok tt)
      (st_insp : run_inspections path (match e_wrapper layout_env with DSSE => true | Legacy => false end)
                                 w2 (l_inspect layout) [] tr2 = (Ok (imeta, w'), tr))
      (st_rules_insp : verify_rules (map insp_item (l_inspect layout)) (merge_steps reduced_links imeta) = Ok tt)
      (st_summary : get_summary pbytes layout reduced step_name
                                (match e_wrapper layout_env with DSSE => true | Legacy => false end) = Ok s).

  Lemma verify_body_ok_inv rec w path d layout_env keys step_name params inter s w' tr :
    verify_body rec w path d layout_env keys step_name params inter = (Ok s, w', tr) ->
    stages rec w path d layout_env keys step_name params inter s w' tr.
  Proof.
    unfold Pipeline.verify_body.
    destruct (verify_layout_signatures vsig layout_env keys) as [[]|c|p] eqn:Hsig; try (intro H; exfalso; eapply rt_fail_not_ok; exact H).
    destruct (get_layout layout_env) as [l0|c|p] eqn:Hpl; try (intro H; exfalso; eapply rt_fail_not_ok; exact H).
    destruct (expiry_ok (l_expires l0)) eqn:Hexp; [|intro H; inversion H].
    destruct (subst l0 params) as [l|c|p] eqn:Hsub; try (intro H; exfalso; eapply rt_fail_not_ok; exact H).
    destruct (certs_ok l inter) eqn:Hc; [|intro H; inversion H].
    destruct (load_all l (ld_files d)) as [loaded|c|p] eqn:Hload; try (intro H; exfalso; eapply rt_fail_not_ok; exact H).
    destruct (verify_thresholds l inter loaded) as [verified|c|p] eqn:Hth; try (intro H; exfalso; eapply rt_fail_not_ok; exact H).
    unfold Pipeline.after_thresholds.
    destruct (sub_steps rec l path d inter verified w [EvLoadLinks path]) as [[[resolved|c|p] w2] tr2] eqn:Hss;
      try (intro H; exfalso; eapply rt_fail_not_ok; exact H).
    destruct (cmd_alignment (l_steps l) resolved) as [[]|c|p] eqn:Hal; try (intro H; exfalso; eapply rt_fail_not_ok; exact H).
    destruct (reduce_steps (l_steps l) resolved []) as [reduced|c|p] eqn:Hred; try (intro H; exfalso; eapply rt_fail_not_ok; exact H).
    destruct (env_links reduced) as [rl|c|p] eqn:Hel; try (intro H; exfalso; eapply rt_fail_not_ok; exact H).
    destruct (verify_rules (map step_item (l_steps l)) rl) as [[]|c|p] eqn:Hr1; try (intro H; exfalso; eapply rt_fail_not_ok; exact H).
    destruct (run_inspections path _ w2 (l_inspect l) [] tr2) as [[[imeta w3]|c|p] tr3] eqn:Hin;
      try (intro H; exfalso; eapply rt_fail_not_ok; exact H).
    destruct (verify_rules (map insp_item (l_inspect l)) (merge_steps rl imeta)) as [[]|c|p] eqn:Hr2; try (intro H; exfalso; eapply rt_fail_not_ok; exact H).
    destruct (get_summary pbytes l reduced step_name _) as [s0|c|p] eqn:Hsum; try (intro H; exfalso; eapply rt_fail_not_ok; exact H).
    intro H; inversion H; subst.
    eapply (Stages rec w path d layout_env keys step_name params inter s w' tr l0 l loaded verified resolved reduced rl imeta w2 tr2); assumption.
  Qed.


  (* ---------- rejection before any effect ---------- *)
  Definition not_ok {A} (r : res A) : Prop := match r with Ok _ => False | _ => True end.

  Lemma rt_fail_shape {A B} (x : res A) w tr : not_ok x ->
    exists r : res B, rt_fail World x w tr = (r, w, tr) /\ not_ok r.
  Proof. destruct x; simpl; intro H; [contradiction | eexists; split; [reflexivity | exact I] ..]. Qed.

  Lemma verify_body_bad_sigs rec w path d layout_env keys step_name params inter :
    verify_layout_signatures vsig layout_env keys <> Ok tt ->
    exists r, verify_body rec w path d layout_env keys step_name params inter = (r, w, []) /\ not_ok r.
  Proof.
    intro H. unfold Pipeline.verify_body.
    destruct (verify_layout_signatures vsig layout_env keys) as [[]|c|p] eqn:E; [congruence | ..];
      eexists; (split; [reflexivity | exact I]).
  Qed.

  Lemma verify_body_not_layout rec w path d layout_env keys step_name params inter :
    (forall l, e_payload layout_env <> PLayout l) ->
    exists r, verify_body rec w path d layout_env keys step_name params inter = (r, w, []) /\ not_ok r.
  Proof.
    intro H. unfold Pipeline.verify_body.
    destruct (verify_layout_signatures vsig layout_env keys) as [[]|c|p] eqn:E;
      [| eexists; (split; [reflexivity | exact I]) ..].
    unfold get_layout. destruct (e_payload layout_env) as [lk|l] eqn:Ep; [|exfalso; eapply H; reflexivity].
    eexists; (split; [reflexivity | exact I]).
  Qed.

  Lemma verify_body_expired rec w path d layout_env keys step_name params inter l0 :
    e_payload layout_env = PLayout l0 -> expiry_ok (l_expires l0) = false ->
    exists r, verify_body rec w path d layout_env keys step_name params inter = (r, w, []) /\ not_ok r.
  Proof.
    intros Hp He. unfold Pipeline.verify_body.
    destruct (verify_layout_signatures vsig layout_env keys) as [[]|c|p] eqn:E;
      [| eexists; (split; [reflexivity | exact I]) ..].
    unfold get_layout. rewrite Hp, He. eexists; (split; [reflexivity | exact I]).
  Qed.

  Lemma verify_unfold fuel : verify (S fuel) = verify_body (verify fuel).
  Proof. reflexivity. Qed.

  (* ---------- ReduceStepsMetadata ---------- *)
  Definition agrees (ref : link) (e : env) : Prop :=
    exists l, env_link e = Ok l /\
      artifacts_eqb (ln_materials l) (ln_materials ref) = true /\
      artifacts_eqb (ln_products l) (ln_products ref) = true.

  Lemma all_agree_ok ref links :
    all_agree ref links = Ok tt <-> (forall k e, In (k, e) links -> agrees ref e).
  Proof.
    induction links as [|[k e] r IH]; simpl.
    - split; [intros _ ? ? [] | reflexivity].
    - destruct (env_link e) as [l|c|p] eqn:El; simpl.
      + destruct (artifacts_eqb (ln_materials l) (ln_materials ref) && artifacts_eqb (ln_products l) (ln_products ref)) eqn:Eq.
        * apply andb_true_iff in Eq as [E1 E2]. rewrite IH. split.
          -- intros H k' e' [Heq|Hin]; [inversion Heq; subst; exists l; auto | eapply H; exact Hin].
          -- intros H k' e' Hin. eapply H. right. exact Hin.
        * split; [discriminate|]. intro H. destruct (H k e (or_introl eq_refl)) as [l' [El' [E1 E2]]].
          rewrite El in El'. inversion El'; subst. rewrite E1, E2 in Eq. discriminate.
      + split; [discriminate|]. intro H. destruct (H k e (or_introl eq_refl)) as [l' [El' _]]. rewrite El in El'. discriminate.
      + split; [discriminate|]. intro H. destruct (H k e (or_introl eq_refl)) as [l' [El' _]]. rewrite El in El'. discriminate.
  Qed.

  Lemma all_agree_res ref links : all_agree ref links = Ok tt \/ exists c, all_agree ref links = Err c.
  Proof.
    induction links as [|[k e] r IH]; simpl; [left; reflexivity|].
    unfold env_link. destruct (e_payload e); simpl; [|right; eexists; reflexivity].
    destruct (_ && _); [exact IH | right; eexists; reflexivity].
  Qed.

  Lemma min_entry_in best links : In (min_entry best links) (best :: links).
  Proof.
    revert best. induction links as [|[k e] r IH]; intros best; simpl; [left; reflexivity|].
    destruct (str_ltb k (fst best)).
    - destruct (IH (k, e)) as [H|H]; [right; left; exact H | right; right; exact H].
    - destruct (IH best) as [H|H]; [left; exact H | right; right; exact H].
  Qed.

  Lemma min_entry_le best links x : In x (best :: links) -> str_ltb (fst x) (fst (min_entry best links)) = false.
  Proof.
    revert best x. induction links as [|[k e] r IH]; intros best x Hin; simpl.
    - destruct Hin as [<-|[]]. apply str_ltb_irrefl.
    - destruct (str_ltb k (fst best)) eqn:E.
      + destruct Hin as [<-|[<-|Hin]].
        * (* x = best: min <= k < best *)
          destruct (str_ltb (fst best) (fst (min_entry (k, e) r))) eqn:E2; [|reflexivity].
          pose proof (IH (k, e) (k, e) (or_introl eq_refl)) as Hk. simpl in Hk.
          rewrite (str_ltb_trans _ _ _ E E2) in Hk. discriminate.
        * apply IH. left. reflexivity.
        * apply IH. right. exact Hin.
      + destruct Hin as [<-|[<-|Hin]].
        * apply IH. left. reflexivity.
        * simpl. destruct (str_ltb k (fst (min_entry best r))) eqn:E2; [|reflexivity].
          pose proof (IH best best (or_introl eq_refl)) as Hb.
          destruct (str_ltb (fst (min_entry best r)) (fst best)) eqn:E3; [|].
          -- rewrite (str_ltb_trans _ _ _ E2 E3) in E. discriminate.
          -- rewrite (str_ltb_trichotomy _ _ Hb E3) in E. congruence.
        * apply IH. right. exact Hin.
  Qed.

  Lemma in_nodup_fst {V} (l : amap V) k v1 v2 : NoDup (map fst l) -> In (k, v1) l -> In (k, v2) l -> v1 = v2.
  Proof.
    intros Hnd H1 H2. pose proof (alookup_in l k v1 Hnd H1) as A. pose proof (alookup_in l k v2 Hnd H2) as B. congruence.
  Qed.

  Lemma min_entry_perm p r p' r' : NoDup (map fst (p :: r)) -> Permutation (p :: r) (p' :: r') ->
    min_entry p r = min_entry p' r'.
  Proof.
    intros Hnd Hp.
    pose proof (min_entry_in p r) as I1. pose proof (min_entry_in p' r') as I2.
    assert (I2' : In (min_entry p' r') (p :: r)) by (eapply Permutation_in; [apply Permutation_sym, Hp | exact I2]).
    assert (I1' : In (min_entry p r) (p' :: r')) by (eapply Permutation_in; [exact Hp | exact I1]).
    pose proof (min_entry_le p r _ I2') as L1. pose proof (min_entry_le p' r' _ I1') as L2.
    pose proof (str_ltb_trichotomy _ _ L2 L1) as Hk.
    destruct (min_entry p r) as [k1 e1]. destruct (min_entry p' r') as [k2 e2]. simpl in Hk. subst k2.
    f_equal. eapply in_nodup_fst; eassumption.
  Qed.

  (* the reduced link of a step is one of its links; with several links it is accepted iff all of them
     are links agreeing with it on materials and products *)
  Theorem reduce_step_ok links e :
    reduce_step links = Ok e ->
    (exists k, In (k, e) links) /\
    ((length links >= 2)%nat -> exists ref, env_link e = Ok ref /\ forall k' e', In (k', e') links -> agrees ref e').
  Proof.
    unfold reduce_step. destruct links as [|[k0 e0] r]; [discriminate|].
    destruct r as [|p r].
    - intro H; inversion H; subst. split; [exists k0; left; reflexivity | simpl; lia].
    - set (m := min_entry (k0, e0) (p :: r)). cbv zeta.
      destruct (env_link (snd m)) as [ref|c|pp] eqn:El; cbn [rbind]; try discriminate.
      destruct (all_agree ref ((k0, e0) :: p :: r)) as [[]|c|pp] eqn:Ea; cbn [rbind]; try discriminate.
      intro H; inversion H; subst. split.
      + exists (fst m). pose proof (min_entry_in (k0, e0) (p :: r)) as Hin. fold m in Hin. destruct m; exact Hin.
      + intros _. exists ref. split; [exact El|]. apply all_agree_ok. exact Ea.
  Qed.

  Theorem reduce_step_complete links ref :
    (length links >= 2)%nat ->
    (forall p r, links = p :: r -> env_link (snd (min_entry p r)) = Ok ref) ->
    (forall k' e', In (k', e') links -> agrees ref e') ->
    exists e, reduce_step links = Ok e.
  Proof.
    intros Hlen El H. unfold reduce_step. destruct links as [|[k0 e0] [|q r]]; [simpl in Hlen; lia | simpl in Hlen; lia|].
    cbv zeta. rewrite (El (k0, e0) (q :: r) eq_refl). cbn [rbind]. apply all_agree_ok in H. rewrite H. eexists. reflexivity.
  Qed.

  Theorem reduce_step_empty_panics : reduce_step [] = Panic p_reduce_nolinks.
  Proof. reflexivity. Qed.

  (* every step of the layout gets a reduced link, taken from that step's (resolved, verified) links *)
  Lemma reduce_steps_acc steps m acc reduced :
    reduce_steps steps m acc = Ok reduced ->
    forall n e, alookup reduced n = Some e ->
      (alookup acc n = Some e /\ ~ In n (map s_name steps)) \/
      (exists links, alookup m n = Some links /\ exists k, In (k, e) links).
  Proof.
    revert acc. induction steps as [|s r IH]; intros acc; simpl.
    - intro H; inversion H; subst. intros n e Hl. left. split; [exact Hl | tauto].
    - destruct (alookup m (s_name s)) as [links|] eqn:Hm; [|discriminate].
      destruct (reduce_step links) as [e0|c|p] eqn:Hr; simpl; try discriminate.
      intros H n e Hl. destruct (IH _ H n e Hl) as [[Ha Hn]|Hx]; [|right; exact Hx].
      destruct (str_eqb_spec n (s_name s)) as [->|Hne].
      + right. exists links. split; [exact Hm|].
        assert (e = e0).
        { clear - Ha. revert Ha. induction acc as [|[k v] a IHa]; simpl.
          - rewrite str_eqb_refl. intro H; inversion H; reflexivity.
          - destruct (str_eqb (s_name s) k) eqn:E; simpl; rewrite E; [intro H; inversion H; reflexivity | exact IHa]. }
        subst. apply reduce_step_ok in Hr as [Hk _]. exact Hk.
      + left. split.
        * clear - Ha Hne. revert Ha. induction acc as [|[k v] a IHa]; simpl.
          -- destruct (str_eqb_spec n (s_name s)); [contradiction | discriminate].
          -- destruct (str_eqb (s_name s) k) eqn:E; simpl.
             ++ apply str_eqb_eq in E. subst k. destruct (str_eqb_spec n (s_name s)); [contradiction | tauto].
             ++ destruct (str_eqb n k); [tauto | exact IHa].
        * intros [Heq|Hin]; [congruence | contradiction].
  Qed.

  Theorem reduce_steps_from_resolved steps m reduced :
    reduce_steps steps m [] = Ok reduced ->
    forall n e, alookup reduced n = Some e -> exists links, alookup m n = Some links /\ exists k, In (k, e) links.
  Proof.
    intros H n e Hl. destruct (reduce_steps_acc _ _ _ _ H n e Hl) as [[Ha _]|Hx]; [discriminate | exact Hx].
  Qed.

  Lemma ainsert_lookup_same {V} (m : amap V) k v : alookup (ainsert m k v) k = Some v.
  Proof.
    induction m as [|[k' v'] m IH]; simpl; [rewrite str_eqb_refl; reflexivity|].
    destruct (str_eqb k k') eqn:E; simpl; rewrite E; [reflexivity | exact IH].
  Qed.
  Lemma ainsert_lookup_other {V} (m : amap V) k v n : n <> k -> alookup (ainsert m k v) n = alookup m n.
  Proof.
    intro Hne. induction m as [|[k' v'] m IH]; simpl.
    - destruct (str_eqb_spec n k); [contradiction | reflexivity].
    - destruct (str_eqb k k') eqn:E; simpl.
      + apply str_eqb_eq in E. subst k'. destruct (str_eqb_spec n k); [contradiction | reflexivity].
      + destruct (str_eqb n k'); [reflexivity | exact IH].
  Qed.

  Lemma reduce_steps_defines steps m acc reduced :
    reduce_steps steps m acc = Ok reduced ->
    forall n, (In n (map s_name steps) \/ ahas acc n = true) -> ahas reduced n = true.
  Proof.
    revert acc. induction steps as [|s r IH]; intros acc; simpl.
    - intro H; inversion H; subst. intros n [[]|Hn]; exact Hn.
    - destruct (alookup m (s_name s)) as [links|] eqn:Hm; [|discriminate].
      destruct (reduce_step links) as [e0|c|p] eqn:Hr; simpl; try discriminate.
      intros H n Hn. apply (IH _ H). destruct Hn as [[Heq|Hin]|Hacc].
      + right. subst n. unfold ahas. rewrite ainsert_lookup_same. reflexivity.
      + left. exact Hin.
      + right. unfold ahas in *. destruct (str_eqb_spec n (s_name s)) as [->|Hne];
          [rewrite ainsert_lookup_same; reflexivity | rewrite ainsert_lookup_other by exact Hne; exact Hacc].
  Qed.

  (* ---------- GetSummaryLink ---------- *)
  Theorem get_summary_spec l reduced name dsse s :
    get_summary pbytes l reduced name dsse = Ok s ->
    match l_steps l with
    | [] => e_payload s = PLink empty_link
    | s0 :: _ => exists e0 el f t,
        alookup reduced (s_name s0) = Some e0 /\ alookup reduced (s_name (last (l_steps l) s0)) = Some el /\
        env_link e0 = Ok f /\ env_link el = Ok t /\
        e_payload s = PLink (mkLink (ln_type f) name (ln_materials f) (ln_products t) (ln_byproducts t) (ln_command t) [])
    end /\ e_sigs s = [] /\ e_wrapper s = (if dsse then DSSE else Legacy).
  Proof.
    unfold get_summary. destruct (l_steps l) as [|s0 r] eqn:Hs.
    - intro H; inversion H; subst. unfold summary_env. destruct dsse; simpl; auto.
    - destruct (alookup reduced (s_name s0)) as [e0|] eqn:H0; [|discriminate].
      destruct (alookup reduced (s_name (last (s0 :: r) s0))) as [el|] eqn:Hl; [|discriminate].
      destruct (env_link e0) as [f|c|p] eqn:Ef; simpl; try discriminate.
      destruct (env_link el) as [t|c|p] eqn:Et; simpl; try discriminate.
      intro H; inversion H; subst. split; [|unfold summary_env; destruct dsse; simpl; auto].
      exists e0, el, f, t. unfold summary_env. destruct dsse; simpl; auto.
  Qed.

  (* ---------- RunInspections ---------- *)
  (* on success the inspections were all executed, in layout order, each in the world its predecessor left,
     each returning zero; the trace grows by exactly one event per inspection *)
  Inductive insp_run (dsse : bool) : World -> list inspection -> amap link -> World -> amap link -> Prop :=
  | IR_nil w acc : insp_run dsse w [] acc w acc
  | IR_cons w i r acc l w1 w' acc' :
      run_insp dsse w i = Ok (l, w1) -> retval_zero l = true ->
      insp_run dsse w1 r (ainsert acc (i_name i) l) w' acc' ->
      insp_run dsse w (i :: r) acc w' acc'.

  Theorem run_inspections_ok path dsse w insps acc tr imeta w' tr' :
    run_inspections path dsse w insps acc tr = (Ok (imeta, w'), tr') ->
    insp_run dsse w insps acc w' imeta /\ tr' = tr ++ flat_map (insp_event path) insps.
  Proof.
    revert w acc tr. induction insps as [|i r IH]; intros w acc tr; simpl.
    - intro H; inversion H; subst. split; [constructor | rewrite app_nil_r; reflexivity].
    - destruct (run_insp dsse w i) as [[l w1]|c|p] eqn:Hr; [| intro H; inversion H | intro H; inversion H].
      destruct (retval_zero l) eqn:Hz; [|intro H; inversion H].
      intro H. apply IH in H as [Hrun Htr]. split.
      + econstructor; eassumption.
      + rewrite Htr, <- app_assoc. reflexivity.
  Qed.

  Theorem run_inspections_fail_start path dsse w i r acc tr :
    not_ok (run_insp dsse w i) ->
    exists x, run_inspections path dsse w (i :: r) acc tr = (x, tr) /\ not_ok x.
  Proof.
    simpl. destruct (run_insp dsse w i) as [[l w1]|c|p]; simpl; [contradiction | ..]; intros _; eexists; (split; [reflexivity | exact I]).
  Qed.

  Theorem run_inspections_fail_retval path dsse w i r acc tr l w1 :
    run_insp dsse w i = Ok (l, w1) -> retval_zero l = false ->
    run_inspections path dsse w (i :: r) acc tr = (Err e_retval, tr ++ insp_event path i).
  Proof. intros H1 H2. simpl. rewrite H1, H2. reflexivity. Qed.

  Lemma run_inspections_trace_ext path dsse w insps acc tr x tr' :
    run_inspections path dsse w insps acc tr = (x, tr') ->
    exists n, tr' = tr ++ flat_map (insp_event path) (firstn n insps).
  Proof.
    revert w acc tr. induction insps as [|i r IH]; intros w acc tr; simpl.
    - intro H; inversion H; subst. exists O. rewrite app_nil_r. reflexivity.
    - destruct (run_insp dsse w i) as [[l w1]|c|p] eqn:Hr.
      + destruct (retval_zero l).
        * intro H. apply IH in H as [n Hn]. exists (S n). rewrite Hn, <- app_assoc. reflexivity.
        * intro H; inversion H; subst. exists 1%nat. simpl. rewrite app_nil_r. reflexivity.
      + intro H; inversion H; subst. exists O. rewrite app_nil_r. reflexivity.
      + intro H; inversion H; subst. exists O. rewrite app_nil_r. reflexivity.
  Qed.


  (* ---------- VerifySublayouts ---------- *)
  Section SubProofs.
    Variable rec : verifier.
    Variable L : layout.
    Variable path : list str.
    Variable d : linkdir.
    Variable inter : list str.

    Definition sub_key (kid : str) : key := match alookup (l_keys L) kid with Some k => k | None => zero_key end.
    Definition sub_call (sname kid : str) (e : env) (w : World) : rt env :=
      rec w (path ++ [sublayout_dir sname kid]) (lookup_subdir d (sublayout_dir sname kid)) e [(kid, sub_key kid)] sname [] inter.

    (* what a successful resolution of one step's links looks like: same key ids in the same order; a link
       stays, a layout is replaced by the summary its own verification returned *)
    Inductive sub_rel (sname : str) : World -> amap env -> World -> amap env -> Prop :=
    | SR_nil w : sub_rel sname w [] w []
    | SR_link w kid e r w' r' : env_is_layout e = false -> sub_rel sname w r w' r' ->
        sub_rel sname w ((kid, e) :: r) w' ((kid, e) :: r')
    | SR_layout w kid e r w1 tr1 summary w' r' : env_is_layout e = true ->
        sub_call sname kid e w = (Ok summary, w1, tr1) -> sub_rel sname w1 r w' r' ->
        sub_rel sname w ((kid, e) :: r) w' ((kid, summary) :: r').

    Lemma sub_links_ok sname links w tr r w' tr' :
      sub_links rec L path d inter sname links w tr = (Ok r, w', tr') -> sub_rel sname w links w' r.
    Proof.
      revert w tr r w' tr'. induction links as [|[kid e] rest IH]; intros w tr r w' tr'; simpl.
      - intro H; inversion H; subst. constructor.
      - destruct (env_is_layout e) eqn:El.
        + fold (sub_key kid). fold (sub_call sname kid e w).
          destruct (sub_call sname kid e w) as [[[summary|c|p] w1] tr1] eqn:Hc;
            try (intro H; exfalso; eapply rt_fail_not_ok; exact H).
          destruct (sub_links rec L path d inter sname rest w1 _) as [[[r'|c|p] w2] tr2] eqn:Hr;
            try (intro H; exfalso; eapply rt_fail_not_ok; exact H).
          intro H; inversion H; subst. eapply SR_layout; [exact El | exact Hc | eapply IH; exact Hr].
        + destruct (sub_links rec L path d inter sname rest w tr) as [[[r'|c|p] w2] tr2] eqn:Hr;
            try (intro H; exfalso; eapply rt_fail_not_ok; exact H).
          intro H; inversion H; subst. apply SR_link; [exact El | eapply IH; exact Hr].
    Qed.

    (* a failing sublayout fails the whole resolution *)
    Lemma sub_rel_all_ok sname w links w' r :
      sub_rel sname w links w' r ->
      forall kid e, In (kid, e) links -> env_is_layout e = true ->
        exists w0 summary w1 tr1, sub_call sname kid e w0 = (Ok summary, w1, tr1).
    Proof.
      induction 1 as [w|w kid0 e0 r0 w' r' Hl Hs IH|w kid0 e0 r0 w1 tr1 summary w' r' Hl Hc Hs IH]; intros kid e Hin Hlay.
      - contradiction.
      - destruct Hin as [Heq|Hin]; [inversion Heq; subst; congruence | eapply IH; eassumption].
      - destruct Hin as [Heq|Hin]; [inversion Heq; subst; eauto | eapply IH; eassumption].
    Qed.

    Inductive subs_rel : World -> amap (amap env) -> World -> amap (amap env) -> Prop :=
    | SS_nil w : subs_rel w [] w []
    | SS_cons w sname links w1 links' r w' r' : sub_rel sname w links w1 links' -> subs_rel w1 r w' r' ->
        subs_rel w ((sname, links) :: r) w' ((sname, links') :: r').

    Lemma sub_steps_ok m w tr r w' tr' :
      sub_steps rec L path d inter m w tr = (Ok r, w', tr') -> subs_rel w m w' r.
    Proof.
      revert w tr r w' tr'. induction m as [|[sname links] rest IH]; intros w tr r w' tr'; simpl.
      - intro H; inversion H; subst. constructor.
      - destruct (sub_links rec L path d inter sname links w tr) as [[[links'|c|p] w1] tr1] eqn:Hl;
          try (intro H; exfalso; eapply rt_fail_not_ok; exact H).
        destruct (sub_steps rec L path d inter rest w1 tr1) as [[[r'|c|p] w2] tr2] eqn:Hr;
          try (intro H; exfalso; eapply rt_fail_not_ok; exact H).
        intro H; inversion H; subst. econstructor; [eapply sub_links_ok; exact Hl | eapply IH; exact Hr].
    Qed.

    (* resolution keeps the shape of the map: same step names, same key ids, in the same order *)
    Lemma sub_rel_keys sname w links w' r : sub_rel sname w links w' r -> map fst r = map fst links.
    Proof. induction 1; simpl; congruence. Qed.
    Lemma subs_rel_keys w m w' r : subs_rel w m w' r -> map fst r = map fst m.
    Proof. induction 1; simpl; congruence. Qed.

    (* after resolution no layout is left if every summary is a link (get_summary only builds links) *)

    (* ---- events ---- *)
    Definition below (p : list str) (ev : event) : Prop := exists q, ev_dir ev = p ++ q.
    Hypothesis rec_below : forall w p dd e ks sn ps it x w' tr,
      rec w p dd e ks sn ps it = (x, w', tr) -> Forall (below p) tr.

    Definition justified_enter (sname : str) (links : amap env) (ev : event) : Prop :=
      (exists q, q <> [] /\ ev_dir ev = path ++ q) \/
      (exists kid e, ev = EvEnterSublayout path sname kid /\ In (kid, e) links /\ env_is_layout e = true).

    Lemma sub_links_events sname links w tr x w' tr' :
      sub_links rec L path d inter sname links w tr = (x, w', tr') ->
      exists added, tr' = tr ++ added /\ Forall (justified_enter sname links) added.
    Proof.
      revert w tr x w' tr'. induction links as [|[kid e] rest IH]; intros w tr x w' tr'; simpl.
      - intro H; inversion H; subst. exists []. rewrite app_nil_r. split; [reflexivity | constructor].
      - assert (Hweak : forall added, Forall (justified_enter sname rest) added -> Forall (justified_enter sname ((kid, e) :: rest)) added).
        { intros added Ha. eapply Forall_impl; [|exact Ha]. intros ev [Hq|[k' [e' [He [Hin Hl]]]]]; [left; exact Hq|].
          right. exists k', e'. split; [exact He|]. split; [right; exact Hin | exact Hl]. }
        destruct (env_is_layout e) eqn:El.
        + fold (sub_key kid). fold (sub_call sname kid e w).
          destruct (sub_call sname kid e w) as [[y w1] tr1] eqn:Hc.
          assert (Hnest : Forall (justified_enter sname ((kid, e) :: rest)) ([EvEnterSublayout path sname kid] ++ tr1)).
          { constructor.
            - right. exists kid, e. split; [reflexivity|]. split; [left; reflexivity | exact El].
            - unfold sub_call in Hc. apply rec_below in Hc. eapply Forall_impl; [|exact Hc].
              intros ev [q Hq]. left. exists ([sublayout_dir sname kid] ++ q). split; [discriminate|].
              rewrite Hq, <- app_assoc. reflexivity. }
          destruct y as [summary|c|p].
          * destruct (sub_links rec L path d inter sname rest w1 _) as [[z w2] tr2] eqn:Hr.
            apply IH in Hr as [added [Ht Ha]].
            assert (Hres : tr2 = tr ++ (([EvEnterSublayout path sname kid] ++ tr1) ++ added)) by (rewrite Ht, <- !app_assoc; reflexivity).
            assert (Hall : Forall (justified_enter sname ((kid, e) :: rest)) (([EvEnterSublayout path sname kid] ++ tr1) ++ added))
              by (apply Forall_app; split; [exact Hnest | apply Hweak; exact Ha]).
            destruct z as [r'|c|p]; simpl; intro H; inversion H; subst; eexists; (split; [exact Hres | exact Hall]).
          * simpl. intro H; inversion H; subst. eexists; (split; [reflexivity | exact Hnest]).
          * simpl. intro H; inversion H; subst. eexists; (split; [reflexivity | exact Hnest]).
        + destruct (sub_links rec L path d inter sname rest w tr) as [[z w2] tr2] eqn:Hr.
          apply IH in Hr as [added [Ht Ha]].
          destruct z as [r'|c|p]; simpl; intro H; inversion H; subst; eexists; (split; [reflexivity | apply Hweak; exact Ha]).
    Qed.

    Definition justified_enter_m (m : amap (amap env)) (ev : event) : Prop :=
      (exists q, q <> [] /\ ev_dir ev = path ++ q) \/
      (exists sname links kid e, ev = EvEnterSublayout path sname kid /\ In (sname, links) m /\ In (kid, e) links /\ env_is_layout e = true).

    Lemma sub_steps_events m w tr x w' tr' :
      sub_steps rec L path d inter m w tr = (x, w', tr') ->
      exists added, tr' = tr ++ added /\ Forall (justified_enter_m m) added.
    Proof.
      revert w tr x w' tr'. induction m as [|[sname links] rest IH]; intros w tr x w' tr'; simpl.
      - intro H; inversion H; subst. exists []. rewrite app_nil_r. split; [reflexivity | constructor].
      - destruct (sub_links rec L path d inter sname links w tr) as [[y w1] tr1] eqn:Hl.
        apply sub_links_events in Hl as [a1 [Ht1 Ha1]].
        assert (Ha1' : Forall (justified_enter_m ((sname, links) :: rest)) a1).
        { eapply Forall_impl; [|exact Ha1]. intros ev [Hq|[k [e [He [Hin Hlay]]]]]; [left; exact Hq|].
          right. exists sname, links, k, e. split; [exact He|]. split; [left; reflexivity|]. split; assumption. }
        destruct y as [links'|c|p].
        + destruct (sub_steps rec L path d inter rest w1 tr1) as [[z w2] tr2] eqn:Hr.
          apply IH in Hr as [a2 [Ht2 Ha2]].
          assert (Hall : Forall (justified_enter_m ((sname, links) :: rest)) (a1 ++ a2)).
          { apply Forall_app; split; [exact Ha1'|]. eapply Forall_impl; [|exact Ha2].
            intros ev [Hq|[sn [ls [k [e [He [Hin [Hin2 Hlay]]]]]]]]; [left; exact Hq|].
            right. exists sn, ls, k, e. split; [exact He|]. split; [right; exact Hin|]. split; assumption. }
          assert (Hres : tr2 = tr ++ (a1 ++ a2)) by (rewrite Ht2, Ht1, <- app_assoc; reflexivity).
          destruct z as [r'|c|p]; simpl; intro H; inversion H; subst; eexists; (split; [exact Hres | exact Hall]).
        + simpl. intro H; inversion H; subst. eexists; (split; [reflexivity | exact Ha1']).
        + simpl. intro H; inversion H; subst. eexists; (split; [reflexivity | exact Ha1']).
    Qed.
  End SubProofs.


  (* ---------- the trace of one level, whatever the outcome ---------- *)
  Definition insp_events (path : list str) (insps : list inspection) : list event :=
    flat_map (insp_event path) insps.

  (* [early]: the run stopped before any link file was read and before anything else happened *)
  Definition early (w w' : World) (tr : list event) : Prop := tr = [] /\ w' = w.

  Inductive level_trace (rec : verifier) w path d layout_env keys params inter (w' : World) (tr : list event) : Prop :=
  | LT_early : early w w' tr -> level_trace rec w path d layout_env keys params inter w' tr
  | LT_loaded (layout0 layout : layout)
      (lt_sigs : verify_layout_signatures vsig layout_env keys = Ok tt)
      (lt_payload : get_layout layout_env = Ok layout0)
      (lt_expiry : expiry_ok (l_expires layout0) = true)
      (lt_subst : subst layout0 params = Ok layout)
      (lt_certs : certs_ok layout inter = true) :
      (tr = [EvLoadLinks path] /\ w' = w) \/
      (exists loaded verified added n,
          load_all layout (ld_files d) = Ok loaded /\
          verify_thresholds layout inter loaded = Ok verified /\
          tr = [EvLoadLinks path] ++ added ++ insp_events path (firstn n (l_inspect layout)) /\
          Forall (justified_enter_m path verified) added /\
          ((n > 0)%nat -> exists resolved w2 tr2 reduced rl,
              sub_steps rec layout path d inter verified w [EvLoadLinks path] = (Ok resolved, w2, tr2) /\
              cmd_alignment (l_steps layout) resolved = Ok tt /\
              reduce_steps (l_steps layout) resolved [] = Ok reduced /\ env_links reduced = Ok rl /\
              verify_rules (map step_item (l_steps layout)) rl = Ok tt)) ->
      level_trace rec w path d layout_env keys params inter w' tr.

  Ltac fail_branch := simpl; let H := fresh in intro H; inversion H; subst; clear H.

  Theorem verify_body_trace rec w path d layout_env keys step_name params inter x w' tr :
    (forall w p dd e ks sn ps it x w' tr, rec w p dd e ks sn ps it = (x, w', tr) -> Forall (below p) tr) ->
    verify_body rec w path d layout_env keys step_name params inter = (x, w', tr) ->
    level_trace rec w path d layout_env keys params inter w' tr.
  Proof.
    intros Hrec. unfold Pipeline.verify_body.
    destruct (verify_layout_signatures vsig layout_env keys) as [[]|c|p] eqn:Hsig;
      [| fail_branch; apply LT_early; split; reflexivity ..].
    destruct (get_layout layout_env) as [l0|c|p] eqn:Hpl; [| fail_branch; apply LT_early; split; reflexivity ..].
    destruct (expiry_ok (l_expires l0)) eqn:Hexp; [| fail_branch; apply LT_early; split; reflexivity].
    destruct (subst l0 params) as [l|c|p] eqn:Hsub; [| fail_branch; apply LT_early; split; reflexivity ..].
    destruct (certs_ok l inter) eqn:Hc; [| fail_branch; apply LT_early; split; reflexivity].
    destruct (load_all l (ld_files d)) as [loaded|c|p] eqn:Hload;
      [| fail_branch; eapply LT_loaded; try eassumption; left; split; reflexivity ..].
    destruct (verify_thresholds l inter loaded) as [verified|c|p] eqn:Hth;
      [| fail_branch; eapply LT_loaded; try eassumption; left; split; reflexivity ..].
    unfold Pipeline.after_thresholds.
    destruct (sub_steps rec l path d inter verified w [EvLoadLinks path]) as [[y w2] tr2] eqn:Hss.
    pose proof (sub_steps_events rec l path d inter Hrec _ _ _ _ _ _ Hss) as [added [Htr2 Hadded]].
    assert (Hno_insp : forall (y0 : res env) w0, (y0, w0, tr2) = (x, w', tr) ->
              level_trace rec w path d layout_env keys params inter w' tr).
    { intros y0 w0 H; inversion H; subst. eapply LT_loaded; try eassumption. right.
      exists loaded, verified, added, O. split; [exact Hload|]. split; [exact Hth|].
      split; [simpl; rewrite app_nil_r; reflexivity|]. split; [exact Hadded | lia]. }
    destruct y as [resolved|c|p]; [| simpl; apply Hno_insp ..].
    destruct (cmd_alignment (l_steps l) resolved) as [[]|c|p] eqn:Hal; [| simpl; apply Hno_insp ..].
    destruct (reduce_steps (l_steps l) resolved []) as [reduced|c|p] eqn:Hred; [| simpl; apply Hno_insp ..].
    destruct (env_links reduced) as [rl|c|p] eqn:Hel; [| simpl; apply Hno_insp ..].
    destruct (verify_rules (map step_item (l_steps l)) rl) as [[]|c|p] eqn:Hr1; [| simpl; apply Hno_insp ..].
    destruct (run_inspections path _ w2 (l_inspect l) [] tr2) as [z tr3] eqn:Hin.
    pose proof (run_inspections_trace_ext _ _ _ _ _ _ _ _ Hin) as [n Hn].
    assert (Hinsp : forall (y0 : res env) w0, (y0, w0, tr3) = (x, w', tr) ->
              level_trace rec w path d layout_env keys params inter w' tr).
    { intros y0 w0 H; inversion H; subst. eapply LT_loaded; try eassumption. right.
      exists loaded, verified, added, n. split; [exact Hload|]. split; [exact Hth|].
      split; [unfold insp_events; rewrite <- app_assoc; reflexivity|]. split; [exact Hadded|].
      intros _. exists resolved, w2, ([EvLoadLinks path] ++ added), reduced, rl. auto. }
    destruct z as [[imeta w3]|c|p]; [| simpl; apply Hinsp ..].
    destruct (verify_rules (map insp_item (l_inspect l)) (merge_steps rl imeta)) as [[]|c|p]; [| simpl; apply Hinsp ..].
    destruct (get_summary pbytes l reduced step_name _) as [s0|c|p]; [| simpl; apply Hinsp ..].
    apply Hinsp.
  Qed.

  (* all events of a verification lie at or below its link directory *)
  Lemma verify_body_below rec :
    (forall w p dd e ks sn ps it x w' tr, rec w p dd e ks sn ps it = (x, w', tr) -> Forall (below p) tr) ->
    forall w p dd e ks sn ps it x w' tr, verify_body rec w p dd e ks sn ps it = (x, w', tr) -> Forall (below p) tr.
  Proof.
    intros Hrec w p dd e ks sn ps it x w' tr H.
    apply (verify_body_trace rec _ _ _ _ _ _ _ _ _ _ _ Hrec) in H.
    destruct H as [[-> _]|l0 l Hs Hp He Hsu Hc [[-> _]|[loaded [verified [added [n [_ [_ [-> [Hadd _]]]]]]]]]].
    - constructor.
    - repeat constructor. exists []. simpl. rewrite app_nil_r. reflexivity.
    - apply Forall_app; split; [repeat constructor; exists []; simpl; rewrite app_nil_r; reflexivity|].
      apply Forall_app; split.
      + eapply Forall_impl; [|exact Hadd]. intros ev [[q [_ Hq]]|[sn' [ls [k [e' [-> _]]]]]]; [exists q; exact Hq|].
        exists []. simpl. rewrite app_nil_r. reflexivity.
      + unfold insp_events. apply Forall_forall. intros ev Hin. apply in_flat_map in Hin as [i [_ Hi]].
        unfold insp_event in Hi. destruct (is_nil (i_run i)); [contradiction|]. destruct Hi as [<-|[]].
        exists []. simpl. rewrite app_nil_r. reflexivity.
  Qed.

  Theorem verify_below fuel : forall w p dd e ks sn ps it x w' tr,
    verify fuel w p dd e ks sn ps it = (x, w', tr) -> Forall (below p) tr.
  Proof.
    induction fuel as [|f IH].
    - simpl. intros w p dd e ks sn ps it x w' tr H; inversion H; subst. constructor.
    - rewrite verify_unfold. apply verify_body_below. exact IH.
  Qed.

  Corollary verify_trace fuel w path d layout_env keys step_name params inter x w' tr :
    verify (S fuel) w path d layout_env keys step_name params inter = (x, w', tr) ->
    level_trace (verify fuel) w path d layout_env keys params inter w' tr.
  Proof. rewrite verify_unfold. apply verify_body_trace. apply verify_below. Qed.

  Corollary verify_ok_inv fuel w path d layout_env keys step_name params inter s w' tr :
    verify (S fuel) w path d layout_env keys step_name params inter = (Ok s, w', tr) ->
    stages (verify fuel) w path d layout_env keys step_name params inter s w' tr.
  Proof. rewrite verify_unfold. apply verify_body_ok_inv. Qed.


  (* ---------- reduce_step does not depend on which link comes first ---------- *)
  Definition all_links_wf (links : amap env) : Prop := forall k e l, In (k, e) links -> env_link e = Ok l -> wf_link l.

  Lemma agrees_switch ref ref' e : (exists e0, agrees ref e0 /\ env_link e0 = Ok ref') -> agrees ref e -> agrees ref' e.
  Proof.
    intros [e0 [[l0 [El0 [M0 P0]]] Er']] [l [El [M P]]]. rewrite Er' in El0. inversion El0; subst l0.
    exists l. split; [exact El|]. split.
    - eapply artifacts_eqb_trans; [exact M|]. rewrite artifacts_eqb_sym. exact M0.
    - eapply artifacts_eqb_trans; [exact P|]. rewrite artifacts_eqb_sym. exact P0.
  Qed.

  Theorem reduce_step_is_ok_iff links : all_links_wf links ->
    (is_ok (reduce_step links) = true <->
     links <> [] /\ ((length links >= 2)%nat ->
        exists ref, (exists k e, In (k, e) links /\ env_link e = Ok ref) /\ forall k e, In (k, e) links -> agrees ref e)).
  Proof.
    intro Hwf. split.
    - destruct (reduce_step links) as [e|c|p] eqn:Hr; simpl; try discriminate. intros _.
      destruct (reduce_step_ok _ _ Hr) as [[k Hin] Hall]. split; [intro; subst; contradiction|].
      intro Hlen. destruct (Hall Hlen) as [ref [El Hag]]. exists ref. split; [exists k, e; auto | exact Hag].
    - intros [Hne Hall]. destruct links as [|p0 r]; [congruence|].
      destruct r as [|q r]; [destruct p0; reflexivity|].
      destruct (Hall ltac:(simpl; lia)) as [ref [[k [e [Hin El]]] Hag]].
      pose proof (min_entry_in p0 (q :: r)) as Hm. destruct (min_entry p0 (q :: r)) as [km em] eqn:Em.
      destruct (Hag km em Hm) as [lm [Elm [Mm Pm]]].
      destruct (reduce_step_complete (p0 :: q :: r) lm) as [e' He'].
      + simpl; lia.
      + intros p1 r1 Heq. inversion Heq; subst. rewrite Em. exact Elm.
      + intros k' e' Hin'. eapply agrees_switch; [|apply (Hag k' e' Hin')].
        exists em. split; [|exact Elm]. exists lm. auto.
      + rewrite He'. reflexivity.
  Qed.

  Theorem reduce_step_perm links links' : all_links_wf links -> Permutation links links' ->
    is_ok (reduce_step links) = is_ok (reduce_step links').
  Proof.
    intros Hwf Hp.
    assert (Hwf' : all_links_wf links') by (intros k e l Hin; apply (Hwf k e l); eapply Permutation_in; [apply Permutation_sym, Hp | exact Hin]).
    assert (Himp : forall a b, all_links_wf a -> Permutation a b -> is_ok (reduce_step a) = true -> is_ok (reduce_step b) = true).
    { intros a b Ha Hab H. assert (Hb : all_links_wf b) by (intros k e l Hin; apply (Ha k e l); eapply Permutation_in; [apply Permutation_sym, Hab | exact Hin]).
      apply (reduce_step_is_ok_iff b Hb). apply (reduce_step_is_ok_iff a Ha) in H as [Hne Hall]. split.
      - intro; subst. apply Permutation_sym, Permutation_nil in Hab. contradiction.
      - rewrite <- (Permutation_length Hab). intro Hlen. destruct (Hall Hlen) as [ref [[k [e [Hin El]]] Hag]].
        exists ref. split; [exists k, e; split; [eapply Permutation_in; eassumption | exact El]|].
        intros k' e' Hin'. apply (Hag k' e'). eapply Permutation_in; [apply Permutation_sym, Hab | exact Hin']. }
    destruct (is_ok (reduce_step links)) eqn:E1; destruct (is_ok (reduce_step links')) eqn:E2; try reflexivity.
    - rewrite (Himp _ _ Hwf Hp E1) in E2. discriminate.
    - rewrite (Himp _ _ Hwf' (Permutation_sym Hp) E2) in E1. discriminate.
  Qed.

  (* with the deterministic choice of the reference the very same link is returned for every order *)
  Theorem reduce_step_perm_eq links links' e : NoDup (map fst links) -> all_links_wf links -> Permutation links links' ->
    reduce_step links = Ok e -> reduce_step links' = Ok e.
  Proof.
    intros Hnd Hwf Hp H.
    assert (Hok : is_ok (reduce_step links') = true) by (rewrite <- (reduce_step_perm _ _ Hwf Hp), H; reflexivity).
    destruct (reduce_step links') as [e'|c|pp] eqn:H'; try discriminate. f_equal.
    destruct links as [|[pk pe] [|q r]].
    - discriminate.
    - apply Permutation_length_1_inv in Hp. subst. rewrite H in H'. inversion H'; reflexivity.
    - destruct links' as [|[pk' pe'] [|q' r']];
        [apply Permutation_sym, Permutation_nil in Hp; discriminate
        | apply Permutation_length in Hp; simpl in Hp; lia |].
      unfold reduce_step in H, H'. cbv zeta in H, H'.
      rewrite (min_entry_perm (pk, pe) (q :: r) (pk', pe') (q' :: r') Hnd Hp) in H.
      destruct (env_link (snd (min_entry (pk', pe') (q' :: r')))) as [ref|c|pp2]; cbn [rbind] in H, H'; try discriminate.
      destruct (all_agree ref ((pk, pe) :: q :: r)) as [[]|c|pp2]; cbn [rbind] in H; try discriminate.
      destruct (all_agree ref ((pk', pe') :: q' :: r')) as [[]|c|pp2]; cbn [rbind] in H'; try discriminate.
      inversion H; inversion H'; subst. reflexivity.
  Qed.

  Lemma verify_layout_signatures_perm e keys keys' :
    Permutation keys keys' -> verify_layout_signatures vsig e keys = verify_layout_signatures vsig e keys'.
  Proof.
    intro Hp. unfold verify_layout_signatures.
    destruct keys as [|p r]; [apply Permutation_nil in Hp; subst; reflexivity|].
    destruct keys' as [|p' r']; [apply Permutation_sym, Permutation_nil in Hp; discriminate|].
    destruct (all_keys_verify_cases e (p :: r)) as [H1|H1]; destruct (all_keys_verify_cases e (p' :: r')) as [H2|H2];
      rewrite H1, H2; try reflexivity; exfalso.
    - pose proof (proj1 (all_keys_verify_ok e (p :: r)) H1) as G1. assert (all_keys_verify vsig e (p' :: r') = Ok tt).
      { apply all_keys_verify_ok. intros id k Hin. apply (G1 id k). eapply Permutation_in; [apply Permutation_sym, Hp | exact Hin]. }
      congruence.
    - pose proof (proj1 (all_keys_verify_ok e (p' :: r')) H2) as G2. assert (all_keys_verify vsig e (p :: r) = Ok tt).
      { apply all_keys_verify_ok. intros id k Hin. apply (G2 id k). eapply Permutation_in; [exact Hp | exact Hin]. }
      congruence.
  Qed.

  (* ---------- an Enter event of this level names a verified, layout-typed link ---------- *)
  Lemma enter_justified path verified added s k :
    Forall (justified_enter_m path verified) added -> In (EvEnterSublayout path s k) added ->
    exists links e, In (s, links) verified /\ In (k, e) links /\ env_is_layout e = true.
  Proof.
    intros Hall Hin. rewrite Forall_forall in Hall. destruct (Hall _ Hin) as [[q [Hq Hd]]|[s' [ls [k' [e [Heq [H1 [H2 H3]]]]]]]].
    - simpl in Hd. exfalso. apply Hq. apply (f_equal (@length str)) in Hd. rewrite app_length in Hd.
      destruct q; [reflexivity | simpl in Hd; lia].
    - inversion Heq; subst. eauto.
  Qed.

  Lemma no_insp_in_added path verified added n :
    Forall (justified_enter_m path verified) added -> ~ In (EvRunInspection path n) added.
  Proof.
    intros Hall Hin. rewrite Forall_forall in Hall. destruct (Hall _ Hin) as [[q [Hq Hd]]|[s' [ls [k' [e [Heq _]]]]]].
    - simpl in Hd. apply Hq. apply (f_equal (@length str)) in Hd. rewrite app_length in Hd.
      destruct q; [reflexivity | simpl in Hd; lia].
    - discriminate.
  Qed.

  Lemma subs_rel_all_ok rec L path d inter w m w' r :
    subs_rel rec L path d inter w m w' r ->
    forall sname links kid e, In (sname, links) m -> In (kid, e) links -> env_is_layout e = true ->
      exists w0 summary w1 tr1, sub_call rec L path d inter sname kid e w0 = (Ok summary, w1, tr1).
  Proof.
    induction 1 as [w|w sn ls w1 ls' r0 w' r' Hs Hr IH]; intros sname links kid e Hin Hin2 Hlay.
    - contradiction.
    - destruct Hin as [Heq|Hin].
      + inversion Heq; subst. eapply sub_rel_all_ok; eassumption.
      + eapply IH; eassumption.
  Qed.


  (* ---------- the fuel is not observable once it exceeds the depth of the link directory tree ---------- *)
  Definition no_layout_links (m : amap (amap env)) : Prop :=
    forall s links k e, In (s, links) m -> In (k, e) links -> env_is_layout e = false.

  Lemma sub_links_no_layout rec L path d inter sname links w tr :
    (forall k e, In (k, e) links -> env_is_layout e = false) ->
    sub_links rec L path d inter sname links w tr = (Ok links, w, tr).
  Proof.
    induction links as [|[k e] r IH]; intro H; simpl; [reflexivity|].
    rewrite (H k e (or_introl eq_refl)). rewrite IH by (intros k' e' Hin; apply (H k' e'); right; exact Hin). reflexivity.
  Qed.

  Lemma sub_steps_no_layout rec L path d inter m w tr :
    no_layout_links m -> sub_steps rec L path d inter m w tr = (Ok m, w, tr).
  Proof.
    revert w tr. induction m as [|[sn links] r IH]; intros w tr H; simpl; [reflexivity|].
    rewrite sub_links_no_layout by (intros k e Hin; apply (H sn links k e); [left; reflexivity | exact Hin]).
    rewrite IH by (intros s' l' k e H1 H2; apply (H s' l' k e); [right; exact H1 | exact H2]). reflexivity.
  Qed.

  (* two verifiers that agree on every sub-directory of d resolve the sublayouts of d alike *)
  Definition agree_below (rec1 rec2 : verifier) (d : linkdir) : Prop :=
    forall dirn w p e ks sn ps it, rec1 w p (lookup_subdir d dirn) e ks sn ps it = rec2 w p (lookup_subdir d dirn) e ks sn ps it.

  Lemma sub_links_ext rec1 rec2 L path d inter sname links w tr :
    agree_below rec1 rec2 d ->
    sub_links rec1 L path d inter sname links w tr = sub_links rec2 L path d inter sname links w tr.
  Proof.
    intro Hag. revert w tr. induction links as [|[k e] r IH]; intros w tr; simpl; [reflexivity|].
    destruct (env_is_layout e).
    - rewrite (Hag (sublayout_dir sname k)).
      destruct (rec2 w _ _ e _ sname [] inter) as [[[summary|c|p] w1] tr1]; try reflexivity. rewrite IH. reflexivity.
    - rewrite IH. reflexivity.
  Qed.

  Lemma sub_steps_ext rec1 rec2 L path d inter m w tr :
    agree_below rec1 rec2 d ->
    sub_steps rec1 L path d inter m w tr = sub_steps rec2 L path d inter m w tr.
  Proof.
    intro Hag. revert w tr. induction m as [|[sn links] r IH]; intros w tr; simpl; [reflexivity|].
    rewrite (sub_links_ext rec1 rec2 _ _ _ _ _ _ _ _ Hag).
    destruct (sub_links rec2 L path d inter sn links w tr) as [[[links'|c|p] w1] tr1]; try reflexivity. rewrite IH. reflexivity.
  Qed.

  Lemma verify_body_ext rec1 rec2 w path d layout_env keys step_name params inter :
    agree_below rec1 rec2 d ->
    verify_body rec1 w path d layout_env keys step_name params inter = verify_body rec2 w path d layout_env keys step_name params inter.
  Proof.
    intro Hag. unfold Pipeline.verify_body.
    destruct (verify_layout_signatures vsig layout_env keys); try reflexivity.
    destruct (get_layout layout_env) as [l0|c|p]; try reflexivity.
    destruct (expiry_ok (l_expires l0)); try reflexivity.
    destruct (subst l0 params) as [l|c|p]; try reflexivity.
    destruct (certs_ok l inter); try reflexivity.
    destruct (load_all l (ld_files d)) as [loaded|c|p]; try reflexivity.
    destruct (verify_thresholds l inter loaded) as [verified|c|p]; try reflexivity.
    unfold Pipeline.after_thresholds. rewrite (sub_steps_ext rec1 rec2 _ _ _ _ _ _ _ Hag). reflexivity.
  Qed.

  (* what the threshold stage must guarantee for the bound to hold: from an empty directory no layout-typed
     link is counted (model/Threshold.v: every counted link was loaded from a listed file) *)
  Definition empty_dir_no_layouts : Prop :=
    forall l inter loaded verified, load_all l [] = Ok loaded -> verify_thresholds l inter loaded = Ok verified ->
      no_layout_links verified.

  Lemma verify_body_empty_dir rec1 rec2 w path layout_env keys step_name params inter :
    empty_dir_no_layouts ->
    verify_body rec1 w path (LinkDir [] []) layout_env keys step_name params inter =
    verify_body rec2 w path (LinkDir [] []) layout_env keys step_name params inter.
  Proof.
    intro He. unfold Pipeline.verify_body.
    destruct (verify_layout_signatures vsig layout_env keys); try reflexivity.
    destruct (get_layout layout_env) as [l0|c|p]; try reflexivity.
    destruct (expiry_ok (l_expires l0)); try reflexivity.
    destruct (subst l0 params) as [l|c|p]; try reflexivity.
    destruct (certs_ok l inter); try reflexivity.
    simpl ld_files.
    destruct (load_all l []) as [loaded|c|p] eqn:Hl; try reflexivity.
    destruct (verify_thresholds l inter loaded) as [verified|c|p] eqn:Ht; try reflexivity.
    unfold Pipeline.after_thresholds. rewrite !sub_steps_no_layout by (eapply He; eassumption). reflexivity.
  Qed.

  Lemma lookup_subdir_depth d dirn :
    lookup_subdir d dirn = LinkDir [] [] \/ (ld_depth (lookup_subdir d dirn) < ld_depth d)%nat.
  Proof.
    unfold lookup_subdir. destruct d as [files subs]. simpl ld_subdirs.
    induction subs as [|[n x] r IH]; simpl; [left; reflexivity|].
    destruct (str_eqb n dirn).
    - right. simpl. lia.
    - destruct IH as [IH|IH]; [left; exact IH | right]. simpl in *. lia.
  Qed.

  Theorem verify_fuel_stable : empty_dir_no_layouts ->
    forall f1 f2 d, (ld_depth d < f1)%nat -> (ld_depth d < f2)%nat ->
    forall w path layout_env keys step_name params inter,
      verify f1 w path d layout_env keys step_name params inter = verify f2 w path d layout_env keys step_name params inter.
  Proof.
    intro He. induction f1 as [|f1 IH]; intros f2 d H1 H2; [lia|].
    destruct f2 as [|f2]; [lia|]. intros w path layout_env keys step_name params inter.
    rewrite !verify_unfold. apply verify_body_ext. intros dirn w' p e ks sn ps it.
    assert (Hd : (1 <= ld_depth d)%nat) by (destruct d; simpl; lia).
    destruct (lookup_subdir_depth d dirn) as [Hempty|Hlt].
    - rewrite Hempty. destruct f1 as [|f1']; [lia|]. destruct f2 as [|f2']; [lia|].
      rewrite !verify_unfold. apply verify_body_empty_dir. exact He.
    - apply IH; lia.
  Qed.


  (* ---------- the whole pipeline does not depend on the order of the verifier's key map and of the parameter map ---------- *)
  Theorem verify_perm_keys_params fuel w path d layout_env keys keys' step_name params params' inter :
    Permutation keys keys' -> (forall l, subst l params = subst l params') ->
    verify fuel w path d layout_env keys step_name params inter = verify fuel w path d layout_env keys' step_name params' inter.
  Proof.
    intros Hk Hs. destruct fuel as [|f]; [reflexivity|]. rewrite !verify_unfold. unfold Pipeline.verify_body.
    rewrite (verify_layout_signatures_perm layout_env keys keys' Hk).
    destruct (verify_layout_signatures vsig layout_env keys'); try reflexivity.
    destruct (get_layout layout_env) as [l0|c|p]; try reflexivity.
    destruct (expiry_ok (l_expires l0)); try reflexivity. rewrite (Hs l0). reflexivity.
  Qed.


  (* ---------- merging the reduced step links into the inspection links: as a map, independent of the order ---------- *)
  Lemma merge_steps_lookup reduced acc n : NoDup (map fst reduced) ->
    alookup (merge_steps reduced acc) n = match alookup reduced n with Some l => Some l | None => alookup acc n end.
  Proof.
    revert acc. induction reduced as [|[k l] r IH]; intros acc Hnd; simpl; [reflexivity|].
    inversion Hnd as [|? ? Hk Hnd']; subst. rewrite (IH _ Hnd').
    destruct (str_eqb_spec n k) as [->|Hne].
    - rewrite (alookup_notin r k Hk). apply ainsert_lookup_same.
    - destruct (alookup r n); [reflexivity|]. apply ainsert_lookup_other. exact Hne.
  Qed.

  Theorem merge_steps_perm reduced reduced' acc n : NoDup (map fst reduced) -> Permutation reduced reduced' ->
    alookup (merge_steps reduced acc) n = alookup (merge_steps reduced' acc) n.
  Proof.
    intros Hnd Hp.
    assert (Hnd' : NoDup (map fst reduced')) by (eapply Permutation_NoDup; [apply Permutation_map, Hp | exact Hnd]).
    rewrite !merge_steps_lookup by assumption. rewrite (alookup_perm reduced reduced' n Hnd Hp). reflexivity.
  Qed.


  (* ---------- every resolved entry stems from the verified entry with the same step name and key id ---------- *)
  Lemma sub_rel_entry rec L path d inter sname w links w' r :
    sub_rel rec L path d inter sname w links w' r ->
    forall k e', In (k, e') r ->
      exists e, In (k, e) links /\ ((e' = e /\ env_is_layout e = false) \/ env_is_layout e = true).
  Proof.
    induction 1 as [w0|w0 kid e r0 wf rf Hl Hs IH|w0 kid e r0 w1 tr1 summary wf rf Hl Hc Hs IH]; intros k e' Hin.
    - contradiction.
    - destruct Hin as [Heq|Hin].
      + inversion Heq; subst. exists e'. split; [left; reflexivity | left; auto].
      + destruct (IH k e' Hin) as [e0 [H0 H1]]. exists e0. split; [right; exact H0 | exact H1].
    - destruct Hin as [Heq|Hin].
      + inversion Heq; subst. exists e. split; [left; reflexivity | right; exact Hl].
      + destruct (IH k e' Hin) as [e0 [H0 H1]]. exists e0. split; [right; exact H0 | exact H1].
  Qed.

  Lemma subs_rel_entry rec L path d inter w m w' r :
    subs_rel rec L path d inter w m w' r ->
    forall s links' k e', In (s, links') r -> In (k, e') links' ->
      exists links e, In (s, links) m /\ In (k, e) links /\ ((e' = e /\ env_is_layout e = false) \/ env_is_layout e = true).
  Proof.
    induction 1 as [w0|w0 sn ls w1 ls' r0 wf rf Hs Hr IH]; intros s links' k e' Hin Hin2.
    - contradiction.
    - destruct Hin as [Heq|Hin].
      + inversion Heq; subst. destruct (sub_rel_entry _ _ _ _ _ _ _ _ _ _ Hs k e' Hin2) as [e [H0 H1]].
        exists ls, e. split; [left; reflexivity | split; assumption].
      + destruct (IH s links' k e' Hin Hin2) as [links [e [H0 [H1 H2]]]]. exists links, e. split; [right; exact H0 | split; assumption].
  Qed.


  (* ---------- completeness of one level: if every stage succeeds, so does the verification ---------- *)
  Theorem verify_body_complete rec w path d layout_env keys step_name params inter s w' tr :
    stages rec w path d layout_env keys step_name params inter s w' tr ->
    verify_body rec w path d layout_env keys step_name params inter = (Ok s, w', tr).
  Proof.
    intros [l0 l loaded verified resolved reduced rl imeta w2 tr2 Hs Hp He Hsu Hc Hl Ht Hss Hal Hred Hel Hr1 Hin Hr2 Hsum].
    unfold Pipeline.verify_body. rewrite Hs, Hp, He, Hsu, Hc, Hl, Ht.
    unfold Pipeline.after_thresholds. rewrite Hss, Hal, Hred, Hel, Hr1, Hin, Hr2, Hsum. reflexivity.
  Qed.

  Corollary verify_ok_iff_stages fuel w path d layout_env keys step_name params inter s w' tr :
    verify (S fuel) w path d layout_env keys step_name params inter = (Ok s, w', tr) <->
    stages (verify fuel) w path d layout_env keys step_name params inter s w' tr.
  Proof. rewrite verify_unfold. split; [apply verify_body_ok_inv | apply verify_body_complete]. Qed.

End P.
