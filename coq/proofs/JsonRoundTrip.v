(* JsonRoundTrip.v — the recursive-descent parser undoes the plain encoder, for
   any pair (escaper, string-body parser) that are inverse on the strings in
   question.  Instances: parse_canon after canon, std_parse after canon (no
   control characters) and after encode_std_sorted. *)
From IT Require Import model.Json spec.JsonSpec proofs.JsonOrder proofs.JsonNum proofs.JsonStr proofs.JsonProofs.

Fixpoint jdepth (v : jv) : nat :=
  match v with
  | JArr l => S (fold_right (fun x a => Nat.max (jdepth x) a) 0%nat l)
  | JObj m => S ((fix go (m : list (str * jv)) : nat :=
                    match m with [] => 0%nat | (k, x) :: m' => Nat.max (jdepth x) (go m') end) m)
  | _ => 0%nat
  end.

Lemma jdepth_obj m : jdepth (JObj m) = S (fold_right (fun kx a => Nat.max (jdepth (snd kx)) a) 0%nat m).
Proof.
  cbn [jdepth]. f_equal. induction m as [|[k x] m IH]; [reflexivity|]. cbn [fold_right snd]. rewrite IH. reflexivity.
Qed.

Lemma jdepth_arr_in l x : In x l -> (jdepth x < jdepth (JArr l))%nat.
Proof.
  cbn [jdepth]. induction l as [|y l IH]; intro H; [destruct H|].
  cbn [fold_right]. destruct H as [->|H]; [lia|]. specialize (IH H). lia.
Qed.

Lemma jdepth_obj_in m kx : In kx m -> (jdepth (snd kx) < jdepth (JObj m))%nat.
Proof.
  rewrite jdepth_obj. induction m as [|y m IH]; intro H; [destruct H|].
  cbn [fold_right]. destruct H as [->|H]; [lia|]. specialize (IH H). lia.
Qed.

Lemma term_ok_44 r : term_ok (44 :: r). Proof. simpl. auto. Qed.
Lemma term_ok_93 r : term_ok (93 :: r). Proof. simpl. auto. Qed.
Lemma term_ok_125 r : term_ok (125 :: r). Proof. simpl. auto. Qed.
Lemma term_ok_nil : term_ok []. Proof. exact I. Qed.

Lemma scan_number_first s l r : scan_number s = Some (l, r) ->
  exists c s', s = c :: s' /\ (c =? 45) || is_digit c = true.
Proof.
  destruct s as [|c s']; [discriminate|]. intro H. exists c, s'. split; [reflexivity|].
  destruct (c =? 45) eqn:E; [reflexivity|]. cbn [orb].
  unfold scan_number, scan_sign in H. rewrite E in H. cbn [span_digits] in H.
  destruct (is_digit c); [reflexivity|]. discriminate.
Qed.

Definition outcome {A} (ok : bool) (a : A) : res A := if ok then Ok a else Err E_SYNTAX.

Section RoundTrip.
  Variable esc : str -> str.
  Variable pstr : str -> res (str * str).
  Variable ws : bool.
  Variable P Q : str -> bool.
  (* on the strings in question (Q) the body parser returns the string when P
     holds and refuses the text otherwise *)
  Hypothesis Hstr : forall s rest, Q s = true -> pstr (esc s ++ 34 :: rest) = outcome (P s) (s, rest).

  Notation enc := (genc esc).
  Notation PV := (pval pstr ws).
  Notation G := (all_strs P).

  Lemma sk_nonws c r : is_ws c = false -> sk ws (c :: r) = c :: r.
  Proof. intro H. unfold sk. destruct ws; [|reflexivity]. cbn [skip_ws]. rewrite H. reflexivity. Qed.

  (* first character of an encoding *)
  Definition head_ok (c : N) : Prop := is_ws c = false /\ c <> 93 /\ c <> 125.

  Lemma digit_or_minus_head c : (c =? 45) || is_digit c = true -> head_ok c.
  Proof.
    intro H. apply orb_true_iff in H as [H|H].
    - apply N.eqb_eq in H. subst c. repeat split; discriminate.
    - apply is_digit_range in H. unfold head_ok, is_ws.
      repeat split; try lia.
      assert (E1 : (c =? 32) = false) by (apply N.eqb_neq; lia).
      assert (E2 : (c =? 9) = false) by (apply N.eqb_neq; lia).
      assert (E3 : (c =? 10) = false) by (apply N.eqb_neq; lia).
      assert (E4 : (c =? 13) = false) by (apply N.eqb_neq; lia).
      rewrite E1, E2, E3, E4. reflexivity.
  Qed.

  Lemma enc_head v : jv_wf v = true -> exists c r, enc v = c :: r /\ head_ok c.
  Proof.
    destruct v as [|b|z|lit|s|l|m]; intro Hwf.
    - exists 110, [117; 108; 108]. repeat split; discriminate.
    - destruct b; [exists 116, [114; 117; 101] | exists 102, [97; 108; 115; 101]]; repeat split; discriminate.
    - destruct (show_Z_first z) as [c [r [E Hc]]]. exists c, r. split; [exact E | apply digit_or_minus_head; exact Hc].
    - cbn [jv_wf] in Hwf. unfold float_lit_ok in Hwf.
      destruct (scan_number lit) as [[l r]|] eqn:E; [|discriminate].
      destruct (scan_number_first _ _ _ E) as [c [s' [-> Hc]]]. exists c, s'. split; [reflexivity | apply digit_or_minus_head; exact Hc].
    - exists 34, (esc s ++ [34]). repeat split; discriminate.
    - rewrite genc_arr. eexists 91, _. repeat split; discriminate.
    - rewrite genc_obj. eexists 123, _. repeat split; discriminate.
  Qed.

  Lemma enc_nonempty v : jv_wf v = true -> (1 <= length (enc v))%nat.
  Proof. intro H. destruct (enc_head v H) as [c [r [E _]]]. rewrite E. simpl. lia. Qed.

  (* ---- dispatch of pval on the first character ---- *)

  Lemma pval_num c r f : (c =? 45) || is_digit c = true ->
    PV (S f) (c :: r) = match scan_number (c :: r) with
                        | Some (lit, rest) => Ok (num_of_lit lit, rest)
                        | None => Err E_SYNTAX
                        end.
  Proof.
    intro H. destruct (digit_or_minus_head c H) as [Hws _].
    cbn [pval]. rewrite (sk_nonws c r Hws).
    assert (R : c = 45 \/ 48 <= c <= 57).
    { apply orb_true_iff in H as [H|H]; [left; apply N.eqb_eq; exact H | right; apply is_digit_range; exact H]. }
    assert (E1 : (c =? 34) = false) by (apply N.eqb_neq; lia).
    assert (E2 : (c =? 123) = false) by (apply N.eqb_neq; lia).
    assert (E3 : (c =? 91) = false) by (apply N.eqb_neq; lia).
    assert (E4 : (c =? 116) = false) by (apply N.eqb_neq; lia).
    assert (E5 : (c =? 110) = false) by (apply N.eqb_neq; lia).
    assert (E6 : (c =? 102) = false) by (apply N.eqb_neq; lia).
    rewrite E1, E2, E3, E4, E5, E6, H. reflexivity.
  Qed.

  Lemma pval_lit_number lit rest f : term_ok rest -> scan_number lit = Some (lit, []) ->
    PV (S f) (lit ++ rest) = Ok (num_of_lit lit, rest).
  Proof.
    intros Ht Hs. destruct (scan_number_first _ _ _ Hs) as [c [s' [E Hc]]].
    pose proof (scan_number_app _ _ _ _ Ht Hs) as Ha. cbn [app] in Ha.
    subst lit. cbn [app]. rewrite pval_num by exact Hc.
    change (c :: s' ++ rest) with ((c :: s') ++ rest). rewrite Ha. reflexivity.
  Qed.

  Lemma pval_str s rest f : Q s = true -> PV (S f) (quote (esc s) ++ rest) = outcome (P s) (JStr s, rest).
  Proof.
    intro Hq. unfold quote. cbn [app]. rewrite <- app_assoc. cbn [app].
    cbn [pval]. rewrite sk_nonws by reflexivity. change (34 =? 34) with true. cbv iota.
    rewrite Hstr by exact Hq. destruct (P s); reflexivity.
  Qed.

  (* ---- the element and member loops ---- *)

  Lemma pelems_ok (pv : str -> res (jv * str)) : forall l fe rest, l <> [] -> (length l <= fe)%nat ->
    Forall (fun x => forall t, term_ok t -> pv (enc x ++ t) = outcome (G x) (x, t)) l ->
    pelems ws pv fe (sep_concat (map enc l) ++ 93 :: rest) = outcome (forallb G l) (l, rest).
  Proof.
    induction l as [|x l IH]; intros fe rest Hne Hlen Hall; [congruence|].
    destruct fe as [|fe]; [simpl in Hlen; lia|].
    inversion Hall as [|? ? Hx Hl]; subst.
    destruct l as [|y l'].
    - cbn [map sep_concat pelems forallb]. rewrite Hx by apply term_ok_93.
      destruct (G x); [|reflexivity]. cbn [outcome rbind snd fst andb].
      rewrite sk_nonws by reflexivity. change (93 =? 44) with false. change (93 =? 93) with true. reflexivity.
    - assert (E : sep_concat (map enc (x :: y :: l')) ++ 93 :: rest
                  = enc x ++ 44 :: (sep_concat (map enc (y :: l')) ++ 93 :: rest)).
      { cbn [map sep_concat]. rewrite <- app_assoc. reflexivity. }
      rewrite E. cbn [pelems]. rewrite Hx by apply term_ok_44.
      change (forallb G (x :: y :: l')) with (G x && forallb G (y :: l')).
      destruct (G x); [|reflexivity]. cbn [outcome rbind snd fst andb].
      rewrite sk_nonws by reflexivity. change (44 =? 44) with true. cbv iota.
      rewrite IH; [|discriminate | simpl in *; lia | exact Hl].
      destruct (forallb G (y :: l')); reflexivity.
  Qed.

  Lemma member_app k e t : member esc (k, e) ++ t = 34 :: esc k ++ 34 :: 58 :: e ++ t.
  Proof. unfold member, quote. cbn [fst snd app]. rewrite <- !app_assoc. reflexivity. Qed.

  Notation GM := (fun kx : str * jv => P (fst kx) && G (snd kx)).

  Lemma pmembers_ok (pv : str -> res (jv * str)) : forall m fe rest, m <> [] -> (length m <= fe)%nat ->
    Forall (fun kx => Q (fst kx) = true /\ forall t, term_ok t -> pv (enc (snd kx) ++ t) = outcome (G (snd kx)) (snd kx, t)) m ->
    pmembers pstr ws pv fe (sep_concat (map (member esc) (map_snd enc m)) ++ 125 :: rest)
    = outcome (forallb GM m) (m, rest).
  Proof.
    induction m as [|[k x] m IH]; intros fe rest Hne Hlen Hall; [congruence|].
    destruct fe as [|fe]; [simpl in Hlen; lia|].
    inversion Hall as [|? ? [Hk Hx] Hm]; subst. cbn [fst snd] in Hk, Hx.
    destruct m as [|[k2 y] m'].
    - cbn [map_snd map sep_concat fst snd forallb]. rewrite member_app.
      cbn [pmembers]. rewrite sk_nonws by reflexivity. change (34 =? 34) with true. cbv iota.
      rewrite Hstr by exact Hk. destruct (P k); [|reflexivity]. cbn [outcome rbind snd fst andb].
      rewrite sk_nonws by reflexivity. change (58 =? 58) with true. cbv iota.
      rewrite Hx by apply term_ok_125. destruct (G x); [|reflexivity]. cbn [outcome rbind snd fst andb].
      rewrite sk_nonws by reflexivity. change (125 =? 44) with false. change (125 =? 125) with true. reflexivity.
    - assert (E : sep_concat (map (member esc) (map_snd enc ((k, x) :: (k2, y) :: m'))) ++ 125 :: rest
                  = member esc (k, enc x) ++ 44 :: (sep_concat (map (member esc) (map_snd enc ((k2, y) :: m'))) ++ 125 :: rest)).
      { cbn [map_snd map sep_concat fst snd]. rewrite <- app_assoc. reflexivity. }
      rewrite E, member_app.
      change (forallb GM ((k, x) :: (k2, y) :: m')) with (P k && G x && forallb GM ((k2, y) :: m')).
      cbn [pmembers]. rewrite sk_nonws by reflexivity. change (34 =? 34) with true. cbv iota.
      rewrite Hstr by exact Hk. destruct (P k); [|reflexivity]. cbn [outcome rbind snd fst andb].
      rewrite sk_nonws by reflexivity. change (58 =? 58) with true. cbv iota.
      rewrite Hx by apply term_ok_44. destruct (G x); [|reflexivity]. cbn [outcome rbind snd fst andb].
      rewrite sk_nonws by reflexivity. change (44 =? 44) with true. cbv iota.
      rewrite IH; [|discriminate | simpl in *; lia | exact Hm].
      destruct (forallb GM ((k2, y) :: m')); reflexivity.
  Qed.

  (* ---- lengths (loop fuel) ---- *)

  Lemma sep_concat_len (L : list str) : Forall (fun s => (1 <= length s)%nat) L ->
    (length L <= length (sep_concat L))%nat.
  Proof.
    induction 1 as [|s L Hs HL IH]; [simpl; lia|].
    destruct L as [|s2 L']; [cbn [sep_concat length]; lia|].
    change (sep_concat (s :: s2 :: L')) with (s ++ 44 :: sep_concat (s2 :: L')).
    rewrite app_length. change (length (44 :: sep_concat (s2 :: L'))) with (S (length (sep_concat (s2 :: L')))).
    change (length (s :: s2 :: L')) with (S (length (s2 :: L'))). unfold str in *. lia.
  Qed.

  (* ---- the main induction ---- *)

  Lemma pval_enc : forall v, jv_wf v = true -> all_strs Q v = true ->
    forall f rest, (jdepth v < f)%nat -> term_ok rest -> PV f (enc v ++ rest) = outcome (G v) (v, rest).
  Proof.
    induction v using jv_ind'; intros Hwf Hs f rest Hf Ht; (destruct f as [|f]; [lia|]).
    - cbn [pval genc s_null app]. rewrite sk_nonws by reflexivity. reflexivity.
    - destruct b; cbn [pval genc s_true s_false app]; rewrite sk_nonws by reflexivity; reflexivity.
    - cbn [genc]. rewrite (pval_lit_number (show_Z z) rest f Ht (show_Z_scan z)).
      rewrite num_of_lit_show_Z. reflexivity.
    - cbn [genc]. cbn [jv_wf] in Hwf. unfold float_lit_ok in Hwf.
      destruct (scan_number l) as [[l0 r0]|] eqn:E; [|discriminate].
      destruct r0; [|discriminate]. apply andb_true_iff in Hwf as [E1 E2]. apply str_eqb_eq in E1. subst l0.
      rewrite (pval_lit_number l rest f Ht E). cbn [all_strs outcome]. f_equal. f_equal.
      unfold num_of_lit. apply orb_true_iff in E2 as [E2|E2].
      + apply negb_true_iff in E2. rewrite E2. reflexivity.
      + rewrite E2. rewrite andb_false_r. reflexivity.
    - cbn [genc]. apply pval_str. exact Hs.
    - (* array *)
      rewrite genc_arr. cbn [app]. rewrite <- app_assoc. cbn [app].
      cbn [pval]. rewrite sk_nonws by reflexivity.
      change (91 =? 34) with false. change (91 =? 123) with false. change (91 =? 91) with true. cbv iota.
      destruct l as [|x l'].
      + cbn [map sep_concat app]. rewrite sk_nonws by reflexivity. change (93 =? 93) with true. reflexivity.
      + cbn [jv_wf] in Hwf. cbn [all_strs] in Hs. rewrite forallb_forall in Hwf, Hs.
        destruct (enc_head x (Hwf x (or_introl eq_refl))) as [c [r [Ex [Hws [H93 _]]]]].
        assert (Hhead : exists r', sep_concat (map enc (x :: l')) ++ 93 :: rest = c :: r').
        { destruct l' as [|y l'']; cbn [map sep_concat]; rewrite Ex; [|rewrite <- app_assoc]; eexists; reflexivity. }
        destruct Hhead as [r' Er']. rewrite Er'. rewrite sk_nonws by exact Hws.
        assert (E93 : (c =? 93) = false) by (apply N.eqb_neq; exact H93). rewrite E93. rewrite <- Er'.
        rewrite (pelems_ok (PV f)); [|discriminate | |].
        * change (all_strs P (JArr (x :: l'))) with (forallb G (x :: l')).
          destruct (forallb G (x :: l')); reflexivity.
        * rewrite app_length. cbn [length].
          assert (Hl : (length (map enc (x :: l')) <= length (sep_concat (map enc (x :: l'))))%nat).
          { apply sep_concat_len. rewrite Forall_map. apply Forall_forall. intros y Hy. apply enc_nonempty. apply Hwf. exact Hy. }
          rewrite map_length in Hl. change (length (x :: l')) with (S (length l')) in Hl. unfold str in *. lia.
        * rewrite Forall_forall in H. apply Forall_forall. intros y Hy t Ht'.
          apply H; [exact Hy | apply Hwf; exact Hy | apply Hs; exact Hy | | exact Ht'].
          pose proof (jdepth_arr_in _ _ Hy). lia.
    - (* object *)
      rewrite genc_obj. cbn [app]. rewrite <- app_assoc. cbn [app].
      cbn [pval]. rewrite sk_nonws by reflexivity.
      change (123 =? 34) with false. change (123 =? 123) with true. cbv iota.
      destruct m as [|[k x] m'].
      + cbn [map_snd map sep_concat app]. rewrite sk_nonws by reflexivity. change (125 =? 125) with true. reflexivity.
      + rewrite jv_wf_obj in Hwf. rewrite all_strs_obj in Hs. rewrite forallb_forall in Hwf, Hs.
        assert (Hhead : exists r', sep_concat (map (member esc) (map_snd enc ((k, x) :: m'))) ++ 125 :: rest = 34 :: r').
        { destruct m' as [|[k2 y] m'']; cbn [map_snd map sep_concat fst snd]; [|rewrite <- app_assoc];
            rewrite member_app; eexists; reflexivity. }
        destruct Hhead as [r' Er']. rewrite Er'. rewrite sk_nonws by reflexivity.
        change (34 =? 125) with false. cbv iota. rewrite <- Er'.
        rewrite (pmembers_ok (PV f)); [|discriminate | |].
        * rewrite (all_strs_obj P). destruct (forallb GM ((k, x) :: m')); reflexivity.
        * rewrite app_length. cbn [length].
          assert (Hl : (length (map (member esc) (map_snd enc ((k, x) :: m')))
                        <= length (sep_concat (map (member esc) (map_snd enc ((k, x) :: m')))))%nat).
          { apply sep_concat_len. rewrite Forall_map. apply Forall_forall. intros y Hy.
            unfold member, quote. cbn [length app]. lia. }
          rewrite map_length in Hl. unfold map_snd in Hl. rewrite map_length in Hl.
          change (length ((k, x) :: m')) with (S (length m')) in Hl. unfold map_snd, str in *. lia.
        * rewrite Forall_forall in H. apply Forall_forall. intros kx Hkx.
          specialize (Hs kx Hkx). apply andb_true_iff in Hs as [Hk Hx]. split; [exact Hk|].
          intros t Ht'. apply H; [exact Hkx | apply Hwf; exact Hkx | exact Hx | | exact Ht'].
          pose proof (jdepth_obj_in _ _ Hkx). lia.
  Qed.

  (* the encoding is at least as long as the value is deep *)
  Lemma in_sep_concat_len (L : list str) s : In s L -> (length s <= length (sep_concat L))%nat.
  Proof.
    induction L as [|a L IH]; intro H; [destruct H|].
    destruct L as [|b L'].
    - destruct H as [->|[]]. cbn [sep_concat]. lia.
    - change (sep_concat (a :: b :: L')) with (a ++ 44 :: sep_concat (b :: L')).
      rewrite app_length. change (length (44 :: sep_concat (b :: L'))) with (S (length (sep_concat (b :: L')))).
      unfold str in *. destruct H as [->|H]; [lia|]. specialize (IH H). lia.
  Qed.

  Lemma jdepth_le_len v : (jdepth v <= length (enc v))%nat.
  Proof.
    induction v using jv_ind'; try (cbn [jdepth]; lia).
    - rewrite genc_arr. cbn [length]. rewrite app_length. cbn [length jdepth].
      assert (Hm : (fold_right (fun x a => Nat.max (jdepth x) a) 0%nat l <= length (sep_concat (map enc l)))%nat).
      { rewrite Forall_forall in H.
        assert (G0 : forall x, In x l -> (jdepth x <= length (sep_concat (map enc l)))%nat).
        { intros x Hx. specialize (H x Hx). pose proof (in_sep_concat_len (map enc l) (enc x) (in_map enc l x Hx)). lia. }
        clear H. revert G0. generalize (length (sep_concat (map enc l))) as n.
        induction l as [|y l IH]; intros n G0; cbn [fold_right]; [lia|].
        apply Nat.max_lub; [apply G0; left; reflexivity | apply IH; intros x Hx; apply G0; right; exact Hx]. }
      lia.
    - rewrite genc_obj, jdepth_obj. cbn [length]. rewrite app_length. cbn [length].
      assert (Hm : (fold_right (fun kx a => Nat.max (jdepth (snd kx)) a) 0%nat m
                    <= length (sep_concat (map (member esc) (map_snd enc m))))%nat).
      { rewrite Forall_forall in H.
        assert (G0 : forall kx, In kx m -> (jdepth (snd kx) <= length (sep_concat (map (member esc) (map_snd enc m))))%nat).
        { intros kx Hx. specialize (H kx Hx).
          assert (Hin : In (member esc (fst kx, enc (snd kx))) (map (member esc) (map_snd enc m))).
          { apply in_map. unfold map_snd. apply (in_map (fun kx => (fst kx, enc (snd kx)))). exact Hx. }
          pose proof (in_sep_concat_len _ _ Hin) as Hl.
          assert (Hm : (length (enc (snd kx)) <= length (member esc (fst kx, enc (snd kx))))%nat).
          { unfold member. cbn [fst snd]. rewrite app_length. cbn [length]. lia. }
          unfold str in *. lia. }
        clear H. revert G0. generalize (length (sep_concat (map (member esc) (map_snd enc m)))) as n.
        induction m as [|y m IH]; intros n G0; cbn [fold_right]; [lia|].
        apply Nat.max_lub; [apply G0; left; reflexivity | apply IH; intros x Hx; apply G0; right; exact Hx]. }
      lia.
  Qed.

  Theorem gparse_enc v : jv_wf v = true -> all_strs Q v = true ->
    gparse_res pstr ws (enc v) = outcome (G v) v.
  Proof.
    intros Hwf Hs. unfold gparse_res.
    pose proof (pval_enc v Hwf Hs (S (length (enc v))) [] ) as H. rewrite app_nil_r in H.
    rewrite H; [|pose proof (jdepth_le_len v); lia | exact I].
    destruct (G v); [|reflexivity]. cbn [outcome rbind snd fst]. unfold sk. destruct ws; reflexivity.
  Qed.
End RoundTrip.

(* ---------- sort_keys preserves the side conditions ---------- *)

Lemma forallb_map_snd_norm {A} (q : str * A -> bool) (m : list (str * A)) :
  forallb q m = true -> forallb q (norm_pairs m) = true.
Proof.
  intro H. rewrite forallb_forall in *. intros x Hx. apply H. apply norm_pairs_incl. exact Hx.
Qed.

Lemma jv_wf_sort_keys v : jv_wf v = true -> jv_wf (sort_keys v) = true.
Proof.
  induction v using jv_ind'; intro Hwf; try exact Hwf.
  - rewrite sort_keys_arr. cbn [jv_wf] in *. rewrite forallb_forall in *. intros y Hy.
    apply in_map_iff in Hy as [x [<- Hx]]. rewrite Forall_forall in H. apply H; [exact Hx | apply Hwf; exact Hx].
  - rewrite sort_keys_obj, jv_wf_obj. rewrite jv_wf_obj in Hwf.
    apply forallb_map_snd_norm. unfold map_snd. rewrite forallb_forall in *. intros y Hy.
    apply in_map_iff in Hy as [kx [<- Hx]]. cbn [snd]. rewrite Forall_forall in H. apply H; [exact Hx | apply Hwf; exact Hx].
Qed.

Lemma all_strs_sort_keys P v : all_strs P v = true -> all_strs P (sort_keys v) = true.
Proof.
  induction v using jv_ind'; intro Hs; try exact Hs.
  - rewrite sort_keys_arr. cbn [all_strs] in *. rewrite forallb_forall in *. intros y Hy.
    apply in_map_iff in Hy as [x [<- Hx]]. rewrite Forall_forall in H. apply H; [exact Hx | apply Hs; exact Hx].
  - rewrite sort_keys_obj, all_strs_obj. rewrite all_strs_obj in Hs.
    apply forallb_map_snd_norm. unfold map_snd. rewrite forallb_forall in *. intros y Hy.
    apply in_map_iff in Hy as [kx [<- Hx]]. cbn [fst snd]. specialize (Hs kx Hx).
    apply andb_true_iff in Hs as [Hk Hv]. rewrite Hk. cbn [andb]. rewrite Forall_forall in H. apply H; [exact Hx | exact Hv].
Qed.

(* ---------- the three instances ---------- *)

Lemma all_strs_true v : all_strs (fun _ => true) v = true.
Proof.
  induction v using jv_ind'; try reflexivity.
  - cbn [all_strs]. apply forallb_forall. intros x Hx. rewrite Forall_forall in H. apply H. exact Hx.
  - rewrite all_strs_obj. apply forallb_forall. intros x Hx. rewrite Forall_forall in H. cbn [andb]. apply H. exact Hx.
Qed.

Theorem parse_canon_canon v b : jv_wf v = true -> canon v = Ok b -> parse_canon b = Some (sort_keys v).
Proof.
  intros Hwf Hc. rewrite (canon_genc v b Hc). unfold parse_canon, gparse.
  rewrite (gparse_enc canon_escape pstr_canon false (fun _ => true) (fun _ => true)).
  - rewrite all_strs_true. reflexivity.
  - intros s rest _. apply pstr_canon_escape.
  - apply jv_wf_sort_keys. exact Hwf.
  - apply all_strs_true.
Qed.

(* the standard parser on the canonical form: succeeds exactly when no string of
   the normal form carries a control character *)
Theorem std_parse_canon_res v b : jv_wf v = true -> jv_utf8 v = true -> canon v = Ok b ->
  std_parse_res b = outcome (json_valid_strings (sort_keys v)) (sort_keys v).
Proof.
  intros Hwf Hu Hb. rewrite (canon_genc v b Hb). unfold std_parse_res.
  rewrite (gparse_enc canon_escape pstr_std true no_ctrl utf8_valid).
  - rewrite json_valid_strings_all. reflexivity.
  - intros s rest Hs. apply pstr_std_canon. exact Hs.
  - apply jv_wf_sort_keys. exact Hwf.
  - apply all_strs_sort_keys. exact Hu.
Qed.

Lemma std_parse_of_res s : std_parse s = match std_parse_res s with Ok v => Some v | _ => None end.
Proof. reflexivity. Qed.

(* json.Valid of the canonical form = no control character in the normal form *)
Theorem json_valid_canon v b : jv_wf v = true -> jv_utf8 v = true -> canon v = Ok b ->
  json_valid b = json_valid_strings (sort_keys v).
Proof.
  intros Hwf Hu Hb. unfold json_valid. rewrite std_parse_of_res, (std_parse_canon_res v b Hwf Hu Hb).
  destruct (json_valid_strings (sort_keys v)); reflexivity.
Qed.

Theorem std_parse_encode_std v : jv_wf v = true -> jv_utf8 v = true ->
  std_parse (encode_std_sorted v) = Some (sort_keys v).
Proof.
  intros Hwf Hu. unfold encode_std_sorted. rewrite std_parse_of_res. unfold std_parse_res.
  rewrite (gparse_enc json_escape_std pstr_std true (fun _ => true) utf8_valid).
  - rewrite all_strs_true. reflexivity.
  - intros s rest Hs. apply pstr_std_std. exact Hs.
  - apply jv_wf_sort_keys. exact Hwf.
  - apply all_strs_sort_keys. exact Hu.
Qed.

(* the DSSE payload is a JSON document that parses back to (the normal form of)
   the value that was set *)
Theorem dsse_payload_valid v b : jv_wf v = true -> jv_utf8 v = true ->
  dsse_payload_bytes v = Ok b -> std_parse b = Some (sort_keys v).
Proof.
  intros Hwf Hu H. unfold dsse_payload_bytes in H.
  destruct (canon v) as [c| |] eqn:Ec; try discriminate. cbn [rbind] in H.
  destruct (json_valid c) eqn:Ev; inversion H; subst b.
  - rewrite (json_valid_canon v c Hwf Hu Ec) in Ev.
    rewrite std_parse_of_res, (std_parse_canon_res v c Hwf Hu Ec), Ev. reflexivity.
  - apply std_parse_encode_std; assumption.
Qed.

(* ---------- canon is injective up to the order of members ---------- *)

Theorem canon_injective_nf v1 v2 b : jv_wf v1 = true -> jv_wf v2 = true ->
  canon v1 = Ok b -> canon v2 = Ok b -> sort_keys v1 = sort_keys v2.
Proof.
  intros W1 W2 C1 C2. pose proof (parse_canon_canon v1 b W1 C1) as P1.
  rewrite (parse_canon_canon v2 b W2 C2) in P1. congruence.
Qed.

Lemma jperm_sym a b : jperm a b -> jperm b a.
Proof.
  induction 1 as [v | a b c _ IH1 _ IH2 | m1 m2 Hp | pre x y post _ IH | pre k x y post _ IH].
  - apply jp_refl.
  - eapply jp_trans; eassumption.
  - apply jp_swap. apply Permutation_sym. exact Hp.
  - apply jp_arr_in. exact IH.
  - apply jp_obj_in. exact IH.
Qed.

Lemma jperm_arr_all l1 l2 : Forall2 jperm l1 l2 -> jperm (JArr l1) (JArr l2).
Proof.
  intro H. change l1 with ([] ++ l1). change l2 with ([] ++ l2). generalize (@nil jv) as pre.
  induction H as [|x y l1 l2 Hxy _ IH]; intro pre; [apply jp_refl|].
  eapply jp_trans; [apply jp_arr_in; exact Hxy|].
  specialize (IH (pre ++ [y])). rewrite <- !app_assoc in IH. exact IH.
Qed.

Lemma jperm_obj_all m1 m2 : Forall2 (fun a b => fst a = fst b /\ jperm (snd a) (snd b)) m1 m2 -> jperm (JObj m1) (JObj m2).
Proof.
  intro H. change m1 with ([] ++ m1). change m2 with ([] ++ m2). generalize (@nil (str * jv)) as pre.
  induction H as [|[k x] [k2 y] m1 m2 [Hk Hxy] _ IH]; intro pre; [apply jp_refl|].
  cbn [fst snd] in Hk, Hxy. subst k2.
  eapply jp_trans; [apply jp_obj_in; exact Hxy|].
  specialize (IH (pre ++ [(k, y)])). rewrite <- !app_assoc in IH. exact IH.
Qed.

Lemma jperm_sort_keys_self v : nodup_keys v -> jperm v (sort_keys v).
Proof.
  induction v using jv_ind'; intro Hnd; try apply jp_refl.
  - rewrite sort_keys_arr. apply jperm_arr_all. apply nodup_keys_arr in Hnd.
    induction H as [|x l Hx _ IH]; [constructor|]. inversion Hnd; subst.
    cbn [map]. constructor; [apply Hx; assumption | apply IH; assumption].
  - rewrite sort_keys_obj. apply nodup_keys_obj in Hnd as [Hk Hv].
    eapply jp_trans; [apply (jperm_obj_all m (map_snd sort_keys m))|].
    + clear Hk. induction H as [|kx l Hx _ IH]; [constructor|]. inversion Hv; subst.
      cbn [map_snd map]. constructor; [cbn [fst snd]; split; [reflexivity | apply Hx; assumption] | apply IH; assumption].
    + apply jp_swap. unfold norm_pairs. rewrite dedup_last_id by (rewrite map_snd_keys; exact Hk).
      apply sort_pairs_perm.
Qed.

Theorem canon_injective v1 v2 b : jv_wf v1 = true -> jv_wf v2 = true -> nodup_keys v1 -> nodup_keys v2 ->
  canon v1 = Ok b -> canon v2 = Ok b -> jperm v1 v2.
Proof.
  intros W1 W2 N1 N2 C1 C2.
  pose proof (canon_injective_nf v1 v2 b W1 W2 C1 C2) as E.
  eapply jp_trans; [apply jperm_sort_keys_self; exact N1|].
  rewrite E. apply jperm_sym. apply jperm_sort_keys_self. exact N2.
Qed.

Theorem dsse_payload_equiv v b : jv_wf v = true -> jv_utf8 v = true -> nodup_keys v ->
  dsse_payload_bytes v = Ok b -> exists v', std_parse b = Some v' /\ jperm v v'.
Proof.
  intros Hwf Hu Hnd H. exists (sort_keys v). split; [apply dsse_payload_valid; assumption | apply jperm_sort_keys_self; exact Hnd].
Qed.
