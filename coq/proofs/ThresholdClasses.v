(* ThresholdClasses.v — the classes of links that never count (C02), distinctness
   of the verifying keys, and the zero-link case. *)
From IT Require Import spec.ThresholdSpec proofs.ThresholdMaps proofs.ThresholdProofs proofs.ThresholdLoad.

Section Classes.
  Variable vsig : env -> key -> bool.
  Variable get_cert : signature -> option key.
  Variable cc_ok : step -> key -> bool.

  Notation verified_links := (verified_links vsig get_cert cc_ok).
  Notation verify_step_thresholds := (verify_step_thresholds vsig get_cert cc_ok).
  Notation authorised := (authorised vsig get_cert cc_ok).
  Notation verified_under := (verified_under vsig get_cert cc_ok).

  (* no key verifies the link (unsigned, altered after signing, garbage signature) *)
  Lemma invalid_never_counts l st links kid e :
    map_wf links -> (forall k, vsig e k = false) -> ~ In (kid, e) (verified_links l st links).
  Proof.
    intros Hwf Hv Hin. apply counted_entry_iff in Hin as [_ Ha]; [|assumption].
    destruct Ha as [[_ [k [_ H]]] | [sg [c [_ [_ [_ [_ [_ H]]]]]]]]; rewrite Hv in H; discriminate.
  Qed.

  (* the key id is not authorised for THIS step (not listed, or listed but not
     defined by the layout) and no certificate of the link satisfies the step's constraints *)
  Lemma unauthorised_never_counts l st links kid e :
    map_wf links ->
    (~ In kid (s_pubkeys st) \/ alookup (l_keys l) kid = None) ->
    (forall sg c, sig_for_keyid (env_sigs e) kid = Some sg -> get_cert sg = Some c -> cc_ok st c = false) ->
    ~ In (kid, e) (verified_links l st links).
  Proof.
    intros Hwf Hk Hc Hin. apply counted_entry_iff in Hin as [_ Ha]; [|assumption].
    destruct Ha as [[H1 [k [H2 _]]] | [sg [c [H1 [_ [H3 [_ [H5 _]]]]]]]].
    - destruct Hk as [Hk|Hk]; [contradiction | congruence].
    - rewrite (Hc _ _ H1 H3) in H5. discriminate.
  Qed.

  (* forged key id: the claimed id is not the id of the certificate's key *)
  Lemma forged_id_never_counts l st links kid e :
    map_wf links ->
    (~ In kid (s_pubkeys st) \/ alookup (l_keys l) kid = None) ->
    (forall sg c, sig_for_keyid (env_sigs e) kid = Some sg -> get_cert sg = Some c -> k_keyid c <> kid) ->
    ~ In (kid, e) (verified_links l st links).
  Proof.
    intros Hwf Hk Hc Hin. apply counted_entry_iff in Hin as [_ Ha]; [|assumption].
    destruct Ha as [[H1 [k [H2 _]]] | [sg [c [H1 [_ [H3 [H4 _]]]]]]].
    - destruct Hk as [Hk|Hk]; [contradiction | congruence].
    - exact (Hc _ _ H1 H3 H4).
  Qed.

  (* a functionary id is counted at most once *)
  Lemma duplicate_never_counts l st links kid e e' :
    map_wf links ->
    In (kid, e) (verified_links l st links) -> In (kid, e') (verified_links l st links) -> e = e'.
  Proof.
    intros Hwf H1 H2.
    pose proof (nodup_keys_inj _ _ _ (verified_keys_nodup vsig get_cert cc_ok l st links Hwf) H1 H2 eq_refl) as H.
    inversion H. reflexivity.
  Qed.

  Lemma count_is_number_of_ids l st links :
    map_wf links ->
    NoDup (akeys (verified_links l st links)) /\
    length (verified_links l st links) = length (akeys (verified_links l st links)).
  Proof.
    intro Hwf. split; [apply verified_keys_nodup; assumption|]. unfold akeys. rewrite map_length. reflexivity.
  Qed.

  (* DSSE links can only be counted through the key route *)
  Lemma dsse_sig_for_keyid_no_cert e kid sg :
    e_wrapper e = DSSE -> sig_for_keyid (env_sigs e) kid = Some sg -> sg_cert sg = [].
  Proof.
    unfold env_sigs. intros -> H. induction (e_sigs e) as [|s r IH]; simpl in H; [discriminate|].
    destruct (str_eqb (sg_keyid s) kid); [inversion H; reflexivity | auto].
  Qed.

  Lemma dsse_key_route_only l st links kid e :
    map_wf links -> e_wrapper e = DSSE -> In (kid, e) (verified_links l st links) ->
    authorised_key vsig l st kid e.
  Proof.
    intros Hwf Hd Hin. apply counted_entry_iff in Hin as [_ [Ha | [sg [c [H1 [H2 _]]]]]]; [assumption | | assumption].
    exfalso. apply H2. eapply dsse_sig_for_keyid_no_cert; eassumption.
  Qed.

  (* all classes together *)
  Lemma unauthorised_classes l st links :
    map_wf links ->
    let v := verified_links l st links in
    (forall kid e, (forall k, vsig e k = false) -> ~ In (kid, e) v) /\
    (forall kid e, (~ In kid (s_pubkeys st) \/ alookup (l_keys l) kid = None) ->
        (forall sg c, sig_for_keyid (env_sigs e) kid = Some sg -> get_cert sg = Some c -> cc_ok st c = false) ->
        ~ In (kid, e) v) /\
    (forall kid e, (~ In kid (s_pubkeys st) \/ alookup (l_keys l) kid = None) ->
        (forall sg c, sig_for_keyid (env_sigs e) kid = Some sg -> get_cert sg = Some c -> k_keyid c <> kid) ->
        ~ In (kid, e) v) /\
    (forall kid e e', In (kid, e) v -> In (kid, e') v -> e = e') /\
    NoDup (akeys v) /\
    (forall kid e, ~ In (kid, e) links -> ~ In (kid, e) v).
  Proof.
    intros Hwf v. subst v. repeat split.
    - intros. apply invalid_never_counts; assumption.
    - intros. apply unauthorised_never_counts; assumption.
    - intros. apply forged_id_never_counts; assumption.
    - intros. eapply duplicate_never_counts; eassumption.
    - apply verified_keys_nodup; assumption.
    - intros kid e Hn Hin. apply counted_entry_iff in Hin as [Hin _]; [contradiction | assumption].
  Qed.

  (* distinct entries of the verified map were verified under keys with distinct ids *)
  Lemma distinct_verifying_keys l st links p q :
    map_wf links -> layout_keys_consistent l ->
    In p (verified_links l st links) -> In q (verified_links l st links) -> p <> q ->
    exists kp kq,
      verified_under l st (fst p) (snd p) kp /\ verified_under l st (fst q) (snd q) kq /\
      k_keyid kp = fst p /\ k_keyid kq = fst q /\ k_keyid kp <> k_keyid kq.
  Proof.
    intros Hwf Hc Hp Hq Hne.
    pose proof (verified_keys_nodup vsig get_cert cc_ok l st links Hwf) as Hnd.
    assert (Hk : fst p <> fst q).
    { intro Heq. apply Hne. eapply nodup_keys_inj; eassumption. }
    destruct p as [kp ep], q as [kq eq]. simpl in *.
    apply counted_entry_iff in Hp as [_ Hp]; [|assumption].
    apply counted_entry_iff in Hq as [_ Hq]; [|assumption].
    destruct (counted_verified_under vsig get_cert cc_ok _ _ _ _ Hc Hp) as [k1 [H1 H1']].
    destruct (counted_verified_under vsig get_cert cc_ok _ _ _ _ Hc Hq) as [k2 [H2 H2']].
    exists k1, k2. repeat split; try assumption. congruence.
  Qed.

  (* zero links *)
  Lemma no_links_fails l st : verify_step_thresholds l st [] = Err err_threshold.
  Proof.
    unfold Threshold.verify_step_thresholds. simpl.
    rewrite orb_true_r. reflexivity.
  Qed.

  Lemma ok_needs_a_link l st links v :
    verify_step_thresholds l st links = Ok v -> v <> [] /\ links <> [].
  Proof.
    intro H. split.
    - apply verify_step_ok in H as [_ [_ Hlen]]. destruct v; [simpl in Hlen; lia | discriminate].
    - intro Hl. subst links. rewrite no_links_fails in H. discriminate.
  Qed.
End Classes.
