(* NoPanicInst.v — the generic theorem of proofs/NoPanicPipeline.v instantiated for
   model/PipelineInst.v, the pipeline with every component model plugged in:
   SubstituteParameters (model/Subst.v), LoadLinksForLayout and VerifyLinkSignatureThesholds
   (model/Threshold.v), VerifyArtifacts with the glob (model/Rules.v, model/Glob.v), the expiry
   parser (model/Expiry.v) and the table-driven inspection runner.  The crypto truth tables, the
   certificate tables and the command catalogue are universally quantified. *)
From IT Require Import model.PipelineInst.
From IT Require Import proofs.NoPanicPipeline proofs.NoPanicEntries proofs.ThresholdProofs proofs.RulesCorollaries.

Lemma run_insp_tbl_no_panic cmds dsse w i p : run_insp_tbl cmds dsse w i <> Panic p.
Proof.
  unfold run_insp_tbl. destruct (negb (world_recordable w)); [discriminate|].
  destruct (i_run i) as [|c r]; [discriminate|].
  destruct (cmd_lookup cmds (c :: r)) as [[| n h | rv |]|]; discriminate.
Qed.

Theorem verify_inst_no_panic now truths tc tcc pems cmds fuel w path d layout_env keys step_name params inter :
  is_panic (fst (fst (verify_inst now truths tc tcc pems cmds fuel w path d layout_env keys step_name params inter))) = false.
Proof.
  unfold verify_inst. apply verify_no_panic.
  - exact substitute_no_panic.
  - exact load_all_no_panic.
  - intros l i m p. apply verify_thresholds_no_panic.
  - intros it m p. apply verify_artifacts_no_panic.
  - intros b w0 i p. apply run_insp_tbl_no_panic.
  - intros l i m v H. exact (verify_thresholds_no_empty _ _ _ l m v H).
Qed.

(* the observable the end-to-end correspondence harness (harness/e2e) compares with InTotoVerify
   never is the PANIC line *)
Theorem e2e_run_never_panics now truths tc tcc pems cmds prefix files d layout_env keys step_name params :
  has_prefix (e2e_run now truths tc tcc pems cmds prefix files d layout_env keys step_name params) (bs "PANIC") = false.
Proof.
  unfold e2e_run.
  pose proof (verify_inst_no_panic now truths tc tcc pems cmds 8 (mkWorld prefix files) [] d layout_env keys step_name params []) as H.
  destruct (verify_inst now truths tc tcc pems cmds 8 (mkWorld prefix files) [] d layout_env keys step_name params []) as [[x w'] tr].
  destruct x as [s|c|p]; [reflexivity | reflexivity | discriminate H].
Qed.
