(* LoaderLemmas.v — named versions of the inner loops of model/Loader.v with
   their unfolding equations, induction principles for the nested types, and
   elementary facts about association lists. *)
From IT Require Import spec.LoaderSpec gen.Consts.

(* ---------- induction principles ---------- *)

Lemma jv_ind' (P : jv -> Prop) :
  P JNull -> (forall b, P (JBool b)) -> (forall z, P (JNum z)) -> (forall l, P (JFloat l)) ->
  (forall s, P (JStr s)) ->
  (forall l, Forall P l -> P (JArr l)) ->
  (forall m, Forall (fun p => P (snd p)) m -> P (JObj m)) ->
  forall j, P j.
Proof.
  intros Hn Hb Hz Hf Hs Ha Ho.
  fix IH 1. intros [ |b|z|l|s|l|m].
  - exact Hn.
  - apply Hb.
  - apply Hz.
  - apply Hf.
  - apply Hs.
  - apply Ha. induction l as [|x l IHl]; constructor; [apply IH | exact IHl].
  - apply Ho. induction m as [|[k x] m IHm]; constructor; [apply IH | exact IHm].
Qed.

Lemma shape_ind' (P : shape -> Prop) :
  P SStr -> P SInt -> P SAny ->
  (forall e, P e -> P (SSlice e)) -> (forall e, P e -> P (SMap e)) ->
  (forall fs, Forall (fun f => P (f_shape f)) fs -> P (SStruct fs)) ->
  forall s, P s.
Proof.
  intros H1 H2 H3 Hs Hm Hf.
  fix IH 1. intros [ | | |e|e|fs].
  - exact H1.
  - exact H2.
  - exact H3.
  - apply Hs, IH.
  - apply Hm, IH.
  - apply Hf. induction fs as [|[[n o] s] fs IHfs]; constructor; [apply IH | exact IHfs].
Qed.

(* ---------- the inner loops, by name ---------- *)

Fixpoint zero_fields (fs : list (str * bool * shape)) : list (str * gv) :=
  match fs with
  | [] => []
  | (n, _, s) :: fs' => (n, gzero s) :: zero_fields fs'
  end.

Lemma gzero_struct fs : gzero (SStruct fs) = GStruct (zero_fields fs).
Proof. reflexivity. Qed.

Definition backing (old : gv) : list gv := match old with GSlice l0 st => l0 ++ st | _ => [] end.
Definition map_of (old : gv) : list (str * gv) := match old with GMap m0 => m0 | _ => [] end.
Definition struct_of (fs : list (str * bool * shape)) (old : gv) : list (str * gv) :=
  match old with GStruct c => c | _ => zero_fields fs end.

Section Loops.
  Variable strict : bool.

  Section Elems.
    Variable e : shape.
    Fixpoint decode_elems (l : list jv) (bk : list gv) : res (list gv * list gv) :=
      match l with
      | [] => Ok ([], bk)
      | x :: l' =>
          do v <- decode strict e (hd (gzero e) bk) x;
          do r <- decode_elems l' (tl bk);
          Ok (v :: fst r, snd r)
      end.
    Fixpoint decode_entries (m : list (str * jv)) (cur : list (str * gv)) : res (list (str * gv)) :=
      match m with
      | [] => Ok cur
      | (k, x) :: m' =>
          do v <- decode strict e (gzero e) x;
          decode_entries m' (ainsert cur k v)
      end.
  End Elems.

  Section Members.
    Variable fs : list (str * bool * shape).
    Fixpoint decode_members (m : list (str * jv)) (cur : list (str * gv)) : res (list (str * gv)) :=
      match m with
      | [] => Ok cur
      | (k, x) :: m' =>
          match find_field fs k with
          | Some f =>
              do v <- decode strict (f_shape f)
                        (match alookup cur (f_name f) with Some o => o | None => gzero (f_shape f) end) x;
              decode_members m' (aset cur (f_name f) v)
          | None => if strict then Err e_decode else decode_members m' cur
          end
      end.
  End Members.
End Loops.

Definition lift_slice (r : res (list gv * list gv)) : res gv :=
  match r with Ok r => Ok (GSlice (fst r) (snd r)) | Err c => Err c | Panic s => Panic s end.
Definition lift_map (r : res (list (str * gv))) : res gv :=
  match r with Ok r => Ok (GMap r) | Err c => Err c | Panic s => Panic s end.
Definition lift_struct (r : res (list (str * gv))) : res gv :=
  match r with Ok r => Ok (GStruct r) | Err c => Err c | Panic s => Panic s end.

Lemma decode_slice_eq strict e old l :
  decode strict (SSlice e) old (JArr l) =
  match l with
  | [] => Ok (GSlice [] [])
  | _ => lift_slice (decode_elems strict e l (backing old))
  end.
Proof. destruct l; reflexivity. Qed.

Lemma decode_map_eq strict e old m :
  decode strict (SMap e) old (JObj m) = lift_map (decode_entries strict e m (map_of old)).
Proof. reflexivity. Qed.

Lemma decode_struct_eq strict fs old m :
  decode strict (SStruct fs) old (JObj m) = lift_struct (decode_members strict fs m (struct_of fs old)).
Proof. destruct old; reflexivity. Qed.

Section EncFields.
  Variable vs : list (str * gv).
  Fixpoint encode_fields (fs : list (str * bool * shape)) : list (str * jv) :=
    match fs with
    | [] => []
    | (n, omit, s) :: fs' =>
        let x := field_val vs n s in
        if omit && is_empty_val x then encode_fields fs' else (n, encode s x) :: encode_fields fs'
    end.
  Fixpoint norm_fields (fs : list (str * bool * shape)) : list (str * gv) :=
    match fs with
    | [] => []
    | (n, omit, s) :: fs' =>
        let x := field_val vs n s in
        (n, if omit && is_empty_val x then gzero s else norm s x) :: norm_fields fs'
    end.
End EncFields.

Lemma encode_struct_eq fs vs : encode (SStruct fs) (GStruct vs) = JObj (encode_fields vs fs).
Proof. reflexivity. Qed.

Lemma norm_struct_eq fs vs : norm (SStruct fs) (GStruct vs) = GStruct (norm_fields vs fs).
Proof. reflexivity. Qed.

Fixpoint wf_fields (fs : list (str * bool * shape)) (vs : list (str * gv)) : Prop :=
  match fs, vs with
  | [], [] => True
  | (n, _, s) :: fs', (n', x) :: vs' => n = n' /\ wf s x /\ wf_fields fs' vs'
  | _, _ => False
  end.

Lemma wf_struct_eq fs v : wf (SStruct fs) v <-> exists vs, v = GStruct vs /\ wf_fields fs vs.
Proof. reflexivity. Qed.

Fixpoint shapes_okb (fs : list (str * bool * shape)) : bool :=
  match fs with [] => true | (_, _, s) :: fs' => shape_okb s && shapes_okb fs' end.

Lemma shape_okb_struct fs : shape_okb (SStruct fs) = nodupb (map f_name fs) && shapes_okb fs.
Proof. reflexivity. Qed.

(* ---------- association lists ---------- *)

Lemma nodupb_NoDup l : nodupb l = true <-> NoDup l.
Proof.
  induction l as [|x l IH]; simpl.
  - split; [constructor | reflexivity].
  - rewrite andb_true_iff, negb_true_iff, IH. split.
    + intros [H1 H2]. constructor; [|assumption]. intro Hi. apply mem_In in Hi. congruence.
    + intro H. inversion H as [|? ? Hn Hd]. subst. split; [|assumption].
      destruct (mem x l) eqn:E; [apply mem_In in E; contradiction | reflexivity].
Qed.

Lemma alookup_in {V} (m : list (str * V)) k v : alookup m k = Some v -> In (k, v) m.
Proof.
  induction m as [|[k' v'] m IH]; simpl; [discriminate|].
  destruct (str_eqb k k') eqn:E.
  - apply str_eqb_eq in E. intro H. inversion H. subst. left. reflexivity.
  - intro H. right. apply IH. assumption.
Qed.

Lemma in_alookup {V} (m : list (str * V)) k v :
  NoDup (map fst m) -> In (k, v) m -> alookup m k = Some v.
Proof.
  induction m as [|[k' v'] m IH]; simpl; intros ND Hi; [contradiction|].
  inversion ND as [|? ? Hn ND']. subst.
  destruct Hi as [Hi|Hi].
  - inversion Hi. subst. rewrite str_eqb_refl. reflexivity.
  - destruct (str_eqb k k') eqn:E.
    + apply str_eqb_eq in E. subst. exfalso. apply Hn. apply (in_map fst) in Hi. assumption.
    + apply IH; assumption.
Qed.

Lemma alookup_none {V} (m : list (str * V)) k : alookup m k = None <-> ~ In k (map fst m).
Proof.
  induction m as [|[k' v'] m IH]; simpl.
  - split; [intros _ [] | reflexivity].
  - destruct (str_eqb k k') eqn:E.
    + apply str_eqb_eq in E. subst. split; [discriminate | intro H; exfalso; apply H; left; reflexivity].
    + apply str_eqb_neq in E. rewrite IH. split.
      * intros H [Hi|Hi]; [congruence | contradiction].
      * intros H Hi. apply H. right. assumption.
Qed.

Lemma aset_keys {V} (m : list (str * V)) k v : map fst (aset m k v) = map fst m.
Proof.
  induction m as [|[k' v'] m IH]; simpl; [reflexivity|].
  destruct (str_eqb k k') eqn:E; simpl; [reflexivity | rewrite IH; reflexivity].
Qed.

Lemma alookup_aset_same {V} (m : list (str * V)) k v :
  In k (map fst m) -> alookup (aset m k v) k = Some v.
Proof.
  induction m as [|[k' v'] m IH]; simpl; [intros []|].
  intros Hi. destruct (str_eqb k k') eqn:E; simpl.
  - rewrite E. reflexivity.
  - rewrite E. apply IH. destruct Hi as [Hi|Hi]; [apply str_eqb_neq in E; congruence | assumption].
Qed.

Lemma alookup_aset_other {V} (m : list (str * V)) k k2 v :
  k2 <> k -> alookup (aset m k v) k2 = alookup m k2.
Proof.
  intro Hne. induction m as [|[k' v'] m IH]; simpl; [reflexivity|].
  destruct (str_eqb k k') eqn:E; simpl.
  - apply str_eqb_eq in E. subst.
    destruct (str_eqb k2 k') eqn:E2; [apply str_eqb_eq in E2; contradiction | reflexivity].
  - destruct (str_eqb k2 k'); [reflexivity | apply IH].
Qed.

Lemma ainsert_fresh {V} (m : list (str * V)) k v :
  ~ In k (map fst m) -> ainsert m k v = m ++ [(k, v)].
Proof.
  induction m as [|[k' v'] m IH]; simpl; intro H; [reflexivity|].
  destruct (str_eqb k k') eqn:E.
  - apply str_eqb_eq in E. subst. exfalso. apply H. left. reflexivity.
  - rewrite IH; [reflexivity|]. intro Hi. apply H. right. assumption.
Qed.

(* obj_last on objects without duplicate keys *)
Lemma obj_last_in m k v : obj_last m k = Some v -> In (k, v) m.
Proof.
  induction m as [|[k' v'] m IH]; simpl; [discriminate|].
  destruct (obj_last m k) eqn:E.
  - intro H. inversion H. subst. right. apply IH. reflexivity.
  - destruct (str_eqb k k') eqn:E2; [|discriminate].
    apply str_eqb_eq in E2. intro H. inversion H. subst. left. reflexivity.
Qed.

Lemma obj_last_none m k : obj_last m k = None <-> ~ In k (map fst m).
Proof.
  induction m as [|[k' v'] m IH]; simpl.
  - split; [intros _ [] | reflexivity].
  - destruct (obj_last m k) eqn:E.
    + split; [discriminate|]. intro H. exfalso. apply H. right.
      apply obj_last_in in E. apply (in_map fst) in E. assumption.
    + destruct (str_eqb k k') eqn:E2.
      * apply str_eqb_eq in E2. subst. split; [discriminate | intro H; exfalso; apply H; left; reflexivity].
      * apply str_eqb_neq in E2. split; [|reflexivity]. intros _ [Hi|Hi]; [congruence|].
        apply IH in Hi; [assumption | reflexivity].
Qed.

Lemma in_obj_last m k v : NoDup (map fst m) -> In (k, v) m -> obj_last m k = Some v.
Proof.
  induction m as [|[k' v'] m IH]; simpl; intros ND Hi; [contradiction|].
  inversion ND as [|? ? Hn ND']. subst.
  destruct Hi as [Hi|Hi].
  - inversion Hi. subst. apply obj_last_none in Hn. rewrite Hn, str_eqb_refl. reflexivity.
  - rewrite (IH ND' Hi). reflexivity.
Qed.
