(* RulesCorollaries.v — facts about the model of VerifyArtifacts that hold for all
   inputs (no well-formedness needed): order, single consumption, DISALLOW, REQUIRE,
   malformed rules. *)
From IT Require Import model.Rules spec.RulesSpec proofs.CleanProofs proofs.RulesBasics proofs.RulesGrammar proofs.RulesProofs.

Arguments str_eqb : simpl never.
Arguments bs : simpl never.

Section Cor.
Variable gm : str -> str -> bool.
Variable meta : amap link.
Variable arts : artifacts.
Variables cl dl ml : list str.

Local Notation apply_rule := (apply_rule gm meta arts cl dl ml).
Local Notation verify_rules := (verify_rules gm meta arts cl dl ml).

(* rules see exactly the queue left by their predecessors *)
Lemma verify_rules_app rs1 rs2 q :
  verify_rules (rs1 ++ rs2) q = rbind (verify_rules rs1 q) (verify_rules rs2).
Proof.
  revert q; induction rs1 as [|r rs1 IH]; intro q; [reflexivity|].
  cbn [app Rules.verify_rules]. destruct (apply_rule r q) as [q1|c|s]; cbn [rbind]; [apply IH | reflexivity ..].
Qed.

(* a rule only removes artifacts from the queue *)
Lemma apply_rule_incl r q q' : apply_rule r q = Ok q' -> incl q' q /\ (NoDup q -> NoDup q').
Proof.
  unfold Rules.apply_rule. destruct (unpack_rule r) as [rd|c|s]; cbn [rbind]; try discriminate.
  match goal with |- rbind ?x _ = _ -> _ => destruct x as [consumed|c|s] end; cbn [rbind]; try discriminate.
  intro H. inversion H; subst. split; [apply sdiff_incl | apply NoDup_sdiff].
Qed.

Lemma verify_rules_incl rs q q' : verify_rules rs q = Ok q' -> incl q' q /\ (NoDup q -> NoDup q').
Proof.
  revert q; induction rs as [|r rs IH]; intros q H.
  - inversion H; subst. split; [apply incl_refl | auto].
  - cbn [Rules.verify_rules] in H. destruct (apply_rule r q) as [q1|c|s] eqn:E; cbn [rbind] in H; try discriminate.
    apply apply_rule_incl in E as (E1 & E2). apply IH in H as (H1 & H2).
    split; [eapply incl_tran; eassumption | auto].
Qed.

(* an artifact consumed by a rule is invisible to all later rules *)
Lemma consumed_never_returns r q q1 a rs q2 :
  apply_rule r q = Ok q1 -> In a q -> ~ In a q1 -> verify_rules rs q1 = Ok q2 -> ~ In a q2.
Proof.
  intros _ _ Hn H Hin. apply verify_rules_incl in H as (H & _). apply Hn, H, Hin.
Qed.

(* never a panic *)
Lemma apply_rule_no_panic r q s : apply_rule r q <> Panic s.
Proof.
  unfold Rules.apply_rule. destruct (unpack_rule_total r) as [(d & Hd)|Hd]; rewrite Hd; cbn [rbind]; [|discriminate].
  repeat match goal with
         | |- context [if ?c then _ else _] => destruct c
         end; cbn [rbind]; discriminate.
Qed.

Lemma verify_rules_no_panic rs q s : verify_rules rs q <> Panic s.
Proof.
  revert q; induction rs as [|r rs IH]; intro q; [discriminate|].
  cbn [Rules.verify_rules]. pose proof (apply_rule_no_panic r q) as Hp.
  destruct (apply_rule r q) as [q1|c|s']; cbn [rbind]; [apply IH | discriminate | intro E; inversion E; subst; eapply Hp; reflexivity].
Qed.

Lemma filter_nonnil_existsb (f : str -> bool) q : negb (is_nil (filter f q)) = existsb f q.
Proof. induction q as [|x q IH]; [reflexivity|]. simpl. destruct (f x); [reflexivity | exact IH]. Qed.

(* DISALLOW: fails exactly when a queued artifact matches the (cleaned) pattern;
   otherwise the queue is unchanged *)
Lemma disallow_eq k p q : ci k "disallow" ->
  apply_rule [k; p] q = if existsb (gm (go_clean p)) q then Err err_disallow else Ok q.
Proof.
  intro Hk. assert (Hs : rule_shape [k; p] (SDisallow p)) by (constructor; exact Hk).
  rewrite (apply_rule_step gm meta arts cl dl ml _ _ q (unpack_rule_complete _ _ Hs)). cbn [step_of].
  unfold queue_filter. rewrite sdiff_nil, filter_nonnil_existsb. reflexivity.
Qed.

(* REQUIRE: fails exactly when the literal file name is not queued (no pattern
   matching, no path cleaning); otherwise the queue is unchanged *)
Lemma require_eq k f q : ci k "require" ->
  apply_rule [k; f] q = if mem f q then Ok q else Err err_require.
Proof.
  intro Hk. assert (Hs : rule_shape [k; f] (SRequire f)) by (constructor; exact Hk).
  rewrite (apply_rule_step gm meta arts cl dl ml _ _ q (unpack_rule_complete _ _ Hs)). cbn [step_of].
  rewrite sdiff_nil. destruct (mem f q); reflexivity.
Qed.

Lemma disallow_after rs k p q q' : ci k "disallow" ->
  verify_rules (rs ++ [[k; p]]) q = Ok q' <->
  verify_rules rs q = Ok q' /\ forall a, In a q' -> gm (go_clean p) a = false.
Proof.
  intro Hk. rewrite verify_rules_app.
  destruct (verify_rules rs q) as [q1|c|s]; cbn [rbind Rules.verify_rules].
  - rewrite (disallow_eq _ _ _ Hk).
    destruct (existsb (gm (go_clean p)) q1) eqn:E; cbn [rbind].
    + split; [discriminate|]. intros (H & Hall). inversion H; subst.
      apply existsb_exists in E as (a & Ha & Hg). rewrite (Hall a Ha) in Hg. discriminate.
    + split.
      * intro H. inversion H; subst. split; [reflexivity|]. intros a Ha.
        destruct (gm (go_clean p) a) eqn:Hg; [|reflexivity].
        assert (existsb (gm (go_clean p)) q' = true) by (apply existsb_exists; eauto). congruence.
      * intros (H & _). exact H.
  - split; [discriminate | intros (H & _); discriminate].
  - split; [discriminate | intros (H & _); discriminate].
Qed.

(* a rule that has none of the ten shapes makes the whole list fail *)
Lemma verify_rules_malformed rs r q :
  In r rs -> (forall sr, ~ rule_shape r sr) -> exists c, verify_rules rs q = Err c.
Proof.
  intros Hin Hbad. revert q. induction rs as [|r0 rs IH]; intro q; [contradiction|].
  cbn [Rules.verify_rules]. destruct Hin as [->|Hin].
  - unfold Rules.apply_rule. rewrite (unpack_rule_err _ Hbad). cbn [rbind]. eauto.
  - pose proof (apply_rule_no_panic r0 q) as Hp.
    destruct (apply_rule r0 q) as [q1|c|s]; cbn [rbind]; [apply IH, Hin | eauto | exfalso; eapply Hp; reflexivity].
Qed.

End Cor.

Lemma rbind_no_panic {A B} (x : res A) (f : A -> res B) :
  (forall s, x <> Panic s) -> (forall a s, f a <> Panic s) -> forall s, rbind x f <> Panic s.
Proof.
  intros Hx Hf s. destruct x as [a|c|s']; cbn [rbind]; [apply Hf | discriminate |].
  exfalso. eapply Hx. reflexivity.
Qed.

Lemma rbind_err_l {A B} (x : res A) (f : A -> res B) :
  (exists c, x = Err c) -> exists c, rbind x f = Err c.
Proof. intros (c & ->). exists c. reflexivity. Qed.

Lemma rbind_err_r {A B} (x : res A) (f : A -> res B) :
  (forall s, x <> Panic s) -> (forall a, exists c, f a = Err c) -> exists c, rbind x f = Err c.
Proof.
  intros Hx Hf. destruct x as [a|c|s]; cbn [rbind]; [apply Hf | eauto |]. exfalso. eapply Hx. reflexivity.
Qed.

Lemma verify_item_no_panic gm meta it s : verify_item gm meta it <> Panic s.
Proof.
  destruct it as [[n em] ep]. unfold verify_item. destruct (alookup meta n) as [l|]; [|discriminate].
  cbv zeta. apply rbind_no_panic; [intro; apply verify_rules_no_panic|].
  intros _ s'. apply rbind_no_panic; [intro; apply verify_rules_no_panic | discriminate].
Qed.

Lemma verify_artifacts_no_panic gm items meta s : verify_artifacts gm items meta <> Panic s.
Proof.
  revert s. induction items as [|it items IH]; [discriminate|]. cbn [verify_artifacts].
  apply rbind_no_panic; [intro; apply verify_item_no_panic | intros _; exact IH].
Qed.

(* ... and therefore the whole verification: never silently ignored *)
Lemma malformed_rule_rejected gm items meta n em ep r :
  In (n, em, ep) items -> In r em \/ In r ep -> (forall sr, ~ rule_shape r sr) ->
  exists c, verify_artifacts gm items meta = Err c.
Proof.
  intros Hin Hr Hbad. induction items as [|it items IH]; [contradiction|].
  cbn [verify_artifacts]. destruct Hin as [->|Hin].
  - clear IH. apply rbind_err_l. unfold verify_item. destruct (alookup meta n) as [l|]; [|eauto]. cbv zeta.
    destruct Hr as [Hr|Hr].
    + apply rbind_err_l. eapply verify_rules_malformed; eassumption.
    + apply rbind_err_r; [intro; apply verify_rules_no_panic|]. intros _.
      apply rbind_err_l. eapply verify_rules_malformed; eassumption.
  - apply rbind_err_r; [intro; apply verify_item_no_panic|]. intros _. apply IH, Hin.
Qed.
